"""C09 — Caching never changes what a pipeline returns.

Oracle of the property itself: a pipeline with a cache and an identical twin without one are driven through the same
history (calls with any output / argument cut / `full_output`, interleaved `update_defaults`, `update_bound`, `replace`);
every call that succeeds on the twin must return the equal value on the cached pipeline.  The Lean model
(`PF.PipeCache.histC`, lean/PfModel/Model/PipeCache.lean) is driven through the same history and predicts values, call
logs, cache hits and the resident keys; `Pipeline.map` runs with repeated input values are compared with an uncached
twin and with the model's replay of the element calls through the shared cache.
"""
from __future__ import annotations

import contextlib
import copy
import io
import itertools
import shutil
import tempfile
from concurrent.futures import ThreadPoolExecutor

import pfimport  # noqa: F401
from pfimport import exc_enum
from pipefunc import PipeFunc, Pipeline

import c09_deep
import c09_ext
import c09_mapseq
import c09_race
import c09_values
import framework
import mapgen
import pipegen
import terms

PID = "C09"
PROPS = ["PfModel.Props.C09", "PfModel.Props.C09Outcome", "PfModel.Props.C09Fail", "PfModel.Props.C09Policies", "PfModel.Props.C09Keys",
         "PfModel.Props.C09MapHist", "PfModel.Props.C09Stable", "PfModel.Props.C09Stages"]
DRIVER = "C09"
RULE = ("random DAGs of 1-4 term-building functions (tuple outputs, shared roots, defaults, bound values, renames) x EVERY subset of "
        "cached functions x {simple, lru, hybrid, disk} x histories of 2-6 steps: calls (random output, random listed argument "
        "combination incl. supplied intermediates, values from a 2-value domain, defaulted roots left out, full_output, repeats of "
        "earlier calls, calls that FAIL in the middle of the evaluation after some frames have stored their results) and mutations "
        "(update_defaults, update_bound, replace); an exhaustive family on a 2-function chain and one on a chain whose second "
        "function lacks an argument (failing calls); LRUCache(max_size=1..2) histories are modelled with eviction; map runs "
        "with repeated input values (sequential twice, thread pool with a shared cache).  After a mutation an earlier call is mostly "
        "issued again, half of the time relying on the defaults as they are then; an exhaustive family 'call, update_defaults, related "
        "call, first call again' on a chain whose second function is downstream of the owner of a defaulted parameter.  In 40 % of the "
        "random histories and map cases the argument values have REPRESENTATION FREEDOM (harness/c09_values.py): dicts / defaultdicts / "
        "Counters / sets built in another insertion order, nested containers, separately built lists, tuples and arrays, keywords passed "
        "in another order - every occurrence of a value is built in a way of its own, the model gets the abstract value.  MAP SESSIONS "
        "(harness/c09_mapseq.py): 2-4 successive maps on ONE cached pipeline object and its twin, every pipeline having a mapped function that takes a "
        "WHOLE upstream mapspec array as a non-indexed parameter (hand families + rejection-sampled mapgen cases), inputs equal / changed in values "
        "with equal length (all elements or one) / changed in length, storage dict | file_array | shared_memory_dict, run_folder reused | fresh | none, "
        "every cache type (lru/hybrid also shared, disk also without its LRU front), sequential and thread pool; the model (runRuns, entry map.hist) "
        "says which element calls of which run execute.  SUPPLIED INTERMEDIATES AT ANY DISTANCE (harness/c09_deep.py): an exhaustive family on spines "
        "x->a->b->c / x->a->b->c->d whose last (and middle) function takes the root too - every non-empty cached subset x all four cache types x every pair "
        "(thorough: triple) of calls over (root value) x (set of supplied intermediates, 1-3 hops above the cached function) x full_output with at least one "
        "plain call and one with an intermediate; random DAGs with a spine of 3-5 functions sharing roots along the spine, whose histories repeat an earlier "
        "call with the SAME root values and one more / fewer supplied intermediates (operator toggle_intermediate, also used with p=0.12 in the ordinary "
        "random histories and with p=0.4 in the neighbourhood search after a disagreement with the model).  A history is "
        "non-trivial when the model reports at least one cache hit; distinct by (pipeline, cached set, history)")
ASSUMPTIONS = ["the cache containers are black boxes that keep what was put while below their size limit (C14); LRUCache(max_size=n) is "
               "modelled by the recency-list policy PF.PipeCache.lruPolicy n (= C14's Recency, which C14 proves the LRUCache refines)",
               "to_hashable is injective on the generated values (C15); the model uses a printer of the term as the hashable",
               "root_args is compared with the model's reachable-root set on every case (flag roots_ok), not proved equal",
               "the `stable` flag of the driver (PF.PipeCache.stableB) implies the hypotheses WF / WFp of the theorems (C09_stable_wf, C09_stable_wfp) given "
               "that the printer encVal is injective on the default values of the case (not proved for encVal in general)",
               "map sessions: the element calls of a run are those of C01's map.run on that run's inputs; the container is the unbounded one (max_size 4096 "
               "in the generated sessions); a thread-pool run is compared by its DISTINCT element calls",
               "user functions never raise (C13's business); a call fails in the middle of the evaluation only for a missing argument or an unknown output",
               "PipeFunc.update_defaults applied to a single function of a pipeline (which can make shared defaults inconsistent) is not generated",
               "values with representation freedom reach the model as their abstract value (equal Python objects of the same type = equal PF.Val); keys that "
               "cannot be ordered and object arrays of unhashable elements passed whole (C15's known findings) are not generated"]

CACHE_KINDS = ["simple", "lru", "hybrid", "disk"]
DEEP_KINDS = [{"type": "simple"}, {"type": "lru", "kwargs": {"shared": False}}, {"type": "simple"}, {"type": "hybrid", "kwargs": {"shared": False}},
              {"type": "simple"}, {"type": "disk"}, {"type": "lru", "kwargs": {"shared": False}}]


# ---------------------------------------------------------------------------------------------- building
def make_pf(f, log, cache):
    """One real PipeFunc for a function description (same conventions as pipegen.build)."""
    origs = [orig for _, orig in f["params"]]
    renames = {orig: p for p, orig in f["params"] if orig != p}
    inv = {p: orig for p, orig in f["params"]}
    sig_defaults = {inv[p]: c09_values.dec(v) for p, v in f.get("defaults", [])}
    fn = terms.make_func(f["name"], origs, f["outputs"], defaults=sig_defaults, log=log)
    on = f["outputs"][0] if len(f["outputs"]) == 1 else tuple(f["outputs"])
    kw = {}
    if f.get("bound"):
        kw["bound"] = {p: c09_values.dec(v) for p, v in f["bound"]}
    return PipeFunc(fn, on, renames=renames, cache=bool(cache), **kw)


def cache_args(cfg, base):
    if cfg is None:
        return {}
    kw = dict(cfg.get("kwargs") or {})
    if cfg["type"] == "disk":
        kw["cache_dir"] = tempfile.mkdtemp(dir=base)     # never the default: the system temp dir is shared by everybody
        kw.setdefault("lru_shared", False)
    return {"cache_type": cfg["type"], "cache_kwargs": kw or None}


def build(case, base, cached=True):
    log = terms.CallLog()
    names = set(case["cached"]) if cached else set()
    pfs = [make_pf(f, log, f["name"] in names) for f in case["funcs"]]
    with contextlib.redirect_stdout(io.StringIO()):
        p = Pipeline(pfs, **(cache_args(case["cache"], base) if cached else {}))
    return p, log


def out_name(outputs):
    return outputs[0] if len(outputs) == 1 else tuple(outputs)


# ---------------------------------------------------------------------------------------------- the description under mutation
def upsert(upd, old):
    keys = {k for k, _ in upd}
    return [list(e) for e in upd] + [e for e in old if e[0] not in keys]


def apply_desc(funcs, step):
    """The Python mirror of `PF.PipeCache.applyMut` (used by the generator to know the current shape)."""
    funcs = copy.deepcopy(funcs)
    if "update_defaults" in step:
        for f in funcs:
            bound = {b[0] for b in f["bound"]}
            upd = [e for e in step["update_defaults"] if any(p == e[0] for p, _ in f["params"]) and e[0] not in bound]
            f["defaults"] = upsert(upd, f["defaults"])
    elif "update_bound" in step:
        for f in funcs:
            if f["outputs"] == step["update_bound"]["o"]:
                f["bound"] = upsert(step["update_bound"]["b"], f["bound"])
    elif "replace" in step:
        new = step["replace"]
        funcs = [f for f in funcs if f["outputs"] != new["outputs"]] + [{k: new[k] for k in ("name", "params", "outputs", "defaults", "bound")}]
    return funcs


def apply_impl(p, log, step, cached_names):
    """Apply a mutation step to a real pipeline; returns None or the exception class."""
    try:
        with contextlib.redirect_stdout(io.StringIO()):
            if "update_defaults" in step:
                p.update_defaults({k: c09_values.dec(v) for k, v in step["update_defaults"]})
            elif "update_bound" in step:
                ub = step["update_bound"]
                p[out_name(ub["o"])].update_bound({k: c09_values.dec(v) for k, v in ub["b"]})
            elif "replace" in step:
                new = step["replace"]
                p.replace(make_pf(new, log, cached_names is not None and new["name"] in cached_names))
    except Exception as e:  # noqa: BLE001
        return exc_enum(e)
    return None


def observe(p, log, call):
    log.clear()
    try:
        with contextlib.redirect_stdout(io.StringIO()):
            r = p.run(call["out"], kwargs={k: c09_values.dec(v) for k, v in call["kw"]}, full_output=call["full"])
        if call["full"]:
            obs = {"value": c09_values.enc(r[call["out"]]),
                   "full": sorted([[k if isinstance(k, str) else ",".join(map(str, k)), c09_values.enc(v)] for k, v in r.items()], key=lambda kv: str(kv[0]))}
        else:
            obs = {"value": c09_values.enc(r)}
    except Exception as e:  # noqa: BLE001
        obs = {"err": exc_enum(e)}
    obs["calls"] = log.names()
    return obs


def resident_keys(p):
    """The keys of a SimpleCache, canonicalised like the driver prints them; None for other containers."""
    from pipefunc.cache import SimpleCache
    if not isinstance(p.cache, SimpleCache):
        return None
    out = []
    try:
        for k in list(p.cache.cache):
            if not (isinstance(k, tuple) and len(k) == 2):
                out.append([["?"], [repr(type(k).__name__)]])      # not a key the pipeline writes: shows as a difference, never as a crash
                continue
            on, items = k
            if not (isinstance(items, tuple) and all(isinstance(i, tuple) and len(i) == 2 and isinstance(i[0], str) for i in items)):
                continue                                       # a map-run key
            out.append([[on] if isinstance(on, str) else [str(x) for x in on], sorted(i[0] for i in items)])
    except Exception as e:  # noqa: BLE001
        return [[["?"], [exc_enum(e)]]]
    return sorted(out)


def run_history(case, base):
    """Drive the cached pipeline and the uncached twin through the recorded history."""
    try:
        pc, lc = build(case, base, cached=True)
        pu, lu = build(case, base, cached=False)
    except Exception as e:  # noqa: BLE001
        return {"construct": exc_enum(e)}
    steps = []
    for step in case["history"]:
        if "call" in step:
            u = observe(pu, lu, step["call"])
            c = observe(pc, lc, step["call"])
            steps.append({"c": c, "u": u})
        else:
            eu = apply_impl(pu, lu, step, None)
            ec = apply_impl(pc, lc, step, set(case["cached"]))
            steps.append({"mut": [ec, eu]})
            if ec or eu:
                break
    return {"steps": steps, "resident": resident_keys(pc)}


# ---------------------------------------------------------------------------------------------- generators
def val(k, b):
    return {"s": f"v:{k}:{b}"}


def gen_call(rng, pu, funcs, earlier, p_toggle=0.12, prefer_last=0.0):
    """A call step from the twin's own `arg_combinations` (so that it is valid by construction)."""
    if earlier and rng.random() < p_toggle:
        # an earlier call with the SAME root values and another set of supplied intermediates (any distance upstream): the pair
        # "plain call / call with an intermediate" in either order is what `_intermediate_supplied` is about (seeded C09-s5-B)
        c = c09_deep.toggle_intermediate(rng, funcs, rng.choice(earlier[-3:]))
        if c is not None:
            if rng.random() < 0.25:
                c["full"] = not c["full"]
            return c
    if earlier and rng.random() < 0.45:
        c = copy.deepcopy(rng.choice(earlier))
        r = rng.random()
        if r < 0.3:
            c["full"] = not c["full"]
        elif r < 0.5 and c["kw"]:
            e = rng.choice(c["kw"])
            e[1] = val(e[0], rng.randint(0, 1))
        elif r < 0.6:
            outs = pipegen.all_outputs({"funcs": funcs})
            c["out"] = rng.choice(outs)
        return c
    outs = pipegen.all_outputs({"funcs": funcs})
    o = rng.choice(outs)
    if rng.random() < prefer_last:
        o = rng.choice([x for f in funcs[-2:] for x in f["outputs"]])      # deep stream: an output with a long way up
    try:
        combos = sorted(pu.arg_combinations(o))
    except Exception:  # noqa: BLE001
        return None
    roots_only = [c for c in combos if not any(k in outs for k in c)]
    combo = rng.choice(roots_only) if roots_only and rng.random() < 0.6 else rng.choice(combos)
    dn = {d[0] for f in funcs for d in f["defaults"]}
    kw = [[k, val(k, rng.randint(0, 1))] for k in combo if not (k in dn and rng.random() < 0.4)]
    return {"out": o, "kw": kw, "full": rng.random() < 0.3}


def gen_mutation(rng, funcs, cached, counter):
    outs_all = pipegen.all_outputs({"funcs": funcs})
    kind = rng.choice(["update_defaults", "update_defaults", "update_bound", "update_bound", "replace"])
    if kind == "update_defaults":
        roots = sorted({p for f in funcs for p, _ in f["params"] if p not in outs_all and p not in {b[0] for b in f["bound"]}})
        if not roots:
            return None
        # mostly a parameter that HAS a default (calls before and after the update can both rely on it: the entry of every
        # function downstream of its owner must not survive the update), else any root (which gets its first default)
        with_default = [p for p in roots if any(d[0] == p for f in funcs for d in f["defaults"])]
        ks = [rng.choice(with_default if with_default and rng.random() < 0.65 else roots)]
        if len(roots) > 1 and rng.random() < 0.2:
            ks.append(rng.choice([p for p in roots if p != ks[0]]))
        return {"update_defaults": [[k, {"s": f"dflt2:{k}:{rng.randint(0, 1)}"}] for k in ks]}
    f = rng.choice(funcs)
    if kind == "update_bound":
        dn = {d[0] for d in f["defaults"]}
        cands = [p for p, _ in f["params"] if p not in dn]
        existing = [b[0] for b in f["bound"]]
        if existing and rng.random() < 0.6:
            k = rng.choice(existing)
        elif cands:
            k = rng.choice(cands)
        else:
            return None
        return {"update_bound": {"f": f["name"], "o": f["outputs"], "b": [[k, {"s": f"bound2:{k}:{rng.randint(0, 1)}"}]]}}
    counter[0] += 1
    params = list(f["params"])
    if len(params) > 1 and rng.random() < 0.3:
        drop = rng.randrange(len(params))
        params = params[:drop] + params[drop + 1:]
    keep = {p for p, _ in params}
    new = {"name": f"{f['name']}r{counter[0]}", "params": params, "outputs": f["outputs"],
           "defaults": [d for d in f["defaults"] if d[0] in keep], "bound": [b for b in f["bound"] if b[0] in keep]}
    if rng.random() < 0.7:
        cached.append(new["name"])
    return {"replace": new}


def gen_desc(rng):
    return pipegen.gen_dag(rng, max_funcs=rng.choice([1, 2, 2, 3, 3, 4, 4]), roots=rng.choice([1, 2, 2, 3]), p_bound=0.25, p_default=0.3)


def gen_history(rng, desc, cached, cfg, base, length, p_mut, p_fail=0.0, p_toggle=0.12, prefer_last=0.0):
    """Generate a history online (valid calls need the twin's current arg_combinations); returns the recorded case."""
    case = {"funcs": copy.deepcopy(desc["funcs"]), "cached": list(cached), "cache": cfg, "history": []}
    try:
        pu, lu = build(case, base, cached=False)
    except Exception:  # noqa: BLE001
        return None
    funcs = case["funcs"]
    earlier, counter = [], [0]
    pending = None            # an earlier call to be issued again right after a mutation (the "call, mutate, equal call" sandwich)
    for _ in range(length):
        if rng.random() < p_mut and (case["history"] or rng.random() < 0.3):
            step = gen_mutation(rng, funcs, case["cached"], counter)
            if step is None:
                continue
            if apply_impl(pu, lu, step, None):
                return None                     # refused mutation: the twin may be half-modified; drop the history
            funcs = apply_desc(funcs, step)
            case["history"].append(step)
            if earlier and rng.random() < 0.8:
                pending = copy.deepcopy(rng.choice(earlier[-2:]))
        else:
            if pending is not None:
                c, pending = pending, None
                if rng.random() < 0.5:          # rely on the defaults as they are now
                    dn = {d[0] for f in funcs for d in f["defaults"]}
                    c["kw"] = [e for e in c["kw"] if e[0] not in dn]
            else:
                c = gen_call(rng, pu, funcs, earlier, p_toggle, prefer_last)
            if c is None:
                continue
            if p_fail and c["kw"] and rng.random() < p_fail:
                # a call that fails in the middle of the evaluation (a root argument is missing): the frames that complete before the
                # failure store their results; the history goes on from the cache the failure leaves (PF.PipeCache.histF)
                c = copy.deepcopy(c)
                c["kw"].pop(rng.randrange(len(c["kw"])))
                if observe(pu, lu, c).get("err") in ("ValueError", "KeyError"):
                    case["history"].append({"call": c})
                    case["has_failing"] = True
                continue
            if observe(pu, lu, c).get("err") not in (None, "UnusedParametersError"):
                continue
            earlier.append(c)
            case["history"].append({"call": c})
    return case if any("call" in s for s in case["history"]) else None


def chain_cases(max_len):
    """Exhaustive family: g(a)→c, f(c,a)→d; all cached subsets; all histories of calls up to max_len."""
    funcs = [{"name": "g", "params": [["a", "a"]], "outputs": ["c"], "defaults": [], "bound": []},
             {"name": "f", "params": [["c", "c"], ["a", "x"]], "outputs": ["d"], "defaults": [], "bound": []}]
    calls = []
    for full in (False, True):
        for a in (0, 1):
            calls.append({"out": "c", "kw": [["a", val("a", a)]], "full": full})
            for c in (None, 0, 1):
                kw = [["a", val("a", a)]] + ([["c", val("c", c)]] if c is not None else [])
                calls.append({"out": "d", "kw": kw, "full": full})
    for cached in (["f"], ["g"], ["f", "g"]):
        for n in range(2, max_len + 1):
            for hist in itertools.product(calls, repeat=n):
                yield {"funcs": funcs, "cached": cached, "cache": {"type": "simple"}, "history": [{"call": c} for c in hist]}


def fail_chain_cases(max_len):
    """Exhaustive family with failing calls: g(a)→c, k(c,z)→e; `e(a=..)` runs (and stores) g, then raises for the missing z."""
    funcs = [{"name": "g", "params": [["a", "a"]], "outputs": ["c"], "defaults": [], "bound": []},
             {"name": "k", "params": [["c", "c"], ["z", "z"]], "outputs": ["e"], "defaults": [], "bound": []}]
    calls = []
    for full in (False, True):
        for a in (0, 1):
            calls.append({"out": "c", "kw": [["a", val("a", a)]], "full": full})
            calls.append({"out": "e", "kw": [["a", val("a", a)]], "full": full})                               # fails after g
            calls.append({"out": "e", "kw": [["a", val("a", a)], ["z", val("z", 0)]], "full": full})
        calls.append({"out": "e", "kw": [["z", val("z", 0)]], "full": full})                                   # fails at once
    for cached in (["g"], ["k"], ["g", "k"]):
        for cfg in ({"type": "simple"}, {"type": "lru", "kwargs": {"shared": False, "max_size": 1}}):
            for n in range(2, max_len + 1):
                for hist in itertools.product(calls, repeat=n):
                    yield {"funcs": funcs, "cached": cached, "cache": cfg, "history": [{"call": c} for c in hist], "has_failing": True}


def defaults_sandwich_cases():
    """Exhaustive family "call, update_defaults, related call": g(a, b=B0)→c, f(c, x=X0)→d — `f` is DOWNSTREAM of the owner
    of `b` and does not take `b` itself.  First call: every output x every way of supplying / leaving out a, b, x; mutation:
    new default for b, x, a, or b and x; second call: the same call, the other `full_output`, or one keyword added / dropped."""
    funcs = [{"name": "g", "params": [["a", "a"], ["b", "b"]], "outputs": ["c"], "defaults": [["b", {"s": "B0"}]], "bound": []},
             {"name": "f", "params": [["c", "c"], ["x", "x"]], "outputs": ["d"], "defaults": [["x", {"s": "X0"}]], "bound": []}]
    firsts = []
    for full in (False, True):
        for b in (None, 0):
            firsts.append({"out": "c", "kw": [["a", val("a", 0)]] + ([["b", val("b", b)]] if b is not None else []), "full": full})
            for x in (None, 0):
                firsts.append({"out": "d", "kw": [["a", val("a", 0)]] + ([["b", val("b", b)]] if b is not None else []) +
                               ([["x", val("x", x)]] if x is not None else []), "full": full})
    muts = [[["b", {"s": "B1"}]], [["x", {"s": "X1"}]], [["a", {"s": "A1"}]], [["b", {"s": "B1"}], ["x", {"s": "X1"}]], [["b", {"s": "B0"}]]]
    for cached in (["f"], ["g"], ["f", "g"]):
        for c1 in firsts:
            seconds = [c1, dict(c1, full=not c1["full"])]
            for k in ("a", "b", "x"):
                if any(e[0] == k for e in c1["kw"]):
                    seconds.append(dict(c1, kw=[e for e in c1["kw"] if e[0] != k]))
                elif not (k == "x" and c1["out"] == "c"):
                    seconds.append(dict(c1, kw=c1["kw"] + [[k, val(k, 0)]]))
            for m in muts:
                for c2 in seconds:
                    yield {"funcs": funcs, "cached": cached, "cache": {"type": "simple"},
                           "history": [{"call": copy.deepcopy(c1)}, {"update_defaults": copy.deepcopy(m)}, {"call": copy.deepcopy(c2)}, {"call": copy.deepcopy(c1)}]}


# ---------------------------------------------------------------------------------------------- known findings
def _upstream_or_equal(funcs, target_outs, fname_or_outs):
    """Is the mutated function the producer of `target_outs` or upstream of it (in the description `funcs`)?"""
    prod = {o: f for f in funcs for o in f["outputs"]}
    start = next((f for f in funcs if f["outputs"] == target_outs), None)
    if start is None:
        return True          # the keyed function itself was replaced since
    seen, todo = set(), [start]
    while todo:
        f = todo.pop()
        if f["name"] in seen:
            continue
        seen.add(f["name"])
        if f["name"] == fname_or_outs or f["outputs"] == fname_or_outs:
            return True
        for p, _ in f["params"]:
            if p in prod:
                todo.append(prod[p])
    return False


@framework.finding_matcher("c09_mutation_between_put_and_hit")
def _match_mutation(case, params, impl, model):
    """The failing call hit a key that was put before a mutation of the given kind (of the keyed function or of a function
    upstream of it) and the faithful model — which is transparent without such a hit — predicts exactly the stale value."""
    if not impl or not model or "step" not in impl:
        return False
    i = impl["step"]
    steps = model.get("steps") or []
    if i >= len(steps) or not steps[i] or "value" not in steps[i]:
        return False
    got = impl["cached"]
    if "value" not in got or c09_values.canon(steps[i]["value"]) != got["value"]:
        return False
    hist = case["history"]
    funcs_at = [case["funcs"]]
    for s in hist:
        funcs_at.append(apply_desc(funcs_at[-1], s) if "call" not in s else funcs_at[-1])
    for key in steps[i].get("hits", []):
        put_at = max((j for j in range(i) if steps[j] and key in (steps[j].get("puts") or [])), default=None)
        if put_at is None:
            continue
        for m in range(put_at + 1, i):
            s = hist[m]
            if params["mutation"] == "update_bound" and "update_bound" in s:
                if _upstream_or_equal(funcs_at[m], key[0], s["update_bound"]["o"]):
                    return True
            if params["mutation"] == "replace" and "replace" in s:
                if _upstream_or_equal(funcs_at[m], key[0], s["replace"]["outputs"]):
                    return True
    return False


# ---------------------------------------------------------------------------------------------- judging
def canon_model_step(r):
    if r is None:
        return None
    o = {}
    if "err" in r:
        o["err"] = r["err"]
    if "value" in r:
        o["value"] = c09_values.canon(r["value"])
        full = {}
        for k, v in r["full"]:
            full.setdefault(k, c09_values.canon(v))          # `all_results` is a dict: the first (newest) entry of the memo counts
        o["full"] = sorted([[k, v] for k, v in full.items()], key=lambda kv: kv[0])
        o["calls"] = r["calls"]
        o["hits"], o["puts"] = r.get("hits", []), r.get("puts", [])
    return o


def kind_of(case):
    c = case["cache"]
    small = bool(c.get("kwargs") and (c["kwargs"].get("max_size") or 999) < 8)
    return c["type"] + ("-small" if small else ""), small


def first_failure(case, impl):
    """Index of the first call step at which the property's first clause fails on the implementation, with a description."""
    for i, (step, ob) in enumerate(zip(case["history"], impl.get("steps", []))):
        if "call" not in step:
            continue
        c, u = ob["c"], ob["u"]
        if "err" in u:
            continue
        if "err" in c:
            return i, f"call succeeds without cache but raises {c['err']} with the cache"
        if c["value"] != u["value"]:
            return i, "cached pipeline returns a value computed for other arguments than the uncached twin"
        if step["call"]["full"] and c.get("full") != u.get("full"):
            return i, "full_output of the cached pipeline differs from the uncached twin"
    return None


def _no_midrun_error(impl):
    return all("mut" in ob or ob["u"].get("err") in (None, "UnusedParametersError") for ob in impl.get("steps", []))


def shrink(case, base, budget=60):
    """Delete steps / cached names while the first clause still fails somewhere; returns (case, impl, failing index)."""
    best = case
    impl = run_history(best, base)
    ff = first_failure(best, impl)
    if ff is None:
        return best, impl, None
    best = dict(best, history=best["history"][:ff[0] + 1])
    changed = True
    while changed and budget > 0:
        changed = False
        for k in range(len(best["history"]) - 1):
            cand = dict(best, history=best["history"][:k] + best["history"][k + 1:])
            budget -= 1
            ci = run_history(cand, base)
            if "steps" in ci and _no_midrun_error(ci) and first_failure(cand, ci) is not None and first_failure(cand, ci)[0] == len(cand["history"]) - 1:
                best, changed = cand, True
                break
        if not changed:
            for name in list(best["cached"]):
                cand = dict(best, cached=[n for n in best["cached"] if n != name])
                budget -= 1
                ci = run_history(cand, base)
                if "steps" in ci and _no_midrun_error(ci) and first_failure(cand, ci) is not None:
                    best, changed = cand, True
                    break
    impl = run_history(best, base)
    ff = first_failure(best, impl)
    return best, impl, (ff[0] if ff else None)


def model_request(case, legacy=False):
    a = c09_values.abstract_deep({"funcs": case["funcs"], "cached": case["cached"], "history": case["history"]})
    cfg = case.get("cache") or {}
    if cfg.get("type") == "lru":
        a["lru_max"] = int((cfg.get("kwargs") or {}).get("max_size") or 128)      # LRUCache(max_size=128) by default
    if legacy:
        a["legacy"] = True
    return {"m": "pipe.cached", "a": a}


def judge_history(ctx, case, impl, resp, pending):
    """Compare one history; property failures are queued in `pending` (they are shrunk and re-modelled in one batch)."""
    kind, small = kind_of(case)
    ctx.count(f"cache:{kind}")
    ctx.count(f"cached-subset-size:{len([n for n in case['cached'] if any(f['name'] == n for f in case['funcs'])])}/{len(case['funcs'])}")
    if "construct" in impl:
        ctx.count(f"construct-exc:{impl['construct']}")
        ctx.violation(case, f"valid pipeline refused at construction: {impl['construct']}")
        return
    r = resp["r"]
    msteps = [canon_model_step(s) for s in r["steps"]]
    mtwin = [canon_model_step(s) for s in r["twin"]]
    if not r["stable"] or not r["roots_ok"] or not r.get("prefix_ok", True) or not r.get("histf_ok", True):
        ctx.violation(case, "hypothesis of the C09 theorems does not hold of a generated pipeline (acyclic/fuel, unique names, root_args = reachable roots) "
                            "or histC is not a prefix of histF",
                      found_input=False, item="correspondence:wf", model={"stable": r["stable"], "roots_ok": r["roots_ok"], "prefix_ok": r.get("prefix_ok"), "histf_ok": r.get("histf_ok")})
    nhits = sum(len(s["hits"]) for s in msteps if s and "hits" in s)
    has_mut = any("call" not in s for s in case["history"])
    ctx.count("history:with-mutation" if has_mut else "history:calls-only")
    ctx.count(f"history:len{len(case['history'])}")
    ctx.record({"funcs": case["funcs"], "cached": case["cached"], "history": case["history"]}, nontrivial=nhits > 0)
    ff = first_failure(case, impl)
    if ff is not None:
        pending.append(case)
        return
    if small and case["cache"]["type"] != "lru":
        ctx.count("history:small-cache-compared-with-twin-only")
        return                      # eviction is modelled for the LRUCache only
    if small:
        ctx.count("history:small-lru-modelled-with-eviction")
    if case.get("has_failing"):
        ctx.count("history:with-failing-call")
    for kind in case.get("rich") or []:
        ctx.count(f"history:rich-values:{kind}")
    exact = True
    resident_forever = not small     # the direct second-clause check below presumes that nothing is evicted
    seen_exec = []           # (kw, function name) executed with a complete key, for the direct second clause
    root_cache = {}
    for i, step in enumerate(case["history"]):
        if i >= len(impl["steps"]):
            break
        ob = impl["steps"][i]
        if "call" not in step:
            if ob["mut"][0] or ob["mut"][1]:
                ctx.count("mutation-refused")
                return
            ctx.count("step:" + next(iter(step)))
            seen_exec = []
            continue
        call = step["call"]
        c, u = ob["c"], ob["u"]
        outs_now = set(pipegen.all_outputs({"funcs": _current_funcs(case, i)}))
        ctx.count("step:call" + (":full" if call["full"] else "") + (":intermediate" if any(k in outs_now for k, _ in call["kw"]) else ""))
        if "err" in u:
            ctx.count(f"twin-err:{u['err']}")
        mc = msteps[i] if i < len(msteps) else None
        mu = mtwin[i] if i < len(mtwin) else None
        # the uncached twin against the C02 model (sanity of the oracle)
        if mu is not None and (("err" in u) != ("err" in mu) or ("err" not in u and u["value"] != mu["value"])):
            ctx.violation(case, f"uncached twin and PF.Pipe.runTop disagree at step {i}", found_input=False, item="correspondence:twin", impl=u, model=mu)
            return
        if mc is None:
            ctx.count("model-history-ended")
            return
        # second clause, directly on the implementation: a function executed under a complete key is not executed again
        kwkey = tuple(sorted((k, repr(c09_values.abstract(v))) for k, v in call["kw"]))      # equal ARGUMENTS, whatever their representation
        if exact and resident_forever and "err" not in c:
            for (kk, fname) in seen_exec:
                if kk == kwkey and fname in c["calls"]:
                    ctx.violation(case, f"cached function {fname} is executed again at step {i} for equal arguments although its entry is resident",
                                  impl={"step": i, "cached": c, "twin": u}, model=r)
                    return
        # correspondence with the model
        if ("err" in c) != ("err" in mc and "value" not in mc) and not ("err" in c and "err" in mc):
            ctx.violation(case, f"implementation and model disagree on whether the cached call at step {i} succeeds",
                          found_input=False, item="correspondence:outcome", impl=c, model=mc)
            return
        if "err" in c:
            if "value" not in mc or mc.get("err") is None:
                pass
            if mc.get("err") != c["err"] and not (c["err"] in ("ValueError", "KeyError") and mc.get("err") in ("ValueError", "KeyError")):
                ctx.violation(case, f"error class at step {i} differs from the model", found_input=False, item="correspondence:error-class", impl=c, model=mc)
                return
            if "value" not in mc:
                ctx.count("step:call-failed-mid-run")       # the model goes on from the cache the failure left (histF)
            continue
        if "err" in mc:
            ctx.violation(case, f"model rejects the cached call at step {i} that the implementation accepts", found_input=False,
                          item="correspondence:outcome", impl=c, model=mc)
            return
        if c["value"] != mc["value"] or (call["full"] and c["full"] != mc["full"]):
            ctx.violation(case, f"cached value at step {i} differs from the model's", found_input=False, item="correspondence:value", impl=c, model=mc)
            return
        if exact and sorted(c["calls"]) != sorted(mc["calls"]):
            # more executions than the model predicts = a resident entry was not used; fewer = a hit the model does not see
            what = (f"functions executed at step {i} {sorted(c['calls'])} differ from the model's prediction {sorted(mc['calls'])}")
            ctx.violation(case, what, found_input=False, item="correspondence:call-log", impl=c, model=mc)
            return
        if mc["hits"]:
            ctx.count("model:hit" + (":full" if call["full"] else "") + (":after-failed-call" if any(
                "err" in (impl["steps"][j].get("c") or {}) and impl["steps"][j]["c"]["err"] != "UnusedParametersError" for j in range(i) if "c" in impl["steps"][j]) else ""))
        if mc["puts"]:
            ctx.count("model:put")
        if not mc["hits"] and not mc["puts"] and mc["calls"] and any(n in case["cached"] for n in mc["calls"]):
            ctx.count("model:cached-function-without-key")
        # remember what ran under a complete key
        if exact and not any(k in outs_now for k, _ in call["kw"]):
            supplied = {k for k, _ in call["kw"]}
            for put in mc["puts"]:
                if {k for k, _ in put[1]} <= supplied:
                    fname = next((f_["name"] for f_ in _current_funcs(case, i) if f_["outputs"] == put[0]), None)
                    if fname in c["calls"]:
                        seen_exec.append((kwkey, fname))
    # resident keys of a SimpleCache against the model's
    if impl.get("resident") is not None and len(msteps) == len(case["history"]) and all(s is None or "value" in s for s in msteps):
        want = sorted([k[0], sorted({n for n, _ in k[1]})] for k in r["resident"])
        want = [list(x) for x in {(tuple(a), tuple(b)) for a, b in want}]
        got = [list(x) for x in {(tuple(a), tuple(b)) for a, b in impl["resident"]}]
        if sorted(map(repr, want)) != sorted(map(repr, got)):
            ctx.violation(case, "resident cache keys differ from the model's", found_input=False, item="correspondence:resident-keys",
                          impl=impl["resident"], model=r["resident"])


def _current_funcs(case, i):
    funcs = case["funcs"]
    for s in case["history"][:i]:
        if "call" not in s:
            funcs = apply_desc(funcs, s)
    return funcs


def search_neighbourhood(ctx, case, base, tries=40):
    """A disagreement with the model that the property does not speak about (call log, resident keys): extend the
    history by further calls and look for an input on which the property itself fails."""
    rng = ctx.rng
    for _ in range(tries):
        cand = copy.deepcopy({k: case[k] for k in ("funcs", "cached", "cache", "history")})
        try:
            pu, lu = build(cand, base, cached=False)
        except Exception:  # noqa: BLE001
            return None
        funcs = cand["funcs"]
        for s in cand["history"]:
            if "call" not in s:
                if apply_impl(pu, lu, s, None):
                    return None
                funcs = apply_desc(funcs, s)
        earlier = [s["call"] for s in cand["history"] if "call" in s]
        for _ in range(rng.randint(1, 3)):
            if earlier and rng.random() < 0.35:
                # an entry the model does not expect may only show as a wrong value once the pipeline has changed under it:
                # update_defaults (the one mutation after which every resident entry must still be right), then an earlier call
                roots = sorted({p for f in funcs for p, _ in f["params"] if not any(p in g["outputs"] for g in funcs) and p not in {b[0] for b in f["bound"]}})
                if roots:
                    k = rng.choice(roots)
                    step = {"update_defaults": [[k, {"s": f"dflt3:{k}:{rng.randint(0, 1)}"}]]}
                    if apply_impl(pu, lu, step, None):
                        break
                    funcs = apply_desc(funcs, step)
                    cand["history"].append(step)
                    cand["history"].append({"call": copy.deepcopy(rng.choice(earlier))})
                    continue
            c = gen_call(rng, pu, funcs, earlier, 0.4)
            if c is not None:
                cand["history"].append({"call": c})
        impl = run_history(cand, base)
        if "steps" in impl and first_failure(cand, impl) is not None:
            return cand
    return None


# ---------------------------------------------------------------------------------------------- map runs
def repeat_inputs(desc, rng):
    """Make the mapped input arrays repeat their elements (two distinct values per array)."""
    d = copy.deepcopy(desc)
    for e in d["inputs"]:
        v = e[1]
        if isinstance(v, dict) and "arr" in v and len(v["arr"][1]) >= 2:
            el = v["arr"][1]
            m = rng.choice([1, 2, 2])
            v["arr"][1] = [el[i % m] for i in range(len(el))]
    return d


MAP_RICH_KINDS = ["dict2", "dict3", "dictint", "nested", "listdict", "tupledict", "ddict", "list"]   # no raw sets: results are hashed by later keys


def rich_map_inputs(desc, rng, p_rich=0.6):
    """Give some inputs of a map case values with representation freedom (harness/c09_values.py): every element of a mapped array
    — also the repeated ones — is built in a way of its own, and a second run gets the same values built in yet another way.
    `desc["inputs"]` keeps the ABSTRACT values (what the models get); `desc["c09_rich"]` / `["c09_rich2"]` say how to build them."""
    d = copy.deepcopy(desc)
    r1, r2, kinds = [], [], []

    def elementwise_only(name):
        # an object ndarray holding unhashable elements that reaches a cached function WHOLE (or as a slice) has no hashable key
        # (C15's known finding KF-C15-raw-payload-unhashable): only arrays every consumer indexes on all axes get rich elements
        for f in d["funcs"]:
            if not any(p == name for p, _ in f["params"]):
                continue
            spec = next((a for a in ((f.get("mapspec") or {}).get("inputs") or []) if a[0] == name), None)
            if spec is None or any(x is None for x in spec[1]):
                return False
        return True

    for e in d["inputs"]:
        name, v = e
        if rng.random() >= p_rich or (isinstance(v, dict) and "arr" in v and not elementwise_only(name)):
            continue
        kind = rng.choice(MAP_RICH_KINDS)
        nv = c09_values.KINDS[kind]
        if isinstance(v, dict) and "arr" in v:
            n = len(v["arr"][1])
            va = [rng.randrange(nv) for _ in range(n)]
            vb = [(x + 1 + rng.randrange(max(1, nv - 1))) % nv for x in va]
            a, b = c09_values.wrap_array(kind, v, va), c09_values.wrap_array(kind, v, vb)
        else:
            x = rng.randrange(nv)
            a, b = c09_values.wrap(kind, v, x), c09_values.wrap(kind, v, (x + 1) % nv)
        r1.append([name, a])
        r2.append([name, b])
        kinds.append(kind)
        e[1] = c09_values.abstract(a)
    if r1:
        d["c09_rich"], d["c09_rich2"], d["c09_rich_kinds"] = r1, r2, kinds
    return d


def map_inputs(desc, run=1):
    out = mapgen.py_inputs(desc)
    for name, rj in desc.get("c09_rich2" if run == 2 and "c09_rich2" in desc else "c09_rich") or []:
        val = c09_values.dec(rj)
        if desc["input_kinds"].get(name) == "list":
            val = list(val)
        out[name] = val
    return out


def map_obs(p, log, desc, run=1, **kw):
    log.clear()
    try:
        res = mapgen.quiet(p.map, map_inputs(desc, run), internal_shapes=mapgen.internal_shapes_arg(desc), storage="dict", **kw)
        out = {"outputs": {name: terms.enc(r.output) for name, r in res.items()}}
    except Exception as e:  # noqa: BLE001
        out = {"err": exc_enum(e), "msg": str(e)[:160]}
    out["calls"] = sorted(([c[0], c[1]] for c in log.read() if c[2] == "call"), key=repr)
    return out


def run_map_case(desc, cfg, mode, base):
    d = copy.deepcopy(desc)
    try:
        pu, lu = mapgen.build(d)
        for f in d["funcs"]:
            f["cache"] = True
        pc, lc = mapgen.build(d, **cache_args(cfg, base))
    except Exception as e:  # noqa: BLE001
        return {"construct": exc_enum(e)}
    u = map_obs(pu, lu, desc, parallel=False)
    if mode == "seq":
        c1 = map_obs(pc, lc, desc, parallel=False)
        c2 = map_obs(pc, lc, desc, run=2, parallel=False)
    else:
        with ThreadPoolExecutor(4) as ex:
            c1 = map_obs(pc, lc, desc, parallel=True, executor=ex)
            c2 = map_obs(pc, lc, desc, run=2, parallel=True, executor=ex)
    out = {"u": u, "c1": c1, "c2": c2}
    # a mutation between map runs: update_bound on a function that has a bound parameter, on the cached pipeline and on its
    # uncached twin; the cached map must return what the twin returns (the element cache is keyed by the selected kwargs,
    # which include the bound values)
    bound = [(f, b[0]) for f in d["funcs"] for b in f["bound"]]
    if bound:
        f, pname = bound[0]
        oname = f["outputs"][0] if len(f["outputs"]) == 1 else tuple(f["outputs"])
        try:
            for pp in (pu, pc):
                pp[oname].update_bound({pname: "bound-after-update"})
            out["u3"] = map_obs(pu, lu, desc, parallel=False)
            out["c3"] = map_obs(pc, lc, desc, parallel=False)
        except Exception as e:  # noqa: BLE001
            out["mut_err"] = exc_enum(e)
    # update_defaults between map runs: a root argument the inputs leave to its default gets another default on both pipelines
    supplied = {e[0] for e in d["inputs"]}
    dflt = sorted({dd[0] for f in d["funcs"] for dd in f["defaults"] if dd[0] not in supplied and dd[0] not in {b[0] for b in f["bound"]}})
    if dflt:
        try:
            for pp in (pu, pc):
                mapgen.quiet(pp.update_defaults, {dflt[0]: "default-after-update"})
            out["u4"] = map_obs(pu, lu, desc, parallel=False)
            out["c4"] = map_obs(pc, lc, desc, parallel=False)
        except Exception as e:  # noqa: BLE001
            out["mut_err4"] = exc_enum(e)
    return out


def judge_map(ctx, case, elems, impl, c01, elems_resp):
    desc, cfg, mode = case["desc"], case["cache"], case["mode"]
    if "u3" in impl:
        ctx.count("map:update_bound-between-runs")
        if "err" not in impl["u3"] and impl["c3"].get("outputs") != impl["u3"].get("outputs"):
            ctx.violation(case, "map after update_bound returns a value computed with the old bound value when caching is on "
                          "(the uncached twin returns the new one)", impl={"cached": impl["c3"], "uncached": impl["u3"]})
            return
    if "u4" in impl:
        ctx.count("map:update_defaults-between-runs")
        if "err" not in impl["u4"] and impl["c4"].get("outputs") != impl["u4"].get("outputs"):
            ctx.violation(case, "map after update_defaults " + (f"raises {impl['c4']['err']}" if "err" in impl["c4"] else "returns a value computed with the old default") +
                          " when caching is on (the uncached twin returns the value for the new default)", impl={"cached": impl["c4"], "uncached": impl["u4"]})
            return
    ctx.count(f"map:{mode}:{cfg['type']}")
    for kind in desc.get("c09_rich_kinds") or []:
        ctx.count(f"map:rich-values:{kind}")
    if "construct" in impl:
        ctx.violation(case, f"valid map pipeline refused at construction: {impl['construct']}")
        return
    u, c1, c2 = impl["u"], impl["c1"], impl["c2"]
    if "err" in u:
        ctx.count(f"map-twin-err:{u['err']}")
        ctx.record(case, nontrivial=False)
        return
    ncalls = len(u["calls"])
    distinct = len({repr(c) for c in u["calls"]})
    ctx.record(case, nontrivial=distinct < ncalls)
    if distinct < ncalls:
        ctx.count("map:has-repeated-element-calls")
    for tag, c in (("first", c1), ("second", c2)):
        if "err" in c:
            ctx.violation(case, f"map succeeds without cache but raises {c['err']} with the cache ({tag} run, {mode})", impl={"cached": c, "twin": u})
            return
        if c["outputs"] != u["outputs"]:
            ctx.violation(case, f"map with a cache returns other arrays than without ({tag} run, {mode})", impl={"cached": c["outputs"], "twin": u["outputs"]})
            return
    if "err" not in c01:
        want = {k: c09_values.canon(v) for k, v in c01["outputs"]}
        if want != u["outputs"]:
            ctx.violation(case, "uncached map differs from PF.Map.runMap", found_input=False, item="correspondence:map-twin", impl=u["outputs"], model=want)
            return
    if mode == "seq":
        # the element calls pushed through the model's cache: exactly the first occurrence of every distinct call executes
        ran = sorted(([e["name"], [[k, c09_values.canon(v)] for k, v in sorted(e["kwargs"], key=lambda kv: kv[0])]]
                      for e, (v, executed) in zip(elems, elems_resp["results"]) if executed), key=repr)
        if c1["calls"] != ran:
            fewer = len(c1["calls"]) < len(ran)
            ctx.violation(case, "sequential map with a cache executes " + ("fewer" if fewer else "more") + " element calls than one per distinct (function, kwargs)",
                          found_input=not fewer, item=None if not fewer else "correspondence:map-calls", impl=c1["calls"], model=ran)
            return
        if c2["calls"]:
            ctx.violation(case, "a second sequential map run re-executes functions whose entries are resident", impl=c2["calls"], model=[])
            return
    else:
        if len({repr(c) for c in c1["calls"]}) != distinct and "err" not in c01:
            ctx.violation(case, "parallel map with a shared cache does not execute every distinct element call", found_input=False,
                          item="correspondence:map-calls-parallel", impl=c1["calls"], model=u["calls"])
            return
        if c2["calls"]:
            ctx.violation(case, "a second map run over a populated shared cache re-executes functions whose entries are resident", impl=c2["calls"], model=[])


# ---------------------------------------------------------------------------------------------- corpus
def _c(funcs, cached, history, cache=None):
    return {"funcs": funcs, "cached": cached, "cache": cache or {"type": "simple"}, "history": history}


_G = {"name": "g", "params": [["a", "a"]], "outputs": ["c"], "defaults": [], "bound": []}
_F = {"name": "f", "params": [["c", "c"], ["a", "a"]], "outputs": ["d"], "defaults": [], "bound": []}
_FB = {"name": "f", "params": [["x", "x"], ["c", "c"]], "outputs": ["d"], "defaults": [], "bound": [["x", {"s": "bound:x"}]]}
_GX = {"name": "g", "params": [["x", "x"]], "outputs": ["c"], "defaults": [], "bound": []}
_GB = {"name": "g", "params": [["a", "a"], ["b", "b"]], "outputs": ["c"], "defaults": [], "bound": [["b", {"s": "B0"}]]}


def _call(out, kw, full=False):
    return {"call": {"out": out, "kw": [[k, {"s": v}] for k, v in kw], "full": full}}


CORPUS: list = [
    # DF-18 (a): an intermediate supplied together with all root arguments poisons the entry keyed on the root arguments only
    _c([_G, _F], ["f", "g"], [_call("d", [("c", "CC"), ("a", "1")]), _call("d", [("a", "1")])]),
    # DF-18 (a), reverse order: the call with the intermediate is served the entry of the root-only call
    _c([_G, _F], ["f"], [_call("d", [("a", "1")]), _call("d", [("c", "CC"), ("a", "1")])]),
    _c([_G, _F], ["f"], [_call("d", [("a", "1")], True), _call("d", [("c", "CC"), ("a", "1")], True)], {"type": "lru", "kwargs": {"shared": False}}),
    # DF-18 (d): a parameter bound in the cached function but a root argument through an upstream function
    _c([_GX, _FB], ["f"], [_call("d", [("x", "1")]), _call("d", [("x", "2")])]),
    # DF-18 (b): update_bound between the put and the hit (known finding)
    _c([_GB, _F], ["f", "g"], [_call("d", [("a", "1")]), {"update_bound": {"f": "g", "o": ["c"], "b": [["b", {"s": "B1"}]]}}, _call("d", [("a", "1")])]),
    # DF-18 (c): replace between the put and the hit (known finding)
    _c([_G, _F], ["f", "g"], [_call("d", [("a", "1")]), {"replace": {"name": "g2", "params": [["a", "a"]], "outputs": ["c"], "defaults": [], "bound": []}},
                              _call("d", [("a", "1")])]),
    # a call that fails after g has stored its result; the next calls find / reuse what the failure left (round 2, histF)
    _c([_G, {"name": "k", "params": [["c", "c"], ["z", "z"]], "outputs": ["e"], "defaults": [], "bound": []}], ["g", "k"],
       [_call("e", [("a", "1")]), _call("c", [("a", "1")]), _call("e", [("a", "1"), ("z", "Z")], True), _call("e", [("a", "1")])]),
    # LRUCache(max_size=1): the entry of a=1 is evicted by a=2 and recomputed; then hit
    _c([_G, _F], ["f"], [_call("d", [("a", "1")]), _call("d", [("a", "2")]), _call("d", [("a", "1")]), _call("d", [("a", "1")])],
       {"type": "lru", "kwargs": {"shared": False, "max_size": 1}}),
    # a surplus keyword: UnusedParametersError without a hit and under full_output with hits; skipped after an early return from a hit
    _c([_G, _F], ["f", "g"], [_call("d", [("a", "1"), ("zz", "0")]), _call("d", [("a", "1"), ("zz", "0")], True), _call("d", [("a", "1"), ("zz", "0")])]),
    # KF-C09-update-bound where the stale entry was stored by a call that then FAILED (found by the thorough tier, round 2)
    dict({"funcs": [{"name": "f0", "params": [["r1", "a0"]], "outputs": ["o0a", "o0b"], "defaults": [], "bound": [["r1", {"s": "bound:r1:f0"}]]}, {"name": "f1", "params": [["o0a", "o0a"], ["o0b", "o0b"], ["r1", "a2"]], "outputs": ["o1"], "defaults": [], "bound": []}, {"name": "f2", "params": [["o1", "a0"], ["o0b", "o0b"]], "outputs": ["o2a", "o2b"], "defaults": [], "bound": [["o0b", {"s": "bound:o0b:f2"}]]}], "cached": ["f0", "f2", "f0r1"], "cache": {"type": "simple"}, "history": [{"replace": {"name": "f0r1", "params": [["r1", "a0"]], "outputs": ["o0a", "o0b"], "defaults": [], "bound": [["r1", {"s": "bound:r1:f0"}]]}}, {"call": {"out": "o2a", "kw": [], "full": False}}, {"update_bound": {"f": "f0r1", "o": ["o0a", "o0b"], "b": [["r1", {"s": "bound2:r1:1"}]]}}, {"call": {"out": "o0a", "kw": [], "full": False}}]}, has_failing=True),
    # update_defaults changes the key of later calls, so nothing stale is served
    _c([{"name": "g", "params": [["a", "a"]], "outputs": ["c"], "defaults": [["a", {"s": "A0"}]], "bound": []}, _F], ["f", "g"],
       [_call("d", []), {"update_defaults": [["a", {"s": "A1"}]]}, _call("d", []), _call("d", [("a", "A0")])]),
    # seeded C09-s3-A: `f` is downstream of the owner of the defaulted `b` and does not take it; both calls rely on the default.
    # The key of `f` must list every root argument (there is none for `b` here, so `f` is not cached at all): an entry keyed
    # without `b` would survive the update
    _c([{"name": "g", "params": [["a", "a"], ["b", "b"]], "outputs": ["c"], "defaults": [["b", {"s": "B0"}]], "bound": []},
        {"name": "f", "params": [["c", "c"], ["x", "x"]], "outputs": ["d"], "defaults": [["x", {"s": "X0"}]], "bound": []}], ["f", "g"],
       [_call("d", [("a", "1")]), {"update_defaults": [["b", {"s": "B1"}]]}, _call("d", [("a", "1")]), _call("d", [("a", "1")], True)]),
    _c([{"name": "g", "params": [["a", "a"], ["b", "b"]], "outputs": ["c"], "defaults": [["b", {"s": "B0"}]], "bound": []},
        {"name": "f", "params": [["c", "c"], ["x", "x"]], "outputs": ["d"], "defaults": [["x", {"s": "X0"}]], "bound": []}], ["f"],
       [_call("d", [("a", "1")], True), {"update_defaults": [["b", {"s": "B1"}]]}, _call("d", [("a", "1")])], {"type": "disk"}),
    # seeded C09-s3-B: equal arguments built in another way (dict key insertion order; nested; keyword order): the resident entry is used
    _c([_G, _F], ["f", "g"], [{"call": {"out": "d", "kw": [["a", {"dict": [["lo", {"s": "1"}], ["hi", 7]]}]], "full": False}},
                              {"call": {"out": "d", "kw": [["a", {"dict": [["hi", 7], ["lo", {"s": "1"}]]}]], "full": False}},
                              {"call": {"out": "d", "kw": [["a", {"dict": [["hi", 7], ["lo", {"s": "1"}]]}]], "full": True}}]),
    _c([_GB, _F], ["f", "g"], [{"call": {"out": "d", "kw": [["a", {"list": [{"s": "1"}, {"dict": [["p", 1], ["q", {"dict": [["x", 1], ["y", 2]]}]]}]}]], "full": True}},
                               {"call": {"out": "d", "kw": [["a", {"list": [{"s": "1"}, {"dict": [["q", {"dict": [["y", 2], ["x", 1]]}], ["p", 1]]}]}]], "full": False}}],
       {"type": "hybrid", "kwargs": {"shared": False}}),
    _c([{"name": "g", "params": [["a", "a"], ["b", "b"]], "outputs": ["c"], "defaults": [], "bound": []}, _F], ["f", "g"],
       [{"call": {"out": "d", "kw": [["a", {"dict": [["tag", {"s": "1"}], ["members", {"set": [1, 9]}]]}], ["b", {"counter": [["k", 2], ["zz", 1]]}]], "full": False}},
        {"call": {"out": "d", "kw": [["b", {"counter": [["zz", 1], ["k", 2]]}], ["a", {"dict": [["members", {"set": [9, 1]}], ["tag", {"s": "1"}]]}]], "full": False}}],
       {"type": "lru", "kwargs": {"shared": False}}),
    # a default that is a dict, and the equal dict passed explicitly in another key order: same key, the entry is used
    _c([{"name": "g", "params": [["a", "a"]], "outputs": ["c"], "defaults": [["a", {"dict": [["lo", {"s": "A0"}], ["hi", 7]]}]], "bound": []}, _F], ["f", "g"],
       [_call("d", []), {"call": {"out": "d", "kw": [["a", {"dict": [["hi", 7], ["lo", {"s": "A0"}]]}]], "full": False}},
        {"update_defaults": [["a", {"dict": [["hi", 7], ["lo", {"s": "A0"}]]}]]}, _call("d", [])]),
]


# ---------------------------------------------------------------------------------------------- run
def _guarded(ctx, case, what, fn, *a, **k):
    """Whatever goes wrong while replaying / judging what the implementation did is an OBSERVATION about the implementation
    (a tree that misbehaves in a way the harness did not foresee must be reported, not crash the check with exit 2)."""
    try:
        return fn(*a, **k)
    except framework.Infra:
        raise
    except Exception as e:  # noqa: BLE001
        import traceback
        ctx.count(f"harness-exception:{what}:{exc_enum(e)}")
        ctx.violation(case, f"the harness could not {what} ({type(e).__name__}: {str(e)[:120]}): the implementation left something the harness cannot read",
                      found_input=False, item="correspondence:harness-exception", impl={"traceback": traceback.format_exc()[-1500:]})
        return None


def run(ctx):
    rng = ctx.rng
    base = tempfile.mkdtemp(prefix="verif-c09-")
    try:
        import os
        only_random = os.environ.get("VERIF_C09_ONLY_RANDOM") == "1"      # experiments: what do the random streams find on their own?
        cases = [] if only_random else [copy.deepcopy(c) for c in CORPUS]
        # exhaustive family on the chain
        chain = [] if only_random else list(chain_cases(2 if ctx.tier == "quick" else 3))
        if ctx.tier == "quick":
            chain = rng.sample(chain, min(len(chain), 300))
        cases += chain
        ctx.count("stream:chain-exhaustive", len(chain))
        fchain = [] if only_random else list(fail_chain_cases(2 if ctx.tier == "quick" else 3))
        if ctx.tier == "quick":
            fchain = rng.sample(fchain, min(len(fchain), 160))
        cases += fchain
        ctx.count("stream:fail-chain-exhaustive", len(fchain))
        dsand = [] if only_random else list(defaults_sandwich_cases())
        if ctx.tier == "quick":
            dsand = rng.sample(dsand, min(len(dsand), 150))
        cases += dsand
        ctx.count("stream:defaults-sandwich-exhaustive", len(dsand))
        # supplied intermediates at any distance: exhaustive family on spines of depth 3 / 4, all four cache types (seeded C09-s5-B)
        deep = [] if only_random else list(c09_deep.deep_chain_cases(2 if ctx.tier == "quick" else 3, DEEP_KINDS))
        if ctx.tier == "quick":
            deep = rng.sample(deep, min(len(deep), 220))
        elif len(deep) > 9000:
            deep = rng.sample(deep, 9000)
        cases += deep
        ctx.count("stream:deep-chain-exhaustive", len(deep))
        # ... and random DAGs with a spine of 3-5 functions whose later functions share roots with the earlier ones; histories in which
        # every other call is an earlier call with another set of supplied intermediates and the same root values
        for _ in range(ctx.n(45, 1500)):
            desc = c09_deep.gen_deep_desc(rng)
            names = [f["name"] for f in desc["funcs"]]
            for _ in range(2):
                sub = [n for n in names if rng.random() < 0.6] or [names[-1]]
                cfg = copy.deepcopy(rng.choice(DEEP_KINDS))
                case = gen_history(rng, desc, sub, cfg, base, rng.randint(3, 6), rng.choice([0.0, 0.0, 0.2]), 0.0, p_toggle=0.5, prefer_last=0.8)
                if case is None:
                    ctx.skip("history-not-generated")
                    continue
                case["family"] = "deep:random"
                cases.append(case)
                ctx.count("stream:deep-random")
        # random DAGs x every cached subset x cache kinds x histories
        n_dags = ctx.n(150, 4200)
        for d in range(n_dags):
            desc = gen_desc(rng)
            names = [f["name"] for f in desc["funcs"]]
            subsets = [list(s) for k in range(0, len(names) + 1) for s in itertools.combinations(names, k)]
            for si, sub in enumerate(subsets):
                r = rng.random()
                if r < 0.45:
                    cfg = {"type": "simple"}
                elif r < 0.70:
                    cfg = {"type": "lru", "kwargs": {"shared": False}}
                elif r < 0.80:
                    cfg = {"type": "lru", "kwargs": {"shared": False, "max_size": rng.choice([1, 2])}}
                elif r < 0.93:
                    cfg = {"type": "hybrid", "kwargs": {"shared": False}}
                else:
                    cfg = {"type": "disk"}
                for _ in range(2 if len(names) <= 2 else 1):
                    p_mut = rng.choice([0.0, 0.0, 0.25, 0.4])
                    p_fail = rng.choice([0.0, 0.0, 0.2])
                    case = gen_history(rng, desc, sub, cfg, base, rng.randint(2, 6), p_mut, p_fail)
                    if case is None:
                        ctx.skip("history-not-generated")
                        continue
                    if rng.random() < 0.4:
                        # equal arguments in another representation: every occurrence of a value is built in its own way
                        # (dict / set insertion order, separately built containers), the keywords come in a random order
                        case["history"], styles = c09_values.richify_calls(rng, case["history"])
                        case["rich"] = sorted(set(styles.values()))
                    cases.append(case)
        # malformed stream: a history ending in a surplus / missing keyword or an unknown output
        for _ in range(ctx.n(40, 1200)):
            desc = gen_desc(rng)
            names = [f["name"] for f in desc["funcs"]]
            case = gen_history(rng, desc, [n for n in names if rng.random() < 0.7] or names[:1], {"type": "simple"}, base, rng.randint(1, 4), 0.0)
            if case is None:
                continue
            last = copy.deepcopy(rng.choice([s for s in case["history"] if "call" in s]))
            r = rng.random()
            if r < 0.45:
                last["call"]["kw"].append(["zz", val("zz", 0)])
            elif r < 0.9 and last["call"]["kw"]:
                last["call"]["kw"].pop(rng.randrange(len(last["call"]["kw"])))
            else:
                last["call"]["out"] = "nope"
            case["history"].append(last)
            case["malformed"] = True
            cases.append(case)
            ctx.count("stream:malformed")
        impls = [_guarded(ctx, c, "drive the pipeline through the history", run_history, c, base) or {"steps": [], "resident": None} for c in cases]
        resps = ctx.lean([model_request(c) for c in cases])
        # failures of the property itself come first (they are the concrete replays), then the correspondence with the model
        _guarded(ctx, None, "shrink and report the failing histories", report_failures, ctx,
                 [c for c, i in zip(cases, impls) if "steps" in i and first_failure(c, i) is not None], base)
        found_near = []
        for case, impl, resp in zip(cases, impls, resps):
            before = len(ctx.violations) + ctx.suppressed
            _guarded(ctx, case, "compare the history with the model", judge_history, ctx, case, impl, resp, [])
            if len(ctx.violations) + ctx.suppressed > before and ctx.cov["neighbourhood-searches"] < 8:
                # the model and the implementation disagree on something the statement does not demand: look for a real failure nearby
                ctx.count("neighbourhood-searches")
                found = _guarded(ctx, case, "search the neighbourhood of a disagreement", search_neighbourhood, ctx, case, base)
                if found is not None:
                    ctx.count("neighbourhood-search:failing-input-found")
                    found_near.append(found)
        _guarded(ctx, None, "shrink and report the failing histories", report_failures, ctx, found_near, base)
        _guarded(ctx, None, "run the map stream", run_maps, ctx, rng, base)
        _guarded(ctx, None, "run the map-session stream", c09_mapseq.stream, ctx, rng, base, cache_args, _guarded)
        _guarded(ctx, None, "run the race stream", run_race, ctx, base)
        _guarded(ctx, None, "run the extension streams", c09_ext.run_ext, ctx, base)
    finally:
        shutil.rmtree(base, ignore_errors=True)


def report_failures(ctx, pending, base):
    """Histories on which the first clause fails on the implementation: shrink, model the shrunk case, report."""
    shrunk = []
    for k, case in enumerate(pending):
        if k < 40:
            sc, si, idx = shrink(case, base)
        else:
            si = run_history(case, base)
            ff = first_failure(case, si)
            sc, idx = case, (ff[0] if ff else None)
        if idx is None:
            ctx.violation(case, "a failure of the cached pipeline did not reproduce when the history was replayed (nondeterminism)",
                          found_input=False, item="correspondence:replay")
            continue
        shrunk.append((sc, si, idx))
    if shrunk:
        mresp = ctx.lean([model_request(sc) for sc, _, _ in shrunk])
        for (sc, si, idx), mr in zip(shrunk, mresp):
            _, what = first_failure(sc, si)
            ob = si["steps"][idx]
            ctx.count("property-failure:" + ("with-mutation" if any("call" not in s for s in sc["history"]) else "calls-only"))
            ctx.violation(sc, f"{what} (step {idx} of the history)", impl={"step": idx, "cached": ob["c"], "twin": ob["u"]}, model=mr["r"])


def run_maps(ctx, rng, base):
    cases = []
    for k in range(ctx.n(60, 1500)):
        desc = repeat_inputs(mapgen.gen_case(rng, max_funcs=3, kinds=["elem", "elem", "outer", "partial", "full", "scalar"],
                                              p_bound=0.1 if k % 2 else 0.6, p_default=0.6 if k % 2 == 1 else 0.15,
                                              p_whole=0.5), rng)     # whole upstream arrays as parameters of mapped functions (key built from the LOADED array: C09-s4-B)
        if rng.random() < 0.4:
            desc = rich_map_inputs(desc, rng)
        r = rng.random()
        mode = "seq" if k % 3 else "threads"
        if mode == "threads":
            cfg = {"type": "simple"}
        elif r < 0.5:
            cfg = {"type": "simple"}
        elif r < 0.8:
            cfg = {"type": "lru", "kwargs": {"shared": False, "max_size": 4096}}
        elif r < 0.93:
            cfg = {"type": "hybrid", "kwargs": {"shared": False, "max_size": 4096}}
        else:
            cfg = {"type": "disk"}
        cases.append({"kind": "map", "desc": desc, "cache": cfg, "mode": mode})
    impls = [_guarded(ctx, c, "run the map case", run_map_case, c["desc"], c["cache"], c["mode"], base) for c in cases]
    c01 = ctx.lean([{"m": "map.run", "a": mapgen.model_request(c["desc"])} for c in cases], driver="C01")
    reqs, all_elems = [], []
    for c, m in zip(cases, c01):
        outs = {f["name"]: f["outputs"] for f in c["desc"]["funcs"]}
        elems = [{"name": n, "outs": outs[n], "kwargs": kw} for n, kw in (m["r"].get("calls") or [])] if "err" not in m["r"] else []
        all_elems.append(elems)
        reqs.append({"m": "map.elems", "a": {"elems": elems}})
    el = ctx.lean(reqs)
    for c, elems, impl, m, e in zip(cases, all_elems, impls, c01, el):
        if impl is not None:
            _guarded(ctx, c, "judge the map case", judge_map, ctx, c, elems, impl, m["r"], e["r"])


RACE_CORPUS = [
    # DF-C09-disk-put-race: the second element looks its key up while the first is inside DiskCache.put
    {"kind": "race", "cache_type": "disk", "cache_kwargs": {}, "x": [1, 1]},
    {"kind": "race", "cache_type": "disk", "cache_kwargs": {"with_lru_cache": False}, "x": [1, 1]},
    {"kind": "race", "cache_type": "disk", "cache_kwargs": {"use_cloudpickle": False}, "x": [2, 2]},
    {"kind": "race", "cache_type": "disk", "cache_kwargs": {"max_size": 1}, "x": [1, 1]},
]   # two elements only: with three, the two late elements race with each other (not a deterministic schedule)


def run_race(ctx, base):
    """Shared-cache parallel map runs under a deterministic schedule (harness/c09_race.py): a later element looks its key up
    while the first element is in the middle of `cache.put`.  Only containers that pickle inside `put` can be staged this way."""
    for case in RACE_CORPUS:
        ob = _guarded(ctx, case, "run the staged race", c09_race.run_case, case, base)
        if ob is None:
            continue
        ctx.count("race:" + case["cache_type"] + ":" + ",".join(sorted(case["cache_kwargs"])) )
        u, c = ob["u"], ob["c"]
        ctx.record(case, nontrivial="err" not in u)
        if "err" in u:
            ctx.count(f"race-twin-err:{u['err']}")
            continue
        if "err" in c:
            ctx.violation(case, f"map with a shared {case['cache_type']} cache raises {c['err']} while an element is being stored; the uncached run succeeds",
                          impl=ob)
        elif c["y"] != u["y"]:
            ctx.violation(case, f"map with a shared {case['cache_type']} cache returns other values than without while an element is being stored", impl=ob)


def replay(ctx, case):
    base = tempfile.mkdtemp(prefix="verif-c09-")
    try:
        if case.get("kind") == "race":
            print("implementation:", c09_race.run_case(case, base))
            return
        if str(case.get("kind", "")).startswith("ext:"): c09_ext.replay_ext(ctx, case); return
        if case.get("kind") == "mapseq":
            c09_mapseq.replay(ctx, case, base, cache_args)
            return
        if case.get("kind") == "map":
            print("implementation:", run_map_case(case["desc"], case["cache"], case["mode"], base))
            return
        impl = run_history(case, base)
        model = ctx.lean([model_request(case)])[0]["r"]
        for i, s in enumerate(case["history"]):
            print(f"step {i}: {s}")
            if i < len(impl.get("steps", [])):
                print("   implementation:", impl["steps"][i])
            if i < len(model["steps"]):
                print("   model cached :", model["steps"][i])
                print("   model twin   :", model["twin"][i])
    finally:
        shutil.rmtree(base, ignore_errors=True)
