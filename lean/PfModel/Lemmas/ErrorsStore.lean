import PfModel.Model.ErrorsStore
import PfModel.Lemmas.ErrorsAsync
/-! Lemmas on the store a failed run leaves (`keepSlots`, `workerSlots`, `SubStore`). -/
namespace PF.Errors
open PF PF.Map

theorem SlotSub.refl : ∀ s : Slot, SlotSub s s
  | .single _ => rfl
  | .array _ _ _ => ⟨rfl, rfl, fun _ _ h => h⟩

theorem cellLookup_filter (p : Nat → Bool) : ∀ (cells : List (Nat × Val)) (li : Nat) (v : Val),
    cellLookup (cells.filter fun c => p c.1) li = some v → cellLookup cells li = some v ∧ p li = true := by
  intro cells
  induction cells with
  | nil => intro li v h; simp [cellLookup] at h
  | cons c cs ih =>
    obtain ⟨k, w⟩ := c
    intro li v h
    simp only [List.filter_cons] at h
    by_cases hp : p k = true
    · simp only [hp, ↓reduceIte, cellLookup] at h ⊢
      by_cases hk : k = li
      · simp only [hk, ↓reduceIte] at h ⊢; subst hk; exact ⟨h, hp⟩
      · simp only [hk, ↓reduceIte] at h ⊢; exact ih li v h
    · simp only [hp, Bool.false_eq_true, ↓reduceIte] at h
      obtain ⟨h1, h2⟩ := ih li v h
      simp only [cellLookup]
      by_cases hk : k = li
      · subst hk; rw [h2] at hp; exact absurd rfl hp
      · simp only [hk, ↓reduceIte]; exact ⟨h1, h2⟩

theorem keepSlot_sub (p : Nat → Bool) (single : Bool) (s s' : Slot) (h : keepSlot p single s = some s') : SlotSub s' s := by
  cases s with
  | single v =>
    simp only [keepSlot] at h
    split at h
    · injection h with h; subst h; rfl
    · cases h
  | array sh mk cells =>
    simp only [keepSlot] at h
    injection h with h; subst h
    exact ⟨rfl, rfl, fun li v hl => (cellLookup_filter p cells li v hl).1⟩

theorem SubStore.refl (st : List (String × Slot)) : SubStore st st := fun _ s h => ⟨s, h, SlotSub.refl s⟩

theorem SubStore.mono {st full full' : List (String × Slot)} (h : SubStore st full) (hm : ∀ e ∈ full, e ∈ full') : SubStore st full' :=
  fun o s hs => let ⟨s', h1, h2⟩ := h o s hs; ⟨s', hm _ h1, h2⟩

theorem SubStore.append {a b full : List (String × Slot)} (ha : SubStore a full) (hb : SubStore b full) : SubStore (a ++ b) full :=
  fun o s hs => (List.mem_append.mp hs).elim (ha o s) (hb o s)

theorem SubStore.nil (full : List (String × Slot)) : SubStore [] full := fun _ _ h => by cases h

theorem keepSlots_sub (p : Nat → Bool) (single : Bool) (slots : List (String × Slot)) : SubStore (keepSlots p single slots) slots := by
  intro o s hs
  simp only [keepSlots] at hs
  obtain ⟨e, he, hk⟩ := List.mem_filterMap.mp hs
  obtain ⟨o', s0⟩ := e
  cases hks : keepSlot p single s0 with
  | none => simp [hks] at hk
  | some s1 =>
    simp only [hks, Option.map_some] at hk
    injection hk with hk; injection hk with h1 h2
    subst h1; subst h2
    exact ⟨s0, he, keepSlot_sub p single s0 _ hks⟩

theorem workerSlots_sub (futs : Futs) (off : Nat) (r : FuncResult) : SubStore (workerSlots futs off r) r.slots :=
  keepSlots_sub _ _ _

/-! ### the failing generation's store is part of the failure-free one -/

theorem seqGen_slots_sub (fails : Oracle) (R : Env → MFunc → M FuncResult) (env : Env) : ∀ gen rs r log slots,
    runGenWith R env gen = .ok rs → seqGen fails R env gen = .raised r log slots → SubStore slots (rs.flatMap (·.slots)) := by
  intro gen
  induction gen with
  | nil => intro rs r log slots _ h; simp [seqGen] at h
  | cons f rest ih =>
    intro rs r log slots hrun h
    rw [runGenWith_cons] at hrun
    simp only [seqGen] at h
    cases hr : R env f with
    | error e => simp [hr] at hrun
    | ok r0 =>
      simp only [hr] at hrun h
      cases hrest : runGenWith R env rest with
      | error e => simp [hrest] at hrun
      | ok rs' =>
        simp only [hrest] at hrun
        injection hrun with hrun; subst hrun
        simp only [List.flatMap_cons]
        cases hff : firstFail fails (tasksOf f r0) with
        | some tx =>
          obtain ⟨t, x⟩ := tx
          simp only [hff] at h
          injection h with _ _ h3; subst h3
          exact (keepSlots_sub _ _ _).mono fun e he => List.mem_append_left _ he
        | none =>
          simp only [hff] at h
          cases hs : seqGen fails R env rest with
          | ok a b => simp [hs] at h
          | refused e => simp [hs] at h
          | hang l => simp [hs] at h
          | raised rr log' sl =>
            simp only [hs] at h
            injection h with _ _ h3; subst h3
            refine SubStore.append ((keepSlots_sub _ _ _).mono fun e he => List.mem_append_left _ he) ?_
            exact (ih rs' rr log' sl hrest hs).mono fun e he => List.mem_append_right _ he

theorem restSlots_sub (futs : Futs) : ∀ (frs : List (MFunc × FuncResult)) (off : Nat),
    SubStore (procGen.restSlots futs frs off) (frs.flatMap (·.2.slots)) := by
  intro frs
  induction frs with
  | nil => intro off; simp only [procGen.restSlots]; exact SubStore.nil _
  | cons fr rest ih =>
    obtain ⟨f, r⟩ := fr
    intro off
    simp only [procGen.restSlots, List.flatMap_cons]
    exact SubStore.append ((workerSlots_sub futs off r).mono fun e he => List.mem_append_left _ he)
      ((ih _).mono fun e he => List.mem_append_right _ he)

theorem procGen_slots_sub (futs : Futs) : ∀ (frs : List (MFunc × FuncResult)) (off : Nat) (r : Raised) (sl : List (String × Slot)),
    procGen futs frs off = .raised r sl → SubStore sl (frs.flatMap (·.2.slots)) := by
  intro frs
  induction frs with
  | nil => intro off r sl h; simp [procGen] at h
  | cons fr rest ih =>
    obtain ⟨f, r0⟩ := fr
    intro off r sl h
    simp only [procGen] at h
    simp only [List.flatMap_cons]
    cases ha : awaitAll futs (tasksOf f r0) off with
    | hang => simp [ha] at h
    | raised t x =>
      simp only [ha] at h
      injection h with _ h2; subst h2
      exact SubStore.append ((workerSlots_sub futs off r0).mono fun e he => List.mem_append_left _ he)
        ((restSlots_sub futs rest _).mono fun e he => List.mem_append_right _ he)
    | allDone =>
      simp only [ha] at h
      cases hp : procGen futs rest (off + r0.calls.length) with
      | ok => simp [hp] at h
      | hang => simp [hp] at h
      | raised rr sl' =>
        simp only [hp] at h
        injection h with _ h2; subst h2
        exact SubStore.append ((SubStore.refl _).mono fun e he => List.mem_append_left _ he)
          ((ih _ rr sl' hp).mono fun e he => List.mem_append_right _ he)

theorem procGenA_slots_sub (futs : Futs) (ρ : List Nat) : ∀ (frs : List (MFunc × FuncResult)) (off : Nat) (r : Raised) (sl : List (String × Slot)),
    procGenA futs ρ frs off = .raised r sl → SubStore sl (frs.flatMap (·.2.slots)) := by
  intro frs
  induction frs with
  | nil => intro off r sl h; simp [procGenA] at h
  | cons fr rest ih =>
    obtain ⟨f, r0⟩ := fr
    intro off r sl h
    simp only [procGenA] at h
    simp only [List.flatMap_cons]
    cases ha : awaitGather futs ρ (tasksOf f r0) off with
    | hang => simp [ha] at h
    | raised t x =>
      simp only [ha] at h
      injection h with _ h2; subst h2
      exact SubStore.append ((workerSlots_sub futs off r0).mono fun e he => List.mem_append_left _ he)
        ((restSlots_sub futs rest _).mono fun e he => List.mem_append_right _ he)
    | allDone =>
      simp only [ha] at h
      cases hp : procGenA futs ρ rest (off + r0.calls.length) with
      | ok => simp [hp] at h
      | hang => simp [hp] at h
      | raised rr sl' =>
        simp only [hp] at h
        injection h with _ h2; subst h2
        exact SubStore.append ((SubStore.refl _).mono fun e he => List.mem_append_left _ he)
          ((ih _ rr sl' hp).mono fun e he => List.mem_append_right _ he)

theorem zip_slots_mem (gen : List MFunc) (rs : List FuncResult) : ∀ e ∈ (gen.zip rs).flatMap (·.2.slots), e ∈ rs.flatMap (·.slots) := by
  intro e he
  obtain ⟨fr, hfr, hm⟩ := List.mem_flatMap.mp he
  exact List.mem_flatMap.mpr ⟨fr.2, (List.of_mem_zip hfr).2, hm⟩

/-- per-generation fact: the slots of a raised generation are part of that generation's failure-free slots -/
def GenSlotsSub (R : Env → MFunc → M FuncResult) (G : Nat → Env → List MFunc → GenOut) : Prop :=
  ∀ g env gen rs r log slots, runGenWith R env gen = .ok rs → G g env gen = .raised r log slots → SubStore slots (rs.flatMap (·.slots))

theorem genSlotsSub_genE (mode : Mode) (fails : Oracle) (sched : Nat → List Nat) (R : Env → MFunc → M FuncResult) :
    GenSlotsSub R (fun g env gen => genE mode fails (sched g) R env gen) := by
  intro g env gen rs r log slots hrun h
  cases mode with
  | seq => exact seqGen_slots_sub fails R env gen rs r log slots hrun h
  | pool =>
    simp only [genE, poolGen, hrun] at h
    cases hp : procGen (execAll fails (genTasks (gen.zip rs)) (sched g) fun _ => none) (gen.zip rs) 0 with
    | ok => simp [hp] at h
    | hang => simp [hp] at h
    | raised rr sl =>
      simp only [hp] at h
      injection h with _ _ h3; subst h3
      exact (procGen_slots_sub _ _ _ rr sl hp).mono (zip_slots_mem gen rs)

theorem genSlotsSub_poolGenA (fails : Oracle) (sched loopo : Nat → List Nat) (R : Env → MFunc → M FuncResult) :
    GenSlotsSub R (fun g env gen => poolGenA fails (sched g) (loopo g) R env gen) := by
  intro g env gen rs r log slots hrun h
  simp only [poolGenA, hrun] at h
  cases hp : procGenA (execAll fails (genTasks (gen.zip rs)) (sched g) fun _ => none) (loopo g) (gen.zip rs) 0 with
  | ok => simp [hp] at h
  | hang => simp [hp] at h
  | raised rr sl =>
    simp only [hp] at h
    injection h with _ _ h3; subst h3
    exact (procGenA_slots_sub _ _ _ _ rr sl hp).mono (zip_slots_mem gen rs)

theorem runGensWith_store (R : Env → MFunc → M FuncResult) : ∀ (gens : List (List MFunc)) (env : Env) (rs : List FuncResult) (envF : Env),
    runGensWith R gens env = .ok (rs, envF) → envF.store = env.store ++ rs.flatMap (·.slots) := by
  intro gens
  induction gens with
  | nil => intro env rs envF h; simp [runGensWith, pure, Except.pure] at h; obtain ⟨h1, h2⟩ := h; subst h1; subst h2; simp
  | cons gen rest ih =>
    intro env rs envF h
    rw [runGensWith_cons] at h
    cases hr : runGenWith R env gen with
    | error e => simp [hr] at h
    | ok rs0 =>
      simp only [hr] at h
      cases hrest : runGensWith R rest { env with store := env.store ++ rs0.flatMap (·.slots) } with
      | error e => simp [hrest] at h
      | ok p =>
        obtain ⟨more, envF'⟩ := p
        simp only [hrest] at h
        injection h with h; injection h with h1 h2
        subst h1; subst h2
        rw [ih _ _ _ hrest]
        simp [List.flatMap_append, List.append_assoc]

/-- **the store of a raised run is part of the store of the failure-free run**, for any generation runner with the two
    per-generation facts -/
theorem runGensG_store_sub (fails : Oracle) (R : Env → MFunc → M FuncResult) (G : Nat → Env → List MFunc → GenOut)
    (hG : GenFacts fails R G) (hS : GenSlotsSub R G) :
    ∀ (gens : List (List MFunc)) (env : Env) (g g' : Nat) (r : Raised) (log : List Task) (store : List (String × Slot))
      (rsAll : List FuncResult) (envF : Env),
      runGensG G gens env g = .raised g' r log store → runGensWith R gens env = .ok (rsAll, envF) → SubStore store envF.store := by
  intro gens
  induction gens with
  | nil => intro env g g' r log store rsAll envF h; simp [runGensG] at h
  | cons gen rest ih =>
    intro env g g' r log store rsAll envF h hfull
    simp only [runGensG] at h
    rw [runGensWith_cons] at hfull
    have hfacts := hG g env gen
    cases hr : runGenWith R env gen with
    | error e => simp [hr] at hfull
    | ok rs0 =>
      simp only [hr] at hfull
      cases hrest : runGensWith R rest { env with store := env.store ++ rs0.flatMap (·.slots) } with
      | error e => simp [hrest] at hfull
      | ok p =>
        obtain ⟨more, envF'⟩ := p
        simp only [hrest] at hfull
        injection hfull with hfull; injection hfull with h1 h2
        subst h1; subst h2
        have hst := runGensWith_store R rest _ _ _ hrest
        simp only at hst
        cases hg : G g env gen with
        | refused e => simp [hg] at h
        | hang l => simp [hg] at h
        | raised r0 log0 slots =>
          simp only [hg] at h
          injection h with _ _ _ h4; subst h4
          rw [hst]
          refine SubStore.append ((SubStore.refl _).mono fun e he => ?_) ((hS g env gen rs0 r0 log0 slots hr hg).mono fun e he => ?_)
          · exact List.mem_append_left _ (List.mem_append_left _ he)
          · exact List.mem_append_left _ (List.mem_append_right _ he)
        | ok rs1 log0 =>
          rw [hg] at hfacts
          have : rs1 = rs0 := by have := hfacts.1; rw [hr] at this; injection this with this; exact this.symm
          subst this
          simp only [hg] at h
          cases hrec : runGensG G rest { env with store := env.store ++ rs1.flatMap (·.slots) } (g + 1) with
          | ok a b c => simp [hrec] at h
          | refused e => simp [hrec] at h
          | hang a b => simp [hrec] at h
          | raised g1 r1 log1 st1 =>
            simp only [hrec] at h
            injection h with _ _ _ h4; subst h4
            exact ih _ _ _ _ _ _ _ _ hrec hrest

end PF.Errors
