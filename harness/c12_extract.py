"""The small translator of DESIGN.md 3.4 for C12.

Parses `pipefunc/map/_prepare.py` and `pipefunc/map/_run_info.py` of the repository under test with `ast` and writes
`lean/PfModel/Generated/C12Facts.lean`: the calls (and `raise` statements) of `prepare_run` in source order, with the body of
`RunInfo.create` inlined where `prepare_run` calls it.  The classification of each name (validation / effect / cleanup /
neutral) is the fixed table `PF.Validate.classify` on the Lean side; `Props/C12.lean` re-proves
`validationsPrecedeEffects Generated.prepareRunCalls = true` by `decide` on every run.
"""
from __future__ import annotations

import ast
import os
from pathlib import Path

VERIF = Path(__file__).resolve().parent.parent
OUT = VERIF / "lean" / "PfModel" / "Generated" / "C12Facts.lean"


class ExtractionError(Exception):
    pass


def _dotted(node) -> str | None:
    if isinstance(node, ast.Name):
        return node.id
    if isinstance(node, ast.Attribute):
        base = _dotted(node.value)
        return f"{base}.{node.attr}" if base else None
    return None


def _find_func(tree, name, cls=None):
    body = tree.body
    if cls is not None:
        for n in body:
            if isinstance(n, ast.ClassDef) and n.name == cls:
                body = n.body
                break
        else:
            raise ExtractionError(f"class {cls} not found")
    for n in body:
        if isinstance(n, (ast.FunctionDef, ast.AsyncFunctionDef)) and n.name == name:
            return n
    raise ExtractionError(f"function {name} not found")


def _events(fn, inline_nested: bool = False, returns: bool = False, strict: bool = True, attrs: tuple = (),
            kwconst: bool = False) -> list[str]:
    """name of every call and raise in the body of `fn` (not in nested defs), in evaluation-ish = source order;
    a call's arguments come before the call itself.  `inline_nested`: the body of a nested `def` is listed where it is defined
    (it cannot run earlier); `returns`: `return` statements are listed as "return"; `strict=False`: a call of something that is
    not a dotted name is listed as "<expr>" instead of failing; `attrs`: reads of these attribute names (cached properties) are
    listed too, as dotted names; `kwconst` (round 9): a call with constant keyword arguments is listed as `name(kw=const,…)` (so that
    `self.mapspecs(ordered=False)` is not `self.mapspecs`)."""
    out = []

    def visit(node):
        if isinstance(node, (ast.FunctionDef, ast.AsyncFunctionDef)) and inline_nested:
            for stmt in node.body:
                visit(stmt)
            return
        if isinstance(node, (ast.FunctionDef, ast.AsyncFunctionDef, ast.Lambda, ast.ClassDef)):
            return
        if returns and isinstance(node, ast.Return):
            if node.value is not None:
                visit(node.value)
            out.append("return")
            return
        if isinstance(node, ast.Call):
            for a in list(node.args) + [k.value for k in node.keywords]:
                visit(a)
            visit(node.func) if not isinstance(node.func, (ast.Name, ast.Attribute)) else None
            name = _dotted(node.func)
            if name is None:
                if strict:
                    raise ExtractionError(f"call of a non-name at line {node.lineno}")
                name = "<expr>"
            if kwconst:
                kws = [f"{k.arg}={k.value.value!r}" for k in node.keywords if k.arg and isinstance(k.value, ast.Constant)]
                if kws:
                    name += "(" + ",".join(kws) + ")"
            out.append(name)
            return
        if isinstance(node, ast.Raise):
            out.append("raise")
            return
        if attrs and isinstance(node, ast.Attribute) and node.attr in attrs and isinstance(node.ctx, ast.Load):
            visit(node.value)
            out.append(_dotted(node) or "<expr>." + node.attr)
            return
        for child in ast.iter_child_nodes(node):
            visit(child)

    for stmt in fn.body:
        visit(stmt)
    return out


def _unconditional(fn, attrs: tuple = ()) -> list[str]:
    """names of the calls (and `raise`s) that EVERY execution of `fn` that reaches its end makes, in source order: the calls in
    the top-level statements of the body (and of `with` bodies), the test of a top-level `if` / `while` included, but nothing
    inside the branches of a compound statement, the later operands of `and` / `or`, the branches of a conditional expression,
    comprehensions or lambdas.  Collection stops at the first compound statement that contains a `return` (what follows runs
    only when it did not return)."""
    out = []

    def expr(node):
        if attrs and isinstance(node, (ast.ListComp, ast.SetComp, ast.DictComp, ast.GeneratorExp)):
            expr(node.generators[0].iter)        # round 9: the iterable of the FIRST `for` of a comprehension is always evaluated
            return
        if node is None or isinstance(node, (ast.Lambda, ast.ListComp, ast.SetComp, ast.DictComp, ast.GeneratorExp)):
            return
        if isinstance(node, ast.BoolOp):
            expr(node.values[0])
            return
        if isinstance(node, ast.IfExp):
            expr(node.test)
            return
        if isinstance(node, ast.Call):
            for a in list(node.args) + [k.value for k in node.keywords]:
                expr(a)
            if not isinstance(node.func, (ast.Name, ast.Attribute)):
                expr(node.func)
            out.append(_dotted(node.func) or "<expr>")
            return
        if attrs and isinstance(node, ast.Attribute) and node.attr in attrs and isinstance(node.ctx, ast.Load):
            expr(node.value)
            out.append(_dotted(node) or "<expr>." + node.attr)
            return
        for child in ast.iter_child_nodes(node):
            expr(child)

    def has_return(node):
        return any(isinstance(n, ast.Return) for n in ast.walk(node))

    def block(stmts) -> bool:
        """False when the collection has to stop"""
        for st in stmts:
            if isinstance(st, (ast.FunctionDef, ast.AsyncFunctionDef, ast.ClassDef)):
                continue
            if isinstance(st, ast.Return):
                expr(st.value)
                return False
            if isinstance(st, ast.Raise):
                out.append("raise")
                return False
            if isinstance(st, (ast.If, ast.While)):
                expr(st.test)
                if has_return(st):
                    return False
                continue
            if isinstance(st, (ast.For, ast.AsyncFor)):
                expr(st.iter)
                if has_return(st):
                    return False
                continue
            if isinstance(st, (ast.With, ast.AsyncWith)):
                for it in st.items:
                    expr(it.context_expr)
                if not block(st.body):
                    return False
                continue
            if isinstance(st, (ast.Try, ast.Match)) or (hasattr(ast, "TryStar") and isinstance(st, ast.TryStar)):
                if has_return(st):
                    return False
                continue
            expr(st)
        return True

    block(fn.body)
    return out


def extract_unconditional(repo: str) -> list[str]:
    """the calls `prepare_run` makes on EVERY path to its end, `RunInfo.create` inlined (when it is itself called unconditionally)"""
    prep = ast.parse((Path(repo) / "pipefunc" / "map" / "_prepare.py").read_text())
    info = ast.parse((Path(repo) / "pipefunc" / "map" / "_run_info.py").read_text())
    outer = _unconditional(_find_func(prep, "prepare_run"))
    if outer.count("RunInfo.create") != 1:
        raise ExtractionError("prepare_run does not call RunInfo.create unconditionally exactly once")
    inner = _unconditional(_find_func(info, "create", cls="RunInfo"))
    k = outer.index("RunInfo.create")
    return outer[:k] + inner + outer[k + 1:]


def extract(repo: str) -> list[str]:
    prep = ast.parse((Path(repo) / "pipefunc" / "map" / "_prepare.py").read_text())
    info = ast.parse((Path(repo) / "pipefunc" / "map" / "_run_info.py").read_text())
    outer = _events(_find_func(prep, "prepare_run"))
    inner = _events(_find_func(info, "create", cls="RunInfo"))
    if outer.count("RunInfo.create") != 1:
        raise ExtractionError("prepare_run does not call RunInfo.create exactly once")
    k = outer.index("RunInfo.create")
    return outer[:k] + inner + outer[k + 1:]


# round 2: the constructors and the head of `run_map` (name in Generated, file, class, function, options)
EXTRA = [
    ("runMapCalls", "pipefunc/map/_run.py", None, "run_map", {}),
    ("runMapAsyncCalls", "pipefunc/map/_run.py", None, "run_map_async", {"inline_nested": True}),
    ("pipelineInitCalls", "pipefunc/_pipeline/_base.py", "Pipeline", "__init__", {"returns": True}),
    ("pipelineAddCalls", "pipefunc/_pipeline/_base.py", "Pipeline", "add", {"returns": True}),
    ("pipelineValidateCalls", "pipefunc/_pipeline/_base.py", "Pipeline", "_validate", {"returns": True}),
    ("pipelineValidateMapspecCalls", "pipefunc/_pipeline/_base.py", "Pipeline", "_validate_mapspec", {"returns": True}),
    ("pipeFuncInitCalls", "pipefunc/_pipefunc.py", "PipeFunc", "__init__", {"returns": True}),
    ("pipeFuncValidateCalls", "pipefunc/_pipefunc.py", "PipeFunc", "_validate", {"returns": True}),
    # round 3: what is re-validated lazily after an in-place edit, and that the update methods validate and clear the caches
    ("pipelineGraphCalls", "pipefunc/_pipeline/_base.py", "Pipeline", "graph", {"returns": True, "strict": False}),
    ("pipelineTopoCalls", "pipefunc/_pipeline/_base.py", "Pipeline", "topological_generations",
     {"returns": True, "strict": False, "attrs": ("graph",)}),
    ("pipelineRunCalls", "pipefunc/_pipeline/_base.py", "Pipeline", "run", {"returns": True, "strict": False}),
    ("pipelineUpdateDefaultsCalls", "pipefunc/_pipeline/_base.py", "Pipeline", "update_defaults", {"returns": True, "strict": False}),
    ("pipelineUpdateRenamesCalls", "pipefunc/_pipeline/_base.py", "Pipeline", "update_renames", {"returns": True, "strict": False}),
    ("pipeFuncUpdateDefaultsCalls", "pipefunc/_pipefunc.py", "PipeFunc", "update_defaults", {"returns": True, "strict": False}),
    ("pipeFuncUpdateBoundCalls", "pipefunc/_pipefunc.py", "PipeFunc", "update_bound", {"returns": True, "strict": False}),
    ("pipeFuncUpdateRenamesCalls", "pipefunc/_pipefunc.py", "PipeFunc", "update_renames", {"returns": True, "strict": False}),
    ("pipeFuncClearCacheCalls", "pipefunc/_pipefunc.py", "PipeFunc", "_clear_internal_cache", {"returns": True, "strict": False}),
    ("validateCompleteInputsCalls", "pipefunc/map/_prepare.py", None, "_validate_complete_inputs",
     {"returns": True, "strict": False, "attrs": ("topological_generations",)}),
    # round 9: the CALL path — what `run` / `__call__` / `func(...)()` evaluate before `_run` invokes anything, link by link:
    # run -> mapspec_names -> mapspecs() [ordered by default] -> sorted_functions -> topological_generations (-> graph, networkx)
    ("callRunCalls", "pipefunc/_pipeline/_base.py", "Pipeline", "run",
     {"returns": True, "strict": False, "attrs": ("mapspec_names",), "kwconst": True}),
    ("callInnerRunCalls", "pipefunc/_pipeline/_base.py", "Pipeline", "_run", {"returns": True, "strict": False}),
    ("callDunderCalls", "pipefunc/_pipeline/_base.py", "Pipeline", "__call__", {"returns": True, "strict": False}),
    ("callFuncCalls", "pipefunc/_pipeline/_base.py", "Pipeline", "func", {"returns": True, "strict": False}),
    ("callAsFuncCalls", "pipefunc/_pipeline/_base.py", "_PipelineAsFunc", "__call__", {"returns": True, "strict": False}),
    ("callRootArgsCalls", "pipefunc/_pipeline/_base.py", "Pipeline", "root_args",
     {"returns": True, "strict": False, "attrs": ("node_mapping",)}),
    ("callArgCombinationsCalls", "pipefunc/_pipeline/_base.py", "Pipeline", "arg_combinations",
     {"returns": True, "strict": False, "attrs": ("node_mapping", "graph")}),
    ("callFuncDependenciesCalls", "pipefunc/_pipeline/_base.py", "Pipeline", "func_dependencies",
     {"returns": True, "strict": False, "attrs": ("node_mapping", "graph")}),
    ("callMapspecNamesCalls", "pipefunc/_pipeline/_base.py", "Pipeline", "mapspec_names",
     {"returns": True, "strict": False, "kwconst": True}),
    ("callMapspecsCalls", "pipefunc/_pipeline/_base.py", "Pipeline", "mapspecs",
     {"returns": True, "strict": False, "attrs": ("sorted_functions", "functions")}),
    ("callSortedFunctionsCalls", "pipefunc/_pipeline/_base.py", "Pipeline", "sorted_functions",
     {"returns": True, "strict": False, "attrs": ("topological_generations",)}),
    ("callNodeMappingCalls", "pipefunc/_pipeline/_base.py", "Pipeline", "node_mapping",
     {"returns": True, "strict": False, "attrs": ("graph",)}),
]

# round 9: calls and cached-property reads made on EVERY path (`_unconditional`) through the functions that carry the cycle check at
# construction: add -> _validate -> _validate_mapspec -> _autogen_mapspec_axes -> topological_generations
UNCOND = [
    ("ctorAddUncond", "pipefunc/_pipeline/_base.py", "Pipeline", "add", ()),
    ("ctorValidateUncond", "pipefunc/_pipeline/_base.py", "Pipeline", "_validate", ()),
    ("ctorValidateMapspecUncond", "pipefunc/_pipeline/_base.py", "Pipeline", "_validate_mapspec", ()),
    ("ctorAutogenUncond", "pipefunc/_pipeline/_base.py", "Pipeline", "_autogen_mapspec_axes", ("topological_generations",)),
    ("callRunUncond", "pipefunc/_pipeline/_base.py", "Pipeline", "run", ("mapspec_names",)),
    ("callSortedFunctionsUncond", "pipefunc/_pipeline/_base.py", "Pipeline", "sorted_functions", ("topological_generations",)),
    ("callTopoUncond", "pipefunc/_pipeline/_base.py", "Pipeline", "topological_generations", ("graph",)),
    ("callGraphUncond", "pipefunc/_pipeline/_base.py", "Pipeline", "graph", ()),
]


def extract_extra(repo: str) -> dict[str, tuple[list[str] | None, str]]:
    """name ↦ (calls or None, why): one list per function of `EXTRA`; a function that cannot be extracted gives None (broken tie)"""
    out = {}
    trees = {}
    for name, rel, cls, fn, opts in EXTRA:
        try:
            if rel not in trees:
                trees[rel] = ast.parse((Path(repo) / rel).read_text())
            out[name] = (_events(_find_func(trees[rel], fn, cls), **opts), "")
        except (ExtractionError, OSError, SyntaxError) as e:
            out[name] = (None, f"{type(e).__name__}: {e}")
    for name, rel, cls, fn, attrs in UNCOND:
        try:
            if rel not in trees:
                trees[rel] = ast.parse((Path(repo) / rel).read_text())
            out[name] = (_unconditional(_find_func(trees[rel], fn, cls), attrs), "")
        except (ExtractionError, OSError, SyntaxError) as e:
            out[name] = (None, f"{type(e).__name__}: {e}")
    return out


def extract_mapspecs_default(repo: str) -> list[str]:
    """round 9: the default of the keyword `ordered` of `Pipeline.mapspecs` (`mapspec_names` calls it without arguments), as `repr`"""
    tree = ast.parse((Path(repo) / "pipefunc" / "_pipeline" / "_base.py").read_text())
    fn = _find_func(tree, "mapspecs", "Pipeline")
    for a, d in zip(fn.args.kwonlyargs, fn.args.kw_defaults):
        if a.arg == "ordered" and isinstance(d, ast.Constant):
            return [repr(d.value)]
    pos = fn.args.args[len(fn.args.args) - len(fn.args.defaults):]
    for a, d in zip(pos, fn.args.defaults):
        if a.arg == "ordered" and isinstance(d, ast.Constant):
            return [repr(d.value)]
    raise ExtractionError("Pipeline.mapspecs has no constant default for `ordered`")


def _render_list(name: str, doc: str, calls: list[str] | None, why: str) -> str:
    if calls is None:
        return f"/-- extraction failed: {why} -/\ndef {name} : List String := []\n"
    items = ",\n   ".join('"' + c.replace('"', "") + '"' for c in calls)
    return f"/-- {doc} -/\ndef {name} : List String :=\n  [{items}]\n"


def render(calls: list[str] | None, why: str = "", extra: dict | None = None) -> str:
    head = ("/- GENERATED by harness/c12_extract.py from pipefunc/map/_prepare.py, _run_info.py, _run.py, pipefunc/_pipeline/_base.py and\n"
            "   pipefunc/_pipefunc.py of the repository under test.\n"
            "   Do not edit: it is rewritten on every `./check C12`. -/\n"
            "namespace PF.Generated\n\n")
    if calls is None:
        # a restructured source: the tie is broken; the empty list fails `validationsPrecedeEffects`
        body = f"/-- extraction failed: {why} -/\ndef prepareRunCalls : List String := []\n"
    else:
        items = ",\n   ".join('"' + c.replace('"', "") + '"' for c in calls)
        body = ("/-- calls and `raise`s of `prepare_run`, `RunInfo.create` inlined, in source order -/\n"
                f"def prepareRunCalls : List String :=\n  [{items}]\n")
    c, w = (extra or {}).get("prepareRunUnconditional", (None, "not extracted"))
    body += "\n" + _render_list("prepareRunUnconditional", "calls that EVERY execution of `prepare_run` reaching its end makes (top-level "
                                "statements only, `RunInfo.create` inlined), in source order", c, w)
    for name, rel, cls, fn, _ in EXTRA:
        c, w = (extra or {}).get(name, (None, "not extracted"))
        body += "\n" + _render_list(name, f"calls, `raise`s and `return`s of `{(cls + '.') if cls else ''}{fn}` ({rel}), in source order", c, w)
    for name, rel, cls, fn, _ in UNCOND:
        c, w = (extra or {}).get(name, (None, "not extracted"))
        body += "\n" + _render_list(name, f"calls and cached-property reads that EVERY execution of `{cls}.{fn}` ({rel}) reaching its end makes "
                                    "(top-level statements only), in source order", c, w)
    c, w = (extra or {}).get("callMapspecsOrderedDefault", (None, "not extracted"))
    body += "\n" + _render_list("callMapspecsOrderedDefault", "`repr` of the default of the keyword `ordered` of `Pipeline.mapspecs`", c, w)
    return head + body + "\nend PF.Generated\n"


def write(repo: str | None = None) -> tuple[bool, str]:
    repo = repo or os.environ.get("VERIF_REPO", "/repo")
    try:
        calls, why = extract(repo), ""
    except (ExtractionError, OSError, SyntaxError) as e:
        calls, why = None, f"{type(e).__name__}: {e}"
    extra = extract_extra(repo)
    try:
        extra["prepareRunUnconditional"] = (extract_unconditional(repo), "")
    except (ExtractionError, OSError, SyntaxError) as e:
        extra["prepareRunUnconditional"] = (None, f"{type(e).__name__}: {e}")
    try:
        extra["callMapspecsOrderedDefault"] = (extract_mapspecs_default(repo), "")
    except (ExtractionError, OSError, SyntaxError) as e:
        extra["callMapspecsOrderedDefault"] = (None, f"{type(e).__name__}: {e}")
    bad = [f"{n}: {w}" for n, (c, w) in extra.items() if c is None]
    text = render(calls, why, extra)
    OUT.parent.mkdir(parents=True, exist_ok=True)
    if not OUT.exists() or OUT.read_text() != text:         # keep the mtime when nothing changed: no needless rebuild
        OUT.write_text(text)
    return calls is not None and not bad, "; ".join(([why] if why else []) + bad) or ", ".join(calls or [])


if __name__ == "__main__":
    print(write())
