"""C18, stream `multi` — several LAZY pipelines in one process, called in any interleaving inside / across / outside
`construct_dag()` blocks (the model: `PF.Lazy.GSt`, lean/PfModel/Model/LazyMulti.lean, driver entry `msession`).

A case is `{"stream": "multi", "pipes": [{"funcs": [...]}, ...], "ops": [...]}` with ops
`{"op": "enter"} | {"op": "exit"} | {"op": "call", "p": i, "out": name | [names], "kw": [[k, v], ...]} | {"op": "eval", "h": k}`
(`h` counts the calls of the whole session).  Every call is well-formed (keywords = the root arguments of the requested output); no
pipeline has a cache of its own.  The property's clauses are judged on the implementation alone (graph acyclic, edges = lazy-argument
pairs, graph nodes = exactly the objects created inside the block, nothing invoked by a request, evaluate() = what the SAME pipeline
returns eagerly and alone, every evaluated call node invoked exactly once, global task graph cleared); then ids, node table, graphs,
caches, values and the call log are compared with the model.
"""
from __future__ import annotations

import collections
import copy

import pfimport  # noqa: F401
from pfimport import exc_enum

import pipegen
import terms


def _kw(k, variant=0):
    return {"s": f"kw:{k}"} if not variant else {"s": f"kw:{k}:{variant + 1}"}


def _f(name, params, outputs, defaults=(), bound=()):
    return {"name": name, "params": [[p, p] for p in params], "outputs": list(outputs), "defaults": [list(d) for d in defaults],
            "bound": [list(b) for b in bound]}


_KX = [["x", _kw("x")]]
_KX2 = [["x", _kw("x", 1)]]
_A = [_f("fa", ["x"], ["a"]), _f("fb", ["a"], ["b"])]
_AT = [_f("ga", ["x"], ["a"]), _f("gb", ["a"], ["b"])]
_D = [_f("ha", ["x"], ["a"]), _f("hc", ["a", "y"], ["c", "d"]), _f("he", ["c", "a"], ["e"])]
_KXY = [["x", _kw("x")], ["y", _kw("y")]]

CORPUS = [
    # the twin case (DF-C18-03): same outputs / root arguments, other functions, same keywords, one block
    {"stream": "multi", "pipes": [{"funcs": _A}, {"funcs": _AT}],
     "ops": [{"op": "enter"}, {"op": "call", "p": 0, "out": "b", "kw": _KX}, {"op": "call", "p": 1, "out": "b", "kw": _KX},
             {"op": "call", "p": 0, "out": "b", "kw": _KX}, {"op": "call", "p": 1, "out": "a", "kw": _KX}, {"op": "exit"},
             {"op": "eval", "h": 1}, {"op": "eval", "h": 0}, {"op": "eval", "h": 3}, {"op": "eval", "h": 2}]},
    # twins, evaluated inside the block; another keyword value makes another node
    {"stream": "multi", "pipes": [{"funcs": _AT}, {"funcs": _A}],
     "ops": [{"op": "enter"}, {"op": "call", "p": 1, "out": "b", "kw": _KX}, {"op": "eval", "h": 0},
             {"op": "call", "p": 0, "out": "b", "kw": _KX}, {"op": "call", "p": 0, "out": "b", "kw": _KX2}, {"op": "eval", "h": 1},
             {"op": "exit"}, {"op": "eval", "h": 2}, {"op": "eval", "h": 1}]},
    # three pipelines, two blocks, a call outside any block
    {"stream": "multi", "pipes": [{"funcs": _A}, {"funcs": _AT}, {"funcs": _D}],
     "ops": [{"op": "call", "p": 2, "out": "e", "kw": _KXY}, {"op": "enter"}, {"op": "call", "p": 0, "out": "a", "kw": _KX},
             {"op": "call", "p": 2, "out": "a", "kw": _KX}, {"op": "call", "p": 1, "out": "a", "kw": _KX}, {"op": "exit"},
             {"op": "eval", "h": 2}, {"op": "enter"}, {"op": "call", "p": 1, "out": "a", "kw": _KX}, {"op": "call", "p": 2, "out": ["c", "d"], "kw": _KXY},
             {"op": "call", "p": 2, "out": "e", "kw": _KXY}, {"op": "eval", "h": 0}, {"op": "exit"}, {"op": "eval", "h": 6}, {"op": "eval", "h": 4},
             {"op": "eval", "h": 5}, {"op": "eval", "h": 1}, {"op": "eval", "h": 3}]},
    # the second pipeline of the first block is the first of the second block
    {"stream": "multi", "pipes": [{"funcs": _A}, {"funcs": _AT}],
     "ops": [{"op": "enter"}, {"op": "call", "p": 0, "out": "b", "kw": _KX}, {"op": "call", "p": 1, "out": "b", "kw": _KX}, {"op": "exit"},
             {"op": "enter"}, {"op": "call", "p": 1, "out": "b", "kw": _KX}, {"op": "call", "p": 0, "out": "b", "kw": _KX},
             {"op": "call", "p": 1, "out": "b", "kw": _KX}, {"op": "exit"},
             {"op": "eval", "h": 4}, {"op": "eval", "h": 3}, {"op": "eval", "h": 2}, {"op": "eval", "h": 1}, {"op": "eval", "h": 0}]},
]


# ------------------------------------------------------------------------------------------------ generation
def _rename(desc, prefix):
    return {"funcs": [dict(copy.deepcopy(f), name=prefix + f["name"]) for f in desc["funcs"]]}


def gen_case(rng):
    """May raise when the eager pipeline refuses a generated description (the caller counts a skip)."""
    k = rng.choice([2, 2, 3])
    twin = rng.random() < 0.4
    distinct_names = rng.random() < 0.8
    descs = []
    first = pipegen.gen_dag(rng, max_funcs=rng.choice([1, 2, 3, 4, 5]))
    descs.append(first)
    tw = None
    if twin:
        tw = _rename(first, "t")
        descs.append(tw)
    while len(descs) < k:
        d = pipegen.gen_dag(rng, max_funcs=rng.choice([1, 2, 3, 4, 5]))
        descs.append(_rename(d, "pqr"[len(descs)]) if distinct_names else d)
    if twin and rng.random() < 0.5:
        rng.shuffle(descs)
    eag = [pipegen.build(d)[0] for d in descs]

    def one_call():
        i = rng.randrange(len(descs))
        d = descs[i]
        tuples = [f["outputs"] for f in d["funcs"] if len(f["outputs"]) > 1]
        out = rng.choice(tuples) if tuples and rng.random() < 0.15 else rng.choice(pipegen.all_outputs(d))
        roots = eag[i].root_args(out if isinstance(out, str) else tuple(out))
        how = rng.random()
        kw = [[r, _kw(r, 0 if how < 0.7 else rng.choice([0, 1]))] for r in roots]
        return {"op": "call", "p": i, "out": out, "kw": kw}

    ncalls = rng.randint(3, 8)
    calls = [one_call() for _ in range(ncalls)]
    if rng.random() < 0.5:                       # repeat a request (same pipeline, same keywords: shared object inside a block)
        j = rng.randrange(ncalls)
        calls[rng.randrange(ncalls)] = copy.deepcopy(calls[j])
    if twin and rng.random() < 0.7:              # the same request on the twin
        ti = [i for i, d in enumerate(descs) if d is tw]
        oi = [i for i, d in enumerate(descs) if d is first]
        if ti and oi:
            src = [c for c in calls if c["p"] in (ti[0], oi[0])]
            if src:
                c = copy.deepcopy(rng.choice(src))
                c["p"] = ti[0] if c["p"] == oi[0] else oi[0]
                calls[rng.randrange(ncalls)] = c
    layout = rng.choice(["one", "one", "two", "two", "mixed", "mixed"])
    base = []
    if layout == "one":
        base = [{"op": "enter"}] + calls + [{"op": "exit"}]
    elif layout == "two":
        cut = rng.randint(1, ncalls - 1)
        base = [{"op": "enter"}] + calls[:cut] + [{"op": "exit"}, {"op": "enter"}] + calls[cut:] + [{"op": "exit"}]
    else:
        inside = False
        for c in calls:
            if not inside and rng.random() < 0.55:
                base.append({"op": "enter"}); inside = True
            elif inside and rng.random() < 0.3:
                base.append({"op": "exit"}); inside = False
            base.append(c)
        if inside:
            base.append({"op": "exit"})
    # evaluations: each handle 0-2 times, anywhere after its call
    keyed = [(float(i), 0, op) for i, op in enumerate(base)]
    h = 0
    for i, op in enumerate(base):
        if op["op"] == "call":
            for _ in range(rng.choice([0, 1, 1, 2])):
                keyed.append((rng.uniform(i + 0.01, len(base) + 1.0), 1, {"op": "eval", "h": h}))
            h += 1
    keyed.sort(key=lambda t: (t[0], t[1]))
    ops = [op for _, _, op in keyed]
    depth = 0
    for op in ops:
        depth += (op["op"] == "enter") - (op["op"] == "exit")
    ops += [{"op": "exit"}] * depth
    return {"stream": "multi", "pipes": [{"funcs": d["funcs"]} for d in descs], "ops": ops}


def is_twin(case):
    sig = lambda fs: [(f["params"], f["outputs"], f["defaults"], f["bound"]) for f in fs]  # noqa: E731
    ps = case["pipes"]
    return any(sig(ps[i]["funcs"]) == sig(ps[j]["funcs"]) and [f["name"] for f in ps[i]["funcs"]] != [f["name"] for f in ps[j]["funcs"]]
               for i in range(len(ps)) for j in range(i + 1, len(ps)))


# ------------------------------------------------------------------------------------------------ implementation side
def run_multi(case):
    """Run one session on the real pipefunc.  Raises only when a pipeline cannot be built / the eager reference cannot be computed
    (the caller skips); never because the lazy machinery misbehaves."""
    from props import c18 as base_mod
    import networkx as nx
    from pipefunc import PipeFunc
    from pipefunc.lazy import _LazyFunction, construct_dag
    import pipefunc.lazy as pflazy

    ops = case["ops"]
    log = terms.CallLog()                        # one log for all lazy pipelines: the order of invocations across pipelines is observed
    lazies, eagers = [], []
    for pd in case["pipes"]:
        desc = {"funcs": pd["funcs"]}
        p, _ = pipegen.build(desc, lazy=True, log=log)
        pe, elog = pipegen.build(desc)
        lazies.append(p)
        eagers.append((pe, elog))
    # the eager reference of every call: the same pipeline, alone, before the session
    refs = {}
    for i, op in enumerate(ops):
        if op["op"] == "call":
            out = op["out"] if isinstance(op["out"], str) else tuple(op["out"])
            pe, elog = eagers[op["p"]]
            elog.clear()
            ev = pipegen.quiet(pe, out, **{k: terms.dec(v) for k, v in op["kw"]})
            refs[i] = {"value": terms.enc(ev), "calls": elog.names()}
    log.clear()
    base = _LazyFunction._counter
    obs, handles, table, known = [], [], {}, {}
    cm = tg = None
    block_objs, enter_count = [], 0
    crashed = None
    try:
        for opi, op in enumerate(ops):
            kind = op["op"]
            try:
                if kind == "enter":
                    cm = construct_dag()
                    tg = cm.__enter__()
                    block_objs, enter_count = [], _LazyFunction._counter - base
                    obs.append({"ok": True})
                elif kind == "exit":
                    c, cm = cm, None
                    c.__exit__(None, None, None)
                    g = tg.graph
                    o = {"nodes": sorted(n - base for n in g.nodes), "edges": sorted([a - base, b - base] for a, b in g.edges),
                         "acyclic": nx.is_directed_acyclic_graph(g), "cache": len(tg.cache.cache),
                         "created": [enter_count, _LazyFunction._counter - base],
                         "global_cleared": pflazy.task_graph() is None}
                    owners = getattr(tg, "owners", None)
                    if owners is not None:
                        ow = []
                        for who, cache in owners:
                            idx = [i for i, p in enumerate(lazies) if p is who]
                            ow.append([idx[0] if idx else -1, len(cache.cache)])
                        o["owners"] = ow
                    want = set()
                    for n, lf in tg.mapping.items():
                        for ch in base_mod.lazy_children(lf):
                            want.add((ch._id - base, n - base))
                    o["arg_edges"] = sorted(list(e) for e in want)
                    o["mapping"] = sorted(n - base for n in tg.mapping)
                    o["closure"] = sorted(i - base for i in base_mod.closure(block_objs))
                    obs.append(o)
                    tg = None
                elif kind == "call":
                    out = op["out"] if isinstance(op["out"], str) else tuple(op["out"])
                    pykw = {k: terms.dec(v) for k, v in op["kw"]}
                    before = len(log.names())
                    flags0 = {i: lf._evaluated for i, lf in known.items()}
                    try:
                        r = pipegen.quiet(lazies[op["p"]], out, **pykw)
                    except Exception as e:  # noqa: BLE001
                        handles.append(None)
                        obs.append({"err": exc_enum(e), "msg": str(e)[:200], "eager": refs[opi], "invoked": log.names()[before:]})
                        continue
                    handles.append(r)
                    o = {"eager": refs[opi], "invoked": log.names()[before:], "type": type(r).__name__,
                         "count": _LazyFunction._counter - base, "in_block": tg is not None}
                    if isinstance(r, _LazyFunction):
                        o["ret"] = {"ref": r._id - base}
                        block_objs.append(r)
                        for i, lf in base_mod.closure([r]).items():
                            table[i - base] = base_mod.node_desc(lf, base)
                            known[i] = lf
                        o["evaluated_by_request"] = sorted(i - base for i, lf in known.items() if lf._evaluated and not flags0.get(i, False))
                    else:
                        o["ret"] = {"val": terms.enc(r)}
                    obs.append(o)
                elif kind == "eval":
                    r = handles[op["h"]] if op["h"] < len(handles) else None
                    if not isinstance(r, _LazyFunction):
                        obs.append({"err": "no-object"})
                        continue
                    before = len(log.names())
                    try:
                        v = pipegen.quiet(r.evaluate)
                        obs.append({"value": terms.enc(v), "new": log.names()[before:]})
                    except Exception as e:  # noqa: BLE001
                        obs.append({"err": exc_enum(e), "msg": str(e)[:200], "new": log.names()[before:]})
                else:
                    raise AssertionError(kind)
            except AssertionError:
                raise
            except Exception as e:  # noqa: BLE001     the harness' own observation code met something unexpected in pipefunc's state
                crashed = {"op": opi, "err": exc_enum(e), "msg": str(e)[:200]}
                break
    finally:
        if cm is not None:
            try:
                cm.__exit__(None, None, None)
            except Exception:  # noqa: BLE001
                pass
        if pflazy.task_graph() is not None:
            pflazy._TASK_GRAPH = None
    evaluated_calls = sorted(lf.func.__name__ for lf in known.values() if lf._evaluated and isinstance(lf.func, PipeFunc))
    return {"ops": obs, "table": [[i, table[i]] for i in sorted(table)], "log": log.names(), "evaluated_calls": evaluated_calls,
            "crashed": crashed}


# ------------------------------------------------------------------------------------------------ model side
def model_request(case):
    return {"m": "msession", "a": {"pipes": [{"funcs": p["funcs"], "own": False, "cached": []} for p in case["pipes"]], "ops": case["ops"]}}


# ------------------------------------------------------------------------------------------------ judging
def judge(case, impl):
    """The property's clauses, on the implementation alone."""
    viol = []
    bad = viol.append
    if impl["crashed"]:
        bad(f"implementation: observing op {impl['crashed']['op']} raised {impl['crashed']['err']}: {impl['crashed']['msg']}")
        return viol
    handles = []
    for op, ob in zip(case["ops"], impl["ops"]):
        k = op["op"]
        if k == "exit":
            if not ob["acyclic"]:
                bad("implementation: the recorded task graph has a cycle")
            if any(a >= b for a, b in ob["edges"]):
                bad(f"implementation: an edge of the task graph {ob['edges']} does not go from an older to a newer node")
            if ob["edges"] != ob["arg_edges"]:
                bad(f"implementation: task graph edges {ob['edges']} are not exactly the lazy-argument pairs {ob['arg_edges']} of the recorded nodes")
            if not set(ob["closure"]) <= set(ob["nodes"]):
                bad(f"implementation: nodes {sorted(set(ob['closure']) - set(ob['nodes']))} needed by objects returned inside the construct_dag() "
                    f"block are missing from the task graph")
            if ob["nodes"] != list(range(*ob["created"])):
                bad(f"implementation: task graph nodes {ob['nodes']} are not exactly the objects created inside the block, ids "
                    f"{ob['created'][0]}..{ob['created'][1] - 1}")
            if ob["mapping"] != ob["nodes"]:
                bad(f"implementation: TaskGraph.mapping {ob['mapping']} does not list the graph's nodes {ob['nodes']}")
            if not ob["global_cleared"]:
                bad("implementation: the global task graph is still set after the construct_dag() block")
        elif k == "call":
            handles.append(ob)
            if "err" in ob:
                bad(f"implementation: a well-formed lazy call on pipeline {op['p']} raised {ob['err']}: {ob.get('msg')}")
                return viol
            if ob["invoked"]:
                bad(f"implementation: functions {ob['invoked']} were invoked by the lazy call itself, before evaluate()")
            elif ob.get("evaluated_by_request"):
                bad(f"implementation: nodes {ob['evaluated_by_request']} were evaluated by the lazy call itself, before evaluate()")
            if ob["type"] != "_LazyFunction":
                bad(f"implementation: lazy pipeline {op['p']} returned a {ob['type']}, not a deferred object")
                return viol
        elif k == "eval":
            h = handles[op["h"]]
            if "err" in ob:
                bad(f"implementation: evaluate() raised {ob['err']}: {ob.get('msg')}")
                return viol
            if ob["value"] != h["eager"]["value"]:
                bad(f"implementation: evaluate() of an object of pipeline {case['ops'][_call_index(case, op['h'])]['p']} differs from what the same "
                    f"pipeline returns eagerly and alone (cross-talk between pipelines?)")
            if not set(ob["new"]) <= set(h["eager"]["calls"]):
                bad(f"implementation: evaluate() invoked {sorted(set(ob['new']) - set(h['eager']['calls']))}, which the eager call of the same pipeline does not need")
    if sorted(impl["log"]) != impl["evaluated_calls"]:
        bad(f"implementation: the session invoked {sorted(impl['log'])} but the evaluated call nodes are those of {impl['evaluated_calls']}: "
            f"each evaluated node's function must run exactly once")
    return viol


def _call_index(case, h):
    n = -1
    for i, op in enumerate(case["ops"]):
        if op["op"] == "call":
            n += 1
            if n == h:
                return i
    return -1


def compare(case, impl, model):
    diffs = []
    names = []
    for i, (op, a, b) in enumerate(zip(case["ops"], impl["ops"], model["ops"])):
        k = op["op"]
        if k == "exit":
            if a["nodes"] != sorted(b["nodes"]):
                diffs.append(f"op {i}: graph nodes {a['nodes']} vs model {sorted(b['nodes'])}")
            me = sorted(list(e) for e in set(map(tuple, b["edges"])))
            if a["edges"] != me:
                diffs.append(f"op {i}: graph edges {a['edges']} vs model {me}")
            if a["cache"] != b["cache"]:
                diffs.append(f"op {i}: the task graph's cache holds {a['cache']} entries, model {b['cache']}")
            if "owners" in a and a["owners"] != [list(x) for x in b["owners"]]:
                diffs.append(f"op {i}: the block's pipelines and their cache sizes {a['owners']} vs model {b['owners']}")
        elif k == "call":
            if "err" in b:
                diffs.append(f"op {i}: call accepted; model: {b['err']}")
                break
            if a["ret"] != b["ret"]:
                diffs.append(f"op {i}: returned {a['ret']} vs model {b['ret']}")
            if a["count"] != b["count"]:
                diffs.append(f"op {i}: {a['count']} objects created so far vs model {b['count']}")
            if b.get("den") != a["eager"]["value"]:
                diffs.append(f"op {i}: the model's denotation of the returned object is not the eager value of the same pipeline")
        elif k == "eval":
            if "err" in b:
                diffs.append(f"op {i}: evaluate returns; model raises {b['err']}")
                break
            names += a["new"]
            if a["value"] != b["value"]:
                diffs.append(f"op {i}: evaluate() value differs from the model")
            if names != b["log"]:
                diffs.append(f"op {i}: call log {names} vs model {b['log']}")
    mt = dict((i, n) for i, n in model["table"])
    for i, n in impl["table"]:
        if mt.get(i) != n:
            diffs.append(f"node {i}: {n} vs model {mt.get(i)}")
    return diffs


def _counters(ctx, case, impl):
    """distribution counters; returns whether two pipelines were called inside one block"""
    if is_twin(case):
        ctx.count("multi:twin-sessions")
    blocks, two = 0, False
    cur = None
    for op, ob in zip(case["ops"], impl["ops"]):
        k = op["op"]
        if k == "enter":
            cur = []
        elif k == "exit":
            blocks += 1
            ctx.count(f"multi:pipelines-per-block:{len(set(cur or []))}")
            ctx.count(f"multi:calls-per-block:{len(cur or [])}")
            two = two or len(set(cur or [])) >= 2
            if "edges" in ob:
                ctx.count("multi:graph-edges", len(ob["edges"]))
            cur = None
        elif k == "call":
            if cur is None:
                ctx.count("multi:calls-outside-block")
            else:
                cur.append(op["p"])
        elif k == "eval" and "value" in ob:
            ctx.count("multi:evaluations")
    ctx.count(f"multi:blocks:{blocks}")
    ids = [o["ret"]["ref"] for o in impl["ops"] if "ret" in o and "ref" in o["ret"]]
    if len(ids) != len(set(ids)):
        ctx.count("multi:shared-object-sessions")
    return two


def check_cases(ctx, cases):
    from props import c18 as base_mod
    todo, impls = [], []
    for c in cases:
        try:
            impl = run_multi(c)
        except AssertionError:
            raise
        except Exception as e:  # noqa: BLE001    the eager pipeline refused the description / the reference call (C02's business)
            ctx.count(f"multi:generator-skip:{exc_enum(e)}")
            ctx.skip(f"multi: construction / eager reference: {exc_enum(e)}")
            continue
        todo.append(c)
        impls.append(impl)
    outs = ctx.lean([model_request(c) for c in todo])
    for c, impl, resp in zip(todo, impls, outs):
        r = resp["r"]
        model = base_mod.model_session(r)
        for o in model["ops"]:
            if "spec" in o and o["spec"] is not None and o.get("den") != o["spec"]:
                raise AssertionError("multi: model denotation and specification disagree (extraction bug?)")
        if not all(r.get("wf", [])):
            raise AssertionError("multi: a generated pipeline does not satisfy the theorems' well-formedness hypothesis (generator bug?)")
        ctx.record(c, _counters(ctx, c, impl))
        viol = judge(c, impl)
        for w in viol[:2]:
            ctx.violation(c, w, impl=impl, model=model)
        if not viol:
            diffs = compare(c, impl, model)
            if diffs:
                ctx.violation(c, "lazy multi-pipeline session differs from the model: " + diffs[0], found_input=False,
                              item="correspondence:multi-session", impl=impl, model=model)


def check(ctx, rng, n):
    cases = [copy.deepcopy(c) for c in CORPUS]
    for _ in range(n):
        try:
            cases.append(gen_case(rng))
        except AssertionError:
            raise
        except Exception as e:  # noqa: BLE001
            ctx.count(f"multi:generator-skip:{exc_enum(e)}")
            ctx.skip(f"multi generator: {exc_enum(e)}")
    check_cases(ctx, cases)


def replay_one(ctx, case):
    check_cases(ctx, [case])
    for v in ctx.violations:
        print("violation:", v["what"], "| implementation:", v["impl"], "| expected:", v["model"])
    if not ctx.violations:
        print("the case passes:", case)
