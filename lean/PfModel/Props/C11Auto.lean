import PfModel.Lemmas.SubPipeAuto
import PfModel.Props.C01Total
/-!
C11, round 3 — clause (a) for `auto_subpipeline=True` WITHOUT `output_names` (`Pipeline.subpipeline(inputs)`,
`map(inputs, auto_subpipeline=True)`): everything downstream of a provided name is requested.  `C11_downstream` (round 2) describes an
ACCEPTED request; here the request is decided totally, in the user's terms (`LackingFrom`, `NeededFnFrom` over the full pipeline).
-/
namespace PF.C11
open PF PF.Sub

/-- **`subpipeline(inputs)` decided totally** (any function type).  Either some provided name is no node of the graph — neither an
    output nor a parameter anything takes — and the answer is `KeyError` for it; or, `out` being exactly the functions downstream of
    a provided name: the request is accepted iff nothing is lacking (every non-bound parameter of a function needed from `out` is
    provided, produced by some function, or defaulted by a needed function) and the partial pipeline is exactly the functions needed
    from `out`; otherwise it is rejected with a non-empty list consisting of exactly the lacking names. -/
theorem C11_auto_total {α} (nd : α → Sub.Node) (fs : List α) (inp : List String) :
    (∃ n ∈ inp, prodIdx nd fs n = none ∧ (rootConsumers nd fs n).isEmpty = true ∧
      subpipeline nd fs (some inp) none = .error (.unknown n)) ∨
    ∃ out, (∀ j, j ∈ out ↔ ∃ n ∈ inp, Downstream nd fs n j) ∧
      (((∀ p, ¬ LackingFrom nd fs inp out p) ∧
          ∃ sub, subpipeline nd fs (some inp) none = .ok sub ∧ ∀ f, f ∈ sub ↔ NeededFnFrom nd fs inp out f) ∨
       ((∃ p, LackingFrom nd fs inp out p) ∧
          ∃ ms, subpipeline nd fs (some inp) none = .error (.missing ms) ∧ ms ≠ [] ∧ ∀ p, p ∈ ms ↔ LackingFrom nd fs inp out p)) :=
  auto_total nd fs inp

/-- **`map(inputs, auto_subpipeline=True)` decided**: the three cases of `C11_auto_total`; in the accepted case none of the partial
    pipeline's inputs is missing and the run succeeds whenever the request is a valid map request of the partial pipeline
    (`Conforms`, C01) — as in `C11_map_succeeds`; in the other two the selection refuses before the run starts. -/
theorem C11_map_auto (fs : List Map.MFunc) (inputs : List (String × Val)) (ui : List (String × List Nat)) :
    (∃ n ∈ akeys inputs, prodIdx mfuncNode fs n = none ∧ (rootConsumers mfuncNode fs n).isEmpty = true ∧
      mapSub fs inputs ui none true = .error (.sub (.unknown n))) ∨
    ∃ out, (∀ j, j ∈ out ↔ ∃ n ∈ akeys inputs, Downstream mfuncNode fs n j) ∧
      (((∀ p, ¬ LackingFrom mfuncNode fs (akeys inputs) out p) ∧
          ∃ sub, prepare fs inputs none true = .ok sub ∧ (∀ f, f ∈ sub ↔ NeededFnFrom mfuncNode fs (akeys inputs) out f) ∧
            C01.inputsComplete sub inputs = true ∧
            (C01.Conforms sub inputs ui = true → ∃ r, mapSub fs inputs ui none true = .ok (sub, r))) ∨
       ((∃ p, LackingFrom mfuncNode fs (akeys inputs) out p) ∧
          ∃ ms, mapSub fs inputs ui none true = .error (.sub (.missing ms)) ∧ ms ≠ [] ∧
            ∀ p, p ∈ ms ↔ LackingFrom mfuncNode fs (akeys inputs) out p)) := by
  rcases auto_total mfuncNode fs (akeys inputs) with ⟨n, hn, h1, h2, he⟩ | ⟨out, hout, hA | hB⟩
  · exact Or.inl ⟨n, hn, h1, h2, by simp [mapSub, mapWith, prepare, he]⟩
  · right
    refine ⟨out, hout, Or.inl ⟨hA.1, ?_⟩⟩
    obtain ⟨sub, hsub, hmem⟩ := hA.2
    have hprep : prepare fs inputs none true = .ok sub := by simp [prepare, hsub]
    have hroots := (Validate.prepare_ok fs inputs none true sub (by simp) hprep).2
    refine ⟨sub, hprep, hmem, ?_, ?_⟩
    · unfold C01.inputsComplete
      rw [List.all_eq_true]
      intro p hp
      rcases hroots p hp with h | h <;> simp [h]
    · intro hconf
      obtain ⟨r, hr⟩ := C01.never_refused_with Map.opArray sub inputs ui hconf
      exact ⟨r, by simp [mapSub, mapWith, hprep, hr]⟩
  · right
    obtain ⟨hp, ms, he, hne, hiff⟩ := hB
    exact ⟨out, hout, Or.inr ⟨hp, ms, by simp [mapSub, mapWith, prepare, he], hne, hiff⟩⟩

-- all three cases occur: `q` is no node; downstream of `y` is `g` (accepted); downstream of `k` are `f, g`, and `f` lacks `x`
example : (match subpipeline funcNode [fK, fF, fG, fH] (some ["q"]) none with
    | .error (.unknown n) => some n | _ => none) = some "q" := by decide
example : (subpipeline funcNode [fK, fF, fG, fH] (some ["y"]) none).toOption.map (·.map (·.name)) = some ["g"] := by decide
example : (match subpipeline funcNode [fK, fF, fG, fH] (some ["k"]) none with
    | .error (.missing ms) => some ms | _ => none) = some ["x"] := by decide

end PF.C11
