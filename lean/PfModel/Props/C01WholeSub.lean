import PfModel.Props.C01Whole
import PfModel.Props.C01Outputs
import PfModel.Props.C11
/-!
C01 — `map(output_names=S)`: the link to C11 that `C01_output_names` left to the reader ("that `sub` is exactly the functions needed
for `S` is `C11_kept_eq_needed`, not re-proved here"), now a theorem over the SAME `Sub.mapSub`, together with the whole-run clauses of
`Props/C01Whole.lean` for the partial run.
-/
namespace PF.C01
open PF PF.Map

/-- **`map(output_names=S)` runs, returns and stores exactly what is needed for `S`.**  Whenever the model of
    `Pipeline.map(inputs, output_names=S)` answers with the partial pipeline `sub` and the result `r`:
    (1) `sub` consists of exactly the functions of `fs` needed for `S` given the input names (`C11.NeededFor`: the producers of `S`
    and, transitively, of every non-bound parameter that is not an input);
    (2) a name is returned iff it is an output of a needed function;
    (3) the store reads back as the returned dictionary (`C01_stored_eq_returned` on the partial run);
    (4) every needed function is denoted in the partial run (`C01_run_denotes`, shapes and masks of the partial run's `RunInfo`). -/
theorem C01_output_names_needed (fs : List MFunc) (inputs : List (String × Val)) (ui : List (String × List Nat)) (S : List String)
    (auto : Bool) (sub : List MFunc) (r : MapResult) (h : Sub.mapSub fs inputs ui (some S) auto = .ok (sub, r)) :
    (∀ f, f ∈ sub ↔ ∃ j, C11.NeededFor Sub.mfuncNode fs (some (akeys inputs)) S j ∧ fs[j]? = some f) ∧
    (∀ o, o ∈ akeys r.outputs ↔ ∃ j f, C11.NeededFor Sub.mfuncNode fs (some (akeys inputs)) S j ∧ fs[j]? = some f ∧ o ∈ f.outputs) ∧
    r.stored = r.outputs ∧
    (∀ j f, C11.NeededFor Sub.mfuncNode fs (some (akeys inputs)) S j → fs[j]? = some f →
      ∃ env outs, env.inputs = inputs ∧ (∃ suf, r.outputs = slotVals env.store ++ suf) ∧
        FuncDenotes sub r.shapes r.masks env f outs ∧ ∀ p ∈ outs, p ∈ r.outputs ∧ p ∈ r.stored) := by
  obtain ⟨hrun, hnames, _, _, _⟩ := C01_output_names opArray fs inputs ui S auto sub r h
  have hrun' : runMap sub inputs ui = .ok r := hrun
  have hsub : Sub.subpipeline Sub.mfuncNode fs (some (akeys inputs)) (some S) = .ok sub := by
    unfold Sub.mapSub Sub.mapWith at h
    split at h
    · cases h
    · next sub' hprep =>
      split at h
      · cases h
      · cases h
        simpa [Sub.prepare] using hprep
  obtain ⟨hkept, _, _⟩ := C11.C11_kept_eq_needed Sub.mfuncNode fs (some (akeys inputs)) S sub hsub
  refine ⟨hkept, ?_, C01_stored_eq_returned sub inputs ui r hrun', ?_⟩
  · intro o
    rw [hnames o]
    constructor
    · rintro ⟨f, hf, ho⟩
      obtain ⟨j, hj, hfj⟩ := (hkept f).mp hf
      exact ⟨j, f, hj, hfj, ho⟩
    · rintro ⟨j, f, hj, hfj, ho⟩
      exact ⟨f, (hkept f).mpr ⟨j, hj, hfj⟩, ho⟩
  · intro j f hj hfj
    exact C01_run_denotes sub inputs ui r hrun' f ((hkept f).mpr ⟨j, hj, hfj⟩)

/-! ### non-vacuity: `x[i] -> y[i]`, `y -> s`, `x[i] -> t[i]` (an unrelated branch); `output_names = {"s"}` -/

section Examples
open WholeEx
private def gY : MFunc := mf "f" ["x"] ["y"] (some ⟨[⟨"x", [some "i"]⟩], [⟨"y", [some "i"]⟩]⟩)
private def gS : MFunc := mf "h" ["y"] ["s"] none
private def gT : MFunc := mf "g" ["x"] ["t"] (some ⟨[⟨"x", [some "i"]⟩], [⟨"t", [some "i"]⟩]⟩)
private def inp : List (String × Val) := [("x", .arr [2] (ints 2))]

/-- the hypothesis holds with a proper partial pipeline (`g` dropped, `y` returned although not requested) -/
example : (Sub.mapSub [gS, gT, gY] inp [] (some ["s"]) false).toOption.map (fun p => (p.1.map (·.name), akeys p.2.outputs)) =
    some (["h", "f"], ["y", "s"]) := by decide

example : ∃ sub r, Sub.mapSub [gS, gT, gY] inp [] (some ["s"]) false = .ok (sub, r) ∧ r.stored = r.outputs := by
  cases hm : Sub.mapSub [gS, gT, gY] inp [] (some ["s"]) false with
  | error e =>
    have : (Sub.mapSub [gS, gT, gY] inp [] (some ["s"]) false).toOption.isSome = true := by decide
    rw [hm] at this; cases this
  | ok p => exact ⟨p.1, p.2, rfl, (C01_output_names_needed _ _ _ _ _ p.1 p.2 hm).2.2.1⟩
end Examples

end PF.C01
