#!/bin/sh
# tools/seed_pipeline.sh CXX TAG : confirm both delivered changes of /tmp/seed/out/TAG (demo + pinned suite), store them under seeded/,
# and run the registered quick check of CXX against each (scratch worktree). Log: /tmp/seed/pipe_TAG.log
pid=$1; tag=$2
cd "$(dirname "$0")/.." || exit 2
{
  for m in A B; do tools/confirm_seed.sh "$pid" "$tag" "$m"; done
  tools/seed_matrix.py "$pid-$tag" | grep "$pid-$tag"
} > /tmp/seed/pipe_$tag.log 2>&1
