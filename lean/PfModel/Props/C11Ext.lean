import PfModel.Props.C11
import PfModel.Props.C02Needed
import PfModel.Lemmas.SubPipeFuel
import PfModel.Lemmas.SubPipeOnce
/-!
C11, extension (round 2): the worklist never runs out of fuel (so `C11_reject` needs no hypothesis about it); the request
without `output_names` keeps exactly what lies downstream of the provided names (and what that needs); `run` with
intermediates invokes EXACTLY the needed functions, each once.
-/
namespace PF.C11
open PF PF.Sub PF.Pipe

/-- **The worklist's fuel always suffices**: the model of `subpipeline` never answers "out of fuel", for any pipeline and any
    request (the number of pops is bounded by `|start| + Σ in-degrees`, `fuelFor` exceeds it). -/
theorem C11_never_out_of_fuel {α} (nd : α → Sub.Node) (fs : List α) (I S : Option (List String)) :
    subpipeline nd fs I S ≠ .error .fuel := subpipeline_ne_fuel nd fs I S

/-- **Rejection names what is missing, and only then — without any hypothesis on the worklist.**  For requested outputs
    that exist there is a set `K` of positions, exactly the needed ones, such that the request is accepted (returning the
    functions at `K`) iff no root argument of the needed functions is missing; otherwise it is rejected with an error that
    lists exactly the missing root arguments.  (Strengthens `C11_reject`: its hypotheses `hS`, `hK` are discharged.) -/
theorem C11_reject_total {α} (nd : α → Sub.Node) (fs : List α) (inp S : List String)
    (hS : ∀ o ∈ S, (prodIdx nd fs o).isSome) :
    ∃ K, (∀ j, j ∈ K ↔ NeededFor nd fs (some inp) S j) ∧
    (((∀ r, ¬ MissingRoot nd (keepFrom K 0 fs) inp r) ∧ subpipeline nd fs (some inp) (some S) = .ok (keepFrom K 0 fs)) ∨
     ((∃ r, MissingRoot nd (keepFrom K 0 fs) inp r) ∧
       ∃ ms, subpipeline nd fs (some inp) (some S) = .error (.missing ms) ∧ ms ≠ [] ∧
         ∀ r, r ∈ ms ↔ MissingRoot nd (keepFrom K 0 fs) inp r)) := by
  have hout := C11_outputs_known nd fs (some inp) S hS
  obtain ⟨K, hK⟩ := reachSet_preds_total nd fs (cutOf (some inp)) (S.filterMap (prodIdx nd fs))
    (outNodes_lt nd fs (some inp) (some S) _ hout)
  exact ⟨K, fun j => reachSet_iff _ _ _ K hK j, C11_reject nd fs inp S K hout hK⟩

/-- **`output_names=None`** (`subpipeline(inputs)`, `map(auto_subpipeline=True)` without `output_names`): the requested
    nodes are exactly the functions downstream of a provided name; the partial pipeline consists of exactly those and what
    they need over edges that are not cut; and none of its root arguments is missing. -/
theorem C11_downstream {α} (nd : α → Sub.Node) (fs : List α) (inp : List String) (sub : List α)
    (h : subpipeline nd fs (some inp) none = .ok sub) :
    ∃ out, (∀ j, j ∈ out ↔ ∃ n ∈ inp, Downstream nd fs n j) ∧
      (∀ f, f ∈ sub ↔ ∃ j, Sub.Needed nd fs (some inp) out j ∧ fs[j]? = some f) ∧
      (∀ r, ¬ MissingRoot nd sub inp r) := by
  unfold subpipeline at h
  simp only [Option.isNone_some, Bool.false_and, Bool.false_eq_true, ↓reduceIte] at h
  split at h
  · cases h
  · next out hout =>
    split at h
    · cases h
    · next K hK =>
      refine ⟨out, outNodes_none_iff nd fs inp out hout, ?_⟩
      simp only [checkRoots] at h
      split at h
      · next hempty =>
        cases h
        refine ⟨?_, ?_⟩
        · intro f
          rw [mem_keepFrom]
          simp only [Nat.zero_add, List.contains_eq_mem, decide_eq_true_eq]
          constructor
          · rintro ⟨j, hj, hf⟩; exact ⟨j, (reachSet_iff _ _ _ K hK j).mp hj, hf⟩
          · rintro ⟨j, hj, hf⟩; exact ⟨j, (reachSet_iff _ _ _ K hK j).mpr hj, hf⟩
        · intro r hr
          rw [List.isEmpty_iff] at hempty
          have := (mem_missingRoots nd _ _ r).mpr hr
          rw [hempty] at this
          cases this
      · cases h

/-- a function needed in the sense of C11 (position reachable over uncut edges) is needed in the sense of C02 -/
theorem C11_needed_implies_C02_needed (fs : List Func) (kw : List (String × Val)) (o : String) (hko : alookup kw o = none) :
    ∀ j, NeededFor funcNode fs (some (akeys kw)) [o] j → ∀ f, fs[j]? = some f → C02.neededF fs kw o f := by
  intro j hj
  unfold NeededFor Sub.Needed at hj
  induction hj with
  | base j hj =>
    intro f hf
    have hp : prodIdx funcNode fs o = some j := by
      simp only [List.filterMap_cons, List.filterMap_nil] at hj
      split at hj
      · cases hj
      · next b hb => simp only [List.mem_singleton] at hj; subst hj; exact hb
    exact C02.C02_needed_root fs kw o f hko (by rw [producer_of_prodIdx fs o j hp]; exact hf)
  | step i j _ hj ih =>
    intro f hf
    unfold predsIdx at hj
    split at hj
    · cases hj
    · next fi hfi =>
      obtain ⟨p, hp, hpj⟩ := List.mem_filterMap.mp hj
      split at hpj
      · cases hpj
      · next hcut =>
        obtain ⟨orig, hpar, hb⟩ := (mem_deps fi p).mp hp
        have hnk : p ∉ akeys kw := by simpa [cutOf] using hcut
        exact C02.C02_needed_step fs kw o fi f p orig (ih fi hfi) hpar hb ((alookup_none_iff kw p).mpr hnk)
          (by rw [producer_of_prodIdx fs p j hpj]; exact hf)

/-- **`run` with intermediates invokes EXACTLY the needed functions, each once.**  For a well-formed pipeline (unique names
    and outputs, acyclic) a successful `pipeline.run(o, kwargs=I-values)` calls a function iff it is needed for `o` given the
    provided names — nothing behind a provided name, nothing of the cone skipped — and no function twice.
    (Strengthens the call-log clause of `C11_run_only_needed` from ⊆ to =.) -/
theorem C11_run_exactly_needed (fs : List Func) (kw : List (String × Val)) (rank : String → Nat) (hw : WFp fs rank)
    (n : Nat) (o : String) (v : Val) (s' : St) (hko : alookup kw o = none) (h : run fs kw n o ⟨kw, [], []⟩ = .ok (v, s')) :
    (∀ nm, nm ∈ s'.calls ↔ ∃ j f, NeededFor funcNode fs (some (akeys kw)) [o] j ∧ fs[j]? = some f ∧ f.name = nm) ∧
    s'.calls.Nodup := by
  refine ⟨?_, (C02.C02_each_once_deps_first fs kw rank hw n o v s' h).1⟩
  intro nm
  constructor
  · intro hnm
    have := run_calls fs kw ([o].filterMap (prodIdx funcNode fs)) n o ⟨kw, [], []⟩ v s'
      (fun j hj => Reach.base j (by simp [hj])) h nm hnm
    rcases this with hn | hn
    · cases hn
    · exact hn
  · rintro ⟨j, f, hj, hf, hname⟩
    exact (C02.C02_exactly_needed fs kw rank hw n o v s' h nm).mpr
      ⟨f, C11_needed_implies_C02_needed fs kw o hko j hj f hf, hname⟩

/-- **Every needed function is invoked, exactly once per index** (`map(output_names=S)` / `auto_subpipeline`).  A successful
    run consists of exactly one function-run per function of the partial pipeline (`rs`, as many as kept functions, the call
    log being their concatenation); every NEEDED function has its run, on the run's inputs; all calls of that run are calls
    of that function and are in the call log; a function that runs on whole values is called exactly once, a mapped function
    exactly once per external index (`prod` of the external part of its output shape) — with `C01_once_per_index` in
    row-major order on the arguments selected at that index.  Together with `C11_map` (calls ⊆ needed): invoked = needed. -/
theorem C11_map_invoked (fs : List Map.MFunc) (inputs : List (String × Val)) (ui : List (String × List Nat)) (S : List String)
    (auto : Bool) (sub : List Map.MFunc) (r : Map.MapResult) (h : mapSub fs inputs ui (some S) auto = .ok (sub, r)) :
    ∃ rs : List Map.FuncResult, r.calls = rs.flatMap (·.calls) ∧ rs.length = sub.length ∧
      ∀ j f, NeededFor mfuncNode fs (some (akeys inputs)) S j → fs[j]? = some f →
        ∃ e fr, fr ∈ rs ∧ e.inputs = inputs ∧ Map.runFuncWith Map.opArray sub r.shapes r.masks e f = .ok fr ∧
          (∀ c ∈ fr.calls, c ∈ r.calls ∧ c.name = f.name) ∧
          ((f.mapspec = none ∨ ∃ ms, f.mapspec = some ms ∧ ms.inputs.isEmpty = true) → fr.calls.length = 1) ∧
          (∀ ms o sh mk, f.mapspec = some ms → ms.inputs.isEmpty = false → f.outputs.head? = some o →
            alookup r.shapes o = some sh → alookup r.masks o = some mk → fr.calls.length = prod (extOf mk sh)) := by
  have hkept := (C11_map fs inputs ui S auto sub r h).2.1
  unfold mapSub mapWith at h
  split at h
  · cases h
  · next sub' hprep =>
    split at h
    · cases h
    · next r' hrun =>
      cases h
      obtain ⟨rs, hc, _, hlen, hall⟩ := runMapWith_each Map.opArray sub inputs ui r hrun
      refine ⟨rs, hc, hlen, ?_⟩
      intro j f hj hf
      obtain ⟨e, fr, hfr, he, hR⟩ := hall f ((hkept f).mpr ⟨j, hj, hf⟩)
      obtain ⟨c1, c2, c3⟩ := runFuncWith_count Map.opArray sub r.shapes r.masks e f fr hR
      refine ⟨e, fr, hfr, he, hR, ?_, c2, c3⟩
      intro c hcm
      refine ⟨?_, c1 c hcm⟩
      rw [hc, List.mem_flatMap]
      exact ⟨fr, hfr, hcm⟩

/-! ### non-vacuity -/

private def mf (name : String) (params outputs : List String) (ms : Option Map.MSpec) : Map.MFunc :=
  { name := name, params := params.map fun p => (p, p), outputs := outputs, mapspec := ms, ret := none, internal := none,
    defaults := [], bound := [] }
/-- nullary `k()`, mapped `f(x[i], k) → y[i]`, reduction `g(y) → z`, unrelated `h(w) → v` -/
private def mp : List Map.MFunc :=
  [mf "k" [] ["k"] none, mf "f" ["x", "k"] ["y"] (some ⟨[⟨"x", [some "i"]⟩], [⟨"y", [some "i"]⟩]⟩), mf "g" ["y"] ["z"] none,
   mf "h" ["w"] ["v"] none]
-- `C11_map_invoked`: requesting `z` from `x` keeps `k, f, g` and calls `k` once, `f` once per element of `x`, `g` once
example : (mapSub mp [("x", .arr [2] [.int 0, .int 1])] [] (some ["z"]) false).toOption.map
    (fun p => (p.1.map (·.name), p.2.calls.map (·.name))) = some (["k", "f", "g"], ["k", "f", "f", "g"]) := by decide

-- `C11_reject_total`: both branches occur (accepted with an interior cut; rejected naming `x`)
example : ∀ o ∈ ["z"], (prodIdx funcNode [fK, fF, fG, fH] o).isSome := by decide
example : (subpipeline funcNode [fK, fF, fG, fH] (some ["y"]) (some ["z"])).toOption.map (·.map (·.name)) = some ["g"] := by decide
example : (match subpipeline funcNode [fK, fF, fG, fH] (some ["d"]) (some ["z"]) with
    | .error (.missing ms) => some ms | _ => none) = some ["x"] := by decide
-- `C11_downstream`: downstream of `y` is `g` only; downstream of `x` is `f, g`, which also needs the nullary `k`
example : (subpipeline funcNode [fK, fF, fG, fH] (some ["y"]) none).toOption.map (·.map (·.name)) = some ["g"] := by decide
example : (subpipeline funcNode [fK, fF, fG, fH] (some ["x"]) none).toOption.map (·.map (·.name)) = some ["k", "f", "g"] := by decide
-- `C11_run_exactly_needed`: a well-formed pipeline and a successful run with an intermediate supplied
example : WFp [fK, fF, fG, fH] (fun nm => if nm = "k" then 0 else if nm = "f" then 1 else if nm = "g" then 2 else 0) := by
  refine ⟨?_, ?_, ?_⟩
  · intro f hf g hg e; simp [fK, fF, fG, fH] at hf hg; rcases hf with rfl | rfl | rfl | rfl <;> rcases hg with rfl | rfl | rfl | rfl <;> simp_all
  · intro f hf g hg o h1 h2; simp [fK, fF, fG, fH] at hf hg; rcases hf with rfl | rfl | rfl | rfl <;> rcases hg with rfl | rfl | rfl | rfl <;> simp_all
  · intro f hf p hp g hg hb
    simp [fK, fF, fG, fH] at hf
    rcases hf with rfl | rfl | rfl | rfl <;> simp at hp <;> (try rcases hp with rfl | rfl) <;>
      simp [producer, fK, fF, fG, fH] at hg <;> (try subst hg) <;> simp_all
example : (run [fK, fF, fG, fH] [("y", .int 5)] 6 "z" ⟨[("y", .int 5)], [], []⟩).toOption.map (·.2.calls) = some ["g"] := by decide

end PF.C11
