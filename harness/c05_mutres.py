"""C05, mutated-resume stream: the gate `_compare_to_previous_run_info` of `map(..., cleanup=False)`.

A pipeline + inputs X is run into a folder (completely, or killed at an event prefix of its strace'd run); the folder is then
resumed with `cleanup=False` by a request that differs in exactly one respect (MUTATIONS below), or not at all (control).
The clauses are evaluated on the implementation's own answer only (no model call):

  refused      ValueError mentioning `cleanup=False`; then no user function may have been called and the folder must be
               byte-for-byte what it was (every file, every directory; nothing ignored);
  fresh-equal  the resume completes and returns exactly the outputs of an uninterrupted run of the *mutated* request in a new folder;
  invalid-both the mutated request is not a valid request at all (its fresh run fails) and the resume fails as well;
  anything else is a violation: `stale` (completes, outputs differ from the fresh run — a stored value of the OLD request was
  returned), `error` (another exception), `completes-invalid` (completes where the fresh run fails); for the control also `refused`.

Exempt (counted, never a violation): kind `rewire` (a parameter of an un-mapped function is connected to another source of the
same pipeline).  Nothing that `RunInfo` records (inputs, defaults, output names, shapes, internal shapes, MapSpec strings)
changes, so the gate cannot know; the property's hypothesis is "same pipeline".  Rewiring a *mapped* parameter changes the
MapSpec string and is not exempt.
"""
from __future__ import annotations

import copy
import itertools
import os

import c05_crashfs as crashfs

EXEMPT = {"rewire"}
CONTROL = "control"


# ------------------------------------------------------------------------------------------------ corpus
def _in(name, ix, tag=""):
    return {"f": "in", "k": [["n", {"s": name + tag}], ["at", {"arr": [[len(ix)], list(ix)]}]]}


def _arr(name, n):
    return {"arr": [[n], [_in(name, [i]) for i in range(n)]]}


def _func(name, params, outputs, mapspec=None, **kw):
    import mapgen
    f = {"name": name, "params": [[p, p] for p in params], "outputs": outputs, "mapspec": mapspec,
         "mapspec_str": mapgen.spec_str(mapspec) if mapspec else None, "autogen": False, "ret": None, "internal": None, "defaults": [], "bound": []}
    f.update(kw)
    return f


def _elem_case(kind, n=2):
    """`x0[i] -> y0[i]`, then a reduction; x0 an object ndarray (kind "array") or a list."""
    f = _func("f0", ["x0"], ["y0"], {"inputs": [["x0", ["i"]]], "outputs": [["y0", ["i"]]]})
    g = _func("f1", ["y0"], ["y1"])
    return {"funcs": [f, g], "inputs": [["x0", _arr("x0", n)]], "input_kinds": {"x0": kind}, "internal": [], "sizes": {"i": n}}


def _rich_case():
    """zip of an ndarray and a list; a scalar input; a default that is not supplied; a whole (un-mapped) ndarray input;
    a `... -> y2[j]` producer whose shape comes from map(internal_shapes=)."""
    f0 = _func("f0", ["x0", "x1"], ["y0"], {"inputs": [["x0", ["i"]], ["x1", ["i"]]], "outputs": [["y0", ["i"]]]})
    f1 = _func("f1", ["y0", "c0", "w0", "d0"], ["y1"], defaults=[["d0", {"s": "dflt:d0"}]])
    f2 = _func("f2", ["c0"], ["y2"], {"inputs": [], "outputs": [["y2", ["j"]]]}, ret=[2])
    return {"funcs": [f0, f1, f2], "inputs": [["c0", {"s": "in:c0"}], ["w0", _arr("w0", 2)], ["x0", _arr("x0", 2)], ["x1", _arr("x1", 2)]],
            "input_kinds": {"x0": "array", "x1": "list", "w0": "array"}, "internal": [["y2", [2]]], "sizes": {"i": 2, "j": 2}}


def _outer_case():
    """`x0[i], x1[j] -> y0[i, j]` with equal sizes, then a reduction: transposing the output axes changes no shape."""
    f0 = _func("f0", ["x0", "x1"], ["y0"], {"inputs": [["x0", ["i"]], ["x1", ["j"]]], "outputs": [["y0", ["i", "j"]]]})
    f1 = _func("f1", ["y0"], ["y1"])
    return {"funcs": [f0, f1], "inputs": [["x0", _arr("x0", 2)], ["x1", _arr("x1", 2)]], "input_kinds": {"x0": "list", "x1": "list"}, "internal": [],
            "sizes": {"i": 2, "j": 2}}


def corpus():
    # first: the known failing input (an element of a mapped object ndarray changed — the gate could not compare and proceeded)
    return [{"desc": _elem_case("array"), "storage": "file_array", "mode": "seq", "picker": []},
            {"desc": _rich_case(), "storage": "file_array", "mode": "seq", "picker": []},
            {"desc": _outer_case(), "storage": "file_array", "mode": "seq", "picker": []},
            {"desc": _elem_case("list"), "storage": "file_array", "mode": "seq", "picker": []},
            {"desc": _elem_case("array"), "storage": "dict", "mode": "seq", "picker": []}]


# ------------------------------------------------------------------------------------------------ mutations of a request
def _mapped_names(desc):
    return {a[0] for f in desc["funcs"] if f["mapspec"] for a in f["mapspec"]["inputs"]}


def _produced(desc):
    return {o for f in desc["funcs"] for o in f["outputs"]}


def _respec(f):
    import mapgen
    f["mapspec_str"] = mapgen.spec_str(f["mapspec"]) if f["mapspec"] else None


def _array_inputs(desc):
    return [(q, name, v) for q, (name, v) in enumerate(desc["inputs"]) if isinstance(v, dict) and "arr" in v]


def m_value(desc, rng, kind, mapped):
    """One element of an array input replaced (inputs of the given python kind, mapped over or delivered whole)."""
    mp = _mapped_names(desc)
    cands = [(q, n, v) for q, n, v in _array_inputs(desc)
             if (desc["input_kinds"].get(n) == "list") == (kind == "list") and (n in mp) == mapped]
    if not cands:
        return None
    q, name, v = rng.choice(cands)
    shape, elems = v["arr"]
    j = rng.randrange(len(elems))
    ix = list(list(itertools.product(*map(range, shape)))[j])
    elems[j] = _in(name, ix, tag="'")
    return desc


def m_scalar(desc, rng):
    cands = [q for q, (_n, v) in enumerate(desc["inputs"]) if isinstance(v, dict) and "s" in v]
    if not cands:
        return None
    q = rng.choice(cands)
    desc["inputs"][q][1] = {"s": desc["inputs"][q][1]["s"] + "'"}
    return desc


def m_length(desc, rng):
    """An input array longer by one along one axis (all root inputs that share the axis name grow together)."""
    axes_of = {}                                     # root input -> axis names per position (None = never named)
    for q, name, v in _array_inputs(desc):
        axes_of[name] = [None] * len(v["arr"][0])
    internal_axes = set()
    for f in desc["funcs"]:
        if not f["mapspec"]:
            continue
        for n, axs in f["mapspec"]["inputs"]:
            if n in axes_of:
                for p, a in enumerate(axs):
                    axes_of[n][p] = axes_of[n][p] or a
        if f["ret"] or f["internal"]:
            named = {a for _n, axs in f["mapspec"]["inputs"] for a in axs if a}
            internal_axes |= {a for _o, axs in f["mapspec"]["outputs"] for a in axs if a not in named}
    cands = [(n, p) for n, axs in axes_of.items() for p, a in enumerate(axs) if a not in internal_axes]
    if not cands:
        return None
    n0, p0 = rng.choice(sorted(cands))
    a0 = axes_of[n0][p0]
    grow = [(n0, p0)] if a0 is None else [(n, p) for n, axs in axes_of.items() for p, a in enumerate(axs) if a == a0]
    for q, name, v in _array_inputs(desc):
        shape = list(v["arr"][0])
        for n, p in grow:
            if n == name:
                shape[p] += 1
        if shape != v["arr"][0]:
            desc["inputs"][q][1] = {"arr": [shape, [_in(name, list(ix)) for ix in itertools.product(*map(range, shape))]]}
    if a0 is not None and a0 in desc.get("sizes", {}):
        desc["sizes"] = dict(desc["sizes"], **{a0: desc["sizes"][a0] + 1})
    return desc


def m_input_removed(desc, rng):
    """An input that has a default is no longer supplied."""
    dflt = {d[0] for f in desc["funcs"] for d in f["defaults"]}
    cands = [q for q, (n, _v) in enumerate(desc["inputs"]) if n in dflt]
    if not cands:
        return None
    del desc["inputs"][rng.choice(cands)]
    return desc


def m_input_added(desc, rng):
    """A defaulted parameter that was not supplied is supplied now."""
    have = {n for n, _ in desc["inputs"]}
    cands = sorted({d[0] for f in desc["funcs"] for d in f["defaults"]} - have - _produced(desc))
    if not cands:
        return None
    n = rng.choice(cands)
    desc["inputs"] = sorted(desc["inputs"] + [[n, {"s": f"in:{n}"}]], key=lambda kv: kv[0])
    return desc


def m_default(desc, rng):
    cands = [(fi, di) for fi, f in enumerate(desc["funcs"]) for di, _ in enumerate(f["defaults"])]
    if not cands:
        return None
    fi, di = rng.choice(cands)
    name = desc["funcs"][fi]["defaults"][di][0]
    for f in desc["funcs"]:                          # pipefunc wants one default per parameter name
        for d in f["defaults"]:
            if d[0] == name:
                d[1] = {"s": f"dflt:{name}'"}
    return desc


def m_internal(desc, rng):
    if not desc["internal"]:
        return None
    o, shp = rng.choice(desc["internal"])
    new = [shp[0] + 1] + list(shp[1:])
    for e in desc["internal"]:
        if e[1] == shp:                              # the outputs of one function share the shape
            e[1] = new
    for f in desc["funcs"]:
        if o in f["outputs"] and f["ret"] == shp:
            f["ret"] = new                           # the function really returns the new shape: a valid request
    return desc


def m_mapspec(desc, rng):
    """The MapSpec string of one function changed: zip -> outer product where two inputs share an axis and nothing mapped
    consumes the output; else an element-wise MapSpec dropped (the function gets the whole array) where nothing mapped consumes
    the output; else an axis renamed consistently in the whole pipeline."""
    mp = _mapped_names(desc)
    leafs = [f for f in desc["funcs"] if f["mapspec"] and f["mapspec"]["inputs"] and not f["ret"] and not any(o in mp for o in f["outputs"])]
    used = {a for f in desc["funcs"] if f["mapspec"] for _n, axs in f["mapspec"]["inputs"] + f["mapspec"]["outputs"] for a in axs if a}
    fresh_ax = next(a for a in ["i", "j", "k", "l", "m", "n", "p", "q"] if a not in used)
    zips = [f for f in leafs if len(f["mapspec"]["inputs"]) == 2 and all(len(a[1]) == 1 for a in f["mapspec"]["inputs"])
            and f["mapspec"]["inputs"][0][1] == f["mapspec"]["inputs"][1][1] and f["mapspec"]["inputs"][0][1][0]]
    if zips:
        f = rng.choice(zips)
        f["mapspec"]["inputs"][1][1] = [fresh_ax]
        for o in f["mapspec"]["outputs"]:
            o[1] = o[1] + [fresh_ax]
        _respec(f)
        return desc
    if leafs:
        f = rng.choice(leafs)
        f["mapspec"] = None
        _respec(f)
        return desc
    if not used:
        return None
    old = rng.choice(sorted(used))
    for f in desc["funcs"]:
        if f["mapspec"]:
            for a in f["mapspec"]["inputs"] + f["mapspec"]["outputs"]:
                a[1] = [fresh_ax if x == old else x for x in a[1]]
            _respec(f)
    return desc


def m_transpose(desc, rng):
    """The output axes of a function with >= 2 output axes rotated (nothing mapped consumes the output): with equal sizes no
    shape changes, only the MapSpec string."""
    mp = _mapped_names(desc)
    cands = [f for f in desc["funcs"] if f["mapspec"] and f["mapspec"]["inputs"] and not f["ret"] and not f["internal"]
             and len(f["mapspec"]["outputs"][0][1]) >= 2 and not any(o in mp for o in f["outputs"])
             and not any(o == e[0] for o in f["outputs"] for e in desc["internal"])]
    if not cands:
        return None
    f = rng.choice(cands)
    for o in f["mapspec"]["outputs"]:
        o[1] = o[1][1:] + o[1][:1]
    _respec(f)
    return desc


def m_func_added(desc, rng, mapped):
    """A new downstream consumer of an existing value (with an element-wise MapSpec over an existing array, or plain)."""
    name = f"f{len(desc['funcs'])}"
    out = f"y{len(desc['funcs'])}"
    if mapped:
        arrays = [(o, axs) for f in desc["funcs"] if f["mapspec"] for o, axs in f["mapspec"]["outputs"] if all(axs)]
        if not arrays:
            return None
        src, axs = rng.choice(arrays)
        desc["funcs"].append(_func(name, [src], [out], {"inputs": [[src, list(axs)]], "outputs": [[out, list(axs)]]}))
    else:
        src = rng.choice(sorted(_produced(desc)))
        desc["funcs"].append(_func(name, [src], [out]))
    return desc


def m_func_removed(desc, rng):
    """A function nobody consumes is removed (and the inputs only it used)."""
    if len(desc["funcs"]) < 2:
        return None
    consumed = {p for f in desc["funcs"] for p, _ in f["params"]}
    cands = [i for i, f in enumerate(desc["funcs"]) if not any(o in consumed for o in f["outputs"])]
    if not cands:
        return None
    f = desc["funcs"].pop(rng.choice(cands))
    still = {p for g in desc["funcs"] for p, _ in g["params"]}
    desc["inputs"] = [kv for kv in desc["inputs"] if kv[0] in still]
    desc["internal"] = [e for e in desc["internal"] if e[0] not in f["outputs"]]
    return desc


def m_rewire(desc, rng):
    """A parameter that is not named in a MapSpec gets its value from another source of the pipeline (EXEMPT: invisible to the gate)."""
    order = {o: i for i, f in enumerate(desc["funcs"]) for o in f["outputs"]}
    inputs = [n for n, _ in desc["inputs"]]
    cands = []
    for fi, f in enumerate(desc["funcs"]):
        listed = {a[0] for a in (f["mapspec"]["inputs"] if f["mapspec"] else [])}
        fixed = {d[0] for d in f["defaults"]} | {b[0] for b in f["bound"]}
        mine = {p for p, _ in f["params"]}
        for pi, (p, _orig) in enumerate(f["params"]):
            if p in listed or p in fixed:
                continue
            srcs = [s for s in inputs + [o for o, i in order.items() if i < fi] if s not in mine]
            # every input must stay in use (an unused input is a different kind of change)
            if p in inputs and not any(p == q for gi, g in enumerate(desc["funcs"]) for q, _ in g["params"] if (gi, q) != (fi, p)):
                continue
            cands += [(fi, pi, s) for s in srcs]
    if not cands:
        return None
    fi, pi, s = rng.choice(cands)
    desc["funcs"][fi]["params"][pi][0] = s
    return desc


MUTATIONS = [
    (CONTROL, lambda d, r: d),
    ("value-ndarray-mapped", lambda d, r: m_value(d, r, "array", True)),
    ("value-ndarray-whole", lambda d, r: m_value(d, r, "array", False)),
    ("value-list-mapped", lambda d, r: m_value(d, r, "list", True)),
    ("value-list-whole", lambda d, r: m_value(d, r, "list", False)),
    ("value-scalar", m_scalar),
    ("length", m_length),
    ("input-removed", m_input_removed),
    ("input-added", m_input_added),
    ("default", m_default),
    ("internal-shape", m_internal),
    ("mapspec", m_mapspec),
    ("mapspec-transpose", m_transpose),
    ("func-added-plain", lambda d, r: m_func_added(d, r, False)),
    ("func-added-mapped", lambda d, r: m_func_added(d, r, True)),
    ("func-removed", m_func_removed),
    ("rewire", m_rewire),
]


def mutants(desc, rng):
    """All applicable single mutations of a request, as (name, mutated desc)."""
    out = []
    for name, fn in MUTATIONS:
        d = fn(copy.deepcopy(desc), rng)
        if d is not None and (name == CONTROL or d != desc):
            out.append((name, d))
    return out


# ------------------------------------------------------------------------------------------------ one mutated resume
def snap(folder):
    """Every directory and every file (bytes) under `folder`."""
    out = {}
    if not os.path.isdir(folder):
        return None
    for root, dnames, fnames in os.walk(folder):
        rel = os.path.relpath(root, folder)
        out[rel + os.sep] = None
        for fn in fnames:
            with open(os.path.join(root, fn), "rb") as fh:
                out[os.path.join(rel, fn)] = fh.read()
    return out


def one(lab, case_old, desc_new, ev0, f0, k, tear):
    """Materialise the state, resume it with the mutated request, run the mutated request fresh."""
    from props.c05 import stages_state
    new = dict(case_old, desc=desc_new)
    dst = stages_state(lab, [(ev0, k, tear, f0)])
    fresh = lab.slot()
    try:
        before = snap(dst)
        impl, _e, calls = lab.run(lab.spec(new, dst, False))
        after = snap(dst)
        fr, _e, _c = lab.run(lab.spec(new, fresh, True))
        changed = None if before == after else sorted(p for p in set(before or {}) | set(after or {}) if (before or {}).get(p, 0) != (after or {}).get(p, 0))
        return {"impl": impl, "calls": calls, "fresh": fr, "changed": changed, "had_run_info": bool(before) and "./run_info.json" in before,
                "nfiles": sum(1 for v in (before or {}).values() if v is not None)}
    finally:
        lab.cleanup(dst)
        lab.cleanup(fresh)


def classify(what, st):
    """(outcome, violation text | None) for one mutated resume."""
    impl, fr = st["impl"], st["fresh"]
    if "err" in impl:
        if impl["err"] == "ValueError" and impl.get("gate"):
            if what == CONTROL:
                return "refused", "a resume with the SAME request is refused: " + impl.get("msg", "")[:120]
            if st["calls"]:
                return "refused-late", f"refused, but {len(st['calls'])} user call(s) were made before the refusal: {[c[0] for c in st['calls']][:4]}"
            if st["changed"]:
                return "refused-late", f"refused, but the folder was written before the refusal: {st['changed'][:4]}"
            return "refused", None
        if "err" in fr:
            return "invalid-both", None
        return "error", f"resume with a changed request ({what}) fails with {impl['err']} instead of a refusal: {impl.get('msg', '')[:140]}"
    if "err" in fr:
        return "completes-invalid", f"resume with a changed request ({what}) completes, but an uninterrupted run of that request fails with {fr['err']}"
    if impl["ok"]["outputs"] == fr["ok"]["outputs"]:
        return "fresh-equal", None
    got, want = impl["ok"]["outputs"], fr["ok"]["outputs"]
    bad = sorted(n for n in set(got) | set(want) if got.get(n) != want.get(n))
    return "stale", f"resume with a changed request ({what}) is not refused and returns values of the OLD request for {bad}"


def rec_of(case, desc_new, hist, what):
    return {"desc": desc_new, "desc_old": case["desc"], "storage": case["storage"], "mode": case.get("mode", "seq"), "picker": case.get("picker") or [],
            "history": [hist, {"kind": "mutate", "what": what}]}


def pick_state(rng, ev0, complete):
    if complete:
        return len(ev0), None
    pts = crashfs.crash_points(ev0)
    # prefer states in which the previous request is on record (run_info.json renamed into place): the gate has something to compare
    ri = [i for i, e in enumerate(ev0) if e[0] == "rename" and e[2].endswith(os.sep + "run_info.json")]
    late = [p for p in pts if ri and p[0] > ri[0]]
    return rng.choice(late if late and rng.random() < 0.8 else pts)


def trace_is_whole(lab, t):
    """All events of the trace, replayed, give the folder the real run left (same files, same decoded contents)."""
    from props.c05 import stages_state
    dst = None
    try:
        # (inside the try: a trace that lacks an event - a pool worker's `open` or `write` lost under load - may not even replay: the rename
        # of a temporary file that was never created raised FileNotFoundError out of `materialise` and crashed the whole check, exit 2)
        dst = stages_state(lab, [(t["ev0"], len(t["ev0"]), None, t["f0"])])
        return crashfs.abstract(dst)["files"] == t["full_abs"]["files"]
    except Exception:  # noqa: BLE001  (crashfs.Unmodelled, OSError, ...)
        return False
    finally:
        if dst:
            lab.cleanup(dst)


def stream(ctx, lab, quick):
    from props.c05 import gen_case, kill_hist, trace_case
    cases = [copy.deepcopy(c) for c in corpus()[:3 if quick else None]]
    ncorpus = len(cases)
    for k in range(1 if quick else 12):
        cases.append({"desc": gen_case(ctx.rng), "storage": "file_array" if k % 3 != 2 else "dict", "mode": "seq", "picker": []})
    if not quick and os.environ.get("VERIF_C05_PROCS", "1") != "0":
        cases.append({"desc": gen_case(ctx.rng), "storage": "file_array", "mode": PROCS_MODE, "picker": []})
    traced = list(lab.pool.map(lambda c: trace_case(lab, c), cases))
    jobs = []
    for ti, t in enumerate(traced):
        case = t["case"]
        ctx.count(f"mutres:pipeline:{case['storage']}:{case.get('mode', 'seq')}")
        if "unmodelled" in t or "err" in t["res0"]:
            ctx.skip("mutres:untraceable")         # the main stream reports these
            continue
        ev0, f0 = t["ev0"], t["f0"]
        if not trace_is_whole(lab, t):
            # seen with process pools under load: the parsed strace output lacks an event (a worker's write), so that the rebuilt
            # folder is not the real one — an artefact of the tracing, not of pipefunc; such a trace is not used
            ctx.skip("mutres:trace-incomplete")
            continue
        ms = mutants(case["desc"], ctx.rng)
        if quick and ti >= ncorpus and len(ms) > 9:                   # control + the known failing kind + a sample
            keep = [m for m in ms if m[0] in (CONTROL, "value-ndarray-mapped")]
            rest = [m for m in ms if m[0] not in (CONTROL, "value-ndarray-mapped")]
            ms = keep + [rest[i] for i in sorted(ctx.rng.sample(range(len(rest)), 9 - len(keep)))]
        for what, d in ms:
            # quick: the corpus on the complete folder (everything is stored: whatever gets through the gate comes back stale), generated ones killed
            for complete in ([ti < ncorpus] if quick else [True, False]):
                k, tear = pick_state(ctx.rng, ev0, complete)
                hist = {"kind": "complete"} if k == len(ev0) and tear is None else kill_hist(ev0, f0, k, tear)
                jobs.append((case, what, d, hist, lab.pool.submit(one, lab, case, d, ev0, f0, k, tear)))
    for case, what, d, hist, fut in jobs:
        rec = rec_of(case, d, hist, what)
        try:
            st = fut.result()
        except crashfs.Unmodelled:
            ctx.skip("unmodelled-file")
            continue
        except Exception as e:  # noqa: BLE001  (replaying / snapshotting what pipefunc did must not crash the harness)
            ctx.skip("mutres:harness-" + type(e).__name__)
            ctx.violation(rec, f"a mutated resume could not be replayed: {type(e).__name__}: {e}"[:200], found_input=False, item="correspondence:replay", key="mutres replay")
            continue
        outcome, bad = classify(what, st)
        ctx.count("mutres:kind:" + what)
        ctx.count(f"mutres:outcome:{what}:{outcome}")
        ctx.count("mutres:state:" + ("complete" if hist["kind"] == "complete" else "killed-with-run-info" if st["had_run_info"] else "killed-before-run-info"))
        ctx.record(rec, what != CONTROL and st["had_run_info"], validated=False)
        if bad and what in EXEMPT and outcome == "stale":
            ctx.count("mutres:exempt-stale")
            continue
        if bad:
            ctx.violation(rec, bad, impl={"resumed": st["impl"], "calls": len(st["calls"])}, model={"fresh run of the changed request": st["fresh"]},
                          key=f"mutated resume {outcome} {what}")


PROCS_MODE = "procs-forkserver"


def replay(ctx, lab, rec):
    """Re-create a record of this stream: trace the old request, rebuild the state, resume with the changed request; print both sides."""
    import json

    from props.c05 import trace_case
    hist = rec["history"]
    what = hist[-1]["what"]
    old = {"desc": rec["desc_old"], "storage": rec["storage"], "mode": rec.get("mode", "seq"), "picker": rec.get("picker") or []}
    t = trace_case(lab, old)
    if "unmodelled" in t or "err" in t["res0"]:
        print("the run of the old request cannot be traced:", t.get("unmodelled") or t["res0"])
        return
    ev0, f0 = t["ev0"], t["f0"]
    h0 = hist[0]
    k, tear = (len(ev0), None) if h0["kind"] == "complete" else (h0["after_events"], h0["torn_bytes"])
    print(f"old request, uninterrupted: {json.dumps(t['res0'])[:500]}")
    print(f"state: {h0['kind']}" + (f" after {k} of {len(ev0)} events, torn_bytes={tear}, next={h0.get('next')}" if h0["kind"] == "kill" else f" ({len(ev0)} events)"))
    print(f"mutation: {what}")
    for a, b in zip(rec["desc_old"]["funcs"], rec["desc"]["funcs"]):
        if a != b:
            print("   function", a["name"], ":", {k_: (a[k_], b[k_]) for k_ in a if a[k_] != b.get(k_)})
    if len(rec["desc_old"]["funcs"]) != len(rec["desc"]["funcs"]):
        print("   functions:", [f["name"] for f in rec["desc_old"]["funcs"]], "->", [f["name"] for f in rec["desc"]["funcs"]])
    for key in ("inputs", "input_kinds", "internal"):
        if rec["desc_old"].get(key) != rec["desc"].get(key):
            print(f"   {key}: {json.dumps(rec['desc_old'].get(key))[:400]}\n   {' ' * len(key)}-> {json.dumps(rec['desc'].get(key))[:400]}")
    st = one(lab, old, rec["desc"], ev0, f0, k, tear)
    outcome, bad = classify(what, st)
    print("resumed with the changed request:", json.dumps(st["impl"])[:600])
    print("user calls during the resume   :", [c[0] for c in st["calls"]])
    print("folder changed by the resume    :", st["changed"])
    print("fresh run of the changed request:", json.dumps(st["fresh"])[:600])
    print("outcome:", outcome, "" if not bad else ("(exempt kind) " if what in EXEMPT and outcome == "stale" else "VIOLATION: ") + bad)
