"""C09 — supplied intermediates at ANY distance upstream of a cached function (added after seeded change C09-s5-B).

The cache key of a function holds the ROOT arguments only, so a call that supplies an intermediate value anywhere upstream of
a cached function must not use that function's entry (`Pipeline._intermediate_supplied`).  The class of histories that
exercises this: the same root values once WITHOUT and once WITH a supplied intermediate that is k >= 1 hops upstream of a
cached function whose key is complete (every root argument supplied, i.e. the root is ALSO consumed by a function that still
runs).  This module holds the pieces the harness (props/c09.py) uses to generate that class:

* `upstream_dist`      hops from the producer of an output to every output upstream of it (the description's view);
* `toggle_intermediate` a generator operator: an earlier call with one more / fewer supplied intermediates and the SAME root values;
* `gen_deep_desc`      DAGs with a spine of 3-5 functions whose later functions consume roots that are used upstream too;
* `deep_chain_cases`   an exhaustive family on spines of depth 3 and 4 (every cached subset, every set of supplied intermediates).
"""
from __future__ import annotations

import copy
import itertools


def val(k, b):
    return {"s": f"v:{k}:{b}"}


def _producers(funcs):
    return {o: f for f in funcs for o in f["outputs"]}


def upstream_dist(funcs, out, stop=()):
    """{output name: hops} for every output of a function upstream of the producer of `out` (1 = the producer of a direct
    parameter; the sibling outputs of a tuple-valued producer count like the consumed one); parameters in `stop` (values the
    call supplies already) are not followed."""
    prod = _producers(funcs)
    if out not in prod:
        return {}
    dist, todo = {}, [(prod[out], 1)]
    while todo:
        f, d = todo.pop(0)
        bound = {b[0] for b in f["bound"]}
        for p, _ in f["params"]:
            if p in prod and p not in bound and p not in stop:
                g = prod[p]
                new = False
                for o in g["outputs"]:
                    if o not in dist or dist[o] > d:
                        dist[o], new = d, True
                if new:
                    todo.append((g, d + 1))
    return dist


def needed_roots(funcs, out, supplied):
    """(required, optional) root arguments of a call for `out` when the names in `supplied` are given: the roots reached without
    passing through a supplied name; optional = has a default somewhere."""
    prod = _producers(funcs)
    dflt = {d[0] for f in funcs for d in f["defaults"]}
    req, opt, seen, todo = [], [], set(), [prod[out]] if out in prod else []
    while todo:
        f = todo.pop()
        if f["name"] in seen:
            continue
        seen.add(f["name"])
        bound = {b[0] for b in f["bound"]}
        for p, _ in f["params"]:
            if p in bound or p in supplied:
                continue
            if p in prod:
                todo.append(prod[p])
            elif p in dflt:
                if p not in opt:
                    opt.append(p)
            elif p not in req:
                req.append(p)
    return sorted(req), sorted(opt)


def toggle_intermediate(rng, funcs, call):
    """An earlier call with the same root values and another set of supplied intermediates: one more (mostly one that is NOT a
    direct parameter of the requested function) or all of them dropped (the roots that are then needed get values).  Returns
    None when there is nothing to toggle.  The caller validates the call on the uncached twin."""
    prod = _producers(funcs)
    c = copy.deepcopy(call)
    have = [e[0] for e in c["kw"] if e[0] in prod]
    dist = upstream_dist(funcs, call["out"], stop=have)      # what is still computed (a value above a supplied one would be unused)
    if not dist and not have:
        return None
    cands = sorted(o for o in dist if o not in have)
    if have and (not cands or rng.random() < 0.45):
        drop = set(have) if rng.random() < 0.7 else {rng.choice(have)}
        c["kw"] = [e for e in c["kw"] if e[0] not in drop]
        supplied = {e[0] for e in c["kw"]}
        req, opt = needed_roots(funcs, c["out"], supplied)
        for k in req:
            if k not in supplied:
                c["kw"].append([k, val(k, rng.randint(0, 1))])
        for k in opt:
            if k not in supplied and rng.random() < 0.5:
                c["kw"].append([k, val(k, rng.randint(0, 1))])
        return c
    if not cands:
        return None
    far = [o for o in cands if dist[o] >= 2]
    k = rng.choice(far) if far and rng.random() < 0.7 else rng.choice(cands)
    c["kw"].append([k, val(k, rng.randint(0, 1))])
    # keep the call valid: a root that is now reached only through the supplied value would be an unused keyword; the roots that
    # are still consumed keep THEIR VALUES (the key of a cached function downstream is then complete and equal to the earlier one)
    supplied = {e[0] for e in c["kw"]}
    req, opt = needed_roots(funcs, c["out"], supplied)
    c["kw"] = [e for e in c["kw"] if e[0] in prod or e[0] in req or e[0] in opt]
    for r in req:
        if r not in supplied:
            c["kw"].append([r, val(r, rng.randint(0, 1))])
    return c


def gen_deep_desc(rng):
    """A DAG with a spine f0 -> f1 -> ... of 3-5 functions.  Later functions also take, with high probability, a root argument
    that a function further up consumes (so that a call supplying an intermediate still uses every root: the keys stay complete),
    sometimes an older output (a diamond) or a root of their own; tuple outputs, renames, defaults, bound values as in pipegen."""
    n = rng.choice([3, 3, 4, 4, 5])
    nroots = rng.choice([1, 1, 2])
    roots = [f"r{i}" for i in range(nroots)]
    funcs, used_roots, spine = [], [], None
    dflt_roots = {r for r in roots if rng.random() < 0.15}
    for i in range(n):
        chosen = []
        if i == 0:
            chosen.append(rng.choice(roots))
            if nroots > 1 and rng.random() < 0.4:
                chosen.append(next(r for r in roots if r != chosen[0]))
        else:
            chosen.append(spine)
            if i >= 2 and rng.random() < 0.25:
                older = [o for f in funcs[:-1] for o in f["outputs"]]
                chosen.append(rng.choice(older))
            if rng.random() < 0.65:
                chosen.append(rng.choice(used_roots))
            elif rng.random() < 0.3:
                chosen.append(rng.choice(roots))
        chosen = list(dict.fromkeys(chosen))
        for p in chosen:
            if p in roots and p not in used_roots:
                used_roots.append(p)
        outs = [f"o{i}"] if rng.random() >= 0.2 else [f"o{i}a", f"o{i}b"]
        params, defaults, bound = [], [], []
        for j, p in enumerate(chosen):
            orig = f"a{j}" if rng.random() < 0.25 else p
            params.append([p, orig])
            if p in dflt_roots:
                defaults.append([p, {"s": f"dflt:{p}"}])
            elif p != spine and rng.random() < 0.08:
                bound.append([p, {"s": f"bound:{p}:f{i}"}])
        dn = {d[0] for d in defaults}
        params = [q for q in params if q[0] not in dn] + [q for q in params if q[0] in dn]
        funcs.append({"name": f"f{i}", "params": params, "outputs": outs, "defaults": defaults, "bound": bound})
        spine = rng.choice(outs)
    return {"funcs": funcs}


def _f(name, params, out):
    return {"name": name, "params": [[p, p] for p in params], "outputs": [out], "defaults": [], "bound": []}


SPINES = {
    # x -> a -> b -> c, the last function takes the root too (the shape of the demo of C09-s5-B)
    "d3": ([_f("f", ["x"], "a"), _f("g", ["a"], "b"), _f("h", ["b", "x"], "c")], "c", [[], ["a"], ["b"], ["a", "b"]]),
    # the middle function takes the root as well
    "d3m": ([_f("f", ["x"], "a"), _f("g", ["a", "x"], "b"), _f("h", ["b", "x"], "c")], "c", [[], ["a"], ["b"]]),
    # depth 4: supplied value up to three hops above the cached function
    "d4": ([_f("f", ["x"], "a"), _f("g", ["a"], "b"), _f("h", ["b"], "c"), _f("k", ["c", "x"], "d")], "d", [[], ["a"], ["b"], ["c"], ["a", "c"]]),
}


def deep_chain_cases(max_len, kinds):
    """Exhaustive family: every spine of SPINES x every non-empty cached subset x every history of `2..max_len` calls drawn from
    (root value in a 2-value domain) x (set of supplied intermediates) x full_output; the cache kind rotates over `kinds`."""
    k = 0
    for tag, (funcs, out, sups) in SPINES.items():
        calls = []
        for full in (False, True):
            for x in (0, 1):
                for sup in sups:
                    calls.append({"out": out, "kw": [["x", val("x", x)]] + [[s, val(s, 0)] for s in sup], "full": full})
        names = [f["name"] for f in funcs]
        subsets = [list(s) for m in range(1, len(names) + 1) for s in itertools.combinations(names, m)]
        for n in range(2, max_len + 1):
            for hist in itertools.product(calls, repeat=n):
                if hist[0]["kw"][0][1] != val("x", 0):
                    continue                    # the two root values are interchangeable: the first call uses value 0
                if not any(len(c["kw"]) > 1 for c in hist) or all(len(c["kw"]) > 1 for c in hist):
                    continue                    # a history needs both a plain call and one with an intermediate
                for cached in subsets:
                    k += 1
                    yield {"funcs": funcs, "cached": cached, "cache": kinds[k % len(kinds)],
                           "history": [{"call": c} for c in hist], "family": "deep:" + tag}
