import PfModel.Model.SweepCountExt
import PfModel.Lemmas.SweepDeps
/-! The reachability specification `ancBelow` / `rootsBelow` of C17's `depsSpec` against `PF.Pipe.Reach`. -/
namespace PF.Sweep
open PF.Pipe

theorem Reach_trans {fs : List Func} {i j k : Nat} (h1 : Reach fs i j) (h2 : Reach fs j k) : Reach fs i k := by
  induction h2 with
  | one s => exact .more h1 s
  | more _ s ih => exact .more ih s

/-- a chain read from the front -/
theorem Reach_front {fs : List Func} {i j : Nat} (h : Reach fs i j) : Step fs i j ∨ ∃ k, Step fs i k ∧ Reach fs k j := by
  induction h with
  | one s => exact .inl s
  | more _ s ih =>
    rcases ih with s0 | ⟨k, s0, r⟩
    · exact .inr ⟨_, s0, .one s⟩
    · exact .inr ⟨k, s0, .more r s⟩

/-- soundness: whatever `ancBelow` lists is the function itself (through a cycle) or a strict ancestor -/
theorem ancBelow_sound (fs : List Func) (n i j : Nat) (h : j ∈ ancBelow fs n i) : j = i ∨ Reach fs i j := by
  induction n generalizing i with
  | zero => simp [ancBelow] at h
  | succ n ih =>
    simp only [ancBelow, List.mem_flatMap] at h
    obtain ⟨nd, hnd, hj⟩ := h
    cases nd with
    | root p => simp at hj
    | fn k =>
      simp only [List.mem_cons] at hj
      by_cases hk : k = i
      · subst hk
        rcases hj with rfl | hj
        · exact .inl rfl
        · exact ih k hj
      · have s : Step fs i k := ⟨hnd, hk⟩
        rcases hj with rfl | hj
        · exact .inr (.one s)
        · rcases ih k hj with rfl | r
          · exact .inr (.one s)
          · exact .inr (Reach_trans (.one s) r)

/-- soundness: a name `rootsBelow` lists is a root parameter of the function or of one of its strict ancestors -/
theorem rootsBelow_sound (fs : List Func) (n i : Nat) (p : String) (h : p ∈ rootsBelow fs n i) :
    Node.root p ∈ preds fs i ∨ ∃ j, Reach fs i j ∧ Node.root p ∈ preds fs j := by
  induction n generalizing i with
  | zero => simp [rootsBelow] at h
  | succ n ih =>
    simp only [rootsBelow, List.mem_flatMap] at h
    obtain ⟨nd, hnd, hp⟩ := h
    cases nd with
    | root q =>
      simp only [List.mem_singleton] at hp
      subst hp; exact .inl hnd
    | fn k =>
      by_cases hk : k = i
      · subst hk; exact ih k hp
      · have s : Step fs i k := ⟨hnd, hk⟩
        rcases ih k hp with h0 | ⟨j, r, h0⟩
        · exact .inr ⟨k, .one s, h0⟩
        · exact .inr ⟨j, Reach_trans (.one s) r, h0⟩

/-- completeness, for a list of functions in which producers precede consumers -/
theorem ancBelow_complete (fs : List Func) (hord : ∀ k j, Step fs k j → j < k) (n i j : Nat) (hn : i < n)
    (h : Reach fs i j) : j ∈ ancBelow fs n i := by
  induction n generalizing i with
  | zero => omega
  | succ n ih =>
    simp only [ancBelow, List.mem_flatMap]
    rcases Reach_front h with s | ⟨k, s, r⟩
    · exact ⟨.fn j, s.1, by simp⟩
    · have := hord i k s
      exact ⟨.fn k, s.1, by simp [ih k (by omega) r]⟩

theorem rootsBelow_complete (fs : List Func) (hord : ∀ k j, Step fs k j → j < k) (n i : Nat) (p : String) (hn : i < n)
    (h : Node.root p ∈ preds fs i ∨ ∃ j, Reach fs i j ∧ Node.root p ∈ preds fs j) : p ∈ rootsBelow fs n i := by
  induction n generalizing i with
  | zero => omega
  | succ n ih =>
    simp only [rootsBelow, List.mem_flatMap]
    rcases h with h0 | ⟨j, r, h0⟩
    · exact ⟨.root p, h0, by simp⟩
    · rcases Reach_front r with s | ⟨k, s, r'⟩
      · have := hord i j s
        exact ⟨.fn j, s.1, ih j (by omega) (.inl h0)⟩
      · have := hord i k s
        exact ⟨.fn k, s.1, ih k (by omega) (.inr ⟨j, r', h0⟩)⟩

theorem ordered_spec (fs : List Func) (h : ordered fs = true) : ∀ k j, Node.fn j ∈ preds fs k → j < k := by
  intro k j hj
  by_cases hk : k < fs.length
  · unfold ordered at h
    rw [List.all_eq_true] at h
    have h1 := h k (by simpa using hk)
    rw [List.all_eq_true] at h1
    simpa using h1 _ hj
  · exfalso
    have hd : funcAt fs k = default := by
      unfold funcAt
      rw [List.getD_eq_getElem?_getD, List.getElem?_eq_none (by omega)]; rfl
    have hp : (default : Func).params = [] := rfl
    simp [preds, hd, hp] at hj

theorem ancBelow_lt (fs : List Func) (hord : ∀ k j, Node.fn j ∈ preds fs k → j < k) (n i j : Nat)
    (h : j ∈ ancBelow fs n i) : j < i := by
  induction n generalizing i with
  | zero => simp [ancBelow] at h
  | succ n ih =>
    simp only [ancBelow, List.mem_flatMap] at h
    obtain ⟨nd, hnd, hj⟩ := h
    cases nd with
    | root p => simp at hj
    | fn k =>
      have := hord i k hnd
      simp only [List.mem_cons] at hj
      rcases hj with rfl | hj
      · exact this
      · have := ih k hj; omega

theorem mem_insertSorted {α : Type} (key : α → String) (x y : α) (l : List α) (h : y ∈ insertSorted key x l) : y = x ∨ y ∈ l := by
  induction l with
  | nil => simp only [insertSorted, List.mem_singleton] at h; exact .inl h
  | cons z zs ih =>
    simp only [insertSorted] at h
    split at h
    · simp only [List.mem_cons] at h; rcases h with h | h | h <;> simp [h]
    · split at h
      · exact .inr h
      · simp only [List.mem_cons] at h
        rcases h with h | h
        · simp [h]
        · rcases ih h with h | h <;> simp [h]

theorem mem_insertSorted_id (x y : String) (l : List String) : y ∈ insertSorted id x l ↔ y = x ∨ y ∈ l := by
  constructor
  · exact mem_insertSorted id x y l
  · intro h
    induction l with
    | nil => simpa [insertSorted] using h
    | cons z zs ih =>
      simp only [insertSorted, id]
      split
      · simpa using h
      · split
        · next heq =>
          rcases h with h | h
          · rw [h, heq]; simp
          · exact h
        · simp only [List.mem_cons] at h ⊢
          rcases h with h | h | h
          · exact .inr (ih (.inl h))
          · exact .inl h
          · exact .inr (ih (.inr h))

theorem mem_foldl_insertSorted (l acc : List String) (y : String) :
    y ∈ l.foldl (fun acc x => insertSorted id x acc) acc ↔ y ∈ acc ∨ y ∈ l := by
  induction l generalizing acc with
  | nil => simp
  | cons x xs ih =>
    simp only [List.foldl_cons, ih, mem_insertSorted_id, List.mem_cons]
    constructor
    · rintro ((h | h) | h) <;> simp [h]
    · rintro (h | h | h) <;> simp [h]

/-- `sorted(set(l))` has the members of `l` -/
theorem mem_uniqueSorted_id (l : List String) (y : String) : y ∈ uniqueSorted id l ↔ y ∈ l := by
  unfold uniqueSorted
  rw [mem_foldl_insertSorted]; simp

end PF.Sweep
