import PfModel.Model.MapPieces
/-!
C06, round 4 — `_reduced_axes` as the DICTIONARY pipefunc builds (`pipefunc/map/_prepare.py:205-217`): array name → the set of its
axes that some function reduces.  `PF.Pieces.reducedAxes` (what `validateFixed` tests) is the union of the rows
(`PF.C06.C06_reducedTable_flat`); the driver returns the table (`reduced.table`) and the harness compares it, row by row, with the
dictionary the real `_reduced_axes(pipeline)` returns — so a divergence of that function is seen on every generated pipeline,
also for axes that a request would be refused for anyway.
-/
namespace PF.Pieces
open PF PF.Map

/-- the rows of `_reduced_axes`: one per array name some MapSpec mentions (first occurrence order), the axes (with repetitions,
    in function order) every function of the pipeline reduces; pipefunc only creates the entries that receive an axis -/
def reducedTable (fs : List MFunc) : List (String × List String) :=
  let axes := mapspecAxes fs
  (mapspecNames fs).eraseDups.map fun name => (name, fs.flatMap fun f => reducedBy f name ((alookup axes name).getD []))

/-- `g` takes the array `p` as a whole: `p` is one of its parameters and `g` has no MapSpec or its MapSpec does not name `p` among
    its inputs (`_is_parameter_reduced_by_function`).  Whether `g` is mapped over other arrays plays no role. -/
def TakesWhole (g : MFunc) (p : String) : Prop :=
  g.params.any (·.1 = p) = true ∧ (g.mapspec = none ∨ ∃ ms, g.mapspec = some ms ∧ ms.inputSpec p = none)

/-- `g`'s MapSpec names `p` with `:` at a position where (by `Pipeline.mapspec_axes`, `ax`) the array's axis is called `x`
    (`_is_parameter_partially_reduced_by_function`, `_get_partially_reduced_axes`) -/
def SlicesAxis (g : MFunc) (p : String) (ax : List (Option String)) (x : String) : Prop :=
  g.params.any (·.1 = p) = true ∧ ∃ ms a, g.mapspec = some ms ∧ ms.inputSpec p = some a ∧ (some x, none) ∈ List.zip ax a.axes

end PF.Pieces
