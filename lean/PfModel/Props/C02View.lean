/-
C02: what the caller sees — the dictionary of `full_output=True` and `PipeFunc.__call__` with positional arguments
(`Model/PipelineView.lean`; both were decided on the Python side of the harness before).
-/
import PfModel.Lemmas.PipelineView
import PfModel.Lemmas.PipelineEntries
namespace PF.C02
open PF PF.Pipe

/-- **`full_output=True` for a single requested name is the memo of that evaluation, as a dictionary**: every name once, each with
    the value the memo holds for it (`C02_full_output` says what the memo holds). -/
theorem C02_full_view_is_memo (n : String) (o : Outcome) (cf : Bool) :
    (akeys (fullView (.name n) o cf)).Nodup ∧ ∀ k, alookup (fullView (.name n) o cf) k = alookup o.full k :=
  ⟨adedup_nodup o.full, fun k => alookup_adedup o.full k⟩

/-- a whole (tuple) output requested (`run(full_output=True)`, and `call_full_output` which adds the individual names): no name
    of the memo changes -/
theorem C02_full_view_whole (os : List String) (o : Outcome) (cf : Bool) (k : String) (v : Val) (h : alookup o.full k = some v) :
    alookup (fullView (.whole os) o cf) k = some v := by
  have h0 : alookup (asetDefault (adedup o.full) (",".intercalate os) o.value) k = some v :=
    asetDefault_keeps _ _ _ _ _ (by rw [alookup_adedup]; exact h)
  unfold fullView
  cases cf with
  | false => exact h0
  | true =>
    simp only [if_true]
    split
    · exact foldl_asetDefault_keeps _ _ _ _ h0
    · exact h0

/-- … and the function's result is there under the tuple name when the memo has no such name -/
theorem C02_full_view_whole_key (os : List String) (o : Outcome) (cf : Bool) (h : alookup o.full (",".intercalate os) = none) :
    alookup (fullView (.whole os) o cf) (",".intercalate os) = some o.value := by
  have h0 : alookup (asetDefault (adedup o.full) (",".intercalate os) o.value) (",".intercalate os) = some o.value :=
    asetDefault_new _ _ _ (by rw [alookup_adedup]; exact h)
  unfold fullView
  cases cf with
  | false => exact h0
  | true =>
    simp only [if_true]
    split
    · exact foldl_asetDefault_keeps _ _ _ _ h0
    · exact h0

example : alookup ({ value := .int 1, full := [("a", .int 0)], calls := [] } : Outcome).full "x,y" = none := by decide

/-- **a positional argument for a parameter that has a bound value, a keyword or a default is refused** (`TypeError: multiple
    values`), exactly then — given that the call has no unknown keyword and not too many positional arguments -/
theorem C02_pipefunc_positional_refused_iff (f : Func) (pos : List Val) (kw : List (String × Val))
    (hk : (akeys kw).find? (fun k => !(f.params.any (·.1 = k))) = none) (hl : pos.length ≤ f.params.length) :
    (∃ p, pfCallPos f pos kw = .error (.multiple p)) ↔ ∃ po ∈ f.params.take pos.length, (pfArg f kw po.1).isSome = true := by
  have hl' : ¬ pos.length > f.params.length := by omega
  simp only [pfCallPos, hk, hl', if_false]
  constructor
  · rintro ⟨p, h⟩
    cases hf : (f.params.take pos.length).find? (fun po => (pfArg f kw po.1).isSome) with
    | some po =>
      exact ⟨po, List.mem_of_find?_eq_some hf, by simpa using List.find?_some hf⟩
    | none =>
      rw [hf] at h
      simp only at h
      cases hp : pfArgs f kw (f.params.drop pos.length) with
      | error e =>
        rw [hp] at h; simp only [Except.error.injEq] at h
        -- `pfArgs` only reports a missing parameter
        exfalso
        revert hp
        generalize f.params.drop pos.length = ps
        intro hp
        induction ps with
        | nil => simp [pfArgs] at hp
        | cons q qs ih =>
          obtain ⟨a, b⟩ := q
          simp only [pfArgs] at hp
          split at hp
          · simp only [Except.error.injEq] at hp; rw [← hp] at h; cases h
          · split at hp
            · next e' he' => simp only [Except.error.injEq] at hp; subst hp; exact ih he'
            · cases hp
      | ok rest => rw [hp] at h; cases h
  · rintro ⟨po, hm, hs⟩
    cases hf : (f.params.take pos.length).find? (fun po => (pfArg f kw po.1).isSome) with
    | some po' => exact ⟨po'.1, rfl⟩
    | none =>
      have := List.find?_eq_none.mp hf po hm
      simp [hs] at this

example : pfCallPos ⟨"f", [("a", "a"), ("b", "b")], ["y"], [("b", .int 1)], []⟩ [.int 3, .int 4] [] = .error (.multiple "b") := by rfl
example : pfCallPos ⟨"f", [("a", "a"), ("b", "b")], ["y"], [("b", .int 1)], []⟩ [.int 3] [] =
    .ok (.app "f" [("a", .int 3), ("b", .int 1)]) := by rfl

/-- when no positional argument meets such a parameter, the call is the keyword call with the positional values keyed by the
    wrapped function's own names in front -/
theorem C02_pipefunc_positional_ok (f : Func) (pos : List Val) (kw : List (String × Val)) (v : Val) (h : pfCallPos f pos kw = .ok v) :
    ∃ rest, pfArgs f kw (f.params.drop pos.length) = .ok rest ∧
      v = result f (((f.params.take pos.length).map (·.2)).zip pos ++ rest) ∧
      ∀ po ∈ f.params.take pos.length, pfArg f kw po.1 = none := by
  unfold pfCallPos at h
  split at h
  · cases h
  · split at h
    · cases h
    · split at h
      · cases h
      · next hnone =>
        split at h
        · cases h
        · next rest hr =>
          cases h
          refine ⟨rest, hr, rfl, ?_⟩
          intro po hm
          have := List.find?_eq_none.mp hnone po hm
          cases hp : pfArg f kw po.1 with
          | none => rfl
          | some x => simp [hp] at this

end PF.C02
