import PfModel.Lemmas.MapSpecDistinct
/-!
C08, round 9 — the hypothesis `(outputIndices m).Nodup` of `C08_output_key_enumerates_external` / `C08_input_keys_select`, characterised.
`output_key` tests its shape against `len(self.input_indices)` (a set), `input_keys` against `len(self.external_indices)` (a tuple,
`_mapspec.py:210, 236`).  For a valid spec the two lengths are equal EXACTLY when the external indices are pairwise distinct; when an
output index that an input carries is repeated (`a[i] -> b[i, i]`, an accepted oddity) no shape is accepted by both methods.
Property theorems only.
-/
namespace PF.C08
open PF.MS

/-- the two length tests agree iff the external indices are pairwise distinct -/
theorem C08_key_tests_agree_iff (m : MapSpec) (hv : Valid m) :
    nDistinct (inputIndexList m) = (externalIndices m).length ↔ (externalIndices m).Nodup :=
  key_tests_agree_iff m hv

/-- … and in terms of the two methods: some shape is accepted by both `output_key` and `input_keys`' length test iff the
    external indices are pairwise distinct (then exactly the shapes of that length are) -/
theorem C08_key_methods_share_a_shape_iff (m : MapSpec) (hv : Valid m) :
    (∃ s : List Nat, (∃ k, outputKey m s 0 = .ok k) ∧ inputKeys m s 0 ≠ .error .valueError) ↔ (externalIndices m).Nodup := by
  constructor
  · intro ⟨s, ⟨k, hk⟩, hi⟩
    apply (key_tests_agree_iff m hv).mp
    unfold outputKey at hk
    unfold inputKeys at hi
    split at hk
    · cases hk
    · next h1 =>
      split at hi
      · exact absurd rfl hi
      · next h2 =>
        have a : s.length = nDistinct (inputIndexList m) := Classical.not_not.mp h1
        have b : s.length = (externalIndices m).length := Classical.not_not.mp h2
        rw [← a, ← b]
  · intro hn
    have e := (key_tests_agree_iff m hv).mpr hn
    refine ⟨List.replicate (externalIndices m).length 1, ⟨PF.shapeToKey (List.replicate (externalIndices m).length 1) 0, by simp [outputKey, e]⟩, ?_⟩
    rw [inputKeys_select m hv hn _ 0 (by simp)]
    intro h; cases h

/-- a repeated external index: whatever shape `output_key` accepts, `input_keys` rejects -/
theorem C08_key_tests_disagree (m : MapSpec) (hv : Valid m) (h : ¬ (externalIndices m).Nodup) (s : List Nat) (i : Nat)
    (k : List Nat) (hk : outputKey m s i = .ok k) : inputKeys m s i = .error .valueError := by
  unfold outputKey at hk
  split at hk
  · cases hk
  · next h1 =>
    have a : s.length = nDistinct (inputIndexList m) := Classical.not_not.mp h1
    unfold inputKeys
    rw [if_pos]
    intro b
    exact h ((key_tests_agree_iff m hv).mp (by rw [← a, ← b]))

/-- `a[i] -> b[i, i]` is accepted by the constructor, and is such a spec -/
theorem C08_repeated_index_witness :
    construct [⟨"a", [some "i"]⟩] [⟨"b", [some "i", some "i"]⟩] = .ok ⟨[⟨"a", [some "i"]⟩], [⟨"b", [some "i", some "i"]⟩]⟩ ∧
    externalIndices ⟨[⟨"a", [some "i"]⟩], [⟨"b", [some "i", some "i"]⟩]⟩ = ["i", "i"] ∧
    outputKey ⟨[⟨"a", [some "i"]⟩], [⟨"b", [some "i", some "i"]⟩]⟩ [2] 1 = .ok [1] ∧
    inputKeys ⟨[⟨"a", [some "i"]⟩], [⟨"b", [some "i", some "i"]⟩]⟩ [2] 1 = .error .valueError ∧
    inputKeys ⟨[⟨"a", [some "i"]⟩], [⟨"b", [some "i", some "i"]⟩]⟩ [2, 2] 1 = .ok [("a", [some 1])] ∧
    outputKey ⟨[⟨"a", [some "i"]⟩], [⟨"b", [some "i", some "i"]⟩]⟩ [2, 2] 1 = .error .valueError :=
  ⟨rfl, by decide, rfl, rfl, rfl, rfl⟩

example : Valid ⟨[⟨"a", [some "i"]⟩], [⟨"b", [some "i", some "i"]⟩]⟩ := (valid_iff _).mpr ⟨by decide, rfl⟩
example : ¬ (externalIndices ⟨[⟨"a", [some "i"]⟩], [⟨"b", [some "i", some "i"]⟩]⟩).Nodup := by decide
example : (externalIndices ⟨[⟨"a", [some "i"]⟩], [⟨"b", [some "i", some "j"]⟩]⟩).Nodup := by decide

end PF.C08
