import PfModel.Lemmas.SubPipeComputable
/-!
C11, round 3 — `auto_subpipeline=True` WITHOUT `output_names` (`subpipeline(inputs)`): the requested nodes are the functions downstream
of a provided name (`out`); "computable" and "lacking" are read over the full pipeline as in `Lemmas/SubPipeComputable.lean`, with the
needed set started from `out` instead of the producers of `S`.  (`NeededFn … S` is `NeededFnFrom … (S.filterMap prodIdx)` by definition.)
-/
namespace PF.Sub
open PF PF.C11

section generic
variable {α : Type} (nd : α → Node)

/-- `f` is needed when the requested NODES are the positions `out` -/
def NeededFnFrom (fs : List α) (inp : List String) (out : List Nat) (f : α) : Prop :=
  ∃ j, Needed nd fs (some inp) out j ∧ fs[j]? = some f

/-- what the request lacks, the requested nodes being `out` -/
def LackingFrom (fs : List α) (inp : List String) (out : List Nat) (p : String) : Prop :=
  (∃ f, NeededFnFrom nd fs inp out f ∧ p ∈ (nd f).deps) ∧ p ∉ inp ∧ (∀ g ∈ fs, p ∉ (nd g).outputs) ∧
  ∀ g, NeededFnFrom nd fs inp out g → p ∉ (nd g).dflt

/-- the producer of a non-provided parameter of a needed function is needed -/
theorem neededFrom_producer (fs : List α) (inp : List String) (out : List Nat) (f : α) (hf : NeededFnFrom nd fs inp out f) (p : String)
    (hp : p ∈ (nd f).deps) (hi : p ∉ inp) (i : Nat) (hpi : prodIdx nd fs p = some i) : Needed nd fs (some inp) out i := by
  obtain ⟨j, hj, hfj⟩ := hf
  refine Reach.step j i hj ?_
  simp only [predsIdx, hfj, List.mem_filterMap]
  exact ⟨p, hp, by simp [cutOf, hi, hpi]⟩

theorem mem_sub_iff_from (fs : List α) (inp : List String) (out : List Nat) (K : List Nat)
    (hK : ∀ j, j ∈ K ↔ Needed nd fs (some inp) out j) (f : α) :
    f ∈ keepFrom K 0 fs ↔ NeededFnFrom nd fs inp out f := by
  rw [mem_keepFrom]
  simp only [Nat.zero_add, List.contains_eq_mem, decide_eq_true_eq]
  constructor
  · rintro ⟨j, hj, hf⟩; exact ⟨j, (hK j).mp hj, hf⟩
  · rintro ⟨j, hj, hf⟩; exact ⟨j, (hK j).mpr hj, hf⟩

/-- **the model's root-argument test, read over the full pipeline**: a root argument of the partial pipeline is missing iff
    the request lacks it in the user's sense -/
theorem missingRoot_iff_lackingFrom (fs : List α) (inp : List String) (out : List Nat) (K : List Nat)
    (hK : ∀ j, j ∈ K ↔ Needed nd fs (some inp) out j) (r : String) :
    MissingRoot nd (keepFrom K 0 fs) inp r ↔ LackingFrom nd fs inp out r := by
  constructor
  · rintro ⟨f, hf, hd, hn, hi, hg⟩
    have hfn := (mem_sub_iff_from nd fs inp out K hK f).mp hf
    refine ⟨⟨f, hfn, hd⟩, hi, ?_, fun g hgn => hg g ((mem_sub_iff_from nd fs inp out K hK g).mpr hgn)⟩
    intro g hgm hpo
    obtain ⟨i, hpi⟩ := Option.isSome_iff_exists.mp ((prodIdx_isSome_iff nd fs r).mpr ⟨g, hgm, hpo⟩)
    obtain ⟨g', hg', hpo'⟩ := prodIdx_some_get nd fs r i hpi
    have hin := neededFrom_producer nd fs inp out f hfn r hd hi i hpi
    have hsub : g' ∈ keepFrom K 0 fs := (mem_sub_iff_from nd fs inp out K hK g').mpr ⟨i, hin, hg'⟩
    have := (prodIdx_isSome_iff nd (keepFrom K 0 fs) r).mpr ⟨g', hsub, hpo'⟩
    rw [hn] at this; cases this
  · rintro ⟨⟨f, hfn, hd⟩, hi, hno, hdf⟩
    refine ⟨f, (mem_sub_iff_from nd fs inp out K hK f).mpr hfn, hd, ?_, hi,
      fun g hg => hdf g ((mem_sub_iff_from nd fs inp out K hK g).mp hg)⟩
    cases h : prodIdx nd (keepFrom K 0 fs) r with
    | none => rfl
    | some i =>
      obtain ⟨g, hg, hpo⟩ := (prodIdx_isSome_iff nd _ r).mp (by rw [h]; rfl)
      exact absurd hpo (hno g (keepFrom_subset K fs 0 g hg))

/-- **`subpipeline(inputs)` without `output_names`, totally**: either some provided name is no node of the graph (`KeyError`), or —
    `out` being exactly the functions downstream of a provided name — the request is accepted iff nothing is lacking, keeping
    exactly the functions needed from `out`; otherwise it is rejected with a non-empty list of exactly the lacking names. -/
theorem auto_total (fs : List α) (inp : List String) :
    (∃ n ∈ inp, prodIdx nd fs n = none ∧ (rootConsumers nd fs n).isEmpty = true ∧
      subpipeline nd fs (some inp) none = .error (.unknown n)) ∨
    ∃ out, (∀ j, j ∈ out ↔ ∃ n ∈ inp, Downstream nd fs n j) ∧
      (((∀ p, ¬ LackingFrom nd fs inp out p) ∧
          ∃ sub, subpipeline nd fs (some inp) none = .ok sub ∧ ∀ f, f ∈ sub ↔ NeededFnFrom nd fs inp out f) ∨
       ((∃ p, LackingFrom nd fs inp out p) ∧
          ∃ ms, subpipeline nd fs (some inp) none = .error (.missing ms) ∧ ms ≠ [] ∧ ∀ p, p ∈ ms ↔ LackingFrom nd fs inp out p)) := by
  cases hout : outNodes nd fs (some inp) none with
  | error e =>
    left
    have hout0 := hout
    unfold outNodes at hout
    simp only [bind, Except.bind, Option.getD_some] at hout
    split at hout
    · next e' he =>
      cases hout
      obtain ⟨n, hn, hd⟩ := (mapM_except _ _).1 e he
      have hne := downstreamOf_ne_fuel nd fs n
      have hd0 := hd
      unfold downstreamOf at hd
      split at hd
      · split at hd
        · cases hd
        · cases hd; exact absurd hd0 hne
      · next hpi =>
        split at hd
        · next hemp =>
          cases hd
          exact ⟨n, hn, hpi, hemp, by simp [subpipeline, hout0]⟩
        · split at hd
          · cases hd
          · cases hd; exact absurd hd0 hne
    · simp [pure, Except.pure] at hout
  | ok out =>
    right
    refine ⟨out, outNodes_none_iff nd fs inp out hout, ?_⟩
    obtain ⟨K, hK⟩ := reachSet_preds_total nd fs (cutOf (some inp)) out (outNodes_lt nd fs (some inp) none out hout)
    have hKn : ∀ j, j ∈ K ↔ Needed nd fs (some inp) out j := fun j => reachSet_iff _ _ _ K hK j
    have hsub : subpipeline nd fs (some inp) none = checkRoots nd (keepFrom K 0 fs) (some inp) := by
      simp [subpipeline, hout, hK]
    rw [hsub]
    simp only [checkRoots]
    by_cases hempty : (missingRoots nd (keepFrom K 0 fs) inp).isEmpty = true
    · left
      simp only [hempty, ↓reduceIte]
      rw [List.isEmpty_iff] at hempty
      refine ⟨?_, _, rfl, mem_sub_iff_from nd fs inp out K hKn⟩
      intro p hp
      have := (mem_missingRoots nd _ inp p).mpr ((missingRoot_iff_lackingFrom nd fs inp out K hKn p).mpr hp)
      rw [hempty] at this; cases this
    · right
      simp only [hempty, Bool.false_eq_true, ↓reduceIte]
      have hne : missingRoots nd (keepFrom K 0 fs) inp ≠ [] := by
        intro h; rw [h] at hempty; simp at hempty
      obtain ⟨r0, hr0⟩ := List.exists_mem_of_ne_nil _ hne
      refine ⟨⟨r0, (missingRoot_iff_lackingFrom nd fs inp out K hKn r0).mp ((mem_missingRoots nd _ inp r0).mp hr0)⟩, _, rfl, ?_, ?_⟩
      · intro h
        have : r0 ∈ (missingRoots nd (keepFrom K 0 fs) inp).eraseDups := List.mem_eraseDups.mpr hr0
        rw [h] at this; cases this
      · intro p
        rw [List.mem_eraseDups]
        exact (mem_missingRoots nd _ inp p).trans (missingRoot_iff_lackingFrom nd fs inp out K hKn p)

end generic
end PF.Sub
