import PfModel.Model.MapPieces
/-!
C06, round 10 — learners of functions declared with `resources_scope="element"`.

`create_learners` (`pipefunc/map/adaptive.py:258-271`) hands every function of a generation ONE `SequenceLearner` over the linear
indices its key selects — unless the function is element-scoped: then `_split_sequence_learner` (`adaptive.py:276-280`) replaces that
learner by one learner per ELEMENT OF THE SEQUENCE (each over the single linear index it stands for; a sequence of length 1 is kept
as it is, an empty one yields no learner at all).  `elem` = the names of the element-scoped functions.
-/
namespace PF.Pieces
open PF PF.Map

/-- `_split_sequence_learner` (`adaptive.py:276-280`): `[learner]` when the sequence has one entry (also the `[None]` of a function
    called once), otherwise one learner per entry `x` of the sequence, over `[x]` -/
def splitLearner (l : Learner) : List Learner :=
  match l.seq with
  | none => [l]
  | some s => if s.length = 1 then [l] else s.map fun x => { func := l.func, seq := some [x] }

/-- the inner loop of `create_learners` (`adaptive.py:259-270`): the learners of one generation, those of element-scoped functions split -/
def scopeGen (elem : List String) (gen : List Learner) : List Learner :=
  gen.flatMap fun l => if elem.contains l.func then splitLearner l else [l]

/-- `create_learners` for a pipeline whose functions `elem` are declared with `resources_scope="element"` -/
def createLearnersScoped (fs : List MFunc) (inputs : List (String × Val)) (userInternal : List (String × List Nat))
    (fixed : Option (List (String × Sel))) (split : Bool) (elem : List String) :
    M (List (Option (List (String × Sel)) × List (List Learner))) := do
  let ls ← createLearners fs inputs userInternal fixed split
  pure (ls.map fun (k, gens) => (k, gens.map (scopeGen elem)))

/-- the points a learner stands for (`[]` for the `[None]` of a function called once) -/
def pointsOf (l : Learner) : List Nat := l.seq.getD []

end PF.Pieces
