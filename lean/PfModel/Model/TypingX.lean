import PfModel.Model.Typing
/-!
Extension of the annotation language of `Model/Typing.lean` (round 9): `Literal[v, ..]` and the variadic tuple `tuple[T, ...]`.

`XTy` has every constructor of `Ty` plus `lit` and `vtuple`; `compatX` has every case of `compat` (same order) plus the four cases
that mention the new constructors.  `Ty.emb` embeds the old language; the driver answers every request of the old language with
both functions and refuses to answer when they differ (`typing.compat`), so `compatX ∘ emb = compat` is checked on every generated
pair (it is not proved).

The model mirrors the *repaired* code (fix DF-C16-variadic-compat, `fixes/C16/r9`): `_compare_generic_type_args`
(`pipefunc/typing.py:173-190`) treats a required `tuple[T, ...]` as "every element type of the source is accepted by `T`" and rejects a
variadic source where a fixed number of elements is required.  The pinned code zipped `(T, Ellipsis)` with the other argument tuple.
-/
namespace PF.Typing

/-- a value inside `Literal[...]`; `type(v) is type(w) and v == w` (`typing.py:206-209`) is structural equality here
    (`True` and `1` are different values) -/
inductive LitV
  | int : Int → LitV
  | str : String → LitV
  | bool : Bool → LitV
  | none : LitV
  deriving DecidableEq, Repr

inductive XTy
  | base : Base → XTy
  | lit : List LitV → XTy           -- `Literal[v1, v2, ..]`
  | any : XTy
  | noann : XTy
  | ndarr : XTy
  | gen : Gen → List XTy → XTy
  | vtuple : XTy → XTy              -- `tuple[T, ...]`
  | union : List XTy → XTy
  | annot : XTy → XTy
  | array : XTy → XTy
  | tvFree : XTy
  | tvBound : XTy → XTy
  | tvConstr : List XTy → XTy
  deriving Repr, Inhabited

theorem XTy.sizeOf_pos (t : XTy) : 0 < sizeOf t := by
  cases t <;> simp <;> omega

/-- every `v` of the source `Literal` is among the values of the required one (`typing.py:202-209`) -/
def litSub (vs ws : List LitV) : Bool := vs.all (fun v => ws.contains v)

mutual
/-- `is_type_compatible` on the extended language: the cases of `compat` (`Model/Typing.lean`) in the same order, and
    * `Literal` against `Literal`: inclusion of the value sets; a `Literal` against anything that is not `Any`, missing, a TypeVar,
      a union or an `Annotated` is rejected, and so is anything else against a `Literal` (`_handle_generic_types`, `typing.py:199-209`);
    * `_compare_generic_type_args` (`typing.py:173-190`, repaired): required `tuple[T, ...]` ← `tuple[S, ...]` is `S → T`;
      required `tuple[T, ...]` ← `tuple[S1, .., Sn]` is every `Si → T` (bare `tuple` accepted); `tuple[S, ...]` is accepted by a
      fixed-arity tuple only when that is bare `tuple`. -/
def compatX : XTy → XTy → Bool
  | .annot p, b => compatX p b
  | .tvFree, _ => true
  | .tvBound _, _ => true
  | .tvConstr _, _ => true
  | _, .any => true
  | .noann, _ => true
  | _, .noann => true
  | _, .tvFree => true
  | a, .tvBound t => compatX a t
  | .union as, .tvConstr cs => compatAnyX (.union as) cs || compatAllX as (.tvConstr cs)
  | a, .tvConstr cs => compatAnyX a cs
  | .union as, b => compatAllX as b
  | a, .union bs => compatAnyX a bs
  | .array e, .array f => compatX e f
  | a, .annot q => compatX a q
  | .array _, b => compatX .ndarr b
  | a, .array _ => compatX a .ndarr
  | .base x, .base y => Base.sub x y
  | .lit vs, .lit ws => litSub vs ws
  | .gen g as, .gen h bs => g == h && (as.isEmpty || bs.isEmpty || (as.length == bs.length && compatZipX as bs))
  | .vtuple s, .vtuple t => compatX s t
  | .gen g as, .vtuple t => g == .tuple && compatAllX as t
  | .vtuple _, .gen g bs => g == .tuple && bs.isEmpty
  | .ndarr, .ndarr => true
  | _, _ => false
termination_by a b => sizeOf a + sizeOf b
decreasing_by
  all_goals simp_wf
  all_goals first
    | omega
    | exact XTy.sizeOf_pos _
    | (have h := XTy.sizeOf_pos; grind)
def compatAllX : List XTy → XTy → Bool
  | [], _ => true
  | a :: as, b => compatX a b && compatAllX as b
termination_by as b => sizeOf as + sizeOf b
def compatAnyX : XTy → List XTy → Bool
  | _, [] => false
  | a, b :: bs => compatX a b || compatAnyX a bs
termination_by a bs => sizeOf a + sizeOf bs
def compatZipX : List XTy → List XTy → Bool
  | a :: as, b :: bs => compatX a b && compatZipX as bs
  | _, _ => true
termination_by as bs => sizeOf as + sizeOf bs
end

/-! ### the embedding of the old language -/
mutual
def Ty.emb : Ty → XTy
  | .base x => .base x
  | .any => .any
  | .noann => .noann
  | .ndarr => .ndarr
  | .gen g ts => .gen g (embL ts)
  | .union ts => .union (embL ts)
  | .annot t => .annot t.emb
  | .array t => .array t.emb
  | .tvFree => .tvFree
  | .tvBound t => .tvBound t.emb
  | .tvConstr ts => .tvConstr (embL ts)
def embL : List Ty → List XTy
  | [] => []
  | t :: ts => t.emb :: embL ts
end

/-! ### well-formed extended annotations -/
def XTy.isUnion : XTy → Bool | .union _ => true | _ => false
def XTy.isAnnot : XTy → Bool | .annot _ => true | _ => false
def XTy.isArray : XTy → Bool | .array _ => true | _ => false

mutual
/-- as `Ty.wf`; a `Literal` has at least one value -/
def XTy.wf : XTy → Bool
  | .lit vs => !vs.isEmpty
  | .gen _ ts => wfLX ts
  | .vtuple t => t.wf
  | .union ts => !ts.isEmpty && noUnionLX ts && wfLX ts
  | .annot t => !t.isAnnot && !t.isArray && t.wf
  | .array t => t.wf
  | .tvBound t => t.wf
  | .tvConstr ts => wfLX ts
  | _ => true
def wfLX : List XTy → Bool
  | [] => true
  | t :: ts => t.wf && wfLX ts
def noUnionLX : List XTy → Bool
  | [] => true
  | t :: ts => !t.isUnion && noUnionLX ts
end

end PF.Typing
