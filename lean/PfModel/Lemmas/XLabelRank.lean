import PfModel.Lemmas.RunInfoAgree
import PfModel.Lemmas.XLabelSel
/-!
C19 (proof round): what a run RETURNS for an output, kind by kind — the result array of a function mapped over inputs is a
`Val.arr` of the shape `map_shapes` recorded, and that shape has one entry per output index of the function's own MapSpec.
These are the facts behind the hypotheses `hdata` / `hrank` of `C19_sel_run`.  Core Lean only.
-/
namespace PF.XLabel
open PF PF.Map PF.RIC

/-- the kind of one returned output of `f`: the array of the recorded shape (mapped over inputs), or the value of ONE call -/
def OutOf (shapes : List (String × List Nat)) (f : MFunc) (ov : String × Val) : Prop :=
  ov.1 ∈ f.outputs ∧
  ((∃ ms h sh elems, f.mapspec = some ms ∧ ms.inputs.isEmpty = false ∧ f.outputs.head? = some h ∧
      alookup shapes h = some sh ∧ ov.2 = .arr sh elems) ∨
   ((∀ ms, f.mapspec = some ms → ms.inputs.isEmpty = true) ∧ ∃ args, ov.2 = outVal f args ov.1))

theorem runSingle_outs (fs : List MFunc) (env : Env) (f : MFunc) (r : FuncResult) (h : runSingle fs env f = .ok r) :
    ∀ ov ∈ r.outputs, ov.1 ∈ f.outputs ∧ ∃ args, ov.2 = outVal f args ov.1 := by
  unfold runSingle at h
  simp only [bind, Except.bind] at h
  split at h
  · cases h
  · next args _ =>
    simp only [pure, Except.pure, Except.ok.injEq] at h
    subst h
    intro ov hov
    simp only [List.mem_map] at hov
    obtain ⟨o, ho, e⟩ := hov
    subst e
    exact ⟨ho, _, rfl⟩

theorem runMapped_outs (fs : List MFunc) (env : Env) (f : MFunc) (ms : MSpec) (sh : List Nat) (mk : List Bool) (r : FuncResult)
    (h : runMappedWith opArray fs env f ms sh mk = .ok r) :
    ∀ ov ∈ r.outputs, ov.1 ∈ f.outputs ∧ ∃ elems, ov.2 = .arr sh elems := by
  unfold runMappedWith at h
  simp only [bind, Except.bind] at h
  split at h
  · cases h
  · next argsAt _ =>
    simp only [pure, Except.pure, Except.ok.injEq] at h
    subst h
    intro ov hov
    simp only [List.mem_map] at hov
    obtain ⟨o, ho, e⟩ := hov
    subst e
    exact ⟨ho, _, rfl⟩

theorem runFunc_outs (fs : List MFunc) (shapes : List (String × List Nat)) (masks : List (String × List Bool)) (env : Env)
    (f : MFunc) (r : FuncResult) (h : runFuncWith opArray fs shapes masks env f = .ok r) : ∀ ov ∈ r.outputs, OutOf shapes f ov := by
  intro ov hov
  unfold runFuncWith at h
  cases hms : f.mapspec with
  | none =>
    simp only [hms] at h
    obtain ⟨h1, h2⟩ := runSingle_outs fs env f r h ov hov
    exact ⟨h1, Or.inr ⟨fun ms e => (by rw [hms] at e; cases e), h2⟩⟩
  | some ms =>
    simp only [hms] at h
    by_cases hin : ms.inputs.isEmpty = true
    · simp only [hin, if_true] at h
      obtain ⟨h1, h2⟩ := runSingle_outs fs env f r h ov hov
      exact ⟨h1, Or.inr ⟨fun ms' e => (by rw [hms] at e; cases e; exact hin), h2⟩⟩
    · simp only [hin, Bool.false_eq_true, if_false] at h
      cases hh : f.outputs.head? with
      | none => simp [hh, throw, throwThe, MonadExceptOf.throw] at h
      | some o =>
        simp only [hh] at h
        cases hs : alookup shapes o with
        | none => simp [hs, throw, throwThe, MonadExceptOf.throw] at h
        | some sh =>
          cases hk : alookup masks o with
          | none => simp [hs, hk, throw, throwThe, MonadExceptOf.throw] at h
          | some mk =>
            simp only [hs, hk] at h
            split at h
            · simp [throw, throwThe, MonadExceptOf.throw] at h
            · obtain ⟨h1, elems, h2⟩ := runMapped_outs fs env f ms sh mk r h ov hov
              exact ⟨h1, Or.inl ⟨ms, o, sh, elems, hms, by simpa using hin, hh, hs, h2⟩⟩

theorem runGen_outs (R : Env → MFunc → M FuncResult) (env : Env) (P : String × Val → Prop) :
    ∀ (gen : List MFunc) (rs : List FuncResult), runGenWith R env gen = .ok rs →
      (∀ f ∈ gen, ∀ r, R env f = .ok r → ∀ ov ∈ r.outputs, P ov) → ∀ ov ∈ rs.flatMap (·.outputs), P ov := by
  intro gen
  induction gen with
  | nil =>
    intro rs h _ ov hov
    simp only [runGenWith, pure, Except.pure, Except.ok.injEq] at h
    subst h; simp at hov
  | cons f rest ih =>
    intro rs h hP ov hov
    simp only [runGenWith, bind, Except.bind] at h
    cases hr : R env f with
    | error e => simp [hr] at h
    | ok r =>
      simp only [hr] at h
      cases hrs : runGenWith R env rest with
      | error e => simp [hrs] at h
      | ok rs' =>
        simp only [hrs, pure, Except.pure, Except.ok.injEq] at h
        subst h
        simp only [List.flatMap_cons, List.mem_append] at hov
        rcases hov with h1 | h2
        · exact hP f (List.mem_cons_self ..) r hr ov h1
        · exact ih rs' hrs (fun g hg => hP g (List.mem_cons_of_mem _ hg)) ov h2

theorem runGens_outs (R : Env → MFunc → M FuncResult) (P : String × Val → Prop) :
    ∀ (gens : List (List MFunc)) (env : Env) (rs : List FuncResult) (env' : Env), runGensWith R gens env = .ok (rs, env') →
      (∀ f ∈ gens.flatten, ∀ env r, R env f = .ok r → ∀ ov ∈ r.outputs, P ov) →
      ∀ ov ∈ rs.flatMap (·.outputs), P ov := by
  intro gens
  induction gens with
  | nil =>
    intro env rs env' h _
    simp only [runGensWith, pure, Except.pure, Except.ok.injEq, Prod.mk.injEq] at h
    obtain ⟨e, _⟩ := h; subst e; intro ov hov; simp at hov
  | cons gen rest ih =>
    intro env rs env' h hP
    simp only [runGensWith, bind, Except.bind] at h
    cases hg : runGenWith R env gen with
    | error e => simp [hg] at h
    | ok rs1 =>
      simp only [hg] at h
      cases hrest : runGensWith R rest { env with store := env.store ++ rs1.flatMap (·.slots) } with
      | error e => simp [hrest] at h
      | ok p =>
        obtain ⟨more, envF⟩ := p
        simp only [hrest, pure, Except.pure, Except.ok.injEq, Prod.mk.injEq] at h
        obtain ⟨e, _⟩ := h
        subst e
        intro ov hov
        simp only [List.flatMap_append, List.mem_append] at hov
        rcases hov with h1 | h2
        · exact runGen_outs R env P gen rs1 hg
            (fun f hf r hr => hP f (by simp only [List.flatten_cons, List.mem_append]; exact Or.inl hf) env r hr) ov h1
        · exact ih _ _ _ hrest
            (fun f hf => hP f (by simp only [List.flatten_cons, List.mem_append]; exact Or.inr hf)) ov h2

/-- every returned output of a successful run belongs to a function of the pipeline and has the kind `OutOf` says, with the
    shapes `map_shapes` computed -/
theorem runMap_outs (fs : List MFunc) (inputs : List (String × Val)) (ui : List (String × List Nat)) (r : MapResult)
    (h : runMap fs inputs ui = .ok r) :
    mapShapes fs inputs (constructInternal fs ui) = .ok (r.shapes, r.masks) ∧
    ∀ ov ∈ r.outputs, ∃ f ∈ (generations fs).flatten, OutOf r.shapes f ov := by
  unfold runMap runMapWith at h
  simp only [bind, Except.bind] at h
  cases hv : validateInputs fs inputs with
  | error e => simp [hv] at h
  | ok u =>
    simp only [hv] at h
    by_cases hc : (generations fs).flatten.length ≠ fs.length
    · rw [if_pos hc] at h
      simp [throw, throwThe, MonadExceptOf.throw] at h
    · simp only [hc, if_false] at h
      cases hsm : mapShapes fs inputs (constructInternal fs ui) with
      | error e => simp [hsm] at h
      | ok sm =>
        simp only [hsm] at h
        cases hre : runGensWith (runFuncWith opArray fs sm.1 sm.2) (generations fs) { inputs := inputs, store := [] } with
        | error e => simp [hre] at h
        | ok re =>
          simp only [hre, pure, Except.pure, Except.ok.injEq] at h
          subst h
          refine ⟨rfl, ?_⟩
          exact runGens_outs (runFuncWith opArray fs sm.1 sm.2) (fun ov => ∃ f ∈ (generations fs).flatten, OutOf sm.1 f ov)
            (generations fs) _ re.1 re.2 (by cases re; exact hre)
            (fun f hf env r hr ov hov => ⟨f, hf, runFunc_outs fs sm.1 sm.2 env f r hr ov hov⟩)

/-! ### `map_shapes`: the rank of every recorded shape of a function's output -/

theorem mem_rootArgs_not_produced (fs : List MFunc) (p : String) (h : p ∈ rootArgs fs) : (producer fs p).isSome = false := by
  unfold rootArgs at h
  rw [List.mem_eraseDups] at h
  simp only [List.mem_flatMap, List.mem_filterMap] at h
  obtain ⟨f, _, q, _, hq⟩ := h
  split at hq
  · cases hq
  · next hn =>
    cases hq
    simp only [Bool.or_eq_true, not_or, Bool.not_eq_true] at hn
    exact hn.2

theorem produced_of_output (fs : List MFunc) (f : MFunc) (hf : f ∈ fs) (o : String) (ho : o ∈ f.outputs) :
    (producer fs o).isSome = true := by
  unfold producer
  rw [List.find?_isSome]
  exact ⟨f, hf, by simpa using ho⟩

theorem mspecShape_len (ms : MSpec) (shapes : List (String × List Nat)) (internal : List (String × List Nat))
    (s : List Nat) (m : List Bool) (h : mspecShape ms shapes internal = .ok (s, m)) : s.length = ms.outputIndices.length := by
  unfold mspecShape at h
  simp only [bind, Except.bind] at h
  split at h
  · cases h
  · exact (go_spec ms shapes internal _ _ 0 s m h).1

/-- what `map_shapes` records under a name: a root argument, or an output of a function with a MapSpec, with a shape of one
    entry per output index of that MapSpec -/
def ShapeRec (fs : List MFunc) (pre : List MFunc) (kv : String × List Nat) : Prop :=
  kv.1 ∈ rootArgs fs ∨ ∃ f ∈ pre, ∃ ms, f.mapspec = some ms ∧ kv.1 ∈ f.outputs ∧ kv.2.length = ms.outputIndices.length

theorem mapShapes_rank (fs : List MFunc) (inputs : List (String × Val)) (internal : List (String × List Nat))
    (sm : List (String × List Nat) × List (String × List Bool)) (h : mapShapes fs inputs internal = .ok sm) :
    ∀ kv ∈ sm.1, ShapeRec fs (generations fs).flatten kv := by
  unfold mapShapes at h
  simp only [bind, Except.bind] at h
  split at h
  · cases h
  · next v1 hloop1 =>
    split at h
    · cases h
    · next v2 hloop =>
      simp only [pure, Except.pure, Except.ok.injEq] at h
      subst h
      have h1 := forIn_inv _ (fun (pre : List String) (c : List (String × List Nat) × List (String × List Bool)) =>
          ∀ kv ∈ c.1, kv.1 ∈ pre) (rootArgs fs) [] _ v1 (by intro kv hkv; cases hkv) ?_ hloop1
      · have := forIn_inv _ (fun pre (c : List (String × List Nat) × List (String × List Bool)) =>
            ∀ kv ∈ c.1, ShapeRec fs pre kv)
          (generations fs).flatten [] _ v2 (by intro kv hkv; exact Or.inl (by simpa using h1 kv hkv)) ?_ hloop
        · simpa using this
        · intro pre a c r hInv hb
          have mono : ∀ kv, ShapeRec fs pre kv → ShapeRec fs (pre ++ [a]) kv := by
            intro kv hk
            rcases hk with hk | ⟨f, hf, ms, h1, h2, h3⟩
            · exact Or.inl hk
            · exact Or.inr ⟨f, List.mem_append_left _ hf, ms, h1, h2, h3⟩
          cases hms : a.mapspec with
          | none =>
            simp only [hms, pure, Except.pure, Except.ok.injEq] at hb
            subst hb
            exact ⟨_, rfl, fun kv hkv => mono kv (hInv kv hkv)⟩
          | some ms =>
            simp only [hms] at hb
            split at hb
            · cases hb
            · next v hv =>
              rw [inner_loop] at hb
              simp only [pure, Except.pure, Except.ok.injEq] at hb
              subst hb
              refine ⟨_, rfl, ?_⟩
              intro kv hkv
              rcases List.mem_append.mp hkv with hk | hk
              · exact mono kv (hInv kv hk)
              · simp only [List.mem_map] at hk
                obtain ⟨o, ho, e⟩ := hk
                subst e
                obtain ⟨s, m⟩ := v
                exact Or.inr ⟨a, by simp, ms, hms, ho, mspecShape_len ms _ _ s m hv⟩
      · intro pre a c r hInv hb
        split at hb
        · split at hb
          · cases hb
          · split at hb
            · cases hb
            · simp only [pure, Except.pure, Except.ok.injEq] at hb
              subst hb
              refine ⟨_, rfl, ?_⟩
              intro kv hkv
              rcases List.mem_append.mp hkv with hk | hk
              · exact List.mem_append_left _ (hInv kv hk)
              · simp only [List.mem_singleton] at hk
                subst hk
                simp
        · simp only [pure, Except.pure, Except.ok.injEq] at hb
          subst hb
          exact ⟨_, rfl, fun kv hkv => List.mem_append_left _ (hInv kv hkv)⟩

/-- **A function mapped over inputs returns, for each of its outputs, an array whose rank is the number of output indices of its
    MapSpec** (distinct output names, as `Pipeline.add` enforces). -/
theorem runMap_output_array (fs : List MFunc) (inputs : List (String × Val)) (ui : List (String × List Nat)) (r : MapResult)
    (h : runMap fs inputs ui = .ok r) (hn : (allOutputs fs).Nodup) (f : MFunc) (hf : f ∈ fs) (ms : MSpec)
    (hms : f.mapspec = some ms) (hin : ms.inputs.isEmpty = false) (o : String) (ho : o ∈ f.outputs) (v : Val)
    (hv : alookup r.outputs o = some v) :
    ∃ sh elems, v = .arr sh elems ∧ sh.length = ms.outputIndices.length ∧
      ∃ hd, f.outputs.head? = some hd ∧ alookup r.shapes hd = some sh := by
  obtain ⟨hsm, houts⟩ := runMap_outs fs inputs ui r h
  obtain ⟨g, hg, hog, hkind⟩ := houts (o, v) (alookup_some_mem _ _ _ hv)
  have hgf : g = f := outputs_unique fs hn g (generations_mem fs g hg) f hf o hog ho
  subst hgf
  rcases hkind with ⟨ms', hd, sh, elems, hms', _, hhd, hsh, hval⟩ | ⟨hall, _⟩
  · rw [hms] at hms'; cases hms'
    refine ⟨sh, elems, hval, ?_, hd, hhd, hsh⟩
    have hhdmem : hd ∈ g.outputs := List.mem_of_mem_head? (by rw [hhd]; rfl)
    rcases mapShapes_rank fs inputs _ _ hsm (hd, sh) (alookup_some_mem _ _ _ hsh) with hroot | ⟨g', hg', ms', hms', ho', hlen⟩
    · have h1 := mem_rootArgs_not_produced fs hd hroot
      rw [produced_of_output fs g hf hd hhdmem] at h1
      cases h1
    · have : g' = g := outputs_unique fs hn g' (generations_mem fs g' hg') g hf hd ho' hhdmem
      subst this
      rw [hms] at hms'; cases hms'
      exact hlen
  · rw [hall ms hms] at hin; cases hin

/-- What pipefunc's constructors establish about the MapSpecs of a pipeline, as far as the RANK of result arrays needs it (each
    clause is a check of `Pipeline.add` / `PipeFunc.__init__` / `MapSpec.__post_init__` / `validate_consistent_axes`, or — the last
    one — the contract of a function declared `... -> v[j]`):
    * `outputs_nodup` — no two functions produce the same name;
    * `spec_outputs` — the MapSpec of a function names exactly the function's outputs;
    * `named` — every output of a MapSpec is written with all axes named, and with the axes of the first output;
    * `consistent` — equally named arrays have equal rank and agree on axis names (`validate_consistent_axes`, C01Axes);
    * `generators` — a function whose MapSpec has NO inputs (`... -> v[j]`, called once) returns arrays with one axis per output
      index.  Without this clause the model's run still succeeds and returns the bare term (see the witness in `Props/C19Rank`). -/
structure RankWF (fs : List MFunc) : Prop where
  outputs_nodup : (allOutputs fs).Nodup
  spec_outputs : ∀ f ∈ fs, ∀ ms, f.mapspec = some ms → ms.outputs.map (·.name) = f.outputs
  named : ∀ f ∈ fs, ∀ ms, f.mapspec = some ms → ∀ a ∈ ms.outputs,
    ∃ names : List String, a.axes = names.map some ∧ (ms.outputs.headD default).axes = a.axes
  consistent : Consistent (allSpecs (pipelineMapspecs fs))
  generators : ∀ f ∈ fs, ∀ ms, f.mapspec = some ms → ms.inputs.isEmpty = true →
    ∃ sh, f.ret = some sh ∧ sh.length = ms.outputIndices.length

theorem filterMap_id_map_some (names : List String) : (names.map some).filterMap id = names := by
  induction names with
  | nil => rfl
  | cons a r ih => simp [List.filterMap_cons, ih]

/-- the number of output indices of a MapSpec whose outputs are all written like the named output `a` -/
theorem outputIndices_len (ms : MSpec) (a : ASpec) (ha : a ∈ ms.outputs) (names : List String) (hn : a.axes = names.map some)
    (hh : (ms.outputs.headD default).axes = a.axes) : ms.outputIndices.length = a.axes.length := by
  unfold MSpec.outputIndices
  cases hm : ms.outputs with
  | nil => rw [hm] at ha; cases ha
  | cons o rest =>
    rw [hm] at hh
    simp only [List.headD_cons] at hh
    simp only [hh, hn, filterMap_id_map_some, List.length_map]

end PF.XLabel
