"""C01, the `consistentAxes` conjunct of `Conforms`: the real `validate_consistent_axes` (pipefunc/map/_mapspec.py:384-413)
against its algorithmic model `PF.MapAxes.validate` (lean/PfModel/Model/MapConsistent.lean; driver `C01Axes`, entry `axes.check`).

`PF.C01.C01_consistent_axes_model` proves that the model accepts iff the pairwise predicate `consistentAxes` holds; this module
ties the model to the code: lists of 1-4 real `MapSpec` objects over the array names {x, y, z, a, b}, ranks 1-3, index names
{i, j, k, ':'} are built with the real constructors, handed to the real `validate_consistent_axes`, and the accept/refuse
verdict is compared with the driver's.  Streams:

* consistent by construction: one axis naming per array is drawn, every ArraySpec masks random positions with ':';
* sparse: several specs of ONE array that each name few positions (agreement is not transitive; the real code walks a `set`);
* mutations of the consistent ones: swap two axes of one spec, rename one axis, change the rank of one spec (append/drop an axis);
* the MapSpec lists of mapgen-generated pipelines (both sides must accept them).

Only accept/refuse is compared (never messages).  The model-side refusal kind (`length`/`name`) and refused array name are
counted as distribution; the driver's `pairwise` field (`consistentAxes`) must equal the model's verdict (the theorem).
MapSpecs the real constructor refuses (`MapSpec.__post_init__`) are counted and dropped from the list.

Not registered anywhere: `run(ctx)` is called from harness/props/c01.py.
"""
from __future__ import annotations

import pfimport  # noqa: F401
from pfimport import exc_enum

import mapgen

DRIVER = "C01Axes"
ITEM = "correspondence:consistent-axes"
NAMES = ["x", "y", "z", "a", "b"]
INDICES = ["i", "j", "k"]
MUTATIONS = ["swap", "rename", "rank"]


# ------------------------------------------------------------------------------------------------ generation (plain data)
def _gen_consistent(rng):
    """A list of 1-4 MapSpec descriptions {"inputs": [[name, axes]...], "outputs": [...]} that is consistent by construction."""
    naming = {}
    for n in NAMES:
        r = rng.choice([1, 1, 2, 2, 2, 3])
        naming[n] = rng.sample(INDICES, r)
    specs = []
    for _ in range(rng.randint(1, 4)):
        out = rng.choice(NAMES)
        outs = [out]
        if rng.random() < 0.25:
            twins = [n for n in NAMES if n != out and naming[n] == naming[out]]
            if twins:
                outs.append(rng.choice(twins))
        avail = [n for n in NAMES if n not in outs]
        ins = rng.sample(avail, rng.randint(1, min(3, len(avail))))
        oidx = set(naming[out])
        inputs = []
        for n in ins:
            p_mask = rng.choice([0.0, 0.3, 0.6])
            axes = [ix if (ix in oidx and rng.random() >= p_mask) else None for ix in naming[n]]
            inputs.append([n, axes])
        specs.append({"inputs": inputs, "outputs": [[o, list(naming[o])] for o in outs]})
    return specs


def _gen_sparse(rng):
    """2-4 MapSpecs `x[...] -> o[i, j, k]` over ONE input array whose specs each name few positions with a random index: agreement of
    ArraySpecs is not transitive (`x[i, :]`, `x[:, j]`, `x[k, :]`), and the real code walks a `set` in arbitrary order."""
    r = rng.choice([2, 2, 3])
    x = rng.choice(NAMES)
    outs = rng.sample([n for n in NAMES if n != x], rng.randint(2, 4))
    if rng.random() < 0.7:       # one naming, sparsely shown: consistent
        naming = rng.sample(INDICES, r)
        draw = lambda p: naming[p]   # noqa: E731
    else:
        draw = lambda p: rng.choice(INDICES)   # noqa: E731
    specs = []
    for o in outs:
        axes = [draw(p) if rng.random() < 0.45 else None for p in range(r)]
        specs.append({"inputs": [[x, axes]], "outputs": [[o, list(INDICES)]]})
    return specs


def _mutate(specs, kind, rng):
    """One mutation of one ArraySpec of the list (in place on a copy); None when it does not apply."""
    specs = [{"inputs": [[n, list(ax)] for n, ax in m["inputs"]], "outputs": [[n, list(ax)] for n, ax in m["outputs"]]} for m in specs]
    occ = {}
    for m in specs:
        for a in m["inputs"] + m["outputs"]:
            occ[a[0]] = occ.get(a[0], 0) + 1
    # mostly inputs (most mutations of an output are refused by the MapSpec constructor already), mostly of an array that occurs
    # in another spec too (else nothing can become inconsistent), for a swap one with two axes
    cands = [(m, side, a) for m in specs for side in ("inputs", "outputs") for a in m[side]]
    for pred, p in ((lambda c: c[1] == "inputs", 0.8), (lambda c: occ[c[2][0]] > 1, 0.9), (lambda c: kind != "swap" or len(c[2][1]) > 1, 1.0)):
        sub = [c for c in cands if pred(c)]
        if sub and rng.random() < p:
            cands = sub
    m, side, a = rng.choice(cands)
    axes = a[1]
    oidx = [ix for ix in m["outputs"][0][1] if ix is not None]
    if kind == "swap":
        if len(axes) < 2:
            return None
        p, q = rng.sample(range(len(axes)), 2)
        if axes[p] == axes[q]:
            return None
        axes[p], axes[q] = axes[q], axes[p]
    elif kind == "rename":
        p = rng.randrange(len(axes))
        pool = [ix for ix in (oidx if side == "inputs" else INDICES) if ix != axes[p]]
        if not pool:
            return None
        axes[p] = rng.choice(pool)
    elif kind == "rank":
        if len(axes) > 1 and rng.random() < 0.5:
            axes.pop(rng.randrange(len(axes)))
        else:
            axes.insert(rng.randint(0, len(axes)), None if side == "inputs" and rng.random() < 0.6 else rng.choice(oidx or INDICES))
    else:
        raise AssertionError(kind)
    return specs


def _from_desc(desc):
    """The MapSpec descriptions of a mapgen pipeline (functions without MapSpec contribute nothing)."""
    return [{"inputs": [[n, list(ax)] for n, ax in f["mapspec"]["inputs"]], "outputs": [[n, list(ax)] for n, ax in f["mapspec"]["outputs"]]}
            for f in desc["funcs"] if f.get("mapspec")]


# ------------------------------------------------------------------------------------------------ the real side
def _build_real(specs, via_string):
    """(real MapSpec objects, the descriptions the constructor accepted, number it refused)"""
    from pipefunc.map._mapspec import ArraySpec, MapSpec

    objs, kept, refused = [], [], 0
    for m in specs:
        try:
            o = MapSpec(inputs=tuple(ArraySpec(n, tuple(ax)) for n, ax in m["inputs"]),
                        outputs=tuple(ArraySpec(n, tuple(ax)) for n, ax in m["outputs"]))
            if via_string:
                o = MapSpec.from_string(str(o))
        except Exception:  # noqa: BLE001
            refused += 1
            continue
        # what is compared is what the real object holds
        kept.append({"inputs": [[a.name, list(a.axes)] for a in o.inputs], "outputs": [[a.name, list(a.axes)] for a in o.outputs]})
        objs.append(o)
    return objs, kept, refused


def run_real(objs):
    from pipefunc.map._mapspec import validate_consistent_axes

    try:
        r = validate_consistent_axes(list(objs))
    except Exception as e:  # noqa: BLE001
        return {"ok": False, "err": exc_enum(e)}
    return {"ok": True, "err": None, "returned": None if r is None else type(r).__name__}


def _shares_name(specs):
    seen, n = set(), 0
    for m in specs:
        for a in m["inputs"] + m["outputs"]:
            n += 1
            seen.add(a[0])
    return len(seen) < n


def _has_colon(specs):
    return any(x is None for m in specs for a in m["inputs"] + m["outputs"] for x in a[1])


# ------------------------------------------------------------------------------------------------ the check
def run(ctx):
    rng = ctx.rng
    total = ctx.n(300, 20000)
    n_real = max(1, total // 5)
    stream = []
    for _ in range(n_real):
        for _try in range(6):       # pipelines without any MapSpec say nothing here
            specs = _from_desc(mapgen.gen_case(rng))
            if specs:
                break
        stream.append(("pipeline", specs))
    while len(stream) < total:
        if rng.random() < 0.2:
            stream.append(("sparse", _gen_sparse(rng)))
            continue
        specs = _gen_consistent(rng)
        if rng.random() < 0.4:
            stream.append(("consistent", specs))
            continue
        kind = rng.choice(MUTATIONS)
        m = _mutate(specs, kind, rng)
        if m is None:
            ctx.count(f"axes:mutation:{kind}:not-applicable")
            stream.append(("consistent", specs))
            continue
        if rng.random() < 0.25:         # a second fault
            m = _mutate(m, rng.choice(MUTATIONS), rng) or m
            kind += "+1"
        stream.append((kind, m))
    cases = []
    for k, (kind, specs) in enumerate(stream):
        objs, kept, refused = _build_real(specs, via_string=(k % 3 == 0))
        if refused:
            ctx.count("axes:constructor-refused", refused)
            ctx.count(f"axes:constructor-refused:{kind}", refused)
        if kind == "pipeline" and refused:
            ctx.violation({"axes_specs": specs, "stream": kind}, "the MapSpec constructor refuses a MapSpec of a generated pipeline",
                          found_input=False, item=ITEM, impl={"refused": refused}, model=None)
            continue
        cases.append((kind, kept, run_real(objs)))
    outs = ctx.lean([{"m": "axes.check", "a": {"specs": kept}} for _, kept, _ in cases], driver=DRIVER)
    for (kind, kept, impl), resp in zip(cases, outs):
        r = resp["r"]
        case = {"axes_specs": kept, "stream": kind}
        verdict = "accepted" if r["ok"] else f"refused-{r['kind']}"
        ctx.count(f"axes:model:{verdict}")
        ctx.count(f"axes:{kind}:model={verdict}:real={'accepted' if impl['ok'] else 'refused'}")
        ctx.count(f"axes:n-specs={len(kept)}")
        ctx.count(f"axes:{'with' if _has_colon(kept) else 'without'}-colon")
        if not r["ok"]:
            ctx.count(f"axes:refused-at:{r['name']}")
        if bool(r["ok"]) != bool(r["pairwise"]):
            ctx.violation(case, "the algorithmic model and consistentAxes disagree (contradicts C01_consistent_axes_model)",
                          found_input=False, item="theorem:C01_consistent_axes_model", impl=None, model=r)
            continue
        if not impl["ok"] and impl["err"] != "ValueError":
            ctx.violation(case, f"validate_consistent_axes raises {impl['err']} (the model knows only ValueError)",
                          found_input=False, item=ITEM, impl=impl, model=r)
            continue
        if impl["ok"] != bool(r["ok"]):
            ctx.violation(case, f"validate_consistent_axes {'accepts' if impl['ok'] else 'refuses'} a MapSpec list the model "
                                f"{'accepts' if r['ok'] else 'refuses (' + str(r['kind']) + ')'}",
                          found_input=False, item=ITEM, impl=impl, model=r)
            continue
        if kind in ("pipeline", "consistent") and not impl["ok"]:
            ctx.violation(case, f"a MapSpec list that is consistent by construction ({kind}) is refused by both sides",
                          found_input=False, item=ITEM, impl=impl, model=r)
            continue
        ctx.record(case, nontrivial=_shares_name(kept))


def replay(ctx, case):
    objs, kept, refused = _build_real(case["axes_specs"], via_string=False)
    print("constructor refused:", refused)
    print("implementation:", run_real(objs))
    print("model:", ctx.lean([{"m": "axes.check", "a": {"specs": kept}}], driver=DRIVER)[0]["r"])
