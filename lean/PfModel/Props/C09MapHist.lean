/-
C09, round 9 — the map clause over HISTORIES of map runs on one pipeline object (the cache outlives a run):
(a) a repeated run with equal element calls executes nothing while the entries are resident, (b) a run whose upstream
arrays changed (equal length or not) returns what its own calls compute.  Model: `Model/PipeCacheMapHist.lean`.
-/
import PfModel.Lemmas.PipeCacheMapHist
namespace PF.C09
open PF PF.Pipe PF.PipeCache

/-- **Transparency of every map run of a history.**  Any number of map runs on one pipeline object, each pushing its element
    computations through the ONE cache in any order (any container, eviction allowed).  If equal keys mean equal calls
    among the elements of ALL runs (`hdet`: the key is the output name and the LOADED selected keyword arguments — C15 for
    the values) and the entries resident at the start are right, every element of every run receives exactly the value its
    own call computes — whatever the earlier runs stored (other upstream values of the same length included). -/
theorem C09_map_history_transparent {H C} (P : Policy H C) (h : Val → H) (rs : List (List Elem)) (c : C)
    (hdet : ∀ r ∈ rs, ∀ a ∈ r, ∀ r' ∈ rs, ∀ b ∈ r', elemKey h a = elemKey h b → a.value = b.value)
    (hinv : ∀ r ∈ rs, ∀ a ∈ r, ∀ v, P.res c (elemKey h a) = some v → v = a.value) :
    (runRuns P h c rs).1.map (·.map (·.1)) = rs.map (·.map (·.value)) := by
  refine (runRuns_post P h (fun e => ∃ r ∈ rs, e ∈ r) ?_ rs c ?_ ?_).1
  · rintro a ⟨r, hr, ha⟩ b ⟨r', hr', hb⟩; exact hdet r hr a ha r' hr' b hb
  · intro r hr e he; exact ⟨r, hr, he⟩
  · rintro a ⟨r, hr, ha⟩; exact hinv r hr a ha

/-- … and the cache a history of map runs leaves is right again for every element of the class (so the statement composes
    with further runs and with runs of other element classes that are `hdet`-compatible). -/
theorem C09_map_history_keeps_entries_right {H C} (P : Policy H C) (h : Val → H) (S : Elem → Prop)
    (hdet : ∀ a, S a → ∀ b, S b → elemKey h a = elemKey h b → a.value = b.value)
    (rs : List (List Elem)) (c : C) (hS : ∀ r ∈ rs, ∀ e ∈ r, S e)
    (hinv : ∀ a, S a → ∀ v, P.res c (elemKey h a) = some v → v = a.value) :
    ∀ a, S a → ∀ v, P.res (runRuns P h c rs).2 (elemKey h a) = some v → v = a.value :=
  (runRuns_post P h S hdet rs c hS hinv).2

/-- an element executes its function exactly when its key is not found (any container) -/
theorem C09_map_executes_iff_not_found {H C} (P : Policy H C) (c : C) (k : Key H) (compute : Val) :
    (getOrSet P c k compute).2.1 = true ↔ P.get c k = none := by
  simp only [getOrSet]
  cases P.get c k <;> simp

/-- **Which element calls of a history execute.**  In a container that keeps what was put (`Retains`: the entries are "still
    resident"), starting from a cache whose resident keys are `seen`: over all runs of the history exactly the FIRST
    occurrence of every key that was not resident executes — in every run, under every schedule. -/
theorem C09_map_history_executes_first_occurrences {H C} [DecidableEq H] (P : Policy H C) (hr : Retains P) (h : Val → H)
    (rs : List (List Elem)) (c : C) (seen : List (Key H)) (hs : ∀ k, P.res c k = none ↔ k ∉ seen) :
    (runRuns P h c rs).1.map (·.map (·.2)) = firstOccRuns seen (rs.map (·.map (elemKey h))) :=
  runRuns_flags P hr h rs c seen hs

/-- **No re-execution (a map run all of whose keys are resident).**  A run whose element keys are all resident executes no
    function at all. -/
theorem C09_map_resident_run_executes_nothing {H C} [DecidableEq H] (P : Policy H C) (hr : Retains P) (h : Val → H)
    (r : List Elem) (c : C) (seen : List (Key H)) (hs : ∀ k, P.res c k = none ↔ k ∉ seen)
    (hall : ∀ e ∈ r, elemKey h e ∈ seen) :
    (runElems P h c r).1.map (·.2) = r.map fun _ => false := by
  rw [(runElems_flags P hr h r c seen hs).1, firstOcc_all_seen _ _ (by simpa using hall), List.map_map]
  rfl

/-- **No re-execution (a repeated map).**  Two map runs on one pipeline object: if every element key of the second run
    occurs in the first run (equal inputs: the same element calls, in any order, any multiplicity) or was resident before,
    the second run executes nothing; the first executes the first occurrences. -/
theorem C09_map_repeated_run_executes_nothing {H C} [DecidableEq H] (P : Policy H C) (hr : Retains P) (h : Val → H)
    (r1 r2 : List Elem) (c : C) (seen : List (Key H)) (hs : ∀ k, P.res c k = none ↔ k ∉ seen)
    (hsub : ∀ e ∈ r2, elemKey h e ∈ seen ∨ ∃ e' ∈ r1, elemKey h e' = elemKey h e) :
    (runRuns P h c [r1, r2]).1.map (·.map (·.2)) = [firstOcc seen (r1.map (elemKey h)), r2.map fun _ => false] := by
  have h2 : firstOcc ((r1.map (elemKey h)).reverse ++ seen) (r2.map (elemKey h)) = r2.map fun _ => false := by
    rw [firstOcc_all_seen, List.map_map]
    · rfl
    · intro k hk
      obtain ⟨e, he, rfl⟩ := List.mem_map.mp hk
      rcases hsub e he with h1 | ⟨e', he', h2⟩
      · exact List.mem_append_right _ h1
      · exact List.mem_append_left _ (List.mem_reverse.mpr (List.mem_map.mpr ⟨e', he', h2⟩))
  rw [runRuns_flags P hr h [r1, r2] c seen hs]
  simp only [List.map_cons, List.map_nil, firstOccRuns, h2]

/-- the unbounded container (`SimpleCache`; the others below their size limit) keeps what was put — `Retains` is satisfiable,
    and the empty cache has no resident key -/
theorem C09_simple_retains (H : Type) [DecidableEq H] :
    Retains (simplePolicy H) ∧ ∀ k, (simplePolicy H).res [] k = none ↔ k ∉ ([] : List (Key H)) :=
  ⟨simplePolicy_retains H, fun k => by simp [simplePolicy, mapGet]⟩

/-! ### closed witnesses (demo pipeline of seeded change C09-s4-B: `a[i] -> sq[i]`, `w[j] -> share[j]` for `share(w, sq)`) -/

/-- the maps `a = [1,2]`, `[1,2]`, `[4,5]`, `[1,2]` with `w = [1,2,1]` (a repeated value) -/
def demoHist : List (List Elem) :=
  [demoRun ["1", "2"] ["1", "2", "1"], demoRun ["1", "2"] ["1", "2", "1"], demoRun ["4", "5"] ["1", "2", "1"], demoRun ["1", "2"] ["1", "2", "1"]]

/-- key from the LOADED arguments (the pinned code): every element of the four maps gets its own value, the first map executes
    one call per distinct `(function, kwargs)`, the equal second and fourth maps execute nothing, the third (other upstream
    values, same length) executes its four new calls -/
theorem C09_map_key_from_values_demo :
    (runRuns (simplePolicy (List String)) hArr [] demoHist).1.map (·.map (·.1)) = demoHist.map (·.map (·.value)) ∧
    (runRuns (simplePolicy (List String)) hArr [] demoHist).1.map (·.map (·.2)) =
      [[true, true, true, true, false], [false, false, false, false, false], [true, true, true, true, false],
       [false, false, false, false, false]] := by
  constructor <;> rfl

/-- **Seeded change C09-s4-B is a violation in the model.**  Key built BEFORE the whole storage array is loaded (`shapeOnly`:
    a `FileArray` pickles to folder and shape): the third map, whose upstream array has other values of the same length,
    is served the `share` values of the first — `share(w=1, sq=[1^2, 2^2])` in place of `share(w=1, sq=[4^2, 5^2])`. -/
theorem C09_map_key_from_storage_stale :
    ((runRuns (simplePolicy (List String)) (hArr ∘ shapeOnly) [] demoHist).1.map (·.map (·.1)))[2]? =
      some (([sqElem "4", sqElem "5"] ++ ["1", "2", "1"].map fun w => shareElem w ["1^2", "2^2"]).map (·.value)) ∧
    (demoHist.map (·.map (·.value)))[2]? =
      some (([sqElem "4", sqElem "5"] ++ ["1", "2", "1"].map fun w => shareElem w ["4^2", "5^2"]).map (·.value)) := by
  constructor <;> rfl

/-- the two value lists differ: with the key built before the load, caching is not transparent across map runs -/
theorem C09_map_key_from_storage_not_transparent :
    (runRuns (simplePolicy (List String)) (hArr ∘ shapeOnly) [] demoHist).1.map (·.map (·.1)) ≠ demoHist.map (·.map (·.value)) := by
  intro heq
  have h1 := C09_map_key_from_storage_stale.1
  rw [heq, C09_map_key_from_storage_stale.2] at h1
  simp [shareElem, elemOfCall, sqElem] at h1

/-- non-vacuity of `C09_map_history_transparent` / `C09_map_history_executes_first_occurrences` /
    `C09_map_repeated_run_executes_nothing`: the hypotheses hold of the demo history from the empty `SimpleCache` -/
example : (∀ k, (simplePolicy (List String)).res [] k = none ↔ k ∉ ([] : List (Key (List String)))) ∧
    (∀ e ∈ demoRun ["1", "2"] ["1", "2", "1"], elemKey hArr e ∈ ([] : List (Key (List String))) ∨
      ∃ e' ∈ demoRun ["1", "2"] ["1", "2", "1"], elemKey hArr e' = elemKey hArr e) :=
  ⟨(C09_simple_retains _).2, fun e he => Or.inr ⟨e, he, rfl⟩⟩

example : ∀ r ∈ [demoRun ["1"] ["1"]], ∀ a ∈ r, ∀ v, (simplePolicy (List String)).res [] (elemKey hArr a) = some v → v = a.value := by
  intro r _ a _ v hv; simp [simplePolicy, mapGet] at hv

/-- non-vacuity of `C09_map_resident_run_executes_nothing`: after the run, its keys are resident -/
example : (runElems (simplePolicy (List String)) hArr (runElems (simplePolicy (List String)) hArr [] (demoRun ["1"] ["1"])).2
    (demoRun ["1"] ["1"])).1.map (·.2) = [false, false] := rfl

end PF.C09
