import PfModel.Lemmas.Lazy
/-! Helper lemmas for `Props/C18.lean`, part 2: the invariant of the lazy run (`lrun`) and its soundness w.r.t. `compose`. -/
namespace PF.Lazy
open PF PF.Pipe

/-- arguments refer to older nodes only (`_LazyFunction._counter` only grows) -/
def Closed (nodes : List Lazy.Node) : Prop := ∀ (i : Nat) (nd : Lazy.Node), nodes[i]? = some nd → ∀ j ∈ nd.refs, j < i

/-- every memo entry that is not a keyword argument stands for the specification's value -/
def MemoSound (fs : List Func) (kw : List (String × Val)) (s : LSt) : Prop :=
  ∀ p a, alookup kw p = none → alookup s.memo p = some a → ∃ v k, den s.nodes a = some v ∧ compose fs kw k p = .ok v

/-- the entries of the caches a lazy call can consult: the task graph's and the pipeline's own -/
def entries (s : LSt) : List (Key × LArg) :=
  (match s.tg with | some g => g.cache | none => []) ++ (match s.own with | some c => c | none => [])

/-- a cache entry is right for EVERY call that can find it: whatever keyword arguments compute this key for a function,
    the entry stands for the result of that function on the composition of its arguments under those keyword arguments -/
def EntryOK (fs : List Func) (nodes : List Lazy.Node) (key : Key) (a : LArg) : Prop :=
  ∀ f o kw K, producer fs o = some f → cacheKey fs kw f o = some K → keq key K = true →
    ∃ k vals, composeArgsWith (compose fs kw k) fs kw f f.params = .ok vals ∧ den nodes a = some (result f vals)

/-- every entry of the task graph's cache and of the pipeline's own cache is right (for all keyword arguments) -/
def CacheSound (fs : List Func) (s : LSt) : Prop := ∀ key a, (key, a) ∈ entries s → EntryOK fs s.nodes key a

/-- the recorded graph: its nodes exist, and its edges are exactly the lazy arguments of its nodes -/
def GInv (s : LSt) : Prop :=
  ∀ g, s.tg = some g →
    (∀ n ∈ g.gnodes, n < s.nodes.length) ∧
    (∀ a n, (a, n) ∈ g.edges ↔ (n ∈ g.gnodes ∧ ∃ nd, s.nodes[n]? = some nd ∧ a ∈ nd.refs))

structure Inv (fs : List Func) (kw : List (String × Val)) (s : LSt) : Prop where
  closed : Closed s.nodes
  memo : MemoSound fs kw s
  cache : CacheSound fs s
  graph : GInv s

/-- what every step of a lazy run does to the session: nodes are only added, nothing is evaluated, a task graph stays active -/
def Step (s s' : LSt) : Prop := (∃ ext, s'.nodes = s.nodes ++ ext) ∧ s'.ev = s.ev ∧ (s'.tg.isSome = s.tg.isSome)

theorem Step.refl (s : LSt) : Step s s := ⟨⟨[], by simp⟩, rfl, rfl⟩
theorem Step.trans {a b c : LSt} (h1 : Step a b) (h2 : Step b c) : Step a c := by
  obtain ⟨⟨e1, h1n⟩, h1e, h1t⟩ := h1
  obtain ⟨⟨e2, h2n⟩, h2e, h2t⟩ := h2
  exact ⟨⟨e1 ++ e2, by rw [h2n, h1n, List.append_assoc]⟩, h2e.trans h1e, h2t.trans h1t⟩

theorem closed_snoc {ns : List Lazy.Node} {nd : Lazy.Node} (hc : Closed ns) (hr : ∀ j ∈ nd.refs, j < ns.length) : Closed (ns ++ [nd]) := by
  intro i nd' hi j hj
  by_cases h : i < ns.length
  · rw [List.getElem?_append_left h] at hi; exact hc i nd' hi j hj
  · have hge := Nat.le_of_not_lt h
    rw [List.getElem?_append_right hge] at hi
    cases hh : i - ns.length with
    | zero => rw [hh] at hi; simp at hi; subst hi; have := hr j hj; omega
    | succ m => rw [hh] at hi; simp at hi

/-! ### `mkNode` -/

theorem mkNode_fst (nd : Lazy.Node) (s : LSt) : (mkNode nd s).1 = s.nodes.length := rfl
theorem mkNode_nodes (nd : Lazy.Node) (s : LSt) : (mkNode nd s).2.nodes = s.nodes ++ [nd] := rfl
theorem mkNode_memo (nd : Lazy.Node) (s : LSt) : (mkNode nd s).2.memo = s.memo := rfl
theorem mkNode_ev (nd : Lazy.Node) (s : LSt) : (mkNode nd s).2.ev = s.ev := rfl
theorem mkNode_used (nd : Lazy.Node) (s : LSt) : (mkNode nd s).2.used = s.used := rfl

theorem mkNode_tg (nd : Lazy.Node) (s : LSt) : (mkNode nd s).2.tg =
    match s.tg with
    | none => none
    | some g => some { g with gnodes := g.gnodes ++ [s.nodes.length], edges := g.edges ++ nd.refs.map (fun a => (a, s.nodes.length)) } := rfl

theorem mkNode_entries (nd : Lazy.Node) (s : LSt) : entries (mkNode nd s).2 = entries s := by
  unfold entries
  rw [mkNode_tg]
  cases s.tg <;> rfl

theorem mkNode_step (nd : Lazy.Node) (s : LSt) : Step s (mkNode nd s).2 := by
  refine ⟨⟨[nd], rfl⟩, rfl, ?_⟩
  rw [mkNode_tg]; cases s.tg <;> rfl

theorem mkNode_ginv (nd : Lazy.Node) (s : LSt) (hg : GInv s) : GInv (mkNode nd s).2 := by
  intro g' hg'
  rw [mkNode_tg] at hg'
  cases hs : s.tg with
  | none => rw [hs] at hg'; cases hg'
  | some g =>
    rw [hs] at hg'; simp only [Option.some.injEq] at hg'; subst hg'
    obtain ⟨h1, h2⟩ := hg g hs
    rw [mkNode_nodes]
    refine ⟨?_, ?_⟩
    · intro n hn
      simp only [List.mem_append, List.mem_singleton] at hn
      simp only [List.length_append, List.length_singleton]
      rcases hn with hn | hn
      · have := h1 n hn; omega
      · omega
    · intro a n
      simp only [List.mem_append, List.mem_map, List.mem_singleton, Prod.mk.injEq]
      constructor
      · rintro (h | ⟨a', ha', rfl, rfl⟩)
        · obtain ⟨hn, nd', hnd, ha⟩ := (h2 a n).mp h
          exact ⟨Or.inl hn, nd', by rw [List.getElem?_append_left (h1 n hn)]; exact hnd, ha⟩
        · exact ⟨Or.inr rfl, nd, by simp, ha'⟩
      · rintro ⟨hn | rfl, nd', hnd, ha⟩
        · rw [List.getElem?_append_left (h1 n hn)] at hnd
          exact Or.inl ((h2 a n).mpr ⟨hn, nd', hnd, ha⟩)
        · simp at hnd; subst hnd; exact Or.inr ⟨a, ha, rfl, rfl⟩

variable {fs : List Func} {kw : List (String × Val)}

theorem memoSound_ext {s s' : LSt} (hm : MemoSound fs kw s) (hmemo : s'.memo = s.memo) (ext : List Lazy.Node)
    (hn : s'.nodes = s.nodes ++ ext) : MemoSound fs kw s' := by
  intro p a hk hp
  rw [hmemo] at hp
  obtain ⟨v, k, hd, hc⟩ := hm p a hk hp
  exact ⟨v, k, by rw [hn]; exact den_ext ext hd, hc⟩

theorem entryOK_ext {nodes : List Lazy.Node} {key : Key} {a : LArg} (h : EntryOK fs nodes key a) (ext : List Lazy.Node) :
    EntryOK fs (nodes ++ ext) key a := by
  intro f o kw K hf hK hq
  obtain ⟨k, vals, h1, h2⟩ := h f o kw K hf hK hq
  exact ⟨k, vals, h1, den_ext ext h2⟩

theorem cacheSound_ext {s s' : LSt} (hc : CacheSound fs s) (ext : List Lazy.Node) (hn : s'.nodes = s.nodes ++ ext)
    (hcache : ∀ e ∈ entries s', e ∈ entries s) : CacheSound fs s' := by
  intro key a hmem
  rw [hn]
  exact entryOK_ext (hc key a (hcache _ hmem)) ext

theorem mkNode_inv (nd : Lazy.Node) (s : LSt) (hi : Inv fs kw s) (hr : ∀ j ∈ nd.refs, j < s.nodes.length) :
    Inv fs kw (mkNode nd s).2 :=
  ⟨by rw [mkNode_nodes]; exact closed_snoc hi.closed hr,
   memoSound_ext hi.memo (mkNode_memo nd s) [nd] (mkNode_nodes nd s),
   cacheSound_ext hi.cache [nd] (mkNode_nodes nd s) (by rw [mkNode_entries]; exact fun _ h => h),
   mkNode_ginv nd s hi.graph⟩

/-! ### `mkPicks` / `updateAll` -/

theorem mkPicks_spec (f : Func) (r : LArg) (R : Val) : ∀ (names : List String) (s : LSt), Inv fs kw s → den s.nodes r = some R →
    Step s (mkPicks f r names s).2 ∧ Inv fs kw (mkPicks f r names s).2 ∧ (mkPicks f r names s).2.memo = s.memo ∧
    (mkPicks f r names s).2.used = s.used ∧
    entries (mkPicks f r names s).2 = entries s ∧
    (∀ o a, alookup (mkPicks f r names s).1 o = some a →
      o ∈ names ∧ ∀ w, pickVal f.outputs o R = some w → den (mkPicks f r names s).2.nodes a = some w) := by
  intro names
  induction names with
  | nil =>
    intro s hi _
    exact ⟨Step.refl s, hi, rfl, rfl, rfl, fun o a h => by simp [mkPicks, alookup] at h⟩
  | cons n names ih =>
    intro s hi hr
    simp only [mkPicks]
    have hrefs : ∀ j ∈ (Node.pick f r n).refs, j < s.nodes.length := by
      intro j hj
      cases r with
      | val v => simp [Node.refs] at hj
      | ref i => simp [Node.refs] at hj; subst hj; exact den_some_lt hr
    have hi1 := mkNode_inv (fs := fs) (kw := kw) (.pick f r n) s hi hrefs
    have hr1 : den (mkNode (.pick f r n) s).2.nodes r = some R := by rw [mkNode_nodes]; exact den_ext _ hr
    obtain ⟨hs2, hi2, hm2, hu2, hc2, hl2⟩ := ih (mkNode (.pick f r n) s).2 hi1 hr1
    refine ⟨(mkNode_step _ s).trans hs2, hi2, hm2.trans (mkNode_memo _ s), hu2.trans (mkNode_used _ s), ?_, ?_⟩
    · exact hc2.trans (mkNode_entries _ s)
    · intro o a hl
      simp only [alookup] at hl
      split at hl
      · next e =>
        subst e
        injection hl with hl; subst hl
        refine ⟨List.mem_cons_self, ?_⟩
        intro w hw
        obtain ⟨⟨ext, hext⟩, _, _⟩ := hs2
        rw [hext]
        apply den_ext
        rw [mkNode_fst, mkNode_nodes, den_new]
        simp only [nodeVal]
        have : denArg (denAll s.nodes) r = some R := hr
        rw [this]; exact hw
      · obtain ⟨hmem, hden⟩ := hl2 o a hl
        exact ⟨List.mem_cons_of_mem _ hmem, hden⟩

/-- `updateAll`: the new memo entries stand for the eager model's `outVals` -/
theorem updateAll_spec (f : Func) (r : LArg) (vals : List (String × Val)) (s : LSt) (hi : Inv fs kw s)
    (hr : den s.nodes r = some (result f vals)) :
    Step s (updateAll f r s) ∧ (updateAll f r s).used = s.used ∧
    Closed (updateAll f r s).nodes ∧ CacheSound fs (updateAll f r s) ∧ GInv (updateAll f r s) ∧
    entries (updateAll f r s) = entries s ∧
    ∃ newm, (updateAll f r s).memo = newm ++ s.memo ∧
      ∀ o a, alookup newm o = some a → ∃ w, alookup (outVals f vals) o = some w ∧ den (updateAll f r s).nodes a = some w := by
  unfold updateAll
  split
  · next o ho =>
    refine ⟨Step.refl s, rfl, hi.closed, hi.cache, hi.graph, rfl, [(o, r)], rfl, ?_⟩
    intro o' a hl
    simp only [alookup] at hl
    split at hl
    · next e =>
      subst e; injection hl with hl; subst hl
      refine ⟨.app f.name vals, by simp [outVals, ho, alookup], ?_⟩
      rw [hr]; simp [result, ho]
    · simp at hl
  · next hne =>
    obtain ⟨hs, hi2, hm, hu, hc, hl⟩ := mkPicks_spec (fs := fs) (kw := kw) f r (result f vals) f.outputs s hi hr
    refine ⟨hs, hu, hi2.closed, ?_, hi2.graph, hc, (mkPicks f r f.outputs s).1, by simp only [hm], ?_⟩
    · exact hi2.cache
    · intro o a hla
      obtain ⟨hmem, hden⟩ := hl o a hla
      obtain ⟨w, hw⟩ := outVals_some_of_mem f vals o hmem
      refine ⟨w, hw, hden w ?_⟩
      rw [pickVal_result f vals o (fun x hx => hne x hx)]; exact hw

end PF.Lazy
