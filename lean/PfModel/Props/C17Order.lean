import PfModel.Props.C17Ext
import PfModel.Lemmas.SweepFilteredOrder
import PfModel.Lemmas.SweepProductEnum
/-!
# C17, round 3: `filtered_sweep` in the row-major case of the statement

`C17_filtered_plain` carries the hypothesis `hnom` (the rebuilt sweep enumerates its groups as written).  It is necessary in
general (`C17_filtered_order_witness`), but automatic in exactly the situation the property statement singles out for order:
`dims` omitted, or `dims` listing its groups in item order.
-/
namespace PF.C17
open PF.Sweep

variable {V : Type}

/-- **filtered_sweep, sweeps without derivers, row-major case — `hnom` lifted.**  For a well-formed sweep without derivers,
    constants and exclude whose `dims` is omitted or lists its groups in item order (the hypothesis of `C17_list_rowmajor`), and
    keys that name at least one dimension: `filtered_sweep(keys)` yields exactly the distinct restrictions of the sweep's
    combinations to `keys`, in first-occurrence order, and `len` is their number.  No hypothesis about the result. -/
theorem C17_filtered_plain_rowmajor [DecidableEq V] (s f : Sweep V) (ks : List Key) (hwf : wf s = true) (hd : s.derivers = none)
    (hc : s.constants = none) (hx : s.exclude = none) (hks : ∃ k ∈ ks, k ∈ keys s.items)
    (hrow : s.dims = none ∨ ∃ d, s.dims = some d ∧ (d.map Group.keys).flatten = keys s.items)
    (h : filtered s ks = .ok f) :
    ∃ combos, generate s = .ok combos ∧
      generate f = .ok (distinctFold (combos.map (restrict ks))) ∧
      len f = .ok (distinctFold (combos.map (restrict ks))).length := by
  refine C17_filtered_plain s f ks hwf hd hc hx hks ?_ h
  rcases hrow with hn | ⟨d, hdm, hflat⟩
  · exact .inl hn
  · right
    obtain ⟨k0, hk0, hk0'⟩ := hks
    have hne : s.items.isEmpty = false := by
      cases hs : s.items with
      | nil => simp [hs, keys] at hk0'
      | cons _ _ => rfl
    have hgs := C17_generate_plain s hwf hd hc hx hne
    have hlen := C17_len s _ hgs
    have hany : (ks.any fun k => (keys s.items).contains k) = true := by
      simp only [List.any_eq_true, List.contains_iff_mem]
      exact ⟨k0, hk0, hk0'⟩
    unfold filtered at h
    simp only [hd, Option.isSome_none, Bool.false_eq_true, if_false, hany, Bool.not_true, hx, Option.isNone_none, if_true, hlen] at h
    cases hn : (rawList s).length with
    | zero =>
      rw [hn] at h
      simp only [Except.ok.injEq] at h
      rw [← h]
      simp [effGroups, fullBranch, keys]
    | succ n =>
      rw [hn] at h
      simp only [Except.ok.injEq] at h
      have hitems : f.items = (filteredDims s ks).foldl (dedupGroup s.items) s.items := by rw [← h]
      have hdims : f.dims = some (filteredDims s ks) := by rw [← h]
      obtain ⟨_, hkeys⟩ := wf_filtered s f ks hwf hitems hdims
      rw [hdims, Option.getD_some]
      -- the names the filtered dims mention, in order: the items' names that are in `ks`
      have hflatF : ((filteredDims s ks).map Group.keys).flatten = (keys s.items).filter ks.contains := by
        rw [filteredDims_keys, flatten_filterMap_sel, (C17_list_rowmajor s).2 d hdm hflat, hflat]
      by_cases hf : fullBranch f = true
      · refine (C17_list_rowmajor f).2 _ hdims ?_
        rw [hflatF, hkeys, List.filter_eq_self]
        intro k hk
        simp only [fullBranch, hdims, setEqKeys, Bool.and_eq_true, List.all_eq_true] at hf
        have h1 := hf.2 k (by rw [hkeys]; exact hk)
        have h2 : Group.str k ∈ filteredDims s ks := by simpa using h1
        have h3 : k ∈ ((filteredDims s ks).map Group.keys).flatten := by
          rw [List.mem_flatten]
          exact ⟨[k], List.mem_map.mpr ⟨_, h2, rfl⟩, by simp⟩
        rw [hflatF, List.mem_filter] at h3
        exact h3.2
      · unfold effGroups
        simp [hf, hdims]

/-- **product, row-major case — `Nominal` lifted.**  `ProductHyps` asks that every operand enumerates its groups as written
    (`Nominal`); that is necessary in general (`C17_product_order_witness`) but automatic when every operand's `dims` is omitted
    or lists its groups in item order — the situation the property statement singles out.  So under the remaining hypotheses
    (well-formed operands with items, the DF-07 complement, dictionaries, disjoint names, local functions) the product yields the
    Cartesian product of the operands' documented combination lists, in order, and `len` is its length. -/
theorem C17_product_rowmajor (s : Sweep V) (others : List (Sweep V))
    (hwf : ∀ o ∈ s :: others, wf o = true) (hne : ∀ o ∈ s :: others, o.items.isEmpty = false)
    (hrow : ∀ o ∈ s :: others, o.dims = none ∨ ∃ d, o.dims = some d ∧ (d.map Group.keys).flatten = keys o.items)
    (hdf07 : s.dims ≠ none ∨ ∀ o ∈ others, o.dims = none)
    (hcd : ∀ o ∈ s :: others, (keys (o.constants.getD [])).Nodup) (hdd : ∀ o ∈ s :: others, (keys (o.derivers.getD [])).Nodup)
    (hdis : (s :: others).Pairwise (fun a b => ∀ k ∈ ownKeys a, k ∉ ownKeys b)) (hloc : ∀ o ∈ s :: others, LocalFns o) :
    ∃ p L, product s others = .ok p ∧ generate p = .ok L ∧ len p = .ok L.length ∧
      L.map lookup = (prodAll ((s :: others).map specList)).map lookup := by
  refine C17_product s others ⟨hwf, hne, ?_, hdf07, hcd, hdd, hdis, hloc⟩
  intro o ho
  rcases hrow o ho with hn | ⟨d, hd, hflat⟩
  · exact nominal_of_dims_none hn
  · unfold Nominal gl dimsOf
    rw [(C17_list_rowmajor o).2 d hd hflat, hd]

/-- non-vacuity: a zipped group and a free dimension listed in item order; the filtered sweep drops `b` and de-duplicates -/
example :
    let s : Sweep Nat := { items := [("a", [1, 1, 2]), ("b", [3, 4, 5]), ("c", [7])], dims := some [.tup ["a", "b"], .str "c"] }
    wf s = true ∧ ((s.dims.getD []).map Group.keys).flatten = keys s.items ∧
    (filtered s ["a", "c"]).toOption.bind (fun f => (generate f).toOption) = some [[("a", 1), ("c", 7)], [("a", 2), ("c", 7)]] := by
  decide

/-- non-vacuity of `C17_product_rowmajor`: the operands `pA`, `pB`, `pC` of `C17Ext` are in row-major form -/
example : ∀ o ∈ [pA, pB, pC], o.dims = none ∨ ∃ d, o.dims = some d ∧ (d.map Group.keys).flatten = keys o.items := by
  intro o ho
  simp only [List.mem_cons, List.not_mem_nil, or_false] at ho
  rcases ho with rfl | rfl | rfl
  · exact .inr ⟨_, rfl, by decide⟩
  · exact .inr ⟨_, rfl, by decide⟩
  · exact .inl rfl

end PF.C17

