import PfModel.Lemmas.RewriteRename
/-!
Renaming (`update_renames`, `update_scope`) under `Pipeline.map`: definitions (`relabel`, `renameM`, `Sim`) and the static
part — `producer`, `pdefaults`, `upstream`, `generations`, `rootArgs`, `mapspecNames`, `constructInternal`, `validateInputs`
of the renamed function list in terms of the original.  Shapes are in `RewriteMap2.lean`, the run in `RewriteMap3.lean`.
-/
namespace PF.Rw
open PF PF.Map

/-! ### relabelling the `pick` labels of a value -/

mutual
/-- rename the label of every `pick` inside a value (`PF.Map.outBase` records the CURRENT output name) -/
def relabel (ρ : String → String) : Val → Val
  | .int n => .int n
  | .str s => .str s
  | .none => .none
  | .masked => .masked
  | .app f args => .app f (relabelArgs ρ args)
  | .pick v o => .pick (relabel ρ v) (ρ o)
  | .proj v i => .proj (relabel ρ v) i
  | .arr sh es => .arr sh (relabelList ρ es)
  | .tup vs => .tup (relabelList ρ vs)
def relabelArgs (ρ : String → String) : List (String × Val) → List (String × Val)
  | [] => []
  | (k, v) :: r => (k, relabel ρ v) :: relabelArgs ρ r
def relabelList (ρ : String → String) : List Val → List Val
  | [] => []
  | v :: r => relabel ρ v :: relabelList ρ r
end

theorem relabelArgs_eq (ρ : String → String) (l : List (String × Val)) :
    relabelArgs ρ l = l.map fun kv => (kv.1, relabel ρ kv.2) := by
  induction l with
  | nil => rfl
  | cons e es ih => obtain ⟨k, v⟩ := e; simp [relabelArgs, ih]

theorem relabelList_eq (ρ : String → String) (l : List Val) : relabelList ρ l = l.map (relabel ρ) := by
  induction l with
  | nil => rfl
  | cons e es ih => simp [relabelList, ih]

mutual
/-- no `pick` anywhere inside the value -/
def noPick : Val → Bool
  | .int _ => true
  | .str _ => true
  | .none => true
  | .masked => true
  | .app _ args => noPickArgs args
  | .pick _ _ => false
  | .proj v _ => noPick v
  | .arr _ es => noPickList es
  | .tup vs => noPickList vs
def noPickArgs : List (String × Val) → Bool
  | [] => true
  | (_, v) :: r => noPick v && noPickArgs r
def noPickList : List Val → Bool
  | [] => true
  | v :: r => noPick v && noPickList r
end

/-- a value without `pick` is not changed by relabelling -/
theorem relabel_noPick (ρ : String → String) : ∀ v : Val, noPick v = true → relabel ρ v = v := by
  refine relabel.induct
    (motive_1 := fun v => noPick v = true → relabel ρ v = v)
    (motive_3 := fun l => noPickArgs l = true → relabelArgs ρ l = l)
    (motive_2 := fun l => noPickList l = true → relabelList ρ l = l) ?_ ?_ ?_ ?_ ?_ ?_ ?_ ?_ ?_ ?_ ?_ ?_ ?_
  all_goals intros
  all_goals simp_all [relabel, relabelArgs, relabelList, noPick, noPickArgs, noPickList]

/-- the identity label map changes nothing -/
theorem relabel_id : ∀ v : Val, relabel (fun x => x) v = v := by
  refine relabel.induct
    (motive_1 := fun v => relabel (fun x => x) v = v)
    (motive_3 := fun l => relabelArgs (fun x => x) l = l)
    (motive_2 := fun l => relabelList (fun x => x) l = l) ?_ ?_ ?_ ?_ ?_ ?_ ?_ ?_ ?_ ?_ ?_ ?_ ?_
  all_goals intros
  all_goals simp_all [relabel, relabelArgs, relabelList]

/-- re-keying and relabelling one dictionary entry -/
def rkvL (ρ lam : String → String) (kv : String × Val) : String × Val := (ρ kv.1, relabel lam kv.2)

def relabelSlot (ρ : String → String) : Slot → Slot
  | .single v => .single (relabel ρ v)
  | .array sh mk cells => .array sh mk (cells.map fun c => (c.1, relabel ρ c.2))

def relabelCall (ρ : String → String) (c : Call) : Call := { c with args := relabelArgs ρ c.args }

/-! ### the renaming on the `map` view of a function -/

def renameA (ρ : String → String) (a : ASpec) : ASpec := { a with name := ρ a.name }

theorem renameSpec_eq (ρ : String → String) (ms : MSpec) :
    renameSpec ρ ms = { inputs := ms.inputs.map (renameA ρ), outputs := ms.outputs.map (renameA ρ) } := rfl

/-- `update_renames` on `PF.Map.MFunc` -/
def renameM (ρ : String → String) (f : MFunc) : MFunc :=
  { f with params := f.params.map (rkv ρ), outputs := f.outputs.map ρ, defaults := f.defaults.map (rkv ρ),
           bound := f.bound.map (rkv ρ), mapspec := f.mapspec.map (renameSpec ρ) }

theorem toMFunc_renameF (ρ : String → String) (f : RFunc) : toMFunc (renameF ρ f) = renameM ρ (toMFunc f) := by
  simp only [toMFunc, renameF, renameM, rkv_eq]

theorem toMFunc_renameAll (ρ : String → String) (fs : List RFunc) :
    (renameAll ρ fs).map toMFunc = (fs.map toMFunc).map (renameM ρ) := by
  simp only [renameAll, List.map_map]
  apply List.map_congr_left
  intro f _; exact toMFunc_renameF ρ f

/-- every name the function mentions lies in `N` -/
structure MNamesIn (N : String → Prop) (f : MFunc) : Prop where
  params : ∀ p ∈ f.params, N p.1
  outputs : ∀ o ∈ f.outputs, N o
  defaults : ∀ kv ∈ f.defaults, N kv.1
  bound : ∀ kv ∈ f.bound, N kv.1
  specIn : ∀ ms, f.mapspec = some ms → ∀ a ∈ ms.inputs, N a.name
  specOut : ∀ ms, f.mapspec = some ms → ∀ a ∈ ms.outputs, N a.name

/-- the label map `lam` agrees with the renaming on the outputs of `f` whenever `f` builds `pick`s (several outputs) -/
def LabOK (ρ lam : String → String) (f : MFunc) : Prop := f.outputs.length = 1 ∨ ∀ o ∈ f.outputs, lam o = ρ o

/-- the values held as defaults / bound values are not changed by relabelling (e.g. they contain no `pick`) -/
structure ValsFixed (ρ : String → String) (f : MFunc) : Prop where
  defaults : ∀ kv ∈ f.defaults, relabel ρ kv.2 = kv.2
  bound : ∀ kv ∈ f.bound, relabel ρ kv.2 = kv.2

/-! ### simulation of two computations in `M`: related results, or both refuse -/

def Sim {α β : Type} (R : α → β → Prop) (a : M α) (b : M β) : Prop :=
  match a, b with
  | .ok x, .ok y => R x y
  | .error _, .error _ => True
  | _, _ => False

theorem Sim.ok {α β : Type} {R : α → β → Prop} {x : α} {y : β} (h : R x y) : Sim R (.ok x) (.ok y) := h
theorem Sim.pure {α β : Type} {R : α → β → Prop} {x : α} {y : β} (h : R x y) : Sim R (pure x) (pure y) := h
theorem Sim.err {α β : Type} {R : α → β → Prop} (e e' : Err) : Sim R (.error e) (.error e') := trivial
theorem Sim.throw {α β : Type} {R : α → β → Prop} (e e' : Err) : Sim R (throw e) (throw e') := trivial

theorem Sim.bind {α β α' β' : Type} {R : α → α' → Prop} {S : β → β' → Prop} {a : M α} {a' : M α'}
    {k : α → M β} {k' : α' → M β'} (h : Sim R a a') (hk : ∀ x y, R x y → Sim S (k x) (k' y)) :
    Sim S (a >>= k) (a' >>= k') := by
  cases a with
  | error e => cases a' with
    | error e' => exact trivial
    | ok y => exact h.elim
  | ok x => cases a' with
    | error e' => exact h.elim
    | ok y => exact hk x y h

theorem Sim.mono {α β : Type} {R S : α → β → Prop} {a : M α} {b : M β} (h : Sim R a b) (hRS : ∀ x y, R x y → S x y) :
    Sim S a b := by
  cases a <;> cases b <;> first | exact hRS _ _ h | exact h

theorem Sim.of_eq {α β : Type} {R : α → β → Prop} {a a2 : M α} {b b2 : M β} (h : Sim R a2 b2) (ha : a = a2) (hb : b = b2) :
    Sim R a b := by subst ha; subst hb; exact h

theorem Sim.ok_ok {α β : Type} {R : α → β → Prop} {a : M α} {b : M β} {x : α} (h : Sim R a b) (ha : a = .ok x) :
    ∃ y, b = .ok y ∧ R x y := by
  subst ha
  cases b with
  | error e => exact h.elim
  | ok y => exact ⟨y, rfl, h⟩

theorem Sim.err_err {α β : Type} {R : α → β → Prop} {a : M α} {b : M β} {e : Err} (h : Sim R a b) (ha : a = .error e) :
    ∃ e', b = .error e' := by
  subst ha
  cases b with
  | error e' => exact ⟨e', rfl⟩
  | ok y => exact h.elim

theorem Sim.ok_rev {α β : Type} {R : α → β → Prop} {a : M α} {b : M β} {y : β} (h : Sim R a b) (hb : b = .ok y) :
    ∃ x, a = .ok x ∧ R x y := by
  subst hb
  cases a with
  | error e => exact h.elim
  | ok x => exact ⟨x, rfl, h⟩

theorem mapM_Sim {α α' β β' : Type} (R : β → β' → Prop) (h : β → β') (hR : ∀ x y, R x y ↔ y = h x)
    (r : α → α') (g : α → M β) (g' : α' → M β') (l : List α) (l' : List α') (hl : l' = l.map r)
    (hg : ∀ a ∈ l, Sim R (g a) (g' (r a))) :
    Sim (fun xs ys => ys = xs.map h) (l.mapM g) (l'.mapM g') := by
  subst hl
  induction l with
  | nil => simp [List.mapM_nil, Sim, Pure.pure, Except.pure]
  | cons a as ih =>
    rw [List.map_cons, List.mapM_cons, List.mapM_cons]
    apply Sim.bind (hg a List.mem_cons_self)
    intro x y hxy
    apply Sim.bind (ih (fun b hb => hg b (List.mem_cons_of_mem _ hb)))
    intro xs ys hxs
    apply Sim.pure
    rw [hxs, (hR x y).mp hxy]; rfl

theorem filterMapM_Sim {α α' β : Type} (r : α → α') (g : α → M (Option β)) (g' : α' → M (Option β)) (l : List α) (l' : List α')
    (hl : l' = l.map r) (hg : ∀ a ∈ l, Sim Eq (g a) (g' (r a))) :
    Sim Eq (l.filterMapM g) (l'.filterMapM g') := by
  subst hl
  induction l with
  | nil => simp [List.filterMapM_nil, Sim, Pure.pure, Except.pure]
  | cons a as ih =>
    rw [List.map_cons, List.filterMapM_cons, List.filterMapM_cons]
    apply Sim.bind (hg a List.mem_cons_self)
    intro x y hxy
    subst hxy
    have ih' := ih (fun b hb => hg b (List.mem_cons_of_mem _ hb))
    cases x with
    | none => exact ih'
    | some b =>
      apply Sim.bind ih'
      intro xs ys hxs
      subst hxs
      exact Sim.pure rfl

/-- relation on loop steps -/
def StepRel {β β' : Type} (R : β → β' → Prop) : ForInStep β → ForInStep β' → Prop
  | .yield x, .yield y => R x y
  | .done x, .done y => R x y
  | _, _ => False

theorem forIn_Sim {α α' β β' : Type} (R : β → β' → Prop) (r : α → α') (l : List α) (l' : List α') (hl : l' = l.map r)
    (body : α → β → M (ForInStep β)) (body' : α' → β' → M (ForInStep β'))
    (h : ∀ a ∈ l, ∀ c c', R c c' → Sim (StepRel R) (body a c) (body' (r a) c'))
    (c : β) (c' : β') (hc : R c c') : Sim R (forIn l c body) (forIn l' c' body') := by
  subst hl
  induction l generalizing c c' with
  | nil => exact hc
  | cons a as ih =>
    rw [List.map_cons, List.forIn_cons, List.forIn_cons]
    apply Sim.bind (h a List.mem_cons_self c c' hc)
    intro x y hxy
    cases x with
    | done x => cases y with
      | done y => exact hxy
      | yield y => exact hxy.elim
    | yield x => cases y with
      | done y => exact hxy.elim
      | yield y => exact ih (fun b hb => h b (List.mem_cons_of_mem _ hb)) x y hxy

/-! ### list facts under an injective renaming -/

theorem filterMap_congr' {α β : Type} (l : List α) (f g : α → Option β) (h : ∀ a ∈ l, f a = g a) :
    l.filterMap f = l.filterMap g := by
  induction l with
  | nil => rfl
  | cons a as ih =>
    simp only [List.filterMap_cons, h a List.mem_cons_self, ih (fun b hb => h b (List.mem_cons_of_mem _ hb))]

section
variable (ρ : String → String) (N : String → Prop) (hinj : ∀ a b, N a → N b → ρ a = ρ b → a = b)
include hinj

theorem contains_map_rename (l : List String) (p : String) (hl : ∀ x ∈ l, N x) (hp : N p) :
    (l.map ρ).contains (ρ p) = l.contains p := by
  rw [Bool.eq_iff_iff]
  simp only [List.contains_iff_mem]
  exact mem_map_rename ρ N hinj l p hl hp

omit hinj in
theorem filter_map_rename (l : List String) (q q' : String → Bool) (hq : ∀ x ∈ l, q' (ρ x) = q x) :
    (l.map ρ).filter q' = (l.filter q).map ρ := by
  rw [List.filter_map]
  congr 1
  apply List.filter_congr
  intro x hx; exact hq x hx

theorem eraseDups_map_rename : ∀ (n : Nat) (l : List String), l.length ≤ n → (∀ x ∈ l, N x) →
    (l.map ρ).eraseDups = l.eraseDups.map ρ := by
  intro n
  induction n with
  | zero => intro l hl _; cases l with
    | nil => rfl
    | cons a as => simp at hl
  | succ n ih =>
    intro l hl hN
    cases l with
    | nil => rfl
    | cons a as =>
      have ha : N a := hN a (by simp)
      rw [List.map_cons, List.eraseDups_cons, List.eraseDups_cons, List.map_cons]
      congr 1
      rw [filter_map_rename ρ as (fun b => !b == a) (fun b => !b == ρ a)]
      · apply ih
        · have := List.length_filter_le (fun b => !b == a) as
          simp only [List.length_cons] at hl; omega
        · intro x hx; exact hN x (List.mem_cons_of_mem _ (List.mem_filter.mp hx).1)
      · intro x hx
        have hx' : N x := hN x (List.mem_cons_of_mem _ hx)
        by_cases e : x = a
        · simp [e]
        · have : ¬ ρ x = ρ a := fun h => e (hinj x a hx' ha h)
          have h1 : (x == a) = false := by simpa using e
          have h2 : (ρ x == ρ a) = false := by simpa using this
          simp only [h1, h2]

omit hinj in
theorem akeys_map_rkv {β} (l : List (String × β)) : akeys (l.map (rkv ρ)) = (akeys l).map ρ := by
  simp [akeys, rkv, List.map_map, Function.comp_def]

/-! ### the static structure of the renamed pipeline -/

theorem mproducer_rename (fs : List MFunc) (p : String) (hfs : ∀ f ∈ fs, MNamesIn N f) (hp : N p) :
    producer (fs.map (renameM ρ)) (ρ p) = (producer fs p).map (renameM ρ) := by
  induction fs with
  | nil => rfl
  | cons g gs ih =>
    have ih' := ih (fun x hx => hfs x (List.mem_cons_of_mem _ hx))
    have hg := (hfs g (by simp)).outputs
    simp only [producer, List.map_cons, List.find?_cons] at ih' ⊢
    have e : (ρ p ∈ (renameM ρ g).outputs) = (p ∈ g.outputs) := by
      simp only [renameM]; exact propext (mem_map_rename ρ N hinj g.outputs p hg hp)
    by_cases h : p ∈ g.outputs
    · simp [e, h]
    · simp only [e, h, decide_false]; exact ih'

theorem mproducer_isSome (fs : List MFunc) (p : String) (hfs : ∀ f ∈ fs, MNamesIn N f) (hp : N p) :
    (producer (fs.map (renameM ρ)) (ρ p)).isSome = (producer fs p).isSome := by
  rw [mproducer_rename ρ N hinj fs p hfs hp]; cases producer fs p <;> rfl

theorem mproducer_isNone (fs : List MFunc) (p : String) (hfs : ∀ f ∈ fs, MNamesIn N f) (hp : N p) :
    (producer (fs.map (renameM ρ)) (ρ p)).isNone = (producer fs p).isNone := by
  rw [mproducer_rename ρ N hinj fs p hfs hp]; cases producer fs p <;> rfl

theorem mpdefaults_rename_aux (gs hs : List MFunc) (hgs : ∀ g ∈ gs, MNamesIn N g) (hhs : ∀ g ∈ hs, MNamesIn N g) :
    ((hs.map (renameM ρ)).flatMap fun f => f.defaults.filter fun kv =>
        (alookup f.bound kv.1).isNone && (producer (gs.map (renameM ρ)) kv.1).isNone) =
    (hs.flatMap fun f => f.defaults.filter fun kv => (alookup f.bound kv.1).isNone && (producer gs kv.1).isNone).map (rkv ρ) := by
  induction hs with
  | nil => rfl
  | cons h hs ih =>
    have ih' := ih (fun x hx => hhs x (List.mem_cons_of_mem _ hx))
    have hh := hhs h (by simp)
    simp only [List.map_cons, List.flatMap_cons, List.map_append, ih']
    congr 1
    simp only [renameM, List.filter_map]
    congr 1
    apply List.filter_congr
    intro kv hkv
    have hk : N kv.1 := hh.defaults kv hkv
    simp only [Function.comp, rkv, alookup_rename ρ N hinj h.bound kv.1 hh.bound hk, mproducer_isNone ρ N hinj gs kv.1 hgs hk]

theorem mpdefaults_rename (fs : List MFunc) (hfs : ∀ f ∈ fs, MNamesIn N f) :
    pdefaults (fs.map (renameM ρ)) = (pdefaults fs).map (rkv ρ) :=
  mpdefaults_rename_aux ρ N hinj fs fs hfs hfs

omit hinj in
theorem mpdefaults_keys (fs : List MFunc) (hfs : ∀ f ∈ fs, MNamesIn N f) : ∀ kv ∈ pdefaults fs, N kv.1 := by
  intro kv hkv
  simp only [pdefaults, List.mem_flatMap, List.mem_filter] at hkv
  obtain ⟨f, hf, hm, _⟩ := hkv
  exact (hfs f hf).defaults kv hm

omit hinj in
theorem mpdefaults_fixed (lam : String → String) (fs : List MFunc) (hfx : ∀ f ∈ fs, ValsFixed lam f) :
    ∀ kv ∈ pdefaults fs, relabel lam kv.2 = kv.2 := by
  intro kv hkv
  simp only [pdefaults, List.mem_flatMap, List.mem_filter] at hkv
  obtain ⟨f, hf, hm, _⟩ := hkv
  exact (hfx f hf).defaults kv hm

theorem mpdefault_rename (fs : List MFunc) (p : String) (hfs : ∀ f ∈ fs, MNamesIn N f) (hp : N p) :
    pdefault (fs.map (renameM ρ)) (ρ p) = pdefault fs p := by
  unfold pdefault
  rw [mpdefaults_rename ρ N hinj fs hfs, ← List.map_reverse]
  apply alookup_rename ρ N hinj _ p _ hp
  intro kv hkv
  exact mpdefaults_keys N fs hfs kv (List.mem_reverse.mp hkv)

theorem upstream_rename (fs : List MFunc) (f : MFunc) (hfs : ∀ f ∈ fs, MNamesIn N f) (hf : MNamesIn N f) :
    upstream (fs.map (renameM ρ)) (renameM ρ f) = upstream fs f := by
  unfold upstream
  have hb : (renameM ρ f).bound = f.bound.map (rkv ρ) := rfl
  have hp : (renameM ρ f).params = f.params.map (rkv ρ) := rfl
  rw [hp, hb, List.filterMap_map]
  apply filterMap_congr'
  intro pq hpq
  obtain ⟨p, q⟩ := pq
  have hN : N p := hf.params (p, q) hpq
  simp only [Function.comp, rkv, alookup_rename ρ N hinj f.bound p hf.bound hN, mproducer_rename ρ N hinj fs p hfs hN]
  cases producer fs p <;> rfl

theorem layers_rename (fs : List MFunc) (hfs : ∀ f ∈ fs, MNamesIn N f) :
    ∀ (n : Nat) (done : List String) (rest : List MFunc), (∀ f ∈ rest, MNamesIn N f) →
      layers (fs.map (renameM ρ)) n done (rest.map (renameM ρ)) = (layers fs n done rest).map (List.map (renameM ρ)) := by
  intro n
  induction n with
  | zero => intro _ _ _; rfl
  | succ n ih =>
    intro done rest hrest
    have hready : (rest.map (renameM ρ)).filter (fun f => (upstream (fs.map (renameM ρ)) f).all fun g => done.contains g) =
        (rest.filter fun f => (upstream fs f).all fun g => done.contains g).map (renameM ρ) := by
      rw [List.filter_map]
      congr 1
      apply List.filter_congr
      intro f hf
      simp only [Function.comp, upstream_rename ρ N hinj fs f hfs (hrest f hf)]
    simp only [layers, List.isEmpty_map]
    by_cases h1 : rest.isEmpty = true
    · simp only [h1, ↓reduceIte, List.map_nil]
    · simp only [h1, Bool.false_eq_true, ↓reduceIte]
      rw [hready]
      simp only [List.isEmpty_map]
      by_cases h2 : (rest.filter fun f => (upstream fs f).all fun g => done.contains g).isEmpty = true
      · simp only [h2, ↓reduceIte, List.map_nil]
      · simp only [h2, Bool.false_eq_true, ↓reduceIte, List.map_cons]
        congr 1
        have hnames : ∀ l : List MFunc, (l.map (renameM ρ)).map (·.name) = l.map (·.name) := by
          intro l; simp [List.map_map, Function.comp_def, renameM]
        rw [hnames]
        have hrest2 : (rest.map (renameM ρ)).filter
              (fun f => !(((rest.filter fun f => (upstream fs f).all fun g => done.contains g).map (renameM ρ)).any (·.name = f.name))) =
            (rest.filter fun f => !((rest.filter fun f => (upstream fs f).all fun g => done.contains g).any (·.name = f.name))).map (renameM ρ) := by
          rw [List.filter_map]
          congr 1
          apply List.filter_congr
          intro f _
          simp only [Function.comp_def, List.any_map]
          rfl
        rw [hrest2]
        apply ih
        intro f hf
        exact hrest f (List.mem_filter.mp hf).1

theorem generations_rename (fs : List MFunc) (hfs : ∀ f ∈ fs, MNamesIn N f) :
    generations (fs.map (renameM ρ)) = (generations fs).map (List.map (renameM ρ)) := by
  unfold generations
  rw [List.length_map]
  exact layers_rename ρ N hinj fs hfs _ [] fs hfs

omit hinj in
theorem generations_mem (fs : List MFunc) : ∀ (n : Nat) (done : List String) (rest : List MFunc),
    ∀ g ∈ layers fs n done rest, ∀ f ∈ g, f ∈ rest := by
  intro n
  induction n with
  | zero => intro _ _ g hg; simp [layers] at hg
  | succ n ih =>
    intro done rest g hg f hf
    simp only [layers] at hg
    split at hg
    · simp at hg
    · split at hg
      · simp at hg
      · rcases List.mem_cons.mp hg with e | e
        · subst e; exact (List.mem_filter.mp hf).1
        · exact (List.mem_filter.mp (ih _ _ g e f hf)).1

theorem rootArgs_rename (fs : List MFunc) (hfs : ∀ f ∈ fs, MNamesIn N f) :
    Map.rootArgs (fs.map (renameM ρ)) = (Map.rootArgs fs).map ρ := by
  unfold Map.rootArgs
  have key : ∀ hs : List MFunc, (∀ f ∈ hs, MNamesIn N f) →
      ((hs.map (renameM ρ)).flatMap fun f => f.params.filterMap fun (p, _) =>
        if (alookup f.bound p).isSome || (producer (fs.map (renameM ρ)) p).isSome then none else some p) =
      (hs.flatMap fun f => f.params.filterMap fun (p, _) =>
        if (alookup f.bound p).isSome || (producer fs p).isSome then none else some p).map ρ := by
    intro hs hhs
    induction hs with
    | nil => rfl
    | cons h hs ih =>
      have hh := hhs h (by simp)
      simp only [List.map_cons, List.flatMap_cons, List.map_append, ih (fun x hx => hhs x (List.mem_cons_of_mem _ hx))]
      congr 1
      have hb : (renameM ρ h).bound = h.bound.map (rkv ρ) := rfl
      have hp : (renameM ρ h).params = h.params.map (rkv ρ) := rfl
      rw [hp, hb, List.filterMap_map, List.map_filterMap]
      apply filterMap_congr'
      intro pq hpq
      obtain ⟨p, q⟩ := pq
      have hN : N p := hh.params (p, q) hpq
      simp only [Function.comp, rkv, alookup_rename ρ N hinj h.bound p hh.bound hN, mproducer_isSome ρ N hinj fs p hfs hN]
      split <;> rfl
  rw [key fs hfs]
  apply eraseDups_map_rename ρ N hinj _ _ (Nat.le_refl _)
  intro x hx
  simp only [List.mem_flatMap, List.mem_filterMap] at hx
  obtain ⟨f, hf, ⟨p, q⟩, hpq, hx⟩ := hx
  simp only at hx
  split at hx
  · cases hx
  · cases hx; exact (hfs f hf).params _ hpq

omit hinj in
theorem rootArgs_names (fs : List MFunc) (hfs : ∀ f ∈ fs, MNamesIn N f) : ∀ x ∈ Map.rootArgs fs, N x := by
  intro x hx
  unfold Map.rootArgs at hx
  rw [List.mem_eraseDups] at hx
  simp only [List.mem_flatMap, List.mem_filterMap] at hx
  obtain ⟨f, hf, ⟨p, q⟩, hpq, hx⟩ := hx
  simp only at hx
  split at hx
  · cases hx
  · cases hx; exact (hfs f hf).params _ hpq

omit hinj in
theorem mapspecNames_rename (fs : List MFunc) : mapspecNames (fs.map (renameM ρ)) = (mapspecNames fs).map ρ := by
  unfold mapspecNames
  induction fs with
  | nil => rfl
  | cons f fs ih =>
    simp only [List.map_cons, List.flatMap_cons, List.map_append, ih]
    congr 1
    cases hm : f.mapspec with
    | none => simp [renameM, hm]
    | some ms => simp [renameM, hm, renameSpec, List.map_map, Function.comp_def]

omit hinj in
theorem mapspecNames_names (fs : List MFunc) (hfs : ∀ f ∈ fs, MNamesIn N f) : ∀ x ∈ mapspecNames fs, N x := by
  intro x hx
  simp only [mapspecNames, List.mem_flatMap] at hx
  obtain ⟨f, hf, hx⟩ := hx
  cases hm : f.mapspec with
  | none => simp [hm] at hx
  | some ms =>
    simp only [hm, List.mem_append, List.mem_map] at hx
    rcases hx with ⟨a, ha, rfl⟩ | ⟨a, ha, rfl⟩
    · exact (hfs f hf).specIn ms hm a ha
    · exact (hfs f hf).specOut ms hm a ha

theorem constructInternal_rename (fs : List MFunc) (ui : List (String × List Nat)) (hfs : ∀ f ∈ fs, MNamesIn N f)
    (hui : ∀ kv ∈ ui, N kv.1) :
    constructInternal (fs.map (renameM ρ)) (ui.map (rkv ρ)) = (constructInternal fs ui).map (rkv ρ) := by
  unfold constructInternal
  rw [List.map_append]
  congr 1
  induction fs with
  | nil => rfl
  | cons f fs ih =>
    have hf := hfs f (by simp)
    simp only [List.map_cons, List.flatMap_cons, List.map_append, ih (fun x hx => hfs x (List.mem_cons_of_mem _ hx))]
    congr 1
    have hi : (renameM ρ f).internal = f.internal := rfl
    have ho : (renameM ρ f).outputs = f.outputs.map ρ := rfl
    rw [hi, ho]
    cases f.internal with
    | none => rfl
    | some ish =>
      simp only [List.filterMap_map, List.map_filterMap]
      apply filterMap_congr'
      intro o ho
      simp only [Function.comp, alookup_rename ρ N hinj ui o hui (hf.outputs o ho)]
      split <;> rfl

omit hinj in
theorem constructInternal_keys (fs : List MFunc) (ui : List (String × List Nat)) (hfs : ∀ f ∈ fs, MNamesIn N f)
    (hui : ∀ kv ∈ ui, N kv.1) : ∀ kv ∈ constructInternal fs ui, N kv.1 := by
  intro kv hkv
  simp only [constructInternal, List.mem_append, List.mem_flatMap] at hkv
  rcases hkv with h | ⟨f, hf, h⟩
  · exact hui kv h
  · cases hi : f.internal with
    | none => simp [hi] at h
    | some ish =>
      simp only [hi, List.mem_filterMap] at h
      obtain ⟨o, ho, h⟩ := h
      split at h
      · cases h
      · cases h; exact (hfs f hf).outputs o ho

theorem validateInputs_rename (fs : List MFunc) (inputs : List (String × Val)) (inputs' : List (String × Val))
    (hfs : ∀ f ∈ fs, MNamesIn N f) (hin : ∀ kv ∈ inputs, N kv.1) (hk : akeys inputs' = (akeys inputs).map ρ) :
    Sim (fun _ _ => True) (validateInputs fs inputs) (validateInputs (fs.map (renameM ρ)) inputs') := by
  unfold validateInputs
  rw [rootArgs_rename ρ N hinj fs hfs, mpdefaults_rename ρ N hinj fs hfs, hk, akeys_map_rkv ρ, ← List.map_append]
  have hhave : ∀ x ∈ akeys inputs ++ akeys (pdefaults fs), N x := by
    intro x hx
    rcases List.mem_append.mp hx with h | h
    · obtain ⟨kv, hkv, rfl⟩ := List.mem_map.mp h; exact hin kv hkv
    · obtain ⟨kv, hkv, rfl⟩ := List.mem_map.mp h; exact mpdefaults_keys N fs hfs kv hkv
  have hroots := rootArgs_names N fs hfs
  simp only []
  rw [filter_map_rename ρ (Map.rootArgs fs) (fun r => !((akeys inputs ++ akeys (pdefaults fs)).contains r))
      (fun r => !(((akeys inputs ++ akeys (pdefaults fs)).map ρ).contains r))
      (fun x hx => by simp only [contains_map_rename ρ N hinj _ x hhave (hroots x hx)]),
    filter_map_rename ρ (akeys inputs ++ akeys (pdefaults fs)) (fun r => !((Map.rootArgs fs).contains r))
      (fun r => !(((Map.rootArgs fs).map ρ).contains r))
      (fun x hx => by simp only [contains_map_rename ρ N hinj _ x hroots (hhave x hx)])]
  cases (Map.rootArgs fs).filter (fun r => !((akeys inputs ++ akeys (pdefaults fs)).contains r)) with
  | cons m ms => exact trivial
  | nil =>
    simp only [List.map_nil]
    cases (akeys inputs ++ akeys (pdefaults fs)).filter (fun r => !((Map.rootArgs fs).contains r)) with
    | cons m ms => exact trivial
    | nil => exact trivial

end

end PF.Rw
