import PfModel.Lemmas.RewriteRenKeep
import PfModel.Props.C10RenWF
import PfModel.Props.C10Total
/-!
C10, `update_renames`: the well-formedness `WF` / `wfB` that every `C10_renames_*` theorem assumes is an INVARIANT of the rename
operations.  Round 9 left this open ("that `update_renames` PRESERVES `WF` is not proved (it is re-evaluated before every step instead)"):
the theorems applied to a HISTORY of renames only because the driver re-evaluated `wfB` on the model's functions before every step.
Here: an accepted `PipeFunc.update_renames` / `Pipeline.update_renames` (all arguments) / `pipeline[o].update_renames` / plain
`Pipeline.update_renames(m)` of well-formed functions leaves well-formed functions, so `wfB` of the INITIAL pipeline carries the
`_checked` theorems through every later step of any history; a renaming breaks `WF` exactly when it identifies two names of one function
(the "capturing rename" the report sets aside), which `_validate_names` refuses.  And `WF` supplies `DefaultsOnParams`, the well-formedness
hypothesis of `C10_nest*` / `C10_simplify*` ("true of every real pipeline"), from the same decidable check.
-/
namespace PF.C10
open PF PF.Pipe PF.Rw

/-- **Exactly when a renaming keeps a function well-formed**: for a well-formed `f`, `renameF ρ f` is well-formed iff `ρ` identifies no
    two of the names (parameters and outputs) of `f`.  So the only way a rename can leave the domain of the `C10_renames_*` theorems is a
    capture - two names of one function becoming one. -/
theorem C10_wf_rename_iff (ρ : String → String) (f : RFunc) (hf : WF f) :
    WF (renameF ρ f) ↔ ∀ a b, a ∈ curNames f → b ∈ curNames f → ρ a = ρ b → a = b := wf_renameF_iff ρ f hf

/-- **`PipeFunc.update_renames(m, update_from, overwrite)` preserves `WF`** (every history, every argument combination): when it
    accepts, distinct current names come from `_validate_names`, the original names are untouched, `defaults` / `bound` / MapSpec arrays
    are re-keyed with the parameters they belong to. -/
theorem C10_renames_keep_wf (m : List (String × String)) (fromOrig ow : Bool) (f f' : RFunc) (hf : WF f)
    (h : updateRenamesF m fromOrig ow f = .ok f') : WF f' := by
  have heq := C10_renames_function m fromOrig ow f f' hf h
  have hnd := updateRenamesF_nodup m fromOrig ow f f' h
  subst heq
  rw [curNames_renameF] at hnd
  exact wf_renameF _ f hf hnd

/-- **`Pipeline.update_renames(m, update_from, overwrite)` preserves `WF`** of every function. -/
theorem C10_renames_keep_wf_pipeline (m : List (String × String)) (fromOrig ow : Bool) (fs fs' : List RFunc) (hfs : ∀ f ∈ fs, WF f)
    (h : updateRenamesX m fromOrig ow fs = .ok fs') : ∀ f' ∈ fs', WF f' :=
  wf_renamesEach m fromOrig ow (fun m' f f' => C10_renames_keep_wf m' fromOrig ow f f') fs fs' hfs (updateRenamesX_loop m fromOrig ow fs fs' h)

/-- **`pipeline[o].update_renames(…)` (one function renamed in place) preserves `WF`** of every function. -/
theorem C10_renames_keep_wf_at (o : String) (m : List (String × String)) (fromOrig ow : Bool) (fs fs' : List RFunc) (hfs : ∀ f ∈ fs, WF f)
    (h : updateRenamesAt o m fromOrig ow fs = .ok fs') : ∀ f' ∈ fs', WF f' := by
  unfold updateRenamesAt at h
  split at h
  · cases h
  · next f hprod =>
    have hfmem : f ∈ fs := by
      unfold rproducer at hprod
      exact List.mem_of_find?_eq_some hprod
    split at h
    · cases h
    · next g hg =>
      injection h with h; subst h
      intro f' hf'
      obtain ⟨x, hx, e⟩ := List.mem_map.mp hf'
      split at e
      · subst e; exact C10_renames_keep_wf m fromOrig ow f _ (hfs f hfmem) hg
      · subst e; exact hfs x hx

/-- **the plain `Pipeline.update_renames(m)` (`PF.Rw.updateRenames`, what `C10_update_renames` / `C10_rename` are about) preserves `WF`**. -/
theorem C10_update_renames_keeps_wf (m : List (String × String)) (fs fs' : List RFunc) (hfs : ∀ f ∈ fs, WF f)
    (h : updateRenames m fs = .ok fs') : ∀ f' ∈ fs', WF f' := by
  obtain ⟨heq, hnd⟩ := updateRenames_nodup m fs fs' h
  intro f' hf'
  have hn := hnd f' hf'
  rw [heq] at hf'
  obtain ⟨f, hf, e⟩ := List.mem_map.mp hf'
  subst e
  rw [curNames_renameF] at hn
  exact wf_renameF _ f (hfs f hf) hn

/-- **Histories.**  Any sequence of accepted rename steps (pipeline level with all arguments, one function in place, plain) starting
    from a pipeline that passes the decidable check `wfB` ends in a pipeline that passes it: `wf = true` need only be evaluated ONCE,
    on the pipeline as constructed. -/
theorem C10_renames_history_wf : ∀ (ss : List RenStep) (fs fs' : List RFunc), fs.all wfB = true → runSteps ss fs = .ok fs' → fs'.all wfB = true
  | [], fs, fs', hfs, h => by
    simp only [runSteps] at h; injection h with h; subst h; exact hfs
  | s :: ss, fs, fs', hfs, h => by
    simp only [runSteps] at h
    split at h
    · cases h
    · next mid hmid =>
      have hwf : ∀ f ∈ fs, WF f := fun f hf => wfB_sound f (List.all_eq_true.mp hfs f hf)
      have hmidwf : ∀ f ∈ mid, WF f := by
        cases s with
        | pipe m fo ow => exact C10_renames_keep_wf_pipeline m fo ow fs mid hwf hmid
        | «at» o m fo ow => exact C10_renames_keep_wf_at o m fo ow fs mid hwf hmid
        | plain m => exact C10_update_renames_keeps_wf m fs mid hwf hmid
      exact C10_renames_history_wf ss mid fs' (List.all_eq_true.mpr fun f hf => wfB_complete f (hmidwf f hf)) h

/-- **`C10_renames_pipeline` after any history, with the check evaluated on the initial pipeline only**: a pipeline that passes `wfB`,
    any accepted rename history, then an accepted `Pipeline.update_renames(m, update_from, overwrite)`: that call renames every function by
    its own `rhoF` (and so bound values / defaults stay with their parameter, `C10_renames_values_follow`). -/
theorem C10_renames_history_pipeline (ss : List RenStep) (fs mid fs' : List RFunc) (hfs : fs.all wfB = true) (hh : runSteps ss fs = .ok mid)
    (m : List (String × String)) (fromOrig ow : Bool) (h : updateRenamesX m fromOrig ow mid = .ok fs') :
    fs' = mid.map fun f => renameF (rhoF m fromOrig ow f) f :=
  C10_renames_pipeline_checked m fromOrig ow mid fs' (C10_renames_history_wf ss fs mid hfs hh) h

/-- **`DefaultsOnParams` (hypothesis of `C10_nest*`, `C10_simplify*`) follows from the decidable `wfB`.** -/
theorem C10_wf_defaults_on_params (fs : List RFunc) (hfs : fs.all wfB = true) : DefaultsOnParams fs :=
  defaultsOnParams_of_wf fs fun f hf => wfB_sound f (List.all_eq_true.mp hfs f hf)

/-- `C10_simplify_checked` with the well-formedness hypotheses decidable: `wfB` (which, by `C10_renames_history_wf`, survives every rename
    history) replaces `DefaultsOnParams`; non-empty outputs as a Boolean.  Left as a proposition: `ConsistentDefaults` only. -/
theorem C10_simplify_checked_wf (o : String) (c : Bool) (fs r : List RFunc) (h : simplify o c fs = .ok r)
    (hdup : dupOutputs fs = false) (hacy : acyclic fs = true) (hwf : fs.all wfB = true) (hne : fs.all (fun g => !g.core.outputs.isEmpty) = true)
    (hc : ConsistentDefaults (cores fs)) (kw : List (String × Val)) (hK : RootKw fs kw) :
    ∃ (plan : List (List RFunc × List String)), simplifyPlan o c fs = .ok plan ∧
      (GroupEvaluates fs (fun f => (plan.map (·.1)).flatten.any (sameF f)) kw →
        ∀ o', (∃ f ∈ r, o' ∈ f.core.outputs) → ∀ v, (∃ n, eval r kw n o' = .ok v) ↔ (∃ m, eval fs kw m o' = .ok v)) :=
  C10_simplify_checked o c fs r h hdup hacy hc (C10_wf_defaults_on_params fs hwf)
    (fun g hg e => by have := List.all_eq_true.mp hne g hg; simp [e] at this) kw hK

/-- `C10_nest_default_checked` with the well-formedness hypotheses decidable in the same way. -/
theorem C10_nest_default_checked_wf (sel : List String) (fs r : List RFunc) (h : nestFuncs sel none fs = .ok r)
    (hdup : dupOutputs fs = false) (hacy : acyclic fs = true) (hwf : fs.all wfB = true) (hne : fs.all (fun g => !g.core.outputs.isEmpty) = true)
    (hc : ConsistentDefaults (cores fs)) (kw : List (String × Val)) (hK : RootKw fs kw)
    (hEv : GroupEvaluates fs (fun f => sel.any fun o => f.core.outputs.contains o) kw)
    (o : String) (ho : ∃ f ∈ r, o ∈ f.core.outputs) (v : Val) :
    (∃ n, eval r kw n o = .ok v) ↔ (∃ m, eval fs kw m o = .ok v) :=
  C10_nest_default_checked sel fs r h (C10_dupOutputs_unique fs hdup) hc (C10_wf_defaults_on_params fs hwf)
    (fun g hg e => by have := List.all_eq_true.mp hne g hg; simp [e] at this) hacy kw hK hEv o ho v

/-! ### non-vacuity

`fAB = f(a, b) -> c` with `b` bound; `fAX` = the same after `b → x` (`Lemmas/RewriteRen.lean`). -/

/-- the iff, both directions on closed instances: the swap `a ↔ x` keeps `fAX` well-formed, the capture `a → x` does not
    (and `update_renames` refuses it) -/
example : wfB (renameF (rhoOf [("a", "x"), ("x", "a")]) fAX) = true := by decide
example : wfB (renameF (rhoOf [("a", "x")]) fAX) = false := by decide
example : ¬ WF (renameF (rhoOf [("a", "x")]) fAX) := fun h => by
  have := wfB_complete _ h
  revert this; decide
example : ¬ ∀ a b, a ∈ curNames fAX → b ∈ curNames fAX → rhoOf [("a", "x")] a = rhoOf [("a", "x")] b → a = b :=
  fun h => absurd (wfB_complete _ ((C10_wf_rename_iff _ fAX wf_fAX).mpr h)) (by decide)
example : (updateRenamesF [("a", "x")] false false fAX).toOption.isSome = false := by decide

/-- `C10_renames_keep_wf` applied: the swap in one call is accepted, and its result is well-formed (here also by evaluation) -/
example : (updateRenamesF [("a", "x"), ("x", "a")] false false fAX).toOption.isSome = true := by decide
example : ∀ f', updateRenamesF [("a", "x"), ("x", "a")] false false fAX = .ok f' → WF f' :=
  fun f' h => C10_renames_keep_wf _ _ _ fAX f' wf_fAX h
example : ((updateRenamesF [("a", "x"), ("x", "a")] false false fAX).toOption.map wfB) = some true := by decide

/-- a history on `[fAB]`: plain `b → x`, the swap on the function in place, a reset in place from the original names - all accepted,
    the parameters end as constructed, and the result passes `wfB` by the theorem -/
example : ((runSteps [.plain [("b", "x")], .at "c" [("a", "x"), ("x", "a")] false false, .at "c" [] true true] [fAB]).toOption.map
    fun fs => fs.map (·.core.params)) = some [[("a", "a"), ("b", "b")]] := by decide
example : [fAB].all wfB = true := by decide
example : ∀ fs', runSteps [.plain [("b", "x")], .at "c" [("a", "x"), ("x", "a")] false false, .at "c" [] true true] [fAB] = .ok fs' →
    fs'.all wfB = true := fun fs' h => C10_renames_history_wf _ [fAB] fs' (by decide) h
/-- pipeline-level steps (parameterless function: `validate_scopes` splits strings, which the kernel does not reduce on parameters) -/
example : ((runSteps [.pipe [("o", "z")] true false, .pipe [] false true] [nYW]).toOption.map allOutputs) = some ["o"] := by decide
example : ∀ mid fs', runSteps [.pipe [("o", "z")] true false] [nYW] = .ok mid → updateRenamesX [] false true mid = .ok fs' →
    fs' = mid.map fun f => renameF (rhoF [] false true f) f :=
  fun mid fs' hh h => C10_renames_history_pipeline _ [nYW] mid fs' (by decide) hh _ _ _ h
example : ∀ fs', updateRenamesX [("o", "z")] true false [nYW] = .ok fs' → ∀ f' ∈ fs', WF f' :=
  fun fs' h => C10_renames_keep_wf_pipeline _ _ _ [nYW] fs' (fun f hf => wfB_sound f (by simp only [List.mem_singleton] at hf; subst hf; decide)) h
example : ∀ fs', updateRenamesAt "c" [("a", "x"), ("x", "a")] false false [fAX] = .ok fs' → ∀ f' ∈ fs', WF f' :=
  fun fs' h => C10_renames_keep_wf_at _ _ _ _ [fAX] fs' (fun f hf => by simp only [List.mem_singleton] at hf; subst hf; exact wf_fAX) h
example : ∀ fs', updateRenames [("b", "x")] [fAB] = .ok fs' → ∀ f' ∈ fs', WF f' :=
  fun fs' h => C10_update_renames_keeps_wf _ [fAB] fs' (fun f hf => by simp only [List.mem_singleton] at hf; subst hf; exact wf_fAB) h
example : (updateRenames [("b", "x")] [fAB]).toOption.isSome = true := by decide

/-- `P3` (`Props/C10.lean`; the pipeline of the `C10_simplify*` / `C10_nest*` examples) passes both decidable well-formedness checks -/
example : P3.all wfB = true := by decide
example : P3.all (fun g => !g.core.outputs.isEmpty) = true := by decide
example : DefaultsOnParams P3 := C10_wf_defaults_on_params P3 (by decide)

end PF.C10
