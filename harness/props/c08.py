"""C08 — MapSpec parsing, printing, shapes and index maps are mutually consistent.

Correspondence: `pipefunc.map._mapspec` (`MapSpec`, `ArraySpec`, `validate_consistent_axes`, `mapspec_axes`) against
`PF.MS` (lean/PfModel/Model/MapSpec.lean, MapSpecParse.lean), plus the clauses of the property statement evaluated
directly on the implementation's own answers:

  * round trip      `MapSpec.from_string(str(m)) == m`, also for re-spaced printings of `m`;
  * rejection       a spec object the implementation hands out never shows one of the four malformations; a structurally
                    malformed spec (constructor call or its printed string) is never accepted;
  * shape           the returned shape/mask are the sizes implied by the inputs / internal shapes; rank and zipped-dimension
                    mismatches raise;
  * output_key      over `range(N)` equals `itertools.product(*map(range, shape))` (every position once, row-major);
  * input_keys      component = `slice(None)` for `:`, else the output position's component of that index name;
  * rename/add_axes the result is well-formed and has the renamed names / the appended axes.

Round 9: whitespace-decorated specs (`SpSpec`, Model/MapSpecSpaced.lean) whose text and expected spec come from the Lean driver
(`C08_parse_spaced`), `to_string`, swap / chain / successive renames (`C08_rename_swap`, `C08_rename_compose`), `add_axes` in two
steps (`C08_add_axes_compose`).
"""
from __future__ import annotations

import copy
import itertools
import math

import pfimport  # noqa: F401
from pfimport import exc_enum
import re as _re

import c08_extract
from pipefunc.map._mapspec import ArraySpec, MapSpec, mapspec_axes, mapspec_dimensions, trace_dependencies, validate_consistent_axes

PID = "C08"
PROPS = ["PfModel.Props.C08", "PfModel.Props.C08Regex", "PfModel.Props.C08Axes", "PfModel.Props.C08Spaced", "PfModel.Props.C08Ops", "PfModel.Props.C08AxesLoop", "PfModel.Props.C08KeyTests", "PfModel.Props.C08RoundtripIff", "PfModel.Props.C08Src"]
GENERATED = True          # Props/C08Src.lean is proved against lean/PfModel/Generated/C08Facts.lean, regenerated from the source on every run
DRIVER = "C08"
RULE = ("four seeded streams: (1) structured specs (0-3 inputs, 1-2 outputs, 1-4 index names, rank 1-3 with ':' axes, plain / "
        "scoped / keyword-like names; a minority with a repeated index, a repeated array name, rank 0, or one structural "
        "malformation) each with a batch of operations: str, round trip, shape on consistent and perturbed shape dicts (sizes 0-4), "
        "output_key and input_keys over all linear indices of shapes with sizes 1-4, rename, add_axes; (2) strings: printings of "
        "well-formed specs re-spaced with arbitrary whitespace, and strings damaged by 16 mutation operators; (3) lists of specs for "
        "validate_consistent_axes / mapspec_axes / mapspec_dimensions / trace_dependencies (for consistent lists the tables must give every "
        "spec its own rank and axis names); (4) re.findall with the pattern literal re-extracted from the source against the Lean regex "
        "engine on random strings over 'ab1_.[]:, \\n-x', concatenations of adversarial pieces and mutated printings; (5) whitespace-decorated "
        "specs (Model/MapSpecSpaced.lean): the harness draws a spec and a decoration (strip() whitespace incl. \\x1c-\\x1f around every array, "
        "index, '...' and '->'; newlines outside brackets; 12 % decorations broken on purpose), LEAN prints the text and says which spec it must parse "
        "to (C08_parse_spaced), from_string is run on that text; ops cases also carry to_string, swap / chain renames, two renames in a row "
        "(C08_rename_compose: one table with the composed effect must give the same spec) and add_axes in two steps; half of the ops cases end with a "
        "'then' operation: rename / add_axes (one call or two; 7 % rejected ones) applied to the case's spec OBJECT after every read-only method was called on it "
        "('used', 2/3) or to a newly built one ('fresh'), and str, round trip, external_indices, output_key / input_keys over all linear indices of the old external "
        "shape extended by sizes for the new axes, the un-extended shape (must raise), shape() and one more rename / add_axes run on the object that was RETURNED, "
        "with every clause of the statement evaluated on it and the Lean model computing the same chain (driver op 'then'). A case is non-trivial when the spec has at least one input or the string at "
        "least one bracket (a decorated spec: at least one whitespace character in the decoration); distinct by the case's JSON")
ASSUMPTIONS = ["the regex engine of Model/MapSpecRegex.lean is the reading of CPython's sre (leftmost match, greedy/lazy priority order); it is exact for "
               "patterns whose repeated bodies and matches are never empty (proved for the source's pattern) and is compared with re.findall on every run",
               "ASCII identifiers only (the driver answers skip for anything else; the generators produce none)",
               "shape sizes and linear indices are naturals; internal shapes hold integers",
               "the private dataclass field _is_generated is not modelled: equality of specs is on (inputs, outputs) except in the "
               "round-trip clause, which uses the implementation's own == on user-constructed specs",
               "denotation clauses (shape, input_keys) are evaluated directly only for specs whose arrays have pairwise distinct "
               "index names and distinct input names; other accepted specs are compared with the model only",
               "whitespace decorations are drawn from the ASCII characters str.strip() removes (space, \\t, \\n, \\r, \\x0b, \\x0c, \\x1c-\\x1f); the Unicode "
               "spaces (\\x85, \\xa0, U+2000...) that strip() also removes are not modelled",
               "the model has no object state: a spec derived from a used object and one derived from a fresh object have the same model answer "
               "(that the history of the source object is irrelevant is what the 'then' operations test on the implementation)",
               "mapspec_axes is compared in its repaired (DF-29) form: positional tuples of the full rank with None for an axis no MapSpec names"]

WS_IN = [" ", "  ", "\t", "\r", "\x0b", "\x0c", " \t "]                # inside brackets: everything strip() removes except \n
WS_OUT = WS_IN + ["\n", " \n "]
NAMES = ["a", "b", "c", "x", "y", "x1", "_y", "data", "foo.bar", "s.t", "p.x1", "for", "A_b", "n0", "q"]
IDX = ["i", "j", "k", "l", "i2", "_m"]
BAD_NAMES = ["1a", "a-b", "a.b.c", "", "a b", ".a", "a.", "é", "a.1", "a[", "2"]


# ------------------------------------------------------------------------------------------------ canonical forms
def spec_json(m: MapSpec):
    return {"inputs": [[a.name, list(a.axes)] for a in m.inputs], "outputs": [[a.name, list(a.axes)] for a in m.outputs]}


def build(spec):
    return MapSpec(tuple(ArraySpec(n, tuple(ax)) for n, ax in spec["inputs"]), tuple(ArraySpec(n, tuple(ax)) for n, ax in spec["outputs"]))


def attempt(fn, conv=lambda v: v):
    try:
        return {"ok": conv(fn())}
    except Exception as e:  # noqa: BLE001
        return {"err": exc_enum(e)}


def is_ident(s):
    return isinstance(s, str) and s.isidentifier()


def name_ok(n):
    if "." in n:
        a, b = n.split(".", 1)
        return is_ident(a) and is_ident(b)
    return is_ident(n)


def malformations(spec):
    """The four malformations of the property statement (plus 'no output'), decided on the structure alone."""
    out = []
    ins, outs = spec["inputs"], spec["outputs"]
    if not outs:
        return ["no output array"]
    names_ok = all(name_ok(n) and all(a is None or is_ident(a) for a in ax) for n, ax in ins + outs)
    if not names_ok:
        out.append("a non-identifier array or index name")
    if any(a is None for _, ax in outs for a in ax):
        out.append("':' in an output")
    oidx = [a for a in outs[0][1] if a is not None]
    if any([a for a in ax if a is not None] != oidx for _, ax in outs[1:]):
        out.append("outputs with different indices")
    if any(a is not None and a not in oidx for _, ax in ins for a in ax):
        out.append("an input index absent from the output")
    return out


def plain(spec):
    """distinct index names inside each array, distinct array names, every rank >= 1: the specs the denotation clauses talk about"""
    arrs = spec["inputs"] + spec["outputs"]
    for _, ax in arrs:
        named = [a for a in ax if a is not None]
        if len(set(named)) != len(named) or not ax:
            return False
    names = [n for n, _ in arrs]
    return len(set(names)) == len(names)


def to_str(spec, rng=None):
    """`str(m)` computed from the structure; with `rng`, re-spaced with whitespace that `from_string` must tolerate."""
    def w(pool, p=0.5):
        return rng.choice(pool) if rng is not None and rng.random() < p else ""

    def arr(n, ax):
        if rng is None:
            return f"{n}[{', '.join(':' if a is None else a for a in ax)}]"
        return n + "[" + ",".join(w(WS_IN) + (":" if a is None else a) + w(WS_IN) for a in ax) + "]"

    def side(l):
        if rng is None:
            return ", ".join(arr(n, ax) for n, ax in l)
        return ",".join(w(WS_OUT) + arr(n, ax) + w(WS_OUT) for n, ax in l)
    if rng is None:
        return (side(spec["inputs"]) if spec["inputs"] else "...") + " -> " + side(spec["outputs"])
    left = side(spec["inputs"]) if spec["inputs"] else w(WS_OUT) + "..." + w(WS_OUT)
    return left + "->" + side(spec["outputs"])


# ------------------------------------------------------------------------------------------------ generators
def gen_spec(rng, odd=0.12):
    """A well-formed structured spec; with probability `odd` one of the accepted oddities (repeated index in an array,
    repeated array name, rank 0, output order differing from the inputs')."""
    n_idx = rng.choice([1, 1, 2, 2, 2, 3, 3, 4])
    oidx = rng.sample(IDX, n_idx)
    n_in = rng.choice([0, 1, 1, 2, 2, 2, 3, 3])
    n_out = rng.choice([1, 1, 1, 2])
    names = rng.sample(NAMES, n_in + n_out)
    ins = []
    for t in range(n_in):
        rank = rng.choice([1, 1, 2, 2, 3])
        pool = list(oidx)
        rng.shuffle(pool)
        ax = []
        for _ in range(rank):
            if pool and rng.random() < 0.75:
                ax.append(pool.pop())
            else:
                ax.append(None)
        ins.append([names[t], ax])
    outs = [[names[n_in + t], list(oidx)] for t in range(n_out)]
    spec = {"inputs": ins, "outputs": outs}
    if rng.random() < odd:
        kind = rng.choice(["rep-in", "rep-out", "dup-name", "rank0", "rank0-out"])
        if kind == "rep-in" and ins:
            ax = rng.choice(ins)[1]
            named = [a for a in ax if a is not None]
            if named:
                ax.append(rng.choice(named))
        elif kind == "rep-out":
            for o in outs:
                o[1].append(oidx[0])
        elif kind == "dup-name" and len(ins) >= 1:
            tgt = rng.choice(ins + outs)
            rng.choice(ins)[0] = tgt[0]
        elif kind == "rank0" and ins:
            rng.choice(ins)[1] = []
        elif kind == "rank0-out" and not any(a is not None for _, ax in ins for a in ax):
            for o in outs:
                o[1] = []
    return spec


def malform(rng, spec):
    """One structural malformation of the statement applied to a well-formed spec. Returns (spec, label) or None."""
    s = copy.deepcopy(spec)
    kind = rng.choice(["colon-out0", "colon-out-last", "in-idx", "out-diff", "out-perm", "bad-array", "bad-index", "no-out", "colon-out-only2"])
    ins, outs = s["inputs"], s["outputs"]
    if kind == "colon-out0":
        outs[0][1].insert(rng.randrange(len(outs[0][1]) + 1), None)
    elif kind in ("colon-out-last", "colon-out-only2"):
        if len(outs) < 2:
            outs.append([rng.choice([n for n in NAMES if n not in [x[0] for x in ins + outs]]), list(outs[0][1])])
        outs[-1][1].insert(rng.randrange(len(outs[-1][1]) + 1), None)
    elif kind == "in-idx":
        new = rng.choice([i for i in IDX + ["zz"] if i not in outs[0][1]])
        if not ins:
            ins.append(["w", [new]])
        else:
            ax = rng.choice(ins)[1]
            if ax and rng.random() < 0.5:
                ax[rng.randrange(len(ax))] = new
            else:
                ax.append(new)
    elif kind == "out-diff":
        if len(outs) < 2:
            outs.append(["o2", list(outs[0][1])])
        if rng.random() < 0.5 and outs[-1][1]:
            outs[-1][1].pop()
        else:
            outs[-1][1].append(rng.choice(IDX))
    elif kind == "out-perm":
        if len(outs[0][1]) < 2 or len(set(outs[0][1])) < 2:
            return None
        if len(outs) < 2:
            outs.append(["o2", list(outs[0][1])])
        outs[-1][1] = outs[-1][1][1:] + outs[-1][1][:1]
        if outs[-1][1] == outs[0][1]:
            return None
    elif kind == "bad-array":
        rng.choice(ins + outs)[0] = rng.choice(BAD_NAMES)
    elif kind == "bad-index":
        ax = rng.choice(ins + outs)[1]
        bad = rng.choice(["1i", "i-j", "", "i j", "a.b", "::", "i:"])
        if ax:
            ax[rng.randrange(len(ax))] = bad
        else:
            ax.append(bad)
    elif kind == "no-out":
        s["outputs"] = []
    return s, kind


def gen_shapes(rng, spec, zero=0.05):
    """A consistent assignment of sizes: (input shapes, internal shapes, size per index name)."""
    oax = spec["outputs"][0][1] if spec["outputs"] else []
    size = {}
    for _, ax in spec["inputs"] + spec["outputs"]:
        for a in ax:
            if a is not None and a not in size:
                size[a] = 0 if rng.random() < zero else rng.randint(1, 4)
    shapes = {}
    for n, ax in spec["inputs"]:
        shapes[n] = [size[a] if a is not None else rng.randint(1, 4) for a in ax]
    in_idx = {a for _, ax in spec["inputs"] for a in ax if a is not None}
    internal = {}
    free = [a for a in oax if a is not None and a not in in_idx]
    if free and spec["outputs"]:
        internal[spec["outputs"][0][0]] = [size[a] for a in free]
        if len(spec["outputs"]) > 1 and rng.random() < 0.5:
            internal[spec["outputs"][1][0]] = [size[a] for a in free]
    return shapes, internal


def perturb_shapes(rng, spec, shapes, internal):
    shapes, internal = copy.deepcopy(shapes), copy.deepcopy(internal)
    kind = rng.choice(["rank+", "rank-", "dim", "missing", "extra", "int-missing", "int-short", "int-long", "int-foreign", "int-other-output", "none"])
    names = list(shapes)
    if kind == "rank+" and names:
        shapes[rng.choice(names)].append(rng.randint(1, 3))
    elif kind == "rank-" and names:
        n = rng.choice(names)
        if shapes[n]:
            shapes[n].pop(rng.randrange(len(shapes[n])))
    elif kind == "dim" and names:
        n = rng.choice(names)
        if shapes[n]:
            q = rng.randrange(len(shapes[n]))
            shapes[n][q] = shapes[n][q] + rng.choice([1, 2]) if rng.random() < 0.7 else max(0, shapes[n][q] - 1)
    elif kind == "missing" and names:
        del shapes[rng.choice(names)]
    elif kind == "extra":
        shapes[rng.choice(["zzz", spec["outputs"][0][0] if spec["outputs"] else "o"])] = [2]
    elif kind == "int-missing":
        internal = {}
    elif kind == "int-short" and internal:
        n = next(iter(internal))
        if internal[n]:
            internal[n].pop()
    elif kind == "int-long":
        if spec["outputs"]:
            internal.setdefault(spec["outputs"][0][0], []).append(3)
    elif kind == "int-foreign":
        internal[rng.choice(["zzz"] + list(shapes))] = [2]
    elif kind == "int-other-output" and len(spec["outputs"]) > 1:
        internal = {spec["outputs"][1][0]: internal.get(spec["outputs"][0][0], [2])}
    return shapes, internal


def ext_shape(rng, spec, lo=1, hi=4):
    """a shape over the external indices (output indices that occur in an input), sizes lo..hi"""
    in_idx = {a for _, ax in spec["inputs"] for a in ax if a is not None}
    oax = spec["outputs"][0][1] if spec["outputs"] else []
    n = len([a for a in oax if a is not None and a in in_idx])
    if n >= 4:
        hi = min(hi, 3)
    return [rng.randint(lo, hi) for _ in range(n)]


def gen_ops(rng, spec):
    ops = [["str"]]
    if all(ax for _, ax in spec["inputs"] + spec["outputs"]):
        ops.append(["roundtrip"])
    ops.append(["ext"])
    if spec["outputs"]:
        sh, internal = gen_shapes(rng, spec)
        ops.append(["shape", sorted(sh.items()), sorted(internal.items())])
        for _ in range(2):
            s2, i2 = perturb_shapes(rng, spec, sh, internal)
            ops.append(["shape", sorted(s2.items()), sorted(i2.items())])
    es = ext_shape(rng, spec)
    ops.append(["outkeys", es])
    ops.append(["inkeys_all", es])
    if rng.random() < 0.3:                                   # wrong-length shapes: must raise
        bad = es + [2] if rng.random() < 0.5 or not es else es[:-1]
        ops.append(["outkey", bad, 0])
        ops.append(["inkeys", bad, 0])
    if rng.random() < 0.3:                                   # indices beyond N wrap around (both sides)
        n = math.prod(es)
        ops.append(["outkey", es, n + rng.randint(0, 5)])
        ops.append(["inkeys", es, n + rng.randint(0, 5)])
    arr_names = [n for n, _ in spec["inputs"] + spec["outputs"]]
    for _ in range(rng.choice([1, 2])):
        r = rng.random()
        if r < 0.15:
            ren = {rng.choice(["zzz", "nope"]): "w"}                                           # no array mentioned: identity
        else:
            ks = rng.sample(arr_names, rng.randint(1, min(2, len(arr_names)))) if arr_names else []
            pool = ["r1", "r2", "sc.r3", "a", "x"] + (BAD_NAMES if rng.random() < 0.2 else [])
            ren = {k: rng.choice(pool) for k in ks}
            if rng.random() < 0.3:
                ren["unused"] = "u"
        ops.append(["rename", [[k, v] for k, v in ren.items()]])
    ops.append(["to_string"])
    uniq = sorted(set(arr_names))
    if len(uniq) >= 2 and rng.random() < 0.5:                                                  # swap: simultaneous substitution
        a, b = rng.sample(uniq, 2)
        ops.append(["rename", [[a, b], [b, a]]])
    if len(uniq) >= 2 and rng.random() < 0.35:                                                 # chain {a: b, b: c} in ONE call
        a, b = rng.sample(uniq, 2)
        ops.append(["rename", [[a, b], [b, rng.choice(["r9", "sc.r9", a])]]])
    if uniq and rng.random() < 0.5:                                                            # two renames in a row
        a = rng.choice(uniq)
        mid = rng.choice(["t1", "sc.t1"] + uniq + (BAD_NAMES[:3] if rng.random() < 0.1 else []))
        r1 = {a: mid}
        r2 = {rng.choice([mid, mid, rng.choice(uniq)]): rng.choice(["t2", "r1", a] + uniq + (BAD_NAMES[:3] if rng.random() < 0.1 else []))}
        if rng.random() < 0.3 and len(uniq) >= 2:
            r1[rng.choice([u for u in uniq if u != a])] = rng.choice(["t3", a])
        ops.append(["rename_seq", [[k, v] for k, v in r1.items()], [[k, v] for k, v in r2.items()]])
    used = {a for _, ax in spec["inputs"] + spec["outputs"] for a in ax if a is not None}
    if rng.random() < 0.5:                                                                     # add_axes in two steps
        fresh = [i for i in IDX + ["new", "new2", "n3"] if i not in used]
        r = rng.random()
        if r < 0.6:
            pick = rng.sample(fresh, rng.choice([2, 2, 3]))
            cut = rng.randint(1, len(pick) - 1)
            ax1, ax2 = pick[:cut], pick[cut:]
        elif r < 0.8:
            ax1 = [rng.choice(fresh)]; ax2 = [ax1[0]]                                            # the second step clashes with the first
        elif r < 0.9 and used:
            ax1 = [rng.choice(fresh)]; ax2 = [rng.choice(sorted(used))]
        else:
            ax1 = [rng.choice(fresh)]; ax2 = [rng.choice([None, "1x", ""])]
        ops.append(["add_axes_seq", ax1, ax2])
    for _ in range(rng.choice([1, 2])):
        r = rng.random()
        if r < 0.55:
            ax = [rng.choice([i for i in IDX + ["new"] if i not in used])]
        elif r < 0.7:
            fresh = [i for i in IDX + ["new", "new2"] if i not in used]
            ax = rng.sample(fresh, 2)
        elif r < 0.8 and used:
            ax = [rng.choice(sorted(used))]                                                    # clash
        elif r < 0.88:
            ax = [None]                                                                        # ':' reaches the outputs
        elif r < 0.94:
            ax = [rng.choice(["1x", "a b", ""])]
        elif r < 0.97:
            ax = []
        else:
            ax = ["new", "new"]
        ops.append(["add_axes", ax])
    for _ in range(rng.choice([0, 1])):                                                        # operations on the DERIVED spec object
        ops.append(gen_then(rng, spec, es))
    return ops


def gen_then(rng, spec, es):
    """["then", op1, subops, "used" | "fresh", touch_result_first]: `op1` (rename / add_axes, one call or two) is applied to the case's spec
    object ("used": the very object every earlier operation of the case ran on, after `touch`; "fresh": a newly built one) and the sub-operations run on
    the object it RETURNS. The shape of the derived spec keeps the sizes of the old external indices and adds sizes for the new ones."""
    arr_names = sorted({n for n, _ in spec["inputs"] + spec["outputs"]})
    used = {a for _, ax in spec["inputs"] + spec["outputs"] for a in ax if a is not None}
    fresh = [i for i in IDX + ["new", "new2", "n3"] if i not in used]
    r = rng.random()
    if r < 0.4:
        op1 = ["add_axes", [rng.choice(fresh)]]
    elif r < 0.55:
        op1 = ["add_axes", rng.sample(fresh, rng.choice([2, 2, 3]))]
    elif r < 0.65:
        pick = rng.sample(fresh, rng.choice([2, 3])); cut = rng.randint(1, len(pick) - 1)
        op1 = ["add_axes_seq", pick[:cut], pick[cut:]]
    elif r < 0.72:
        op1 = ["add_axes", [rng.choice([None, "1x", rng.choice(sorted(used)) if used else "", fresh[0]])]]   # mostly rejected
    elif r < 0.92 and arr_names:
        ks = rng.sample(arr_names, rng.randint(1, min(3, len(arr_names))))
        pool = ["r1", "r2", "sc.r3", "w"] + arr_names
        op1 = ["rename", [[k, rng.choice(pool)] for k in ks]]
    elif arr_names:
        a = rng.choice(arr_names); mid = rng.choice(["t1", "sc.t1"] + arr_names)
        op1 = ["rename_seq", [[a, mid]], [[rng.choice([mid, a]), rng.choice(["t2", a] + arr_names)]]]
    else:
        op1 = ["add_axes", [fresh[0]]]
    d = derived_spec(spec, op1)
    n_new = len(ext_shape(rng, d, 1, 1)) - len(es)
    if n_new >= 0:
        hi = 4 if math.prod(es) <= 8 else 3 if math.prod(es) <= 24 else 2
        es2 = list(es) + [rng.randint(1, hi) for _ in range(n_new)]
        if math.prod(es2) > 64:
            es2 = list(es) + [1] * n_new
    else:
        es2 = ext_shape(rng, d, 1, 3)
    subs = [["str"]]
    if all(ax for _, ax in d["inputs"] + d["outputs"]):
        subs.append(["roundtrip"])
    subs.append(["ext"])
    subs.append(["outkeys", es2])
    subs.append(["inkeys_all", es2])
    if es2 != list(es):                                                                        # the un-extended shape: must raise
        subs.append(["outkey", list(es), 0])
        subs.append(["inkeys", list(es), 0])
    elif rng.random() < 0.3:
        subs.append(["inkeys", es2 + [2], 0])
    if d["outputs"] and all(isinstance(a, str) or a is None for _, ax in d["inputs"] + d["outputs"] for a in ax):
        sh, internal = gen_shapes(rng, d)
        subs.append(["shape", sorted(sh.items()), sorted(internal.items())])
        if rng.random() < 0.5:
            s2, i2 = perturb_shapes(rng, d, sh, internal)
            subs.append(["shape", sorted(s2.items()), sorted(i2.items())])
    if rng.random() < 0.25 and op1[0].startswith("add_axes"):                                  # derive once more from the derived object
        f2 = [i for i in fresh if i not in [a for part in op1[1:] for a in part]]
        subs.append(["add_axes", [f2[0]]] if f2 else ["to_string"])
    elif rng.random() < 0.2 and arr_names:
        subs.append(["rename", [[rng.choice(arr_names), "r7"]]])
    return ["then", op1, subs, rng.choice(["used", "used", "fresh"]), rng.random() < 0.3]


def gen_ops_case(rng):
    spec = gen_spec(rng)
    label = "wf"
    if rng.random() < 0.22:
        m = malform(rng, spec)
        if m is not None:
            spec, label = m
    return {"k": "ops", "spec": spec, "ops": gen_ops(rng, spec), "label": label}


MUTATORS = ["drop-bracket", "dup-bracket", "no-arrow", "two-arrows", "rev-arrow", "junk-token", "newline-in-brackets", "space-before-bracket",
            "extra-dot", "drop-comma", "insert-char", "delete-char", "dots-output", "empty-index", "trailing-comma", "swap-sides"]


def mutate_string(rng, s):
    kind = rng.choice(MUTATORS)
    br = [i for i, c in enumerate(s) if c in "[]"]
    if kind == "drop-bracket" and br:
        i = rng.choice(br); s = s[:i] + s[i + 1:]
    elif kind == "dup-bracket" and br:
        i = rng.choice(br); s = s[:i] + s[i] + s[i:]
    elif kind == "no-arrow":
        s = s.replace("->", rng.choice(["", "-", ">", "=>", "- >"]))
    elif kind == "two-arrows":
        s = s + rng.choice([" -> c[i]", "->", " -> "]) if rng.random() < 0.5 else "->" + s
    elif kind == "rev-arrow":
        s = s.replace("->", "<-")
    elif kind == "junk-token":
        i = rng.randrange(len(s) + 1)
        s = s[:i] + rng.choice([" zzz ", "zz,", " 12 ", "q.r ", "[", "]", "[]", "a[]", "x.y.z[i]", "..."]) + s[i:]
    elif kind == "newline-in-brackets" and br:
        i = rng.choice(br); s = s[:i + 1] + "\n" + s[i + 1:]
    elif kind == "space-before-bracket":
        i = s.find("[", rng.randrange(len(s)))
        if i >= 0:
            s = s[:i] + " " + s[i:]
    elif kind == "extra-dot":
        i = rng.randrange(len(s)); s = s[:i] + "." + s[i:]
    elif kind == "drop-comma" and "," in s:
        cs = [i for i, c in enumerate(s) if c == ","]
        i = rng.choice(cs); s = s[:i] + s[i + 1:]
    elif kind == "insert-char":
        i = rng.randrange(len(s) + 1); s = s[:i] + rng.choice("ab1_.[],: ->\n]x-") + s[i:]
    elif kind == "delete-char" and s:
        i = rng.randrange(len(s)); s = s[:i] + s[i + 1:]
    elif kind == "dots-output":
        s = s.split("->")[0] + "-> ..."
    elif kind == "empty-index" and br:
        i = s.find("[", rng.randrange(len(s)))
        if i >= 0:
            j = s.find("]", i)
            s = s[:i + 1] + rng.choice(["", " ", ",", "i,,j"]) + s[j:] if j >= 0 else s
    elif kind == "trailing-comma" and br:
        cl = [i for i, c in enumerate(s) if c == "]"]
        if cl:
            i = rng.choice(cl); s = s[:i] + "," + s[i:]
    elif kind == "swap-sides" and "->" in s:
        a, b = s.split("->", 1); s = b + "->" + a
    return s, kind


def gen_string_case(rng):
    spec = gen_spec(rng, odd=0.05)
    r = rng.random()
    if r < 0.3 and not malformations(spec) and plain(spec):
        return {"k": "parse", "s": to_str(spec, rng), "expect": spec, "label": "respaced"}
    if r < 0.55:
        m = malform(rng, spec)
        if m is not None and m[1] != "no-out" and all(ax for _, ax in m[0]["inputs"] + m[0]["outputs"]) and \
                all(isinstance(a, str) or a is None for _, ax in m[0]["inputs"] + m[0]["outputs"] for a in ax):
            bad, kind = m
            s = to_str(bad, rng if rng.random() < 0.5 else None)
            if kind in ("bad-array", "bad-index"):
                # the printed text of a bad name may scan as something else: no verdict on the string alone
                return {"k": "parse", "s": s, "label": "printed-" + kind}
            return {"k": "parse", "s": s, "must_reject": kind, "label": "printed-" + kind}
    s = to_str(spec, rng if rng.random() < 0.3 else None)
    for _ in range(rng.choice([1, 1, 2])):
        s, kind = mutate_string(rng, s)
    return {"k": "parse", "s": s, "label": "mut-" + kind}


def gen_multi_case(rng):
    specs = []
    for _ in range(rng.randint(1, 3)):
        for _ in range(20):
            s = gen_spec(rng, odd=0.05)
            if not malformations(s):
                break
        specs.append(s)
    # make them talk about the same arrays: rename arrays of later specs to arrays of the first
    pool = [n for n, _ in specs[0]["inputs"] + specs[0]["outputs"]]
    for s in specs[1:]:
        for arr in s["inputs"] + s["outputs"]:
            if rng.random() < 0.6:
                arr[0] = rng.choice(pool)
                if rng.random() < 0.6:                      # same axes as the first spec's array: consistent
                    src = [ax for n, ax in specs[0]["inputs"] + specs[0]["outputs"] if n == arr[0]][0]
                    if not malformations({"inputs": s["inputs"], "outputs": s["outputs"]}):
                        old = arr[1]
                        arr[1] = list(src)
                        if malformations(s):
                            arr[1] = old
    specs = [s for s in specs if not malformations(s)]
    return {"k": "multi", "specs": specs}



# ------------------------------------------------------------------------------------------------ whitespace-decorated specs (round 9)
WS_INNER = [" ", "  ", "\t", "\r", "\x0b", "\x0c", " \t ", "\x1c", "\x1d\x1e", "\x1f ", "   \t\t"]   # what strip() removes, without \n
WS_OUTER = WS_INNER + ["\n", " \n ", "\n\n", "\r\n"]


def gen_spaced_case(rng):
    """A spec and a whitespace decoration of it (the tree `SpSpec` of Model/MapSpecSpaced.lean). The TEXT and the spec it must
    parse to are computed by the Lean driver, not here."""
    spec, label = gen_spec(rng, odd=0.06), "wf"
    if rng.random() < 0.15:
        m = malform(rng, spec)
        if m is not None and m[1] != "no-out":
            spec, label = m[0], "malformed-" + m[1]
    style = rng.choice(["dense", "sparse", "sparse", "inner-only", "outer-only", "str", "none"])
    p_in = {"dense": 0.9, "sparse": 0.3, "inner-only": 0.6, "outer-only": 0.0, "str": 0.0, "none": 0.0}[style]
    p_out = {"dense": 0.9, "sparse": 0.3, "inner-only": 0.0, "outer-only": 0.6, "str": 0.0, "none": 0.0}[style]

    def w(pool, p):
        return rng.choice(pool) if rng.random() < p else ""

    def arr(n, ax, first):
        axes = [[w(WS_INNER, p_in), a, w(WS_INNER, p_in)] for a in ax]
        l, r = w(WS_OUTER, p_out), w(WS_OUTER, p_out)
        if style == "str":                                            # the decoration `__str__` writes (C08_str_is_spacing)
            axes = [["" if q == 0 else " ", a, ""] for q, a in enumerate(ax)]
            l, r = ("" if first else " "), ""
        return [l, n, axes, r]
    t = {"inputs": [arr(n, ax, q == 0) for q, (n, ax) in enumerate(spec["inputs"])],
         "outputs": [arr(n, ax, q == 0) for q, (n, ax) in enumerate(spec["outputs"])],
         "dl": w(WS_OUTER, p_out), "al": w(WS_OUTER, p_out), "ar": w(WS_OUTER, p_out)}
    if style == "str":
        t["dl"], t["al"], t["ar"] = "", " ", " "
    if rng.random() < 0.12:                                            # outside the grammar on purpose: compared, no clause
        arrs = [a for a in t["inputs"] + t["outputs"] if a[2]]
        kind = rng.choice(["newline-inside", "gap-before-bracket", "junk-inside", "junk-outside", "dash-outside"])
        if kind == "gap-before-bracket" and (t["inputs"] + t["outputs"]):
            a = rng.choice(t["inputs"] + t["outputs"]); a[1] = a[1] + rng.choice([" ", "\t"])
        elif kind == "junk-outside" and (t["inputs"] + t["outputs"]):
            a = rng.choice(t["inputs"] + t["outputs"]); a[rng.choice([0, 3])] += rng.choice(["zz", " q ", ";", "["])
        elif kind == "dash-outside":
            t[rng.choice(["al", "ar"])] += rng.choice(["-", ">", "- "])
        elif arrs:
            x = rng.choice(rng.choice(arrs)[2])
            x[rng.choice([0, 2])] += "\n" if kind == "newline-inside" else rng.choice(["x", ",", "]", ":"])
        label += "+broken:" + kind
    return {"k": "spaced", "t": t, "label": label, "style": style}


def spaced_ws(t):
    return "".join([t["dl"], t["al"], t["ar"]] + [a[0] + a[3] + "".join(x[0] + x[2] for x in a[2]) for a in t["inputs"] + t["outputs"]])


def check_spaced(ctx, cases):
    """Lean first (text, spec it stands for, hypotheses of C08_parse_spaced), then `from_string` on Lean's text."""
    cases = [c for c in cases if ascii_only(c) or ctx.skip("non-ascii")]
    outs = ctx.lean([r for c in cases for r in requests_for(c)])
    for case, resp in zip(cases, outs):
        mo = resp["r"]
        if "skip" in mo:
            ctx.skip("driver-skip")
            continue
        o, bad = run_spaced_impl(case, mo)
        model = canon_model(case, [resp])
        ctx.count("kind:spaced")
        ctx.count(f"spaced:{case['label'].split(':')[0]}")
        ctx.count(f"spaced:style={case['style']}")
        ctx.count(f"spaced:hypotheses={mo['decoration_ok'] and mo['wf']}")
        ctx.count("spaced:" + ("accepted" if "ok" in o["parse"] else o["parse"]["err"]))
        ws = spaced_ws(case["t"])
        ctx.count(f"spaced:ws-chars={'0' if not ws else '1-5' if len(ws) <= 5 else '6-20' if len(ws) <= 20 else '>20'}")
        if "\n" in ws:
            ctx.count("spaced:with-newline")
        if any(ch in ws for ch in "\x1c\x1d\x1e\x1f"):
            ctx.count("spaced:with-x1c-x1f")
        ctx.record(case, nontrivial(case))
        if bad:
            ctx.violation(case, bad[0], impl=o, model=model, key=clause_key(bad[0]))
        elif o != model:
            ctx.violation(case, "implementation and model disagree on spaced (the property's clauses hold on this input)",
                          found_input=False, item="correspondence:spaced", impl=o, model=model)


def run_spaced_impl(case, mo):
    """`mo` is the driver's answer: the clause is Lean's (`parse text = ok erase` under `decoration_ok` and `wf`)."""
    bad = []
    text = mo["text"]
    r = attempt(lambda: MapSpec.from_string(text), spec_json)
    o = {"parse": r}
    if mo["decoration_ok"] and mo["wf"]:
        if r != {"ok": mo["erase"]}:
            bad.append(f"from_string({text!r}) is not the spec this whitespace-decorated text stands for")
        else:
            try:
                same = MapSpec.from_string(text) == build(mo["erase"]) == MapSpec.from_string(str(build(mo["erase"])))
            except Exception:  # noqa: BLE001
                same = False
            if not same:
                bad.append(f"from_string({text!r}) != the spec it writes")
    if "ok" in r and malformations(r["ok"]):
        bad.append(f"from_string({text!r}) returned a spec with {malformations(r['ok'])[0]}")
    if mo["is_str"]:
        printed = attempt(lambda: str(build(mo["erase"])))
        if "ok" in printed:
            o["str_is_text"] = printed["ok"] == text
    return o, bad

# ------------------------------------------------------------------------------------------------ implementation side
def key_json(k):
    return [None if isinstance(c, slice) and c == slice(None) else (int(c) if isinstance(c, int) else repr(c)) for c in k]


def shape_clauses(spec, shapes, internal, res):
    """The shape clause of the statement, evaluated on the implementation's answer `res` ({"ok": [shape, mask]} or err)."""
    bad = []
    ins, outs = spec["inputs"], spec["outputs"]
    names = [n for n, _ in ins]
    well_keyed = set(shapes) == set(names) and all(k in [n for n, _ in outs] for k in internal)
    rank_mismatch = well_keyed and any(len(shapes[n]) != len(ax) for n, ax in ins)
    oax = outs[0][1]
    zipped_mismatch = False
    if well_keyed and not rank_mismatch:
        for a in oax:
            dims = {shapes[n][ax.index(a)] for n, ax in ins if a in ax}
            if len(dims) > 1:
                zipped_mismatch = True
    if "ok" in res:
        sh, mk = res["ok"]
        if not well_keyed:
            bad.append("shape() accepted shape dicts whose names are not the spec's")
        elif rank_mismatch:
            bad.append("shape() did not raise on a rank mismatch")
        elif zipped_mismatch:
            bad.append("shape() did not raise on a zipped-dimension mismatch")
        elif len(sh) != len(oax) or len(mk) != len(oax):
            bad.append("shape()/mask have the wrong rank")
        else:
            k = 0
            for q, a in enumerate(oax):
                rel = [(n, ax) for n, ax in ins if a in ax]
                if rel:
                    if mk[q] is not True or any(shapes[n][ax.index(a)] != sh[q] for n, ax in rel):
                        bad.append(f"shape()[{q}] = {sh[q]} (mask {mk[q]}) is not the size of index {a!r} in the inputs")
                else:
                    want = internal.get(outs[0][0], [])
                    if mk[q] is not False or k >= len(want) or want[k] != sh[q]:
                        bad.append(f"shape()[{q}] = {sh[q]} (mask {mk[q]}) is not the internal size of index {a!r}")
                    k += 1
    return bad


def run_ops_impl(case):
    """Returns (observation shaped like the driver's, failed property clauses)."""
    spec, bad = case["spec"], []
    mal = malformations(spec)
    con = attempt(lambda: build(spec), spec_json)
    if "ok" in con and mal:
        bad.append(f"constructor accepted a spec with {mal[0]}")
    if "err" in con:
        return {"construct": con}, bad
    m = build(spec)
    out = exec_ops(m, spec, case["ops"], mal, bad)
    return {"construct": con, "ops": out}, bad


def derived_spec(spec, op1):
    """the structure `rename` / `add_axes` (one call or two in a row) must produce from `spec`"""
    if op1[0] == "rename":
        f = dict(op1[1]); g = lambda n: f.get(n, n)                                              # noqa: E731
    elif op1[0] == "rename_seq":
        r1, r2 = dict(op1[1]), dict(op1[2]); g = lambda n: r2.get(r1.get(n, n), r1.get(n, n))    # noqa: E731
    else:
        g = lambda n: n                                                                         # noqa: E731
    add = op1[1] if op1[0] == "add_axes" else op1[1] + op1[2] if op1[0] == "add_axes_seq" else []
    return {"inputs": [[g(n), list(ax) + list(add)] for n, ax in spec["inputs"]], "outputs": [[g(n), list(ax) + list(add)] for n, ax in spec["outputs"]]}


def apply_spec_op(m, op1):
    if op1[0] == "rename":
        return m.rename(dict(op1[1]))
    if op1[0] == "rename_seq":
        return m.rename(dict(op1[1])).rename(dict(op1[2]))
    if op1[0] == "add_axes":
        return m.add_axes(*op1[1])
    if op1[0] == "add_axes_seq":
        return m.add_axes(*op1[1]).add_axes(*op1[2])
    raise AssertionError(op1[0])


def touch(m):
    """every read-only public use of a spec object (whatever it computes lazily is computed now); nothing it raises matters here"""
    n = len(attempt(lambda: m.external_indices).get("ok", ()))
    for f in (lambda: str(m), lambda: hash(m), lambda: m.input_names, lambda: m.output_names, lambda: m.output_indices, lambda: m.input_indices,
              lambda: m.external_indices, lambda: m.output_key((1,) * n, 0), lambda: m.input_keys((1,) * n, 0), lambda: m.to_string(),
              lambda: m.shape({a.name: (1,) * len(a.axes) for a in m.inputs}), lambda: m == m, lambda: [(a.indices, a.rank, str(a)) for a in m.inputs + m.outputs]):
        attempt(f)


def exec_ops(m, spec, ops, mal, bad):
    """runs `ops` on the spec OBJECT `m` whose structure is `spec`; observations returned, failed clauses appended to `bad`"""
    is_plain = plain(spec) and not mal
    out = []
    for op in ops:
        name = op[0]
        if name == "str":
            out.append(str(m))
        elif name == "roundtrip":
            r = attempt(lambda: MapSpec.from_string(str(m)), spec_json)
            out.append(r)
            try:
                same = MapSpec.from_string(str(m)) == m
            except Exception:  # noqa: BLE001
                same = False
            if not same and not mal:
                bad.append(f"MapSpec.from_string(str(m)) != m for str(m) = {str(m)!r}")
        elif name == "ext":
            out.append(list(m.external_indices))
        elif name == "shape":
            shapes = {k: tuple(v) for k, v in op[1]}
            internal = {k: tuple(v) for k, v in op[2]}
            r = attempt(lambda: m.shape(shapes, internal or None), lambda v: [list(map(int, v[0])), list(v[1])])
            out.append(r)
            if is_plain:
                bad += shape_clauses(spec, dict(op[1]), dict(op[2]), r)
        elif name == "outkey":
            out.append(attempt(lambda: m.output_key(tuple(op[1]), op[2]), lambda v: [int(c) for c in v]))
        elif name == "outkeys":
            s = tuple(op[1])
            r = attempt(lambda: [m.output_key(s, i) for i in range(math.prod(s))], lambda v: [[int(c) for c in k] for k in v])
            out.append(r)
            if is_plain:
                if "ok" not in r:
                    bad.append(f"output_key raised for the external shape {s}")
                elif r["ok"] != [list(k) for k in itertools.product(*map(range, s))]:
                    bad.append(f"output_key over range(N) is not the row-major enumeration of {s}")
        elif name == "inkeys":
            out.append(attempt(lambda: m.input_keys(tuple(op[1]), op[2]), lambda v: [[n, key_json(k)] for n, k in v.items()]))
        elif name == "inkeys_all":
            s = tuple(op[1])
            r = attempt(lambda: [m.input_keys(s, i) for i in range(math.prod(s))],
                        lambda v: [[[n, key_json(k)] for n, k in d.items()] for d in v])
            out.append(r)
            if is_plain:
                if "ok" not in r:
                    bad.append(f"input_keys raised for the external shape {s}")
                else:
                    ext = [a for a in spec["outputs"][0][1] if any(a in ax for _, ax in spec["inputs"])]
                    for i, pos in enumerate(itertools.product(*map(range, s))):
                        d = dict((n, k) for n, k in r["ok"][i])
                        for n, ax in spec["inputs"]:
                            want = [None if a is None else pos[ext.index(a)] for a in ax]
                            if d.get(n) != want:
                                bad.append(f"input_keys({s}, {i})[{n!r}] = {d.get(n)} instead of {want}")
                                break
                        if bad:
                            break
        elif name == "rename":
            ren = dict(op[1])
            r = attempt(lambda: m.rename(ren), spec_json)
            out.append(r)
            if "ok" in r:
                if malformations(r["ok"]):
                    bad.append(f"rename produced a spec with {malformations(r['ok'])[0]}")
                want = {"inputs": [[ren.get(n, n), ax] for n, ax in spec["inputs"]], "outputs": [[ren.get(n, n), ax] for n, ax in spec["outputs"]]}
                if r["ok"] != want:
                    bad.append("rename did not produce the renamed mapping")
            elif not mal and all(name_ok(v) for v in ren.values()):
                bad.append("rename to valid names raised")
            if "ok" in r and not mal and len(ren) == 2 and all(ren.get(v) == k for k, v in ren.items()) and all(k != v for k, v in ren.items()):
                back = attempt(lambda: m.rename(ren).rename(ren), spec_json)                      # C08_rename_swap: an involution
                if back != {"ok": spec}:
                    bad.append("renaming with a swap twice does not give the spec back")
        elif name == "to_string":
            t = attempt(lambda: m.to_string())
            out.append(t.get("ok", t))
            if t.get("ok") != str(m):
                bad.append("to_string() is not str(m)")
        elif name == "rename_seq":
            r1, r2 = dict(op[1]), dict(op[2])
            r = attempt(lambda: m.rename(r1).rename(r2), spec_json)
            out.append(r)
            comp = lambda n: r2.get(r1.get(n, n), r1.get(n, n))                                  # noqa: E731
            if "ok" in r and not mal:
                want = {"inputs": [[comp(n), ax] for n, ax in spec["inputs"]], "outputs": [[comp(n), ax] for n, ax in spec["outputs"]]}
                if r["ok"] != want:
                    bad.append("two renames in a row did not produce the composed renaming")
                else:                                                                           # C08_rename_compose: one table, same spec
                    tau = {n: comp(n) for n, _ in spec["inputs"] + spec["outputs"]}
                    one = attempt(lambda: m.rename(tau), spec_json)
                    if one != r:
                        bad.append("rename with the composed table differs from the two renames in a row")
        elif name == "add_axes_seq":
            a1, a2 = op[1], op[2]
            r = attempt(lambda: m.add_axes(*a1).add_axes(*a2), spec_json)
            out.append(r)
            used = {a for _, x in spec["inputs"] + spec["outputs"] for a in x if a is not None}
            fine = all(a is not None and is_ident(a) and a not in used for a in a1 + a2) and not set(a1) & set(a2)
            if fine and not mal:                                                                # C08_add_axes_compose
                one = attempt(lambda: m.add_axes(*(a1 + a2)), spec_json)
                if "ok" not in r:
                    bad.append("add_axes of fresh axes in two steps raised")
                elif one != r:
                    bad.append("add_axes in two steps differs from add_axes of all the axes at once")
        elif name == "add_axes":
            ax = op[1]
            r = attempt(lambda: m.add_axes(*ax), spec_json)
            out.append(r)
            used = {a for _, x in spec["inputs"] + spec["outputs"] for a in x if a is not None}
            fine = all(a is not None and is_ident(a) and a not in used for a in ax)
            if "ok" in r:
                if malformations(r["ok"]):
                    bad.append(f"add_axes produced a spec with {malformations(r['ok'])[0]}")
                want = {"inputs": [[n, x + ax] for n, x in spec["inputs"]], "outputs": [[n, x + ax] for n, x in spec["outputs"]]}
                if r["ok"] != want:
                    bad.append("add_axes did not append the axes to every array")
                elif is_plain and any(a is not None and a in used for a in ax):
                    bad.append("add_axes accepted an axis name that one of the arrays already uses")
            elif fine and not mal:
                bad.append("add_axes of fresh identifier axes raised")
        elif name == "then":
            # an operation on the OBJECT `rename` / `add_axes` returned: the derived spec must denote the renamed / extended mapping, i.e.
            # every clause of the statement holds on it, whatever was done with the source object before ("used") or not ("fresh")
            op1, subs, hist = op[1], op[2], op[3]
            src = m if hist == "used" else build(spec)
            if hist == "used":
                touch(src)
            ro = attempt(lambda: apply_spec_op(src, op1))
            if "err" in ro:
                out.append(ro)
                continue
            d = ro["ok"]
            dj = attempt(lambda: spec_json(d))
            if "err" in dj:
                out.append(dj)
                continue
            dj = dj["ok"]
            what = f"the spec returned by {op1[0]}({', '.join(map(repr, op1[1:]))}) on a {hist} spec object"
            if not mal and dj != derived_spec(spec, op1):
                bad.append(f"{what} is not the renamed / extended mapping")
            if spec_json(src) != spec or attempt(lambda: list(src.external_indices)) != attempt(lambda: list(build(spec).external_indices)):
                bad.append(f"{op1[0]} changed the spec object it was called on")
            sub_bad = []
            touch_first = len(op) > 4 and op[4]
            if touch_first:
                touch(d)
            sub = exec_ops(d, dj, subs, malformations(dj), sub_bad)
            out.append({"ok": dj, "then": sub})
            bad += [f"{what}: {b}" for b in sub_bad]
        else:
            raise AssertionError(name)
    return out


def run_parse_impl(case):
    bad = []
    s = case["s"]
    r = attempt(lambda: MapSpec.from_string(s), spec_json)
    if "ok" in r:
        mal = malformations(r["ok"])
        if mal:
            bad.append(f"from_string({s!r}) returned a spec with {mal[0]}")
        if case.get("must_reject"):
            bad.append(f"from_string accepted {s!r}, the printing of a spec with a structural malformation ({case['must_reject']})")
        if "expect" in case:
            if r["ok"] != case["expect"]:
                bad.append(f"from_string({s!r}) is not the spec it is a re-spaced printing of")
            else:
                try:
                    same = MapSpec.from_string(s) == build(case["expect"]) and MapSpec.from_string(str(MapSpec.from_string(s))) == MapSpec.from_string(s)
                except Exception:  # noqa: BLE001
                    same = False
                if not same:
                    bad.append(f"from_string({s!r}) != the spec it prints")
    elif "expect" in case:
        bad.append(f"from_string rejected {s!r}, a re-spaced printing of a well-formed spec")
    return r, bad


def gap_free(specs):
    """every array's named positions form 0..k-1 (mapspec_axes is compared only then; the other case is DF-29b / C19)"""
    pos = {}
    for s in specs:
        for n, ax in s["inputs"] + s["outputs"]:
            for i, a in enumerate(ax):
                if a is not None:
                    pos.setdefault(n, set()).add(i)
    return all(p == set(range(len(p))) for p in pos.values())


def run_multi_impl(case):
    ms = [build(s) for s in case["specs"]]
    try:
        validate_consistent_axes(ms)
        cons = True
    except ValueError:
        cons = False
    except Exception as e:  # noqa: BLE001
        cons = {"err": exc_enum(e)}
    ax = attempt(lambda: mapspec_axes(ms), lambda d: sorted([k, list(v)] for k, v in d.items()))
    dims = attempt(lambda: mapspec_dimensions(ms), lambda d: sorted([k, int(v)] for k, v in d.items()))
    tr = attempt(lambda: trace_dependencies(ms),
                 lambda d: sorted([o, sorted([x, list(axs)] for x, axs in dd.items())] for o, dd in d.items()))
    if "err" in tr and "RecursionError" in tr["err"]:
        tr = {"err": "RecursionError"}
    bad = []
    # what the two tables are *for* (C19/C12 read them): when the specs are consistent every spec's own rank / own axis names are
    # what the tables say (C08_mapspec_axes_denotes, C08_mapspec_dimensions)
    if cons is True and "ok" in ax and "ok" in dims:
        axd, dimd = dict((k, v) for k, v in ax["ok"]), dict(dims["ok"])
        for sp in case["specs"]:
            for n, axes in sp["inputs"] + sp["outputs"]:
                if dimd.get(n) != len(axes):
                    bad.append(f"mapspec_dimensions[{n!r}] = {dimd.get(n)} but a consistent spec names it with rank {len(axes)}")
                t = axd.get(n)
                if t is None or len(t) != len(axes) or any(a is not None and t[i] != a for i, a in enumerate(axes)):
                    bad.append(f"mapspec_axes[{n!r}] = {t} contradicts the consistent spec {n}{axes}")
    return {"consistent": cons, "axes": ax, "dims": dims, "trace": tr}, bad[:1]


def requests_for(case):
    if case["k"] == "parse":
        return [{"m": "parse", "a": {"s": case["s"]}}]
    if case["k"] == "ops":
        return [{"m": "ops", "a": {"spec": case["spec"], "ops": case["ops"]}}]
    if case["k"] == "findall":
        return [{"m": "findall", "a": {"s": case["s"]}}]
    if case["k"] == "spaced":
        return [{"m": "spaced", "a": {"t": case["t"]}}]
    return [{"m": e, "a": {"specs": case["specs"]}} for e in ("consistent", "axes", "consistent_loop", "dims", "trace")]


def canon_model(case, resps):
    if any("skip" in (r.get("r") if isinstance(r.get("r"), dict) else {}) for r in resps):
        return None
    if case["k"] == "parse":
        return resps[0]["r"]
    if case["k"] == "multi":
        ax = resps[1]["r"]
        if "ok" in ax:
            ax = {"ok": sorted(ax["ok"])}
        dims, tr = resps[3]["r"], resps[4]["r"]
        if "ok" in dims:
            dims = {"ok": sorted(dims["ok"])}
        if "ok" in tr:
            tr = {"ok": sorted([o, sorted(row)] for o, row in tr["ok"])}
        out = {"consistent": resps[0]["r"], "axes": ax, "dims": dims, "trace": tr}
        if resps[2]["r"] != resps[0]["r"]:
            out["model-self-check"] = "consistentAxesLoop differs from consistentAxes"
        return out
    if case["k"] == "spaced":
        r = resps[0]["r"]
        out = {"parse": r["parse"]}
        if r["is_str"] and r["constructs"]:
            out["str_is_text"] = True
        if r.get("theorem_holds") is not True:
            out["model-self-check"] = "C08_parse_spaced fails on this decoration"
        return out
    if case["k"] == "findall":
        r = resps[0]["r"]
        out = {"ok": r["ok"]}
        if r.get("scanner_agrees") is not True or r.get("parse_agrees") is not True:
            out["model-self-check"] = "regex engine and scanner differ (C08_regex_findall / C08_parse_is_regex)"
        return out
    r = copy.deepcopy(resps[0]["r"])
    if "ops" in r:
        canon_ops(case["ops"], r["ops"])
    return r


def canon_ops(ops, obs):
    for op, o in zip(ops, obs):
        if op[0] == "outkeys" and isinstance(o, dict) and "ok" in o:
            if o.pop("spec_agrees") is not True:
                o["model-self-check"] = "outputKey over range(N) differs from allIdx"
        if op[0] == "inkeys" and "ok" in o:
            o["ok"] = [list(kv) for kv in dict((n, k) for n, k in o["ok"]).items()]
        if op[0] == "inkeys_all" and "ok" in o:
            o["ok"] = [[list(kv) for kv in dict((n, k) for n, k in d).items()] for d in o["ok"]]
        if op[0] == "then" and isinstance(o, dict) and "then" in o:
            canon_ops(op[2], o["then"])


_PATTERN = None


def source_pattern():
    """the literal `_parse_indexed_arrays` hands to re.findall, re-extracted from the source under test"""
    global _PATTERN
    if _PATTERN is None:
        try:
            _PATTERN = c08_extract.extract()["pattern"]
        except Exception:  # noqa: BLE001   broken tie: reported through the build of Props/C08Src
            _PATTERN = False
    return _PATTERN


def run_findall_impl(case):
    """CPython's `re.findall` on the source's pattern: what the Lean regex engine (`reFindAll arrayRe`) must reproduce"""
    pat = source_pattern()
    r = attempt(lambda: [list(t) for t in _re.findall(pat, case["s"])])
    return r, []


FA_ALPHA = "ab1_..[[]]:, \n-x"
FA_PIECES = ["a", "b1", "_", "a.b", "a.b.c", ".", "..", "[", "]", "[]", "[i]", "[i, j]", "[:]", "[\n]", "[i\n]", "]]", "[[", " ", ",", "->", "a.[i]",
             "a.b[", "ab.cd[i", ".a[i]", "a..b[i]", "1[2]", "é[i]", "a[]]", "x.y.z[k]", "\n"]


def gen_findall_case(rng):
    r = rng.random()
    if r < 0.45:
        s = "".join(rng.choice(FA_ALPHA) for _ in range(rng.randint(0, 14)))
    elif r < 0.9:
        s = "".join(rng.choice(FA_PIECES) for _ in range(rng.randint(1, 6)))
    else:
        s, _ = mutate_string(rng, to_str(gen_spec(rng, odd=0.05)))
    return {"k": "findall", "s": s, "label": "random" if r < 0.45 else "pieces" if r < 0.9 else "mutated-spec"}


def run_impl(case):
    if case["k"] == "parse":
        return run_parse_impl(case)
    if case["k"] == "findall":
        return run_findall_impl(case)
    if case["k"] == "ops":
        return run_ops_impl(case)
    return run_multi_impl(case)


def ascii_only(case):
    return all(ord(ch) < 128 for ch in repr(case))


def nontrivial(case):
    if case["k"] == "spaced":
        return bool(spaced_ws(case["t"]))
    if case["k"] in ("parse", "findall"):
        return "[" in case["s"]
    if case["k"] == "ops":
        return bool(case["spec"]["inputs"])
    return bool(case["specs"])


def first_diff(case, impl, model):
    if case["k"] == "multi" and isinstance(impl, dict) and isinstance(model, dict):
        for key in ("consistent", "axes", "dims", "trace", "model-self-check"):
            if impl.get(key) != model.get(key):
                return f"multi:{key}"
    if case["k"] != "ops" or not isinstance(impl, dict) or not isinstance(model, dict):
        return case["k"]
    if impl.get("construct") != model.get("construct"):
        return "construct"
    for op, a, b in zip(case["ops"], impl.get("ops", []), model.get("ops", [])):
        if a != b:
            return op[0]
    return "ops"


def clause_key(what):
    """violations are grouped (3 replays per class) by the clause that failed, not by the input text"""
    import re
    return re.sub(r"\(.*?\)|'[^']*'|\"[^\"]*\"|[0-9]+", "#", what)[:60]


def check_cases(ctx, cases):
    sp = [c for c in cases if c["k"] == "spaced"]
    if sp:
        check_spaced(ctx, sp)
        cases = [c for c in cases if c["k"] != "spaced"]
    reqs, metas = [], []
    for case in cases:
        if not ascii_only(case):
            ctx.skip("non-ascii")
            continue
        try:
            o, bad = run_impl(case)
        except Exception as e:  # noqa: BLE001  the implementation raised where the harness expected it not to
            o, bad = {"err": exc_enum(e)}, [f"unexpected {type(e).__name__}: {e}"]
        rs = requests_for(case)
        metas.append((case, o, bad, len(reqs), len(rs)))
        reqs += rs
    outs = ctx.lean(reqs)
    for case, o, bad, at, n in metas:
        model = canon_model(case, outs[at:at + n])
        if model is None:
            ctx.skip("driver-skip")
            continue
        ctx.count(f"kind:{case['k']}")
        if "label" in case:
            ctx.count(f"{case['k']}:{case['label']}")
        if case["k"] == "parse":
            ctx.count("parse:accepted" if "ok" in o else f"parse:{o['err']}")
        elif case["k"] == "findall":
            ctx.count(f"findall:matches={min(len(o.get('ok', [])), 3)}{'+' if len(o.get('ok', [])) > 3 else ''}")
        elif case["k"] == "ops":
            ctx.count("construct:accepted" if "ok" in o.get("construct", {}) else f"construct:{o.get('construct', {}).get('err')}")
            for op, r in zip(case["ops"], o.get("ops", [])):
                ctx.count(f"op:{op[0]}:" + ("ok" if not isinstance(r, dict) or "ok" in r else r["err"]))
                if op[0] == "then":
                    ctx.count(f"then:{op[1][0]}:source-{op[3]}:" + ("ok" if "ok" in r else r["err"]))
                    for sop, sr in zip(op[2], r.get("then", [])):
                        ctx.count(f"then:sub:{sop[0]}:" + ("ok" if not isinstance(sr, dict) or "ok" in sr else sr["err"]))
            sp = case["spec"]
            ctx.count(f"inputs={len(sp['inputs'])} outputs={len(sp['outputs'])}")
        else:
            ctx.count(f"multi:consistent={o['consistent']}")
            ctx.count("multi:axes-" + ("ok" if "ok" in o["axes"] else o["axes"]["err"]))
            ctx.count("multi:trace-" + (("ok:outputs=" + str(len(o["trace"]["ok"]))) if "ok" in o["trace"] else o["trace"]["err"]))
            if not gap_free(case["specs"]):
                ctx.count("multi:axes-with-unnamed-positions")
        ctx.record(case, nontrivial(case))
        if bad:
            ctx.violation(case, bad[0], impl=o, model=model, key=clause_key(bad[0]))
        elif o != model:
            what = first_diff(case, o, model)
            ctx.violation(case, f"implementation and model disagree on {what} (the property's clauses hold on this input)",
                          found_input=False, item=f"correspondence:{what}", impl=o, model=model)


CORPUS = [
    {"k": "parse", "s": "a[i] -> b[i], c[i, :]", "must_reject": "colon-out-last", "label": "corpus"},                    # DF-10
    {"k": "ops", "spec": {"inputs": [["a", ["i"]]], "outputs": [["b", ["i"]], ["c", ["i", None]]]}, "ops": [["str"]], "label": "corpus"},  # DF-10
    {"k": "ops", "spec": {"inputs": [["a", ["i"]]], "outputs": [["b", ["i"]], ["c", [None, "i"]]]}, "ops": [["str"]], "label": "corpus"},
    {"k": "parse", "s": "a[i], zzz -> b[i]", "label": "corpus"},                                                           # silently dropped token (mirrored)
    {"k": "parse", "s": "a.b.c[i, :], zz -> q[ i ]", "label": "corpus"},
    {"k": "parse", "s": "a [i] -> b[i]", "label": "corpus"},
    {"k": "parse", "s": "a[i] -> ...", "label": "corpus"},                                                                 # IndexError from outputs[0]
    {"k": "parse", "s": "a[i,\n j] -> b[i, j]", "label": "corpus"},
    {"k": "parse", "s": "a[]] -> b[]]", "label": "corpus"},
    {"k": "parse", "s": "-->", "label": "corpus"},
    {"k": "ops", "spec": {"inputs": [["a", []]], "outputs": [["b", ["i"]]]}, "ops": [["str"], ["ext"]], "label": "corpus"},   # reading (iii): rank 0
    {"k": "ops", "spec": {"inputs": [["a", ["i", "i"]]], "outputs": [["b", ["i", "i"]]]},                                   # reading (ii)
     "ops": [["str"], ["roundtrip"], ["ext"], ["outkey", [2, 2], 1], ["outkey", [2], 1], ["inkeys", [2, 2], 1], ["shape", [["a", [2, 3]]], []]], "label": "corpus"},
    {"k": "ops", "spec": {"inputs": [["x", ["i", "j"]], ["y", ["j", None, "k"]]], "outputs": [["z", ["i", "j", "k"]]]},
     "ops": [["str"], ["roundtrip"], ["shape", [["x", [5, 2]], ["y", [2, 7, 3]]], []], ["outkey", [5, 2, 3], 23], ["inkeys", [5, 2, 3], 23],
             ["outkeys", [2, 1, 2]], ["inkeys_all", [2, 1, 2]], ["rename", [["x", "w"]]], ["add_axes", ["q"]], ["add_axes", [None]]], "label": "corpus"},
    {"k": "ops", "spec": {"inputs": [["x", ["i"]]], "outputs": [["y", ["i", "j"]], ["z", ["i", "j"]]]},
     "ops": [["shape", [["x", [3]]], [["y", [2]]]], ["shape", [["x", [3]]], [["z", [2]]]], ["shape", [["x", [3]]], []], ["outkeys", [3]], ["inkeys_all", [3]]], "label": "corpus"},
    {"k": "multi", "specs": [{"inputs": [["x", ["i"]]], "outputs": [["y", ["i"]]]}, {"inputs": [["y", ["j"]]], "outputs": [["z", ["j"]]]}]},
    {"k": "multi", "specs": [{"inputs": [["x", [None, "i"]]], "outputs": [["y", ["i"]]]}]},                                  # DF-29b (C19): not compared
    # round 9: C08_spacing_limits_witness replayed on the real code
    {"k": "parse", "s": "a[i,\n j], c[i] -> b[i, j]", "label": "corpus"},
    {"k": "parse", "s": "a [i], c[i] -> b[i]", "label": "corpus"},
    {"k": "parse", "s": "a[i], c[i] - > b[i]", "label": "corpus"},
    # sp1 / sp2 of Props/C08Spaced.lean
    {"k": "spaced", "label": "corpus", "style": "corpus", "t": {"inputs": [["\n ", "x", [["\t", "i", " "], [" ", None, " "]], "\r"], ["", "y.s", [[" ", "j", ""]], "\t"]],
     "dl": "", "al": "", "ar": "\n ", "outputs": [["", "z", [["", "i", ""], ["", "j", "\x0c"]], " "]]}},
    {"k": "spaced", "label": "corpus", "style": "corpus", "t": {"inputs": [], "dl": " \n", "al": "\t", "ar": "", "outputs": [["", "b", [[" ", "i", "\x1c"]], ""]]}},
    # C08_rename_chain_witness, C08_rename_swap, C08_add_axes_repeated_witness replayed on the real code
    {"k": "ops", "spec": {"inputs": [["a", ["i"]], ["b", ["i"]]], "outputs": [["o", ["i"]]]},
     "ops": [["to_string"], ["rename", [["a", "b"], ["b", "c"]]], ["rename_seq", [["a", "b"]], [["b", "c"]]], ["rename", [["a", "b"], ["b", "a"]]],
             ["rename", [["a", "o"], ["o", "a"]]], ["add_axes", ["n", "n"]], ["add_axes_seq", ["n"], ["n"]], ["add_axes_seq", ["n"], ["k"]]], "label": "corpus"},
    {"k": "ops", "spec": {"inputs": [], "outputs": [["o", ["i"]]]}, "ops": [["add_axes", ["p"]], ["ext"], ["add_axes_seq", ["p"], ["q"]]], "label": "corpus"},
    # the derived OBJECT must denote the extended / renamed mapping, whatever was done with the source object before (seeded C08-s5-A)
    {"k": "ops", "spec": {"inputs": [["a", ["i"]], ["b", ["j"]]], "outputs": [["c", ["i", "j"]]]},
     "ops": [["ext"], ["inkeys_all", [2, 3]],
             ["then", ["add_axes", ["k"]], [["str"], ["roundtrip"], ["ext"], ["outkeys", [2, 3, 4]], ["inkeys_all", [2, 3, 4]], ["outkey", [2, 3], 0], ["inkeys", [2, 3], 0],
                                           ["shape", [["a", [2, 4]], ["b", [3, 4]]], []]], "used", False],
             ["then", ["add_axes", ["k"]], [["ext"], ["inkeys_all", [2, 3, 4]], ["inkeys", [2, 3], 0]], "fresh", True],
             ["then", ["rename", [["a", "b"], ["b", "a"]]], [["str"], ["ext"], ["inkeys_all", [2, 3]], ["shape", [["a", [3]], ["b", [2]]], []]], "used", False]], "label": "corpus"},
    {"k": "ops", "spec": {"inputs": [["x", ["i", None]], ["y.z", ["i"]]], "outputs": [["q", ["i"]]]},
     "ops": [["then", ["add_axes_seq", ["k"], ["l"]], [["ext"], ["outkeys", [3, 2, 2]], ["inkeys_all", [3, 2, 2]], ["inkeys", [3], 0], ["add_axes", ["n"]]], "used", False]], "label": "corpus"},
    # C08_repeated_index_witness replayed on the real code: no shape is accepted by both output_key and input_keys
    {"k": "ops", "spec": {"inputs": [["a", ["i"]]], "outputs": [["b", ["i", "i"]]]},
     "ops": [["ext"], ["outkey", [2], 1], ["inkeys", [2], 1], ["inkeys", [2, 2], 1], ["outkey", [2, 2], 1]], "label": "corpus"},
]


def exhaustive_specs():
    """thorough tier: every spec with <= 2 inputs, <= 2 outputs, rank <= 2 over index names {i, j, k} and ':' (malformed ones included)."""
    axes_in = [list(t) for r in (1, 2) for t in itertools.product(["i", "j", "k", None], repeat=r)]
    axes_out = [list(t) for r in (1, 2) for t in itertools.product(["i", "j", "k", None], repeat=r)]
    for n_in in (0, 1, 2):
        for ins in itertools.product(axes_in, repeat=n_in):
            for n_out in (1, 2):
                for outs in itertools.product(axes_out, repeat=n_out):
                    yield {"inputs": [[["a", "b"][t], list(ax)] for t, ax in enumerate(ins)],
                           "outputs": [[["p", "q.r"][t], list(ax)] for t, ax in enumerate(outs)]}


def exhaustive_ops(spec):
    ops = [["str"], ["ext"]]
    if malformations(spec):
        return ops
    ops.append(["roundtrip"])
    in_idx = {a for _, ax in spec["inputs"] for a in ax if a is not None}
    oax = spec["outputs"][0][1]
    ext = [a for a in oax if a in in_idx]
    for es in itertools.product([1, 2, 3], repeat=len(ext)):
        ops.append(["outkeys", list(es)])
        ops.append(["inkeys_all", list(es)])
    if plain(spec):
        for sizes in itertools.product([1, 2], repeat=2):
            size = dict(zip(["i", "j"], sizes), k=3)
            sh = {n: [size[a] if a else 3 for a in ax] for n, ax in spec["inputs"]}
            internal = {spec["outputs"][0][0]: [size[a] for a in oax if a not in in_idx]}
            internal = {k: v for k, v in internal.items() if v}
            ops.append(["shape", sorted(sh.items()), sorted(internal.items())])
    return ops


def run(ctx):
    check_cases(ctx, [copy.deepcopy(c) for c in CORPUS])
    rng = ctx.rng
    n_ops, n_str, n_multi = ctx.n(3000, 40000), ctx.n(6000, 80000), ctx.n(1200, 12000)
    n_fa = ctx.n(5000, 80000) if source_pattern() else 0
    n_sp = ctx.n(3000, 40000)
    chunk = 20000
    todo = [gen_ops_case] * n_ops + [gen_string_case] * n_str + [gen_multi_case] * n_multi + [gen_findall_case] * n_fa + [gen_spaced_case] * n_sp
    for at in range(0, len(todo), chunk):
        check_cases(ctx, [g(rng) for g in todo[at:at + chunk]])
    if ctx.tier == "thorough":
        batch = []
        for spec in exhaustive_specs():
            batch.append({"k": "ops", "spec": spec, "ops": exhaustive_ops(spec), "label": "exhaustive"})
            if len(batch) >= chunk:
                check_cases(ctx, batch); batch = []
        check_cases(ctx, batch)


def pre_build(ctx):
    """Translator (secondary tie): regenerate lean/PfModel/Generated/C08Facts.lean from pipefunc/map/_mapspec.py."""
    try:
        f = c08_extract.write()
        ctx.extra["translated_from_source"] = {k: f[k] for k in ("pattern", "arrow", "comma", "side_literals", "index_literals")}
    except Exception as e:  # noqa: BLE001   the source no longer has the shape the translator understands: a broken tie
        ctx.notes.append(f"translator failed: {type(e).__name__}: {e}")
        c08_extract.write_text(c08_extract.STUB)


def replay(ctx, case):
    if case["k"] == "spaced":
        resp = ctx.lean(requests_for(case))[0]
        o, bad = run_spaced_impl(case, resp["r"])
        print("text (from the Lean driver):", repr(resp["r"]["text"]), "| stands for:", resp["r"]["erase"],
              "| hypotheses of C08_parse_spaced:", resp["r"]["decoration_ok"] and resp["r"]["wf"])
        print("implementation:", o, "| failed clauses:", bad)
        print("model:", canon_model(case, [resp]))
        return
    o, bad = run_impl(case)
    print("implementation:", o, "| failed clauses:", bad)
    print("model:", canon_model(case, ctx.lean(requests_for(case))))
