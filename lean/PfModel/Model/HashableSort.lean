import PfModel.Model.Hashable
/-!
`sorted(...)` beyond strictly ordered keys.  Python's `sorted` is a *stable* sort that only asks `<`.  `Model/Hashable.lean`
defines `sortP` where the sort keys are pairwise strictly ordered (then every sorting algorithm returns the same list).
Here: `sortW`, defined whenever `<` is a total preorder on the keys — any two keys are `<`, `>` or tied (`cmp = .eq`) —
as the stable insertion sort `sortS` (an element goes in front of the elements it is tied with that came later in the
input, exactly the list timsort returns).  `sortW` extends `sortP` (`Lemmas/HashableSort.lean`).
-/
namespace PF.Hashable

/-- `<`, `>` or tied -/
def weakB (x y : PV) : Bool := cmp x y = .lt || cmp x y = .gt || cmp x y = .eq

/-- insert `p`, which precedes every element of the list in the input, into the sorted list: after the elements that
    are `<` it, in front of everything else (in particular in front of the elements it is tied with) -/
def insertS (p : PV × PV) : List (PV × PV) → List (PV × PV)
  | [] => [p]
  | q :: qs => if cmp q.1 p.1 = .lt then q :: insertS p qs else p :: q :: qs

/-- stable insertion sort by the first component -/
def sortS : List (PV × PV) → List (PV × PV)
  | [] => []
  | p :: ps => insertS p (sortS ps)

/-- `sorted(...)` of pairs `(sort key, converted item)` where the keys are totally preordered by `<`; the other cases
    as in `sortP` (partial order → unspecified, a raising pair → `TypeError`). -/
def sortW (ps : List (PV × PV)) : Except Err (List (PV × PV)) :=
  let ks := ps.map Prod.fst
  if pairwiseB weakB ks then .ok (sortS ps)
  else if !pairwiseB (fun x y => cmp x y ≠ .partialOrd) ks then .error .partialOrder
  else .error .typeError

end PF.Hashable
