import PfModel.Props.C12Shapes
import PfModel.Props.C12Call
import PfModel.Lemmas.ValidateBuilt
/-!
C12, proof round 2 (C12p7): two hypotheses / distrust items of `fixes/C12/REPORT.md` settled by proof over the existing definitions.

1. "`acyclic fs` is a hypothesis (construction establishes it)" (round 2, `C12_reject_rank` / `C12_reject_zipped`).
   * `C12_constructed_acyclic`: `Pipeline([...])` accepted ⇒ `acyclic fs`;
   * `C12_built_reject_rank`, `C12_built_reject_zipped`: the two clauses with "the pipeline was constructed" instead of `acyclic`;
   * `C12_rank_rejected_somewhere`, `C12_zipped_rejected_somewhere`: for ANY function list — an exception at construction or at the
     start of `map` (the property's own wording), no hypothesis on the pipeline at all;
   * `C12_any_reject_rank`, `C12_any_reject_zipped`: on ANY function list as it is now (e.g. edited in place into a cycle), with any
     executor form, the start of `map` (`startMap2`, with the lazy re-validation) refuses — the cycle test fires if the pipeline
     is cyclic, the shape test otherwise; with `C12_startMap2_no_effects`: before any effect.
2. "`producer` is the FIRST function with that output, `output_to_func` keeps the LAST: they differ only with duplicate outputs,
   which `lazySteps` refuses first" (round 9).
   * `C12_producer_is_last`: unique outputs ⇒ `lastProducer fs o = producer fs o` for every name;
   * `C12_call_producer_is_last`, `C12_map_producer_is_last`, `C12_built_producer_is_last`: whenever `run` / `__call__` (resp. the
     start of `map`, resp. construction) does NOT refuse, the model's `producer` is the code's `output_to_func` entry;
   * `C12_producer_differs_dup` (`decide`): with a duplicate output they do differ, so the hypothesis is needed.
-/
namespace PF.C12
open PF PF.Map PF.Validate

/-! ### 1. `acyclic` is established by construction -/

/-- A pipeline that `Pipeline([...])` accepted is acyclic (Kahn layering leaves no residue). -/
theorem C12_constructed_acyclic (fs : List MFunc) (h : construct fs = .ok ()) : Validate.acyclic fs = true := by
  have hl := C12_constructed_no_lazy_fault fs h
  cases hac : Validate.acyclic fs with
  | true => rfl
  | false => exact absurd (Or.inr (Or.inr hac)) hl

/-- `C12_reject_rank` at user level: the pipeline was CONSTRUCTED (no separate acyclicity hypothesis). -/
theorem C12_built_reject_rank (fs : List MFunc) (r : Req) (hc : construct fs = .ok ()) (f : MFunc) (hf : f ∈ fs) (ms : MSpec)
    (hms : f.mapspec = some ms) (a : ASpec) (ha : a ∈ ms.inputs) (hroot : a.name ∈ rootArgs fs) (sh : List Nat)
    (hv : (alookup (normInputs r.inputs ++ pdefaults fs) a.name).bind shapeOf = some sh) (hrank : sh.length ≠ a.axes.length) :
    Refused (startMap fs r).2 :=
  C12_reject_rank fs r (C12_constructed_acyclic fs hc) f hf ms hms a ha hroot sh hv hrank

/-- `C12_reject_zipped` at user level: the pipeline was CONSTRUCTED. -/
theorem C12_built_reject_zipped (fs : List MFunc) (r : Req) (hc : construct fs = .ok ()) (f : MFunc) (hf : f ∈ fs) (ms : MSpec)
    (hms : f.mapspec = some ms) (a b : ASpec) (ha : a ∈ ms.inputs) (hb : b ∈ ms.inputs) (hra : a.name ∈ rootArgs fs)
    (hrb : b.name ∈ rootArgs fs) (sa sb : List Nat)
    (hva : (alookup (normInputs r.inputs ++ pdefaults fs) a.name).bind shapeOf = some sa)
    (hvb : (alookup (normInputs r.inputs ++ pdefaults fs) b.name).bind shapeOf = some sb)
    (ix : String) (hix : ix ∈ ms.outputIndices) (i j : Nat) (hi : idxOf a.axes ix = some i) (hj : idxOf b.axes ix = some j)
    (hne : sa.getD i 0 ≠ sb.getD j 0) : Refused (startMap fs r).2 :=
  C12_reject_zipped fs r (C12_constructed_acyclic fs hc) f hf ms hms a b ha hb hra hrb sa sb hva hvb ix hix i j hi hj hne

/-- **The clause as the property words it**: for ANY function list and request with a rank mismatch on a root array, there is an
    exception at construction or at the start of `map`. -/
theorem C12_rank_rejected_somewhere (fs : List MFunc) (r : Req) (f : MFunc) (hf : f ∈ fs) (ms : MSpec)
    (hms : f.mapspec = some ms) (a : ASpec) (ha : a ∈ ms.inputs) (hroot : a.name ∈ rootArgs fs) (sh : List Nat)
    (hv : (alookup (normInputs r.inputs ++ pdefaults fs) a.name).bind shapeOf = some sh) (hrank : sh.length ≠ a.axes.length) :
    Refused (construct fs) ∨ Refused (startMap fs r).2 := by
  cases hc : construct fs with
  | error e => exact Or.inl ⟨e, rfl⟩
  | ok u => cases u; exact Or.inr (C12_built_reject_rank fs r hc f hf ms hms a ha hroot sh hv hrank)

theorem C12_zipped_rejected_somewhere (fs : List MFunc) (r : Req) (f : MFunc) (hf : f ∈ fs) (ms : MSpec)
    (hms : f.mapspec = some ms) (a b : ASpec) (ha : a ∈ ms.inputs) (hb : b ∈ ms.inputs) (hra : a.name ∈ rootArgs fs)
    (hrb : b.name ∈ rootArgs fs) (sa sb : List Nat)
    (hva : (alookup (normInputs r.inputs ++ pdefaults fs) a.name).bind shapeOf = some sa)
    (hvb : (alookup (normInputs r.inputs ++ pdefaults fs) b.name).bind shapeOf = some sb)
    (ix : String) (hix : ix ∈ ms.outputIndices) (i j : Nat) (hi : idxOf a.axes ix = some i) (hj : idxOf b.axes ix = some j)
    (hne : sa.getD i 0 ≠ sb.getD j 0) : Refused (construct fs) ∨ Refused (startMap fs r).2 := by
  cases hc : construct fs with
  | error e => exact Or.inl ⟨e, rfl⟩
  | ok u =>
    cases u
    exact Or.inr (C12_built_reject_zipped fs r hc f hf ms hms a b ha hb hra hrb sa sb hva hvb ix hix i j hi hj hne)

/-- On ANY function list as it is now (constructed, or edited in place — possibly into a cycle) and with any executor form, a
    rank mismatch on a root array is refused at the start of `map`: by the lazy cycle test if the pipeline is cyclic, by the
    shape test otherwise.  No hypothesis on the pipeline. -/
theorem C12_any_reject_rank (fs : List MFunc) (r : Req) (ex : ExecArg) (f : MFunc) (hf : f ∈ fs) (ms : MSpec)
    (hms : f.mapspec = some ms) (a : ASpec) (ha : a ∈ ms.inputs) (hroot : a.name ∈ rootArgs fs) (sh : List Nat)
    (hv : (alookup (normInputs r.inputs ++ pdefaults fs) a.name).bind shapeOf = some sh) (hrank : sh.length ≠ a.axes.length) :
    Refused (startMap2 fs r ex).2 := by
  rw [C12_startMap2_iff]
  cases hac : Validate.acyclic fs with
  | false => exact Or.inr (Or.inl (Or.inr (Or.inr hac)))
  | true => exact Or.inr (Or.inr ((C12_startMap_iff fs r).mp (C12_reject_rank fs r hac f hf ms hms a ha hroot sh hv hrank)))

theorem C12_any_reject_zipped (fs : List MFunc) (r : Req) (ex : ExecArg) (f : MFunc) (hf : f ∈ fs) (ms : MSpec)
    (hms : f.mapspec = some ms) (a b : ASpec) (ha : a ∈ ms.inputs) (hb : b ∈ ms.inputs) (hra : a.name ∈ rootArgs fs)
    (hrb : b.name ∈ rootArgs fs) (sa sb : List Nat)
    (hva : (alookup (normInputs r.inputs ++ pdefaults fs) a.name).bind shapeOf = some sa)
    (hvb : (alookup (normInputs r.inputs ++ pdefaults fs) b.name).bind shapeOf = some sb)
    (ix : String) (hix : ix ∈ ms.outputIndices) (i j : Nat) (hi : idxOf a.axes ix = some i) (hj : idxOf b.axes ix = some j)
    (hne : sa.getD i 0 ≠ sb.getD j 0) : Refused (startMap2 fs r ex).2 := by
  rw [C12_startMap2_iff]
  cases hac : Validate.acyclic fs with
  | false => exact Or.inr (Or.inl (Or.inr (Or.inr hac)))
  | true =>
    exact Or.inr (Or.inr ((C12_startMap_iff fs r).mp
      (C12_reject_zipped fs r hac f hf ms hms a b ha hb hra hrb sa sb hva hvb ix hix i j hi hj hne)))

/-! ### 2. the model's `producer` (first match) is the code's `output_to_func` (last writer) wherever nothing is refused -/

/-- Unique output names ⇒ first and last producer of every name coincide. -/
theorem C12_producer_is_last (fs : List MFunc) (hu : uniqueOutputs fs = true) (o : String) :
    lastProducer fs o = producer fs o := lastProducer_eq_producer fs hu o

/-- Whenever `run` / `__call__` is NOT refused, `producer` — which `funcDeps` / `mapspecInDeps` are computed from — is the
    `output_to_func` entry the code uses, for every name. -/
theorem C12_call_producer_is_last (fs : List MFunc) (q : CallReq) (calls : List String)
    (h : ¬ Refused (startCall fs q calls).2) (o : String) : lastProducer fs o = producer fs o := by
  apply lastProducer_eq_producer
  cases hu : uniqueOutputs fs with
  | true => rfl
  | false => exact absurd ((C12_call_iff fs q calls).mpr (Or.inl (Or.inl hu))) h

/-- The same at the start of `map` (with the lazy re-validation). -/
theorem C12_map_producer_is_last (fs : List MFunc) (r : Req) (ex : ExecArg)
    (h : ¬ Refused (startMap2 fs r ex).2) (o : String) : lastProducer fs o = producer fs o := by
  apply lastProducer_eq_producer
  cases hu : uniqueOutputs fs with
  | true => rfl
  | false => exact absurd ((C12_startMap2_iff fs r ex).mpr (Or.inr (Or.inl (Or.inl hu)))) h

/-- … and on every constructed pipeline. -/
theorem C12_built_producer_is_last (fs : List MFunc) (hc : construct fs = .ok ()) (o : String) :
    lastProducer fs o = producer fs o := by
  apply lastProducer_eq_producer
  cases hu : uniqueOutputs fs with
  | true => rfl
  | false => exact absurd (Or.inl hu) (C12_constructed_no_lazy_fault fs hc)

/-! ### non-vacuity and witnesses -/

private def fn (n : String) (ps : List String) (o : String) (ms : Option MSpec) : MFunc :=
  { name := n, params := ps.map fun p => (p, p), outputs := [o], mapspec := ms, ret := none, internal := none, defaults := [], bound := [] }
private def sp (n : String) (ax : List (Option String)) : ASpec := ⟨n, ax⟩
private def zipMS : MSpec := MSpec.mk [sp "x" [some "i"], sp "w" [some "i"]] [sp "y" [some "i"]]
private def zipped : MFunc := fn "g" ["x", "w"] "y" (some zipMS)
private def rq (inputs : List (String × Val)) : Req :=
  { inputs := inputs, internal := [], storage := "dict", folder := true, cleanup := false, executor := false, parallel := false,
    order := [], prev := none }
private def ints (n : Nat) : List Val := (List.range n).map fun i => .int (Int.ofNat i)
/-- `x[i], w[i] -> y[i]` followed by a plain consumer `h(y) -> z` -/
private def two : List MFunc := [zipped, fn "h" ["y"] "z" none]
/-- `two` edited into a cycle: `g` also takes `z` -/
private def cycG : MFunc := fn "g" ["x", "w", "z"] "y" (some zipMS)
private def cyc : List MFunc := [cycG, fn "h" ["y"] "z" none]
/-- the same shape without a MapSpec (the call path refuses mapped functions upstream) -/
private def plain : List MFunc := [fn "g" ["x", "w"] "y" none, fn "h" ["y"] "z" none]
/-- a duplicate output `c` (what `update_renames` on a member can leave behind) -/
private def dup : List MFunc := [fn "f" ["a"] "c" none, fn "h" ["d"] "c" none]

example : construct two = .ok () := by decide
example : Validate.acyclic two = true := C12_constructed_acyclic two (by decide)
/-- rank 2 for `x[i]` on the constructed pipeline -/
example : Refused (startMap two (rq [("x", .arr [2, 1] (ints 2)), ("w", .tup (ints 2))])).2 :=
  C12_built_reject_rank two _ (by decide) zipped List.mem_cons_self zipMS rfl (sp "x" [some "i"]) (by decide) (by decide) [2, 1]
    (by decide) (by decide)
example : Refused (construct two) ∨ Refused (startMap two (rq [("x", .arr [2, 1] (ints 2)), ("w", .tup (ints 2))])).2 :=
  C12_rank_rejected_somewhere two _ zipped List.mem_cons_self zipMS rfl (sp "x" [some "i"]) (by decide) (by decide) [2, 1]
    (by decide) (by decide)
/-- zipped `x` (2) and `w` (3) on the constructed pipeline -/
example : Refused (startMap two (rq [("x", .tup (ints 2)), ("w", .arr [3] (ints 3))])).2 :=
  C12_built_reject_zipped two _ (by decide) zipped List.mem_cons_self zipMS rfl (sp "x" [some "i"]) (sp "w" [some "i"]) (by decide)
    (by decide) (by decide) (by decide) [2] [3] (by decide) (by decide) "i" (by decide) 0 0 (by decide) (by decide) (by decide)
example : Refused (construct two) ∨ Refused (startMap two (rq [("x", .tup (ints 2)), ("w", .arr [3] (ints 3))])).2 :=
  C12_zipped_rejected_somewhere two _ zipped List.mem_cons_self zipMS rfl (sp "x" [some "i"]) (sp "w" [some "i"]) (by decide)
    (by decide) (by decide) (by decide) [2] [3] (by decide) (by decide) "i" (by decide) 0 0 (by decide) (by decide) (by decide)
/-- the hypotheses of `C12_any_reject_rank` on a CYCLIC list (where `C12_reject_rank` does not apply): refused by the cycle test -/
example : Validate.acyclic cyc = false := by decide
example : Refused (startMap2 cyc (rq [("x", .arr [2, 1] (ints 2)), ("w", .tup (ints 2))]) .absent).2 :=
  C12_any_reject_rank cyc _ .absent cycG List.mem_cons_self zipMS rfl (sp "x" [some "i"]) (by decide) (by decide) [2, 1]
    (by decide) (by decide)
example : (startMap2 cyc (rq [("x", .arr [2, 1] (ints 2)), ("w", .tup (ints 2))]) .absent) = ([], .error ⟨.unfeasible, "cycle"⟩) := by decide
/-- … and on the acyclic one: refused by the shape test -/
example : (startMap2 two (rq [("x", .arr [2, 1] (ints 2)), ("w", .tup (ints 2))]) .absent) = ([], .error ⟨.value, "map-shapes"⟩) := by
  decide
example : Refused (startMap2 two (rq [("x", .tup (ints 2)), ("w", .arr [3] (ints 3))]) .bare).2 :=
  C12_any_reject_zipped two _ .bare zipped List.mem_cons_self zipMS rfl (sp "x" [some "i"]) (sp "w" [some "i"]) (by decide)
    (by decide) (by decide) (by decide) [2] [3] (by decide) (by decide) "i" (by decide) 0 0 (by decide) (by decide) (by decide)

/-- first = last producer on the constructed pipeline (a name with a producer, so neither side is `none`) -/
example : (lastProducer two "z").map (·.name) = some "h" ∧ (producer two "z").map (·.name) = some "h" := by decide
example : lastProducer two "z" = producer two "z" := C12_built_producer_is_last two (by decide) "z"
example : lastProducer two "z" = producer two "z" := C12_producer_is_last two (by decide) "z"
/-- an accepted call / an accepted start of `map`: the hypotheses of the two corollaries hold -/
example : ¬ Refused (startCall plain ⟨"z", ["x", "w"]⟩ ["g", "h"]).2 := by
  have : startCall plain ⟨"z", ["x", "w"]⟩ ["g", "h"] = ([.call "g", .call "h"], .ok ()) := by decide
  rw [this]; rintro ⟨e, he⟩; cases he
example : (lastProducer plain "y").map (·.name) = some "g" := by decide
example : (startMap2 two (rq [("x", .tup (ints 2)), ("w", .arr [2] (ints 2))]) .absent).2 = .ok () := by decide
/-- **The hypothesis is needed**: with a duplicate output the first producer is `f`, `output_to_func` holds `h` — and both the
    call path and the start of `map` refuse such a pipeline before anything is looked up. -/
theorem C12_producer_differs_dup :
    (producer dup "c").map (·.name) = some "f" ∧ (lastProducer dup "c").map (·.name) = some "h" ∧
    startCall dup ⟨"c", ["a", "d"]⟩ ["f"] = ([], .error ⟨.value, "duplicate-output"⟩) ∧
    (startMap2 dup (rq []) .absent).2 = .error ⟨.value, "duplicate-output"⟩ := by decide

end PF.C12
