import PfModel.Lemmas.MapSpecAxesLoop
/-!
C08, round 9 — `validate_consistent_axes` read as the loop it is (`consistentAxesLoop`: per array name, every rank compared with
the first spec's, then the `axes: dict[int, str]` filled spec by spec, `_mapspec.py:394-412`) accepts exactly the lists the pairwise
reading `consistentAxes` accepts, on which `C08_consistent_iff`, `C08_mapspec_axes_denotes`, … (Props/C08Axes.lean) are stated.
Until round 9 the equality was only re-evaluated by the driver on every case.  Property theorems only.
-/
namespace PF.C08
open PF.MS

/-- the loop and the pairwise reading of `validate_consistent_axes` agree on every list of MapSpecs -/
theorem C08_consistent_loop_eq (ms : List MapSpec) : consistentAxesLoop ms = consistentAxes ms :=
  consistentAxesLoop_eq ms

/-- what the loop accepts, directly: any two specs of one array have the same rank and never name one position differently -/
theorem C08_consistent_loop_iff (ms : List MapSpec) :
    consistentAxesLoop ms = true ↔
      ∀ a ∈ allSpecs ms, ∀ b ∈ allSpecs ms, a.name = b.name → a.axes.length = b.axes.length ∧ AgreeAt a.axes b.axes :=
  consistentAxesLoop_iff ms

/-- the dict loop on its own: a sequence of writes `axes[i] = name` goes through iff no position gets two names -/
theorem C08_fill_axes_iff (writes : List (Nat × String)) :
    (fillAxes [] writes).isSome = true ↔ ∀ i a b, (i, a) ∈ writes → (i, b) ∈ writes → a = b := by
  have := fillAxes_isSome_iff writes [] (by intro i x y hx; cases hx)
  rw [List.nil_append] at this
  exact this

example : consistentAxesLoop [⟨[⟨"x", [some "i", none]⟩], [⟨"y", [some "i"]⟩]⟩, ⟨[⟨"x", [none, some "j"]⟩], [⟨"z", [some "j"]⟩]⟩] = true := by decide
example : consistentAxesLoop [⟨[⟨"x", [some "i"]⟩], [⟨"y", [some "i"]⟩]⟩, ⟨[⟨"x", [some "j"]⟩], [⟨"z", [some "j"]⟩]⟩] = false := by decide
example : (fillAxes [] [(0, "i"), (1, "j"), (0, "i")]).isSome = true := by decide
example : (fillAxes [] [(0, "i"), (0, "j")]).isSome = false := by decide

end PF.C08
