/-
JSON codec for `PF.Val` (DESIGN.md Appendix C): integers as numbers; `{"s": "…"}` strings; `null` for `None`; `"M"` masked;
`{"f": name, "k": [[param, v], …]}` an uninterpreted call; `{"pick": [v, out]}`; `{"proj": [v, [i, …]]}`;
`{"arr": [[d₀, …], [v, …]]}` row-major; `{"t": [v, …]}` tuple/list.
-/
import PfModel.DriverLib
import PfModel.Core.Val
namespace PF.Drv
open Lean PF

partial def getVal (j : Json) : R Val :=
  match j with
  | .null => .ok .none
  | .str "M" => .ok .masked
  | .num _ => do return .int (← asInt j)
  | .obj _ =>
    match fld? j "s", fld? j "f", fld? j "pick", fld? j "proj", fld? j "arr", fld? j "t" with
    | some s, _, _, _, _, _ => do return .str (← asStr s)
    | _, some f, _, _, _, _ => do
      let k ← listF (asPair asStr getVal) j "k"
      return .app (← asStr f) k
    | _, _, some p, _, _, _ => do
      let (v, o) ← asPair getVal asStr p
      return .pick v o
    | _, _, _, some p, _, _ => do
      let (v, i) ← asPair getVal (asList asNat) p
      return .proj v i
    | _, _, _, _, some a, _ => do
      let (sh, el) ← asPair (asList asNat) (asList getVal) a
      return .arr sh el
    | _, _, _, _, _, some t => do return .tup (← asList getVal t)
    | _, _, _, _, _, _ => .error "value object expected"
  | _ => .error s!"value expected, got {j.compress}"

partial def putVal : Val → Json
  | .int n => jInt n
  | .str s => jObj [("s", jStr s)]
  | .none => Json.null
  | .masked => jStr "M"
  | .app f k => jObj [("f", jStr f), ("k", jArr (k.map fun (p, v) => jArr [jStr p, putVal v]))]
  | .pick v o => jObj [("pick", jArr [putVal v, jStr o])]
  | .proj v i => jObj [("proj", jArr [putVal v, jList jNat i])]
  | .arr sh el => jObj [("arr", jArr [jList jNat sh, jArr (el.map putVal)])]
  | .tup vs => jObj [("t", jArr (vs.map putVal))]

def getKw (j : Json) : R (List (String × Val)) := asList (asPair asStr getVal) j
def putKw (l : List (String × Val)) : Json := jArr (l.map fun (k, v) => jArr [jStr k, putVal v])

end PF.Drv
