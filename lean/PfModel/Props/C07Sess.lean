import PfModel.Lemmas.StorageSess
/-!
C07, round 9 — `persist()` and re-opening as two operations over an explicit disk state (`Model/StorageSess.lean`).
Property theorems only.  Until this round "persist-then-reopen" was ONE model operation that was the identity by
definition (`Op.persistReopen`); the clause was carried by the correspondence alone.
-/
namespace PF.C07
open PF PF.St
variable {V : Type}

/-- `DictArray` / `SharedMemoryDictArray` over a run folder: on EVERY history of operations, `persist()`s and
    re-openings (in any order, re-opening without a `persist` included) the session observes what a masked array with a
    snapshot observes (`avStep`: `persist` snapshots, re-opening returns to the snapshot), and the live mapping / the
    pickle represent the current array / the snapshot afterwards. -/
theorem C07_sess_dict_refines (g : Geom) (hg : g.WF) (os : List (SOp V)) :
    (runS (dsStep g) (dFresh : DSess V) os).2 = (runS (avStep g) aFresh os).2 ∧
    RepDS g (runS (dsStep g) (dFresh : DSess V) os).1 (runS (avStep g) aFresh os).1 :=
  runS_refines (dsStep g) (avStep g) (RepDS g) (fun s a o h => dsStep_refines g hg s a h o) os dFresh aFresh
    ⟨repD_empty g, repD_empty g⟩

/-- `FileArray` over a run folder: on EVERY such history the session observes what the durable reference array observes
    (`adStep`: `persist` and re-opening change nothing) -/
theorem C07_sess_file_refines (g : Geom) (hg : g.WF) (os : List (SOp V)) :
    (runS (fsStep g) ([] : Files V) os).2 = (runS (adStep g) aEmpty os).2 ∧
    RepF g (runS (fsStep g) ([] : Files V) os).1 (runS (adStep g) aEmpty os).1 :=
  runS_refines (fsStep g) (adStep g) (RepF g) (fun s a o h => fsStep_refines g hg s a h o) os [] aEmpty (repF_empty g)

/-- the property's clause: on every history in which each re-opening happens with nothing unpersisted
    ("persist-then-reopen": `safeFrom`, no element written since the last `persist`), every back end observes what the
    reference masked array observes, and the back ends agree with one another -/
theorem C07_sess_backends_agree (g : Geom) (hg : g.WF) (os : List (SOp V)) (hs : safeFrom g false os = true) :
    (runS (dsStep g) (dFresh : DSess V) os).2 = (runS (adStep g) aEmpty os).2 ∧
    (runS (fsStep g) ([] : Files V) os).2 = (runS (adStep g) aEmpty os).2 ∧
    (runS (dsStep g) (dFresh : DSess V) os).2 = (runS (fsStep g) ([] : Files V) os).2 := by
  have hD := (C07_sess_dict_refines g hg os).1
  have hF := (C07_sess_file_refines g hg os).1
  have hV := (safe_volatile_eq_durable g os false (aFresh : ASess V) (fun _ => rfl) hs).1
  have hD' : (runS (dsStep g) (dFresh : DSess V) os).2 = (runS (adStep g) aEmpty os).2 := by rw [hD, hV]; rfl
  exact ⟨hD', hF, by rw [hD', hF]⟩

/-- `persist()` immediately followed by re-opening is the identity on the content, in both back ends and from every
    state: this is what `Op.persistReopen` (one identity step in `dStep` / `fStep` / `aStep`) abbreviates -/
theorem C07_persist_then_reopen_identity (g : Geom) (s : DSess V) (f : Files V) :
    runS (dsStep g) s [.persist, .reopen] = (⟨s.mem, some s.mem⟩, [.unit, .unit]) ∧
    dsStep g s (.op .persistReopen) = (⟨s.mem, some s.mem⟩, .unit) ∧
    dStep g s.mem .persistReopen = (s.mem, .unit) ∧
    runS (fsStep g) f [.persist, .reopen] = (f, [.unit, .unit]) ∧
    fsStep g f (.op .persistReopen) = (f, .unit) := ⟨rfl, rfl, rfl, rfl, rfl⟩

/-- re-opening a dict store returns to the last `persist`: whatever happens between a `persist` and the next
    re-opening (no further `persist` in between) is rolled back, from every state; a file store keeps it -/
theorem C07_sess_reopen_rolls_back (g : Geom) (s : DSess V) (f : Files V) (mid : List (SOp V))
    (hm : ∀ o ∈ mid, o.noPersist = true) :
    (runS (dsStep g) s (.persist :: mid ++ [.reopen])).1 = ⟨s.mem, some s.mem⟩ ∧
    (runS (fsStep g) f (.persist :: mid ++ [.reopen])).1 = (runS (fsStep g) f mid).1 := by
  constructor
  · simp only [runS, runS_append, dsStep, dReopen]
    rw [runS_disk g mid _ hm]
    rfl
  · simp only [runS, runS_append, fsStep]

/-- witness that the hypothesis of `C07_sess_backends_agree` is needed: an element dumped and not persisted is gone
    after re-opening a `DictArray` and still there in a `FileArray` (replayed on the real classes by the harness) -/
theorem C07_sess_unpersisted_witness :
    let g : Geom := ⟨[2], [], [true]⟩
    let h : List (SOp Nat) := [.op (.dump [.int 0] [7]), .reopen, .op (.has 0), .op .maskLinear]
    (runS (dsStep g) dFresh h).2 = [.unit, .unit, .bool false, .blist [true, true]] ∧
    (runS (fsStep g) [] h).2 = [.unit, .unit, .bool true, .blist [false, true]] ∧
    safeFrom g false h = false := by decide

/-- a bare key (`arr[1]`, `arr.dump(slice(None), v)`) is the 1-tuple of it (`normalize_key`): it is rejected with
    `IndexError` unless the array has exactly one axis of the kind the operation addresses -/
theorem C07_bare_key (g : Geom) (forDump : Bool) (k : KE) :
    (RawKey.bare k).wrap = [k] ∧
    (expectedRank g forDump ≠ 1 → normalizeKey g forDump (RawKey.bare k).wrap = .error .index) := by
  refine ⟨rfl, ?_⟩
  intro h
  simp only [RawKey.wrap, normalizeKey, List.length_singleton]
  exact if_pos (Ne.symm h)

/-! ### non-vacuity -/

example : gS.WF := by decide
example : safeFrom gS false hSafe = true := by decide
example : (runS (dsStep gS) dFresh hSafe).2
    = [.unit, .unit, .err .index, .unit, .unit, .scalar (.atom 4), .unit, .unit, .unit, .unit, .blist [false, false]] := by decide
example : (runS (fsStep gS) [] hSafe).2 = (runS (dsStep gS) dFresh hSafe).2 := by decide
example : ∀ o ∈ ([.op (.dump [.int 0] [1, 2]), .reopen, .op .mask] : List (SOp Nat)), o.noPersist = true := by decide
example : expectedRank gS false ≠ 1 ∧ expectedRank gS true = 1 := by decide

end PF.C07
