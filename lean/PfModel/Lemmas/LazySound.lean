import PfModel.Lemmas.LazyRun
import PfModel.Lemmas.PipeCache
/-! Helper lemmas for `Props/C18.lean`, part 3: `largs`/`lrun` preserve the invariant and return objects that stand for `compose`. -/
namespace PF.Lazy
open PF PF.Pipe

variable {fs : List Func} {kw : List (String × Val)}

/-- what the recursive lazy evaluator must guarantee -/
def LRecSound (fs : List Func) (kw : List (String × Val)) (r : String → LSt → Except Err (LArg × LSt)) : Prop :=
  ∀ o s a s', Inv fs kw s → r o s = .ok (a, s') →
    Step s s' ∧ Inv fs kw s' ∧ (alookup kw o = none → ∃ v k, den s'.nodes a = some v ∧ compose fs kw k o = .ok v)

theorem resolve_upstream_kw {f : Func} {p : String} (h : resolve fs kw f p = .upstream) : alookup kw p = none := by
  unfold resolve at h
  split at h
  · cases h
  · split at h
    · cases h
    · next hk => exact hk

theorem largs_sound (r : String → LSt → Except Err (LArg × LSt)) (hr : LRecSound fs kw r) (f : Func) :
    ∀ ps s args s', Inv fs kw s → largs r fs kw f ps s = .ok (args, s') →
      Step s s' ∧ Inv fs kw s' ∧
      ∃ k vals, composeArgsWith (compose fs kw k) fs kw f ps = .ok vals ∧ denArgs (denAll s'.nodes) args = some vals := by
  intro ps
  induction ps with
  | nil =>
    intro s args s' hi h
    simp [largs] at h; obtain ⟨rfl, rfl⟩ := h
    exact ⟨Step.refl _, hi, 0, [], by simp [composeArgsWith], by simp [denArgs]⟩
  | cons p ps ih =>
    obtain ⟨p, orig⟩ := p
    intro s args s' hi h
    simp only [largs] at h
    split at h
    · simp at h
    · next v hv =>
      split at h
      · simp at h
      · next rest s2 hrest =>
        simp at h; obtain ⟨rfl, rfl⟩ := h
        have hi' : Inv fs kw { s with used := s.used ++ [p] } := ⟨hi.closed, hi.memo, hi.cache, hi.graph⟩
        obtain ⟨hs, hi2, k, vals, hk, hd⟩ := ih _ rest s2 hi' hrest
        exact ⟨hs, hi2, k, (orig, v) :: vals, by simp [composeArgsWith, hv, hk], by simp [denArgs, denArg, hd]⟩
    · next hup =>
      split at h
      · simp at h
      · next a s1 hrun =>
        split at h
        · simp at h
        · next rest s2 hrest =>
          simp at h; obtain ⟨rfl, rfl⟩ := h
          obtain ⟨hs1, hi1, hv⟩ := hr p s a s1 hi hrun
          have hkwp : alookup kw p = none := resolve_upstream_kw hup
          obtain ⟨v, k1, hd1, hk1⟩ := hv hkwp
          have hi1' : Inv fs kw { s1 with used := s1.used ++ [p] } := ⟨hi1.closed, hi1.memo, hi1.cache, hi1.graph⟩
          obtain ⟨hs2, hi2, k2, vals, hk2, hd2⟩ := ih _ rest s2 hi1' hrest
          have hs2' : Step s1 s2 := hs2
          refine ⟨hs1.trans hs2', hi2, max k1 k2, (orig, v) :: vals, ?_, ?_⟩
          · have a1 := compose_mono fs kw (Nat.le_max_left k1 k2) hk1
            have a2 := composeArgsWith_mono fs kw (compose fs kw k2) (compose fs kw (max k1 k2))
              (fun o v h => compose_mono fs kw (Nat.le_max_right k1 k2) h) f ps vals hk2
            simp [composeArgsWith, hup, a1, a2]
          · obtain ⟨⟨ext, hext⟩, _, _⟩ := hs2'
            have : den s2.nodes a = some v := by rw [hext]; exact den_ext ext hd1
            have this' : denArg (denAll s2.nodes) a = some v := this
            simp [denArgs, this', hd2]

/-- after `_update_all_results`, the memo is sound again and the requested name stands for the specification's value -/
theorem tail_sound (hu : Unique fs) {f : Func} {o : String} {k : Nat} {vals : List (String × Val)} {r : LArg} {s : LSt} {a : LArg}
    (hf : producer fs o = some f) (hk : composeArgsWith (compose fs kw k) fs kw f f.params = .ok vals)
    (hi : Inv fs kw s) (hr : den s.nodes r = some (result f vals)) (hl : alookup (updateAll f r s).memo o = some a) :
    Step s (updateAll f r s) ∧ Inv fs kw (updateAll f r s) ∧
    (alookup kw o = none → ∃ v k', den (updateAll f r s).nodes a = some v ∧ compose fs kw k' o = .ok v) := by
  obtain ⟨hs, _, hcl, hcs, hg, _, newm, hmemo, hnew⟩ := updateAll_spec (fs := fs) (kw := kw) f r vals s hi hr
  have hall : ∀ q w', alookup (outVals f vals) q = some w' → compose fs kw (k+1) q = .ok w' := by
    intro q w' hq
    have hqmem : q ∈ f.outputs := outVals_mem f vals q w' hq
    have hp : producer fs q = some f := hu f o hf q hqmem
    rw [compose_succ]; simp [hp, hk, hq]
  have hms : MemoSound fs kw (updateAll f r s) := by
    intro p a' hkp hp
    rw [hmemo, alookup_append] at hp
    split at hp
    · next a'' h =>
      injection hp with e; subst e
      obtain ⟨w, hw, hd⟩ := hnew p a'' h
      exact ⟨w, k+1, hd, hall p w hw⟩
    · obtain ⟨v, k', hd, hc⟩ := hi.memo p a' hkp hp
      obtain ⟨⟨ext, hext⟩, _, _⟩ := hs
      exact ⟨v, k', by rw [hext]; exact den_ext ext hd, hc⟩
  exact ⟨hs, ⟨hcl, hms, hcs, hg⟩, fun hko => hms o a hko hl⟩

/-! ### structural equality of values and keys -/

mutual
theorem vbeq_eq : ∀ (a b : Val), vbeq a b = true → a = b
  | .int a, .int b, h => by simp only [vbeq, beq_iff_eq] at h; rw [h]
  | .str a, .str b, h => by simp only [vbeq, beq_iff_eq] at h; rw [h]
  | .none, .none, _ => rfl
  | .masked, .masked, _ => rfl
  | .app f a, .app g b, h => by
      simp only [vbeq, Bool.and_eq_true, beq_iff_eq] at h
      rw [h.1, kbeq_eq a b h.2]
  | .pick v o, .pick w p, h => by
      simp only [vbeq, Bool.and_eq_true, beq_iff_eq] at h
      rw [vbeq_eq v w h.1, h.2]
  | .proj v i, .proj w j, h => by
      simp only [vbeq, Bool.and_eq_true, beq_iff_eq] at h
      rw [vbeq_eq v w h.1, h.2]
  | .arr s a, .arr t b, h => by
      simp only [vbeq, Bool.and_eq_true, beq_iff_eq] at h
      rw [h.1, lbeq_eq a b h.2]
  | .tup a, .tup b, h => by
      simp only [vbeq] at h
      rw [lbeq_eq a b h]
  | .int _, .str _, h | .int _, .none, h | .int _, .masked, h | .int _, .app _ _, h | .int _, .pick _ _, h | .int _, .proj _ _, h | .int _, .arr _ _, h | .int _, .tup _, h => by simp [vbeq] at h
  | .str _, .int _, h | .str _, .none, h | .str _, .masked, h | .str _, .app _ _, h | .str _, .pick _ _, h | .str _, .proj _ _, h | .str _, .arr _ _, h | .str _, .tup _, h => by simp [vbeq] at h
  | .none, .int _, h | .none, .str _, h | .none, .masked, h | .none, .app _ _, h | .none, .pick _ _, h | .none, .proj _ _, h | .none, .arr _ _, h | .none, .tup _, h => by simp [vbeq] at h
  | .masked, .int _, h | .masked, .str _, h | .masked, .none, h | .masked, .app _ _, h | .masked, .pick _ _, h | .masked, .proj _ _, h | .masked, .arr _ _, h | .masked, .tup _, h => by simp [vbeq] at h
  | .app _ _, .int _, h | .app _ _, .str _, h | .app _ _, .none, h | .app _ _, .masked, h | .app _ _, .pick _ _, h | .app _ _, .proj _ _, h | .app _ _, .arr _ _, h | .app _ _, .tup _, h => by simp [vbeq] at h
  | .pick _ _, .int _, h | .pick _ _, .str _, h | .pick _ _, .none, h | .pick _ _, .masked, h | .pick _ _, .app _ _, h | .pick _ _, .proj _ _, h | .pick _ _, .arr _ _, h | .pick _ _, .tup _, h => by simp [vbeq] at h
  | .proj _ _, .int _, h | .proj _ _, .str _, h | .proj _ _, .none, h | .proj _ _, .masked, h | .proj _ _, .app _ _, h | .proj _ _, .pick _ _, h | .proj _ _, .arr _ _, h | .proj _ _, .tup _, h => by simp [vbeq] at h
  | .arr _ _, .int _, h | .arr _ _, .str _, h | .arr _ _, .none, h | .arr _ _, .masked, h | .arr _ _, .app _ _, h | .arr _ _, .pick _ _, h | .arr _ _, .proj _ _, h | .arr _ _, .tup _, h => by simp [vbeq] at h
  | .tup _, .int _, h | .tup _, .str _, h | .tup _, .none, h | .tup _, .masked, h | .tup _, .app _ _, h | .tup _, .pick _ _, h | .tup _, .proj _ _, h | .tup _, .arr _ _, h => by simp [vbeq] at h
theorem lbeq_eq : ∀ (a b : List Val), lbeq a b = true → a = b
  | [], [], _ => rfl
  | a :: as, b :: bs, h => by
      simp only [lbeq, Bool.and_eq_true] at h
      rw [vbeq_eq a b h.1, lbeq_eq as bs h.2]
  | [], _ :: _, h => by simp [lbeq] at h
  | _ :: _, [], h => by simp [lbeq] at h
theorem kbeq_eq : ∀ (a b : List (String × Val)), kbeq a b = true → a = b
  | [], [], _ => rfl
  | (k, a) :: as, (l, b) :: bs, h => by
      simp only [kbeq, Bool.and_eq_true, beq_iff_eq] at h
      rw [h.1.1, vbeq_eq a b h.1.2, kbeq_eq as bs h.2]
  | [], _ :: _, h => by simp [kbeq] at h
  | _ :: _, [], h => by simp [kbeq] at h
end

theorem keq_eq {k k' : Key} (h : keq k k' = true) : k = k' := by
  obtain ⟨a, b⟩ := k
  obtain ⟨a', b'⟩ := k'
  simp only [keq, Bool.and_eq_true, beq_iff_eq] at h
  rw [h.1, kbeq_eq b b' h.2]

/-! ### the caches -/

theorem cacheGet_mem : ∀ (c : List (Key × LArg)) (k' : Key) (a : LArg), cacheGet c k' = some a →
    ∃ key, (key, a) ∈ c ∧ keq key k' = true := by
  intro c
  induction c with
  | nil => intro k' a h; simp [cacheGet] at h
  | cons e c ih =>
    obtain ⟨k, b⟩ := e
    intro k' a h
    simp only [cacheGet] at h
    split at h
    · next hk => injection h with h; subst h; exact ⟨k, List.mem_cons_self, hk⟩
    · obtain ⟨key, hm, hq⟩ := ih k' a h
      exact ⟨key, List.mem_cons_of_mem _ hm, hq⟩

theorem activeKey_some {f : Func} {o : String} {s : LSt} {k : Key} (h : activeKey fs kw f o s = some k) :
    cacheKey fs kw f o = some k := by
  unfold activeKey at h
  split at h
  · exact h
  · cases h

theorem cacheKey_some {f : Func} {o : String} {K : Key} (h : cacheKey fs kw f o = some K) :
    PipeCache.computeKey (fun v => v) fs kw f o = some ⟨K.1, K.2⟩ := by
  unfold cacheKey at h
  split at h
  · cases h
  · next PK hPK => injection h with h; subst h; exact hPK

theorem cacheLookup_sound {s : LSt} {key : Option Key} {r : LArg} (h : cacheLookup s key = some r) :
    ∃ k k', key = some k' ∧ (k, r) ∈ entries s ∧ keq k k' = true := by
  unfold cacheLookup at h
  split at h
  · cases h
  · next k' =>
    split at h
    · cases h
    · next c hc =>
      obtain ⟨k, hm, hq⟩ := cacheGet_mem c k' r h
      refine ⟨k, k', rfl, ?_, hq⟩
      unfold curCache at hc
      unfold entries
      split at hc
      · next g hg => injection hc with hc; subst hc; rw [hg]; exact List.mem_append_left _ hm
      · next hg => rw [hc, hg]; exact List.mem_append_right _ hm

/-- **equal keys, equal results**: the entry written for one set of keyword arguments is right for every set of keyword
    arguments that computes the same key (C09's `key_agree`: the key fixes the effective value of every root argument
    the function depends on and excludes supplied intermediates) -/
theorem entryOK_put {rank : String → Nat} (wf : PipeCache.WF fs rank) {f : Func} {o : String} {k : Nat}
    {vals : List (String × Val)} {K : Key} {nodes : List Lazy.Node} {a : LArg}
    (hf : producer fs o = some f) (hK : cacheKey fs kw f o = some K)
    (hk : composeArgsWith (compose fs kw k) fs kw f f.params = .ok vals) (hd : den nodes a = some (result f vals)) :
    EntryOK fs nodes K a := by
  intro f' o' kw' K' hf' hK' hq
  have hKK := keq_eq hq
  subst hKK
  have c1 := cacheKey_some hK
  have c2 := cacheKey_some hK'
  obtain ⟨hfm, ho⟩ := PipeCache.producer_mem fs o f hf
  obtain ⟨hfm', ho'⟩ := PipeCache.producer_mem fs o' f' hf'
  have e1 := (PipeCache.computeKey_some _ fs kw f o _ c1).2.2
  have e2 := (PipeCache.computeKey_some _ fs kw' f' o' _ c2).2.2
  have hff : f = f' := wf.uniq f hfm f' hfm' o ho (by
    have : f.outputs = f'.outputs := by rw [← e1, ← e2]
    rw [← this]; exact ho)
  subst hff
  have c1' : PipeCache.computeKey (fun v => v) fs kw f o' = some ⟨K.1, K.2⟩ := by
    rw [PipeCache.computeKey_congr_out _ fs kw f o' o (by rw [hf, hf'])]; exact c1
  have hag := PipeCache.key_agree (fun v => v) (fun _ _ h => h) fs wf.cons f hfm kw kw' o' _ c1' c2
  have hargs : composeArgsWith (compose fs kw k) fs kw f f.params = composeArgsWith (compose fs kw' k) fs kw' f f.params := by
    apply PipeCache.composeArgs_agree
    intro pq hpq hb
    have hin : ∀ x, (x = pq.1 ∨ x ∈ PipeCache.reach fs k pq.1) → x ∈ PipeCache.reachAll fs o' := fun x hx =>
      PipeCache.reach_sub_all fs rank wf (k+1) o' x ((PipeCache.mem_reach_succ fs k o' x).mpr ⟨f, hf', pq, hpq, hb, hx⟩)
    refine ⟨hag _ (hin _ (Or.inl rfl)), ?_⟩
    apply PipeCache.compose_agree
    intro x hx
    exact hag _ (hin _ (Or.inr hx))
  exact ⟨k, vals, by rw [← hargs]; exact hk, hd⟩

theorem cachePut_inv {rank : String → Nat} (wf : PipeCache.WF fs rank) {f : Func} {o : String} {k : Nat}
    {vals : List (String × Val)} (key : Option Key) (a : LArg)
    (s : LSt) (hi : Inv fs kw s) (hf : producer fs o = some f) (hkey : ∀ k', key = some k' → cacheKey fs kw f o = some k')
    (hk : composeArgsWith (compose fs kw k) fs kw f f.params = .ok vals) (hd : den s.nodes a = some (result f vals)) :
    Inv fs kw (cachePut key a s) ∧ Step s (cachePut key a s) ∧ (cachePut key a s).nodes = s.nodes ∧
    (cachePut key a s).memo = s.memo := by
  unfold cachePut
  split
  · exact ⟨hi, Step.refl s, rfl, rfl⟩
  · next k' =>
    have hok : EntryOK fs s.nodes k' a := entryOK_put wf hf (hkey k' rfl) hk hd
    split
    · next g hg =>
      refine ⟨⟨hi.closed, hi.memo, ?_, ?_⟩, ⟨⟨[], by simp⟩, rfl, by simp [hg]⟩, rfl, rfl⟩
      · intro key' a' hmem
        simp only [entries, List.cons_append, List.mem_cons] at hmem
        rcases hmem with e | hmem
        · injection e with e1 e2; subst e1; subst e2; exact hok
        · exact hi.cache key' a' (by simp only [entries, hg]; exact hmem)
      · intro g' hg'
        simp only [Option.some.injEq] at hg'; subst hg'
        exact hi.graph g hg
    · next hg =>
      split
      · next c hc =>
        refine ⟨⟨hi.closed, hi.memo, ?_, ?_⟩, ⟨⟨[], by simp⟩, rfl, rfl⟩, rfl, rfl⟩
        · intro key' a' hmem
          simp only [entries, hg, List.nil_append, List.mem_cons] at hmem
          rcases hmem with e | hmem
          · injection e with e1 e2; subst e1; subst e2; exact hok
          · exact hi.cache key' a' (by simp only [entries, hg, hc, List.nil_append]; exact hmem)
        · intro g' hg'
          exact hi.graph g' hg'
      · exact ⟨hi, Step.refl s, rfl, rfl⟩

theorem lrun_succ (n : Nat) (o : String) (s : LSt) : lrun fs kw (n+1) o s =
    match alookup s.memo o with
    | some a => .ok (a, s)
    | none =>
      match producer fs o with
      | none => .error (.noFunc o)
      | some f =>
        match cacheLookup s (activeKey fs kw f o s) with
        | some r =>
          match alookup (updateAll f r { s with usedNone := true }).memo o with
          | some a => .ok (a, updateAll f r { s with usedNone := true })
          | none => .error (.noFunc o)
        | none =>
          match largs (lrun fs kw n) fs kw f f.params s with
          | .error e => .error e
          | .ok (args, s1) =>
            match alookup (updateAll f (.ref s1.nodes.length)
                (cachePut (activeKey fs kw f o s) (.ref s1.nodes.length) (mkNode (.call f args) s1).2)).memo o with
            | some a => .ok (a, updateAll f (.ref s1.nodes.length)
                (cachePut (activeKey fs kw f o s) (.ref s1.nodes.length) (mkNode (.call f args) s1).2))
            | none => .error (.noFunc o) := by
  rw [lrun]; rfl

/-- the node `_execute_func` creates stands for the function applied to what its arguments stand for -/
theorem call_node_sound {f : Func} {args : List (String × LArg)} {vals : List (String × Val)} (s1 : LSt) (hi : Inv fs kw s1)
    (hd : denArgs (denAll s1.nodes) args = some vals) :
    Inv fs kw (mkNode (.call f args) s1).2 ∧ den (mkNode (.call f args) s1).2.nodes (.ref s1.nodes.length) = some (result f vals) := by
  refine ⟨mkNode_inv _ s1 hi ?_, ?_⟩
  · intro j hj
    have := denArgs_refs_lt hd j hj
    rwa [denAll_length] at this
  · rw [mkNode_nodes, den_new]; simp [nodeVal, hd]

theorem lrun_sound {rank : String → Nat} (wf : PipeCache.WF fs rank) : ∀ (n : Nat), LRecSound fs kw (lrun fs kw n) := by
  have hu : Unique fs := PipeCache.unique_of_wf fs rank wf
  intro n
  induction n with
  | zero => intro o s a s' _ h; simp [lrun] at h
  | succ n ihn =>
    intro o s a s' hi h
    rw [lrun_succ] at h
    split at h
    · next a' hw =>
      simp at h; obtain ⟨rfl, rfl⟩ := h
      exact ⟨Step.refl _, hi, fun hk => hi.memo o a' hk hw⟩
    · split at h
      · simp at h
      · next f hf =>
        split at h
        · next r hr =>
          -- cache hit
          obtain ⟨key, k', hkey, hmem, hq⟩ := cacheLookup_sound hr
          obtain ⟨k, vals, hk, hd⟩ := hi.cache key r hmem f o kw k' hf (activeKey_some hkey) hq
          have hi' : Inv fs kw { s with usedNone := true } := ⟨hi.closed, hi.memo, hi.cache, hi.graph⟩
          split at h
          · next a' hl =>
            simp at h; obtain ⟨rfl, rfl⟩ := h
            exact tail_sound hu hf hk hi' hd hl
          · simp at h
        · split at h
          · simp at h
          · next args s1 hargs =>
            obtain ⟨hs1, hi1, k, vals, hk, hdargs⟩ := largs_sound _ ihn f f.params s args s1 hi hargs
            obtain ⟨hi2, hd2⟩ := call_node_sound (f := f) s1 hi1 hdargs
            obtain ⟨hi3, hs3, hn3, _⟩ := cachePut_inv wf (activeKey fs kw f o s) (.ref s1.nodes.length) _ hi2 hf
              (fun k' hk' => activeKey_some hk') hk hd2
            split at h
            · next a' hl =>
              simp at h; obtain ⟨rfl, rfl⟩ := h
              obtain ⟨hs4, hi4, hv4⟩ := tail_sound hu hf hk hi3 (by rw [hn3]; exact hd2) hl
              exact ⟨(hs1.trans ((mkNode_step _ s1).trans hs3)).trans hs4, hi4, hv4⟩
            · simp at h

end PF.Lazy
