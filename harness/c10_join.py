"""C10 round 9: `Pipeline.join` / `|` of pipelines that OVERLAP (seeded change C10-s4-B was missed: `propose` never offers a join between
pipelines that share an output name or a wrapped function, so the refusal of such a join was never exercised).

* `build_shared`: pipelines of one environment whose functions of the same NAME wrap the SAME Python callable (`g.func is f.func`), each
  with its own bound values, explicit defaults, input renames and output renames (`PipeFunc(fn, output_name, renames=...)`).
* `gen_join_case`: 2-3 pipelines around a shared step - identical / another bound value / bound in one only / another default / default in
  one only / inputs renamed / OUTPUT renamed (then the join is accepted and both configurations must keep computing their own values) - or
  without a shared step (disjoint, one feeding the other, feeding each other = a cycle, two defaults for an argument whose producer comes
  later / earlier in the operand order); then 1-3 joins: `p | q`, `q | p`, `p.join(q, r)`, a bare PipeFunc operand (`p | q['b']`, the shared
  step itself), `p | p`, `p | p.copy()` after an in-place `update_bound` / `update_defaults` on the copy.
* `apply_join`: performs the op on the real objects; the property is judged on the implementation alone (every output of every operand
  computes in the joined pipeline what it computes in its operand, under `pipeline(...)`, with the defaulted roots left out, and under `map`,
  unless another operand produces one of its root arguments; every operand is unchanged), and the model step `join_x`
  (`PF.Rw.Join.joinAll`, lean/PfModel/Model/RewriteJoin.lean) is compared: accept / refuse, refusal class and reason, summary, every value.
"""
from __future__ import annotations

import copy as _copy

import pfimport  # noqa: F401
from pfimport import exc_enum
from pipefunc import PipeFunc, Pipeline

import pipegen
import terms

VARIANTS = ("same", "bound-other", "bound-one", "default-other", "default-one", "in-rename", "out-rename", "out-rename+bound")
SHAPES = ("same-output-other-callable", "disjoint", "feeds", "cycle", "defaults-producer-later", "defaults-producer-earlier", "root-default-clash", "root-default-equal")


def at_least_tuple(x):
    return x if isinstance(x, tuple) else (x,)


def F(name, params, outputs, defaults=(), bound=(), outorig=None):
    d = {"name": name, "params": [list(p) if isinstance(p, (list, tuple)) else [p, p] for p in params], "outputs": list(outputs),
         "defaults": [list(x) for x in defaults], "bound": [list(x) for x in bound]}
    if outorig is not None:
        d["outorig"] = list(outorig)
    return d


def build_shared(desc, registry, log):
    """Real PipeFuncs + Pipeline; functions of one name share ONE callable through `registry` (name -> callable).  Defaults are explicit
    (`PipeFunc(defaults=...)`): a default in the signature would belong to the shared callable."""
    pfs = []
    for f in desc["funcs"]:
        origs = [orig for _, orig in f["params"]]
        oo = f.get("outorig") or f["outputs"]
        fn = registry.get(f["name"])
        if fn is None:
            fn = registry[f["name"]] = terms.make_func(f["name"], origs, list(oo), defaults={}, log=log)
        renames = {orig: p for p, orig in f["params"] if orig != p}
        renames.update({o: c for c, o in zip(f["outputs"], oo) if o != c})
        kw = {}
        if f.get("defaults"):
            kw["defaults"] = {p: terms.dec(v) for p, v in f["defaults"]}
        if f.get("bound"):
            kw["bound"] = {p: terms.dec(v) for p, v in f["bound"]}
        on = oo[0] if len(oo) == 1 else tuple(oo)
        pfs.append(PipeFunc(fn, on, renames=renames, **kw))
    return Pipeline(pfs)


# ---------------------------------------------------------------------------------------------- generation
def shared_step(rng, variant, which):
    """The shared step `s0(x, c[, e]) -> d | (da, db)` as configured in pipeline `which` (0 = first)."""
    tuple_out = variant.get("tuple")
    oo = ["da", "db"] if tuple_out else ["d"]
    params = [["x", "x"], ["c", "c"]] + ([["e", "e"]] if variant.get("extra") else [])
    f = F("s0", params, oo, outorig=oo)
    v = variant["kind"]
    second = which > 0
    if v == "bound-other":
        f["bound"] = [["c", pipegen.sval(f"bound:c:{which}")]]
    elif v == "bound-one":
        if second == variant["flip"]:
            f["bound"] = [["c", pipegen.sval("bound:c")]]
    elif v == "default-other":
        f["defaults"] = [["c", pipegen.sval(f"dflt:c:{which}")]]
    elif v == "default-one":
        if second == variant["flip"]:
            f["defaults"] = [["c", pipegen.sval("dflt:c")]]
    elif v == "in-rename":
        if second:
            f["params"][0][0] = f"x{which}"
    elif v in ("out-rename", "out-rename+bound"):
        if second:
            f["outputs"] = [f"{o}{which}" for o in oo]
        if v == "out-rename+bound":
            f["bound"] = [["c", pipegen.sval(f"bound:c:{which}")]]
    if variant.get("base_bound") and not f["bound"] and not any(d[0] == "c" for d in f["defaults"]):
        f["bound"] = [["c", pipegen.sval("bound:c")]]
    return f


def consumers(rng, tag, data, extra_root):
    """1-2 functions downstream of the shared step's (current) first output `data`."""
    fs = [F(f"{tag}0", [[data, "data"], [extra_root, "y"]] if rng.random() < 0.7 else [[data, "data"]], [f"{tag}a"])]
    if rng.random() < 0.4:
        fs.append(F(f"{tag}1", [[f"{tag}a", "u"], ["x", "x"]] if rng.random() < 0.5 else [[f"{tag}a", "u"]], [f"{tag}b"]))
    return fs


def gen_env(rng):
    """-> (env, info)"""
    if rng.random() < 0.68:
        variant = {"kind": rng.choice(VARIANTS), "tuple": rng.random() < 0.25, "extra": rng.random() < 0.3, "flip": rng.random() < 0.5,
                   "base_bound": rng.random() < 0.2}
        n = rng.choice([2, 2, 3])
        env = []
        for i, tag in enumerate(["p", "q", "r"][:n]):
            s = shared_step(rng, variant, i)
            fs = [s] + consumers(rng, tag, s["outputs"][0], "y" if rng.random() < 0.6 else f"y{tag}")
            if rng.random() < 0.25:
                rng.shuffle(fs)
            env.append([f"{tag}0", {"kind": "call", "shared": True, "desc": {"funcs": fs}}])
        return env, {"shape": "shared:" + variant["kind"], "shared_out": "da" if variant["tuple"] else "d"}
    shape = rng.choice(SHAPES)
    dv = pipegen.sval
    if shape == "disjoint":
        p = [F("f0", ["r0"], ["o0"]), F("f1", ["o0", "r1"], ["o1"])]
        q = [F("g0", ["r0", "r2"], ["q0a", "q0b"] if rng.random() < 0.4 else ["q0"])]
    elif shape == "same-output-other-callable":
        # two DIFFERENT callables under one output name (a single name, or one name of a tuple): refused
        p = [F("f0", ["r0"], ["o0"]), F("f1", ["o0", "r1"], ["o1"])]
        q = [F("g0", ["r0", "r2"], ["o0", "q0b"] if rng.random() < 0.4 else ["o0"]), F("g1", ["o0"], ["q1"])]
    elif shape == "feeds":
        p = [F("f0", ["r0"], ["o0"]), F("f1", ["o0", "r1"], ["o1"])]
        q = [F("g0", ["o1", "r2"], ["q0"]), F("g1", ["q0", "o0"], ["q1"])]
    elif shape == "cycle":
        p = [F("f0", ["q0", "r0"], ["o0"])]
        q = [F("g0", ["o0", "r2"], ["q0"])]
    elif shape in ("defaults-producer-later", "defaults-producer-earlier"):
        # two different defaults for `z`, which a function of the second pipeline PRODUCES: `validate_consistent_defaults` skips an argument
        # that is an output - but every prefix of the constructor loop is validated, so the order of the functions decides
        p = [F("f0", ["r0", "z"], ["o0"], defaults=[["z", dv("dflt:z:0")]])]
        g_use, g_make = F("g0", ["r1", "z"], ["q0"], defaults=[["z", dv("dflt:z:1")]]), F("g1", ["r2"], ["z"])
        q = [g_use, g_make] if shape == "defaults-producer-later" else [g_make, g_use]
    else:
        same = shape == "root-default-equal"
        p = [F("f0", ["r0", "z"], ["o0"], defaults=[["z", dv("dflt:z")]])]
        q = [F("g0", ["r1", "z"], ["q0"], defaults=[["z", dv("dflt:z" if same else "dflt:z:1")]])]
    env = [["p0", {"kind": "call", "shared": True, "desc": {"funcs": p}}], ["q0", {"kind": "call", "shared": True, "desc": {"funcs": q}}]]
    if rng.random() < 0.3:
        env.append(["r0", {"kind": "call", "shared": True, "desc": {"funcs": [F("h0", ["r0", "o0"] if rng.random() < 0.5 else ["r3"], ["z0"])]}}])
    return env, {"shape": "plain:" + shape, "shared_out": None}


def propose_join(rng, runner, info, k):
    names = [n for n in runner.env if runner.env[n].kind == "call"]
    base = [n for n in names if n in ("p0", "q0", "r0")]
    dst = f"j{k}"
    r = rng.random()
    via = rng.choice(["join", "or"])
    if r < 0.4 and len(base) >= 2:
        a, b = rng.sample(base, 2)
        return {"op": "join_x", "src": a, "others": [{"p": b}], "dst": dst, "via": via}
    if r < 0.55 and len(base) >= 3:
        order = rng.sample(base, 3)
        return {"op": "join_x", "src": order[0], "others": [{"p": order[1]}, {"p": order[2]}], "dst": dst, "via": "join"}
    if r < 0.70 and len(base) >= 2:
        # a bare PipeFunc operand: the shared step itself (its configuration in the other pipeline), or any function of the other pipeline
        a, b = rng.sample(base, 2)
        outs = sorted(runner.env[b].p.all_output_names)
        so = [o for o in outs if info["shared_out"] and o.startswith(info["shared_out"])]
        out = rng.choice(so) if so and rng.random() < 0.6 else rng.choice(outs)
        others = [{"f": [b, out]}]
        if rng.random() < 0.3:
            others.append({"f": [b, rng.choice(outs)]})      # possibly the same function twice: an overlap of the operands themselves
        return {"op": "join_x", "src": a, "others": others, "dst": dst, "via": via if len(others) == 1 else "join"}
    if r < 0.76:
        a = rng.choice(names)
        return {"op": "join_x", "src": a, "others": [{"p": a}], "dst": dst, "via": via}       # p | p
    # p | (a copy of p, reconfigured in place): made by the caller as `copy` + mutation, then joined
    return {"op": "copy-then-join", "src": rng.choice(base)}


def gen_join_case(rng, k_case, R, propose_mutation):
    env, info = gen_env(rng)
    runner = R.Runner(env)
    if runner.halted:
        return {"env": env, "ops": []}, runner
    runner.counts.append(f"joingen:{info['shape']}")
    ops = []

    def do(op):
        ops.append(op)
        return runner.apply(op)
    for k in range(rng.choice([1, 2, 2, 3])):
        if runner.halted:
            break
        try:
            op = propose_join(rng, runner, info, k)
            if op["op"] == "copy-then-join":
                src, cp = op["src"], f"c{k}"
                how = rng.choice(["copy", "copy", "pickle", "rename-all-outputs", "rename-some-outputs", "scope"])
                runner.counts.append(f"joingen:descendant:{how}")
                outs0 = sorted(runner.env[src].p.all_output_names)
                if how in ("copy", "pickle"):
                    first = {"op": how if how == "pickle" and rng.random() < 0.5 else "copy", "src": src, "dst": cp}
                elif how == "scope":
                    first = {"op": "scope", "src": src, "dst": cp, "scope": "S"}      # every name scoped: the join is accepted, no root is shared
                else:
                    # the SAME callables under other output names: all renamed -> accepted (both copies compute their own values from the
                    # shared roots); only some renamed -> the others still overlap -> refused
                    chosen = outs0 if how == "rename-all-outputs" or len(outs0) < 2 else rng.sample(outs0, rng.randint(1, len(outs0) - 1))
                    first = {"op": "rename", "src": src, "dst": cp, "map": [[o, f"{o.replace('.', '_')}_J{k}"] for o in chosen]}
                if not do(first) or runner.halted:
                    continue
                p = runner.env[cp].p
                f = rng.choice(list(p.functions))
                free = [a for a in f.parameters if a not in f.bound and a not in f.defaults]      # update_bound refuses a parameter with an explicit default
                r = rng.random() if how in ("copy", "pickle") else 0.6 + 0.4 * rng.random()
                if free and r < 0.45:
                    do({"op": "set_bound", "target": cp, "out": at_least_tuple(f.output_name)[0], "map": [[rng.choice(free), {"s": f"newbound:{k}"}]]})
                elif r < 0.8 and runner.roots(p):
                    do({"op": "set_defaults", "target": cp, "map": [[rng.choice(sorted(runner.roots(p))), {"s": f"newdefault:{k}"}]]})
                if runner.halted:
                    break
                a, b = (src, cp) if rng.random() < 0.5 else (cp, src)
                op = {"op": "join_x", "src": a, "others": [{"p": b}], "dst": f"j{k}", "via": rng.choice(["join", "or"])}
            ok = do(op)
            if ok and runner.last is not None and rng.random() < 0.35:
                rk, new, olds = runner.last
                which = rng.choice(["new", "old"])
                target, pair = (new, rng.choice(olds)) if which == "new" else (rng.choice(olds), new)
                mop = propose_mutation(rng, runner, target, f"{len(ops)}", {"pair": pair, "after": rk, "which": which})
                if mop is not None:
                    do(mop)
        except Exception as e:  # noqa: BLE001   the proposal reads the real objects
            runner.inconsistent(e, ops)
            break
    return {"env": env, "ops": ops}, runner


# ---------------------------------------------------------------------------------------------- execution
def impl_reason(impl):
    if impl.get("err") == "Other:NetworkXUnfeasible":
        return "cycle"
    msg = impl.get("msg", "")
    for k, r in (("already exists", "duplicate-output"), ("Inconsistent default", "defaults"), ("scope", "scope")):
        if k in msg:
            return r
    return "other"


def model_reason(st):
    if st.get("err") == "RecursionError":
        return "cycle"
    why = st.get("why", "")
    for k, r in (("duplicate output", "duplicate-output"), ("inconsistent defaults", "defaults"), ("scope", "scope")):
        if k in why:
            return r
    return "other"


def apply_join(self, op, R):
    """`Runner._apply` for `join_x`.  Returns True when the implementation performed the join."""
    kind = "join_x"
    quiet = R.quiet
    src = self.env[op["src"]]
    operands = [(op["src"], src, None)]
    for o in op["others"]:
        if "p" in o:
            operands.append((o["p"], self.env[o["p"]], None))
        else:
            operands.append((o["f"][0], self.env[o["f"][0]], o["f"][1]))
    names = list(dict.fromkeys(n for n, _, _ in operands))
    self.counts.append(f"join_x:operands:{len(operands)}:{'bare-PipeFunc' if any(x[2] for x in operands) else 'pipelines'}")
    try:
        objs = [ent.p if out is None else ent.p[out] for _, ent, out in operands[1:]]
        fsets = [[f for f in ent.p.functions] if out is None else [ent.p[out]] for _, ent, out in operands]
        seen, overlap, shared_callable = set(), False, False
        callables = []
        for fs in fsets:
            for f in fs:
                outs = set(at_least_tuple(f.output_name))
                overlap = overlap or bool(outs & seen)
                seen |= outs
                shared_callable = shared_callable or any(f.func is g for g in callables)
                callables.append(f.func)
        self.counts.append(f"cat:join_x:{'output-names-overlap' if overlap else 'outputs-disjoint'}:{'shared-callable' if shared_callable else 'own-callables'}")
    except Exception as e:  # noqa: BLE001
        self.counts.append(f"join_x:operand-unreadable:{exc_enum(e)}")
        return False
    try:
        if op.get("via") == "or" and len(objs) == 1:
            p = quiet(lambda: src.p | objs[0])
        else:
            p = quiet(src.p.join, *objs)
    except Exception as e:  # noqa: BLE001
        self.counts.append(f"refused:{kind}:{exc_enum(e)}")
        self.history.append(self.model_op(op))
        self.plan.append({"kind": "op", "op": op, "impl": {"err": exc_enum(e), "msg": str(e)[:200]}})
        for n in names:
            self.check_unchanged(n, f"after a refused {kind}")
        return False
    loose = False
    tags, labels = {}, {}
    for _, ent, _ in operands:
        used = R.used_names(ent.p)
        for r_, t in ent.tags.items():
            if r_ in used:
                if r_ in tags and tags[r_] != t:
                    loose = True        # one name standing for different generated inputs (renamed apart and back)
                tags.setdefault(r_, t)
        for o_, l in ent.labels.items():
            if o_ in used:
                labels.setdefault(o_, l)
    if loose:
        self.counts.append("join:shared-root-with-different-tags")
    for r_ in self.roots(p):
        tags.setdefault(r_, r_)
    ent = R.Ent(p, "call", tags, {o: labels.get(o, o) for o in p.all_output_names})
    ent.loose = loose or any(e.loose for _, e, _ in operands)
    self.env[op["dst"]] = ent
    self.history.append(self.model_op(op))
    self.plan.append({"kind": "op", "op": op, "impl": {"ok": True, "summary": R.summary(p), "order": [at_least_tuple(f.output_name)[0] for f in p.functions]}})
    op_plan_index = len(self.plan) - 1
    self.observe(op["dst"])
    if any(isinstance(f, R.NestedPipeFunc) for f in p.functions) and not ent.loose:
        self.wrap_check(op["dst"], kind)
    # --- the property, on the implementation alone: every output of every operand computes in the joined pipeline what it computes in its
    # operand, unless the join wires one of its root arguments to an output of another operand
    joined_outs = set(p.all_output_names)
    fnames = [f.__name__ for f in p.functions]
    new_map = None
    if not any(f.mapspec is not None for f in p.functions):
        new_map = self.run_map_plain(ent)
        if len(set(fnames)) == len(fnames):
            inputs = [[r_, R.kwval(ent.tags.get(r_, r_))] for r_ in self.roots(p)]
            self.history.append({"op": "map", "target": op["dst"], "inputs": inputs, "internal": []})
            self.plan.append({"kind": "map", "name": op["dst"], "impl": new_map, "labels": dict(ent.labels), "top": R.top_names(p)})
        else:
            self.counts.append("join_x:map-not-compared-with-the-model:two-functions-of-one-name")
    rule = []        # [operand index, output, compared (True) / skipped as fed by another operand (False)]: compared with the model's `joinKeeps`
    self.plan[op_plan_index]["impl"]["rule"] = rule
    for idx, (n, s_ent, out) in enumerate(operands):
        if s_ent.kind != "call" or ent.loose:
            continue
        if out is not None:
            f = s_ent.p[out]
            if any(a in s_ent.p.all_output_names for a in f.parameters if a not in f.bound):
                # a bare PipeFunc taken out of the middle of its pipeline: its inputs become roots (or are wired anew) - model only
                self.counts.append("join_x:bare-PipeFunc-with-upstream:model-only")
                continue
            outs = list(at_least_tuple(f.output_name))
        else:
            outs = sorted(s_ent.vals)
        for o in outs:
            before = s_ent.vals.get(o)
            if before is None or "value" not in before:
                continue
            try:
                fed = any(a in joined_outs for a in s_ent.p.root_args(o))
            except Exception:  # noqa: BLE001
                fed = True
            rule.append([idx, o, not fed])
            if fed:
                self.counts.append("join_x:output-fed-by-another-operand")
                continue
            if o not in ent.vals:
                self.problems.append((f"{kind}: output `{o}` of operand `{n}` is not an output of the joined pipeline", True, None,
                                      sorted(ent.vals), o))
                continue
            now = ent.vals[o]
            self.counts.append("join_x:output-compared-with-its-operand")
            if now != before:
                self.problems.append((f"{kind}: output `{o}` of the joined pipeline differs from `{o}` of operand `{n}`", True, None, now, before))
                continue
            if o in s_ent.dvals and "value" in s_ent.dvals[o]:
                now_d = self.ev(ent, o, omit=set(s_ent.domit[o]))
                if now_d != s_ent.dvals[o]:
                    self.problems.append((f"{kind}: output `{o}` of the joined pipeline, called with its defaults, differs from `{o}` of operand `{n}`",
                                          True, None, now_d, s_ent.dvals[o]))
                    continue
            if new_map is not None:
                if "*" in new_map:
                    self.problems.append((f"{kind}: the map of the joined pipeline fails ({new_map['*'].get('err')}: {new_map['*'].get('msg', '')[:80]}) "
                                          f"although `{o}` of operand `{n}` evaluates", True, None, new_map["*"], before))
                    break
                if new_map.get(o) != before:
                    self.problems.append((f"{kind}: output `{o}` of the joined pipeline under map differs from `{o}` of operand `{n}`", True, None,
                                          new_map.get(o), before))
    for n in names:
        self.check_unchanged(n, f"after {kind}")
    self.last = ("join", op["dst"], names)
    return True
