"""C02 — Calling a pipeline equals composing its functions along the DAG.

Correspondence: `pipeline(o, **kw)`, `Pipeline.run(full_output=…)`, `Pipeline.func(o)(**kw)`, `arg_combinations`,
`root_args`, `func_dependencies` on generated DAGs (tuple outputs, shared parameters, defaults, bound values, renames,
nullary functions) under several listing orders, against `PF.Pipe` (lean/PfModel/Model/Pipeline.lean).  User functions
build terms, so the value *is* the composition that was evaluated.
"""
from __future__ import annotations

import copy

import pfimport  # noqa: F401
from pfimport import exc_enum

import pipegen
import terms

PID = "C02"
PROPS = ["PfModel.Props.C02", "PfModel.Props.C02Needed"]
DRIVER = "C02"
RULE = ("random DAGs of 1-6 term-building functions (nullary, tuple outputs, shared parameters, defaults, bound values incl. over an "
        "upstream output, renames); for every output every listed argument combination (all when <= 16, else 16 sampled) plus "
        "surplus-keyword and missing-keyword variants, run/full_output/func(o) entry points, 2 extra listing orders; a case is "
        "non-trivial when the requested output's producer has at least one upstream function; distinct by (pipeline, output, keywords, entry)")
ASSUMPTIONS = ["inspect.signature is outside the model: the model is fed the parameter lists of the generated functions",
               "networkx graph construction is mirrored by the model's `preds`; only sets of combinations are compared",
               "values are uninterpreted terms (a function is identified by the term it builds)"]


def kwval(k):
    return {"s": f"kw:{k}"}


def call_impl(p, log, entry, out, kw):
    """Returns the canonical observation of one call of the real pipeline."""
    log.clear()
    pykw = {k: terms.dec(v) for k, v in kw}
    o = out if isinstance(out, str) else tuple(out)
    try:
        if entry == "call":
            v = pipegen.quiet(p, o, **pykw)
            obs = {"value": terms.enc(v)}
        elif entry == "run":
            v = pipegen.quiet(p.run, o, kwargs=pykw)
            obs = {"value": terms.enc(v)}
        elif entry == "full":
            d = pipegen.quiet(p.run, o, full_output=True, kwargs=pykw)
            obs = {"value": terms.enc(d[o]), "full": sorted([[k, terms.enc(v)] for k, v in d.items()], key=lambda kv: kv[0])}
        elif entry == "func":
            v = pipegen.quiet(p.func(o), **pykw)
            obs = {"value": terms.enc(v)}
        else:
            raise AssertionError(entry)
    except Exception as e:  # noqa: BLE001
        obs = {"err": exc_enum(e)}
    obs["calls"] = log.names()
    return obs


def model_obs(r, entry):
    if "err" in r:
        return {"err": r["err"]}
    o = {"value": terms.canon(r["value"])}
    if entry == "full":
        o["full"] = sorted([[k, terms.canon(v)] for k, v in r["full"]], key=lambda kv: kv[0])
    o["calls"] = r["calls"]
    return o


def order_ok(desc, calls):
    """Every function after the functions producing the (non-supplied) values it consumed: checked by the model's log
    being a valid order too; here: no duplicates."""
    return len(calls) == len(set(calls))


def cases_for(ctx, desc, rng, max_combos=16):
    """(entry, out, kw, kind) tuples for one pipeline, using the REAL pipeline's arg_combinations."""
    p, log = pipegen.build(desc)
    cases = []
    for f in desc["funcs"]:
        outs = list(f["outputs"]) + ([list(f["outputs"])] if len(f["outputs"]) > 1 and rng.random() < 0.3 else [])
        for o in outs:
            if not isinstance(o, str):
                roots = None
                try:
                    roots = p.root_args(tuple(o))
                except Exception:  # noqa: BLE001
                    pass
                if roots is not None:
                    cases.append(("call", o, [[k, kwval(k)] for k in roots], "tuple-request"))
                continue
            try:
                combos = sorted(p.arg_combinations(o))
            except Exception as e:  # noqa: BLE001
                ctx.count(f"argcomb-exc:{exc_enum(e)}")
                continue
            if len(combos) > max_combos:
                combos = rng.sample(combos, max_combos)
            for combo in combos:
                kw = [[k, kwval(k)] for k in combo]
                entry = rng.choice(["call", "call", "run", "full", "func"])
                if entry == "func" and any(k in pipegen.all_outputs(desc) for k in combo):
                    entry = "call"                      # Pipeline.func(o) takes root arguments only
                cases.append((entry, o, kw, "listed"))
            if combos and len(f["outputs"]) > 1:
                # Pipeline.func(o) for every output of a tuple-output function, in sequence on the same pipeline object
                roots = next((c for c in combos if not any(k in pipegen.all_outputs(desc) for k in c)), None)
                if roots is not None:
                    cases.append(("func", o, [[k, kwval(k)] for k in roots], "func-each-output"))
            if combos:
                base = list(rng.choice(combos))
                pool = [n for n in (["r0", "r1", "r2", "zz"] + pipegen.all_outputs(desc)) if n not in base and n != o]
                if pool:
                    extra = rng.choice(pool)
                    cases.append(("call", o, [[k, kwval(k)] for k in base + [extra]], "surplus"))
                if base:
                    drop = rng.choice(base)
                    cases.append(("call", o, [[k, kwval(k)] for k in base if k != drop], "missing"))
    return cases


def check_pipeline(ctx, desc, rng):
    reqs, metas = [], []
    orders = [None]
    n = len(desc["funcs"])
    for _ in range(2 if n > 1 else 0):
        perm = list(range(n)); rng.shuffle(perm); orders.append(perm)
    cases = cases_for(ctx, desc, rng)
    built = [pipegen.build(desc, order=o, defaults_in_signature=(i != 1)) for i, o in enumerate(orders)]
    for entry, out, kw, kind in cases:
        obs = [call_impl(p, log, entry, out, kw) for p, log in built]
        reqs.append({"m": "run", "a": {"funcs": desc["funcs"], "kw": kw, "out": out}})
        metas.append(("run", entry, out, kw, kind, obs))
    for o in pipegen.all_outputs(desc):
        p = built[0][0]
        try:
            impl = {"combos": sorted(sorted(c) for c in p.arg_combinations(o)), "root_args": sorted(p.root_args(o)),
                    "deps": sorted(sorted([d] if isinstance(d, str) else list(d)) for d in p.func_dependencies(o))}
        except Exception as e:  # noqa: BLE001
            impl = {"err": exc_enum(e)}
        reqs.append({"m": "argcombos", "a": {"funcs": desc["funcs"], "out": o}})
        metas.append(("argcombos", None, o, None, "argcombos", impl))
    return reqs, metas


def judge(ctx, desc, req, meta, resp):
    kind0, entry, out, kw, kind, impl = meta
    r = resp["r"]
    case = {"funcs": desc["funcs"], "entry": entry, "out": out, "kw": kw, "kind": kind}
    if kind0 == "argcombos":
        model = {"combos": sorted(sorted(c) for c in (r["combos"] or [])), "root_args": sorted(r["root_args"] or []),
                 "deps": sorted(sorted(d) for d in (r["deps"] or []))}
        ctx.count("op:argcombos")
        ctx.record(case, nontrivial=len(model["combos"]) > 1)
        if impl != model:
            ctx.violation(case, f"arg_combinations/root_args/func_dependencies of {out} differ from the model",
                          found_input=False, item="correspondence:argcombos", impl=impl, model=model)
        return
    model = model_obs(r, entry)
    ctx.count(f"op:{entry}:{kind}")
    producer = next(f for f in desc["funcs"] if (out in f["outputs"] if isinstance(out, str) else f["outputs"] == out))
    nontrivial = any(p in pipegen.all_outputs(desc) for p, _ in producer["params"])
    ctx.record(case, nontrivial)
    for i, ob in enumerate(impl):
        ob_c = dict(ob)
        mod_c = dict(model)
        # the call log is compared as a multiset plus the model's order validity; errors only as accept/reject
        if "err" in ob_c or "err" in mod_c:
            if kind in ("listed", "tuple-request", "func-each-output") and "err" in ob_c:
                ctx.violation(case, f"argument combination listed by arg_combinations is rejected ({ob_c['err']})", impl=ob_c, model=mod_c)
            elif ("err" in ob_c) != ("err" in mod_c):
                what = (f"listed argument combination rejected ({ob_c.get('err')})" if kind == "listed" and "err" in ob_c else
                        f"request {'rejected' if 'err' in ob_c else 'accepted'} by the implementation but not by the specification ({kind})")
                ctx.violation(case, what, impl=ob_c, model=mod_c)
            elif kind == "surplus" and ob_c["err"] != "UnusedParametersError" and mod_c["err"] == "UnusedParametersError":
                ctx.violation(case, "surplus keyword rejected with a different error class", found_input=False,
                              item="correspondence:error-class", impl=ob_c, model=mod_c)
            ctx.count(f"err:{kind}")
            continue
        if ob_c["value"] != mod_c["value"]:
            ctx.violation(case, f"value differs from the composition along the DAG (listing order #{i})", impl=ob_c, model=mod_c)
        elif sorted(ob_c["calls"]) != sorted(mod_c["calls"]):
            ctx.violation(case, f"functions executed {sorted(ob_c['calls'])} instead of exactly the needed ones {sorted(mod_c['calls'])}",
                          impl=ob_c, model=mod_c)
        elif "full" in mod_c and ob_c.get("full") != mod_c["full"]:
            ctx.violation(case, "full_output is not the memo of the same evaluation", impl=ob_c, model=mod_c)
        else:
            # dependencies first: position of each function after the producers of the values it consumed
            pos = {c: k for k, c in enumerate(ob_c["calls"])}
            for f in desc["funcs"]:
                if f["name"] in pos:
                    for pn, _ in f["params"]:
                        g = next((g for g in desc["funcs"] if pn in g["outputs"]), None)
                        if g is not None and g["name"] in pos and pos[g["name"]] > pos[f["name"]] and pn not in [k for k, _ in kw] \
                                and pn not in [b[0] for b in f.get("bound", [])]:
                            ctx.violation(case, f"{f['name']} executed before its dependency {g['name']}", impl=ob_c, model=mod_c)
    if r.get("spec") is not None and "err" not in model and terms.canon(r["spec"]) != model["value"]:
        raise AssertionError("model run and specification disagree (extraction bug?)")


CORPUS: list = [
    # DF-25: tuple-output producer of which the consumer uses one output only
    {"funcs": [{"name": "f0", "params": [["r0", "r0"]], "outputs": ["o0a", "o0b"], "defaults": [], "bound": []},
               {"name": "f1", "params": [["o0b", "o0b"], ["r1", "r1"]], "outputs": ["o1"], "defaults": [], "bound": []}]},
    {"funcs": [{"name": "f0", "params": [["r0", "a0"]], "outputs": ["o0"], "defaults": [["r0", {"s": "dflt:r0"}]], "bound": []},
               {"name": "f1", "params": [["o0", "o0"], ["r0", "r0"]], "outputs": ["o1a", "o1b"], "defaults": [], "bound": []},
               {"name": "f2", "params": [["o1a", "x"], ["o0", "y"], ["o1b", "z"]], "outputs": ["o2"], "defaults": [], "bound": [["o0", {"s": "bound:o0:f2"}]]}]},
]


def run(ctx):
    rng = ctx.rng
    descs = [copy.deepcopy(d) for d in CORPUS]
    for _ in range(ctx.n(150, 4000)):
        descs.append(pipegen.gen_dag(rng, max_funcs=rng.choice([2, 3, 4, 5, 6])))
    all_reqs, all_meta = [], []
    for desc in descs:
        try:
            reqs, metas = check_pipeline(ctx, desc, rng)
        except Exception as e:  # noqa: BLE001   construction refused a generated (valid) pipeline
            ctx.count(f"construct-exc:{exc_enum(e)}")
            ctx.violation({"funcs": desc["funcs"]}, f"valid pipeline refused at construction: {type(e).__name__}: {str(e)[:100]}")
            continue
        all_reqs += reqs
        all_meta += [(desc, m) for m in metas]
    outs = ctx.lean(all_reqs)
    for req, (desc, meta), resp in zip(all_reqs, all_meta, outs):
        judge(ctx, desc, req, meta, resp)


def replay(ctx, case):
    p, log = pipegen.build({"funcs": case["funcs"]})
    if case.get("entry"):
        print("implementation:", call_impl(p, log, case["entry"], case["out"], case["kw"]))
        print("model:", ctx.lean([{"m": "run", "a": {"funcs": case["funcs"], "kw": case["kw"], "out": case["out"]}}])[0]["r"])
    else:
        print("combos:", sorted(p.arg_combinations(case["out"])))
        print("model:", ctx.lean([{"m": "argcombos", "a": {"funcs": case["funcs"], "out": case["out"]}}])[0]["r"])
