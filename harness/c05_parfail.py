"""C05, pool runs in which a USER CALL RAISES: a LATER element is stored while an earlier one failed.

In a pool (`parallel=True, executor=…`) every missing element of a generation is submitted before the parent looks at the first
result, so the bodies next to the raising one still run and dump their elements: the stored set the failing run leaves is NOT a
prefix of the elements (the sequential runner stops at the raising call).  The resumed run must keep every stored element, in
any pattern of stored / missing (seeded change C05-s4-A: "every index after the first gap is missing too").

Model: `PF.ResumeFS.runOnPF` (lean/PfModel/Model/ResumeParFail.lean), driver entry `map.par_fail_events`; theorems
`C05_par_raise_keeps`, `C05_par_raise_then_resume`, `C05_par_raise_history` (lean/PfModel/Props/C05ParFail.lean).

Per pipeline (mode `perm`: C03's permuting executor runs the bodies of every generation atomically, in a seeded random order, in
the parent — so "the idx-th call of fn raises" is deterministic and the trace is exact):
 (1) the run with `fail={fn: idx}` is traced; the global SUBMISSION index of the raising call and the order in which the bodies of
     every generation ran are read off the trace; the canonical real event list must EQUAL the model's (`correspondence:trace-par-raise`),
     the run must stop with the user exception, the calls must be the submitted bodies;
 (2) the folder the failing run left is resumed (`cleanup=False`): the property's clauses are evaluated by `judge_resume`
     (completes, uninterrupted outputs, no call for a stored element, folder equals the uninterrupted one) and the resumed run is
     compared with `map.run_on` on the abstracted folder;
 (3) the failing run is additionally killed at sampled prefixes of its trace, and in thorough a SECOND failing pool run (another
     element raises) is started on the folder the first one left, then resumed.
"""
from __future__ import annotations

import copy
import json

import pfimport  # noqa: F401

import c05_crashfs as crashfs
import mapgen


def _pair_case():
    """Two functions in ONE generation - an un-mapped one (its single output is dumped by the parent when the generation is processed) and
    a mapped one - and a consumer of both: when an element of the mapped one raises, whether the single output is stored depends on the
    order in which the parent processes the generation (the model: the functions in front of the failing one)."""
    from props.c05 import _func, _in
    a = _func("f0", ["c0"], ["s0"])
    b = _func("f1", ["x0"], ["y1"], {"inputs": [["x0", ["i"]]], "outputs": [["y1", ["i"]]]})
    c = _func("f2", ["s0", "y1"], ["y2"])
    return {"funcs": [a, b, c], "inputs": [["c0", {"s": "in:c0"}], ["x0", {"arr": [[3], [_in("x0", [i]) for i in range(3)]]}]],
            "input_kinds": {"x0": "list"}, "internal": [], "sizes": {}}


def corpus():
    from props.c05 import _chain_case, _design_case, _mix_case, _outer_case, _tuple_case
    return [
        # seeded change C05-s4-A: with the first element failing, every later one is stored
        {"desc": _design_case(3), "storage": "file_array", "mode": "perm", "perm_seed": 1, "picker": [], "other": [], "fails": [["f0", 0], ["f0", 1]]},
        {"desc": _pair_case(), "storage": "file_array", "mode": "perm", "perm_seed": 6, "picker": [], "other": [], "fails": [["f1", 1], ["f0", 0]]},
        # multi-axis: the failing element's linear index is in the middle of a 2 x 3 array
        {"desc": _outer_case(), "storage": "file_array", "mode": "perm", "perm_seed": 2, "picker": [], "other": [], "fails": [["f0", 1], ["f1", 0]]},
        # memory storage: nothing is persisted by a run that raises - everything is recomputed, nothing is read half
        {"desc": _chain_case(), "storage": "dict", "mode": "perm", "perm_seed": 3, "picker": [], "other": [], "fails": [["f1", 0]]},
        {"desc": _tuple_case(), "storage": "file_array", "mode": "perm", "perm_seed": 4, "picker": [], "other": [], "fails": [["f0", 0]]},
        {"desc": _mix_case(), "storage": "file_array", "other": ["f1"], "mode": "perm", "perm_seed": 5, "picker": [], "fails": [["f0", 0], ["f1", 1]]},
    ]


def _key(fn, kw):
    return json.dumps([fn, sorted(([k, crashfs.canon(v)] for k, v in kw), key=lambda kv: kv[0])])


def read_schedule(case, model_calls, real, fn, idx):
    """From the canonical real event list of the failing run: (global submission index of the raising call, body orders per
    generation).  Raises ValueError when the trace cannot be matched to the submitted bodies (indistinguishable calls)."""
    p, _ = mapgen.build(case["desc"])
    gens = [[f.__name__ for f in gen] for gen in p.topological_generations.function_lists]
    rcalls = [json.dumps([e[1], e[2]]) for e in real if e[0] == "call"]
    of_fn = [c for e, c in zip([e for e in real if e[0] == "call"], rcalls) if e[1] == fn]
    if idx >= len(of_fn):
        raise ValueError("no such call")
    failing = of_fn[idx]
    orders, j, offset, gi_f = [], None, 0, None
    for gi, g in enumerate(gens):
        sub = [_key(f, kw) for f, _li, kw in model_calls if f in g]
        if len(set(sub)) != len(sub):
            raise ValueError("indistinguishable bodies")
        seen = [c for c in rcalls if c in set(sub)]
        if len(set(seen)) != len(seen):
            raise ValueError("a body ran twice")
        if gi_f is None and failing in sub:
            gi_f, j = gi, offset + sub.index(failing)
        elif gi_f is None and sorted(seen) != sorted(sub):
            raise ValueError("calls of a generation before the failing one differ")
        elif gi_f is not None and gi != gi_f and seen:
            raise ValueError("a generation after the failing one was submitted")
        orders.append([sub.index(c) for c in seen])
        offset += len(sub)
    if j is None:
        raise ValueError("the raising call is not a submitted body")
    return j, orders[:gi_f + 1], gi_f


def fail_run(lab, case, fn, idx, stages=()):
    """A traced pool run in which the idx-th call of `fn` raises (on the folder rebuilt from `stages`, default: none), then the
    resume of what it left."""
    from props.c05 import stages_state
    d = None
    try:
        d = stages_state(lab, list(stages)) if stages else lab.slot()
        fs0 = crashfs.abstract(d) if stages else None
        r1, ev1, c1 = lab.run(lab.spec(case, d, not stages, fail={fn: idx}), trace=True)
        fs_abs = crashfs.abstract(d)
        r2, _e, c2 = lab.run(lab.spec(case, d, False, mode="seq"))
        after = crashfs.abstract(d) if "ok" in r2 else None
        return {"first": r1, "events": ev1, "calls1": c1, "fs0": fs0, "fs": fs_abs, "impl": r2, "calls": c2, "after": after, "folder": d, "fn": fn, "idx": idx}
    except (crashfs.Unmodelled, Exception) as e:  # noqa: BLE001  (replaying what pipefunc did must never crash the harness)
        return {"unmodelled": f"{type(e).__name__}: {e}"[:300], "fn": fn, "idx": idx}
    finally:
        if d:
            lab.cleanup(d)


def stored_pattern(case, fs_abs, fn, full):
    """Which elements of `fn` are completely stored: "none" | "all" | "prefix" | "non-prefix" (file arrays)."""
    f = next(x for x in case["desc"]["funcs"] if x["name"] == fn)
    lis = sorted({li for n, li, _ in full["model_calls"] if n == fn})
    files = {json.dumps(p): c for p, c in fs_abs["files"]}
    done = [all(files.get(json.dumps(["cell", o, li])) not in (None, "P") for o in f["outputs"]) for li in lis]
    if not any(done):
        return "none"
    if all(done):
        return "all"
    return "prefix" if done == sorted(done, reverse=True) else "non-prefix"


def prestart(ctx, lab, quick):
    """Build the cases and submit every real run that does not depend on the model (the uninterrupted traces and the failing pool
    runs) to the lab's pool, so that they overlap with the other streams; `stream` joins them."""
    from props.c05 import gen_case, trace_case
    cases = [copy.deepcopy(c) for c in corpus()[:2 if quick else None]]
    for k in range(1 if quick else 8):
        d = gen_case(ctx.rng)
        mapped = sorted(f["name"] for f in d["funcs"] if f["mapspec"] and f["mapspec"]["inputs"])
        fails = [[fn, ctx.rng.randrange(2)] for fn in ctx.rng.sample(mapped, min(len(mapped), 1 if quick else 2))]
        cases.append({"desc": d, "storage": "file_array" if k % 3 != 2 else "dict", "mode": "perm", "perm_seed": ctx.rng.randrange(10**6),
                      "picker": [], "other": [], "fails": fails})
    traces = [lab.pool.submit(trace_case, lab, dict(c, mode="seq")) for c in cases]
    runs = [[lab.pool.submit(fail_run, lab, c, fn, idx) for fn, idx in c["fails"][:1 if quick else None]] for c in cases]
    return {"cases": cases, "traces": traces, "runs": runs}


def stream(ctx, lab, quick, pre=None):
    from props.c05 import data_files, judge_resume, kill_hist, model_req, rec_of, resume_state, unmodelled
    pre = pre or prestart(ctx, lab, quick)
    cases = pre["cases"]
    # the uninterrupted run (sequential: the reference the clauses are judged against) and the model's submission order
    traced = [f.result() for f in pre["traces"]]
    fresh = ctx.lean([{"m": "map.events", "a": model_req(c)} for c in cases])
    jobs = []
    for case, t, fr, futs in zip(cases, traced, fresh, pre["runs"]):
        fr = fr["r"]
        ctx.count(f"parfail:pipeline:{case['storage']}{'+mix' if case.get('other') else ''}")
        if "unmodelled" in t or "err" in t["res0"] or "err" in fr["result"]:
            ctx.skip("parfail:untraceable")        # the main stream reports these
            continue
        full = {"outputs": t["res0"]["ok"]["outputs"], "files": data_files(t["full_abs"]), "model_calls": fr["calls"]}
        for fut in futs:
            jobs.append((case, full, fr, fut))
    # ---- model batch 1: the failing runs and the resumes of what they left
    reqs, todo = [], []
    for case, full, fr, fut in jobs:
        st = fut.result()
        hist = [{"kind": "raise-par", "function": st["fn"], "call_index": st["idx"]}]
        if "unmodelled" in st:
            unmodelled(ctx, rec_of(case, hist), st)
            continue
        try:
            real = crashfs.canon_real(st["events"], st["folder"])
            j, orders, gi_f = read_schedule(case, fr["calls"], real, st["fn"], st["idx"])
        except crashfs.Unmodelled as e:
            unmodelled(ctx, rec_of(case, hist), {"unmodelled": str(e)})
            continue
        except ValueError as e:
            ctx.skip("parfail:schedule:" + str(e)[:40])
            continue
        hist[0].update({"global_call": j, "orders": orders})
        reqs.append({"m": "map.par_fail_events", "a": model_req(case, cfg={"fail_at": j}, orders=orders)})
        reqs.append({"m": "map.run_on", "a": model_req(case, fs=st["fs"])})
        todo.append((case, full, fr, st, hist, real, orders, gi_f))
    outs = iter(ctx.lean(reqs) if reqs else [])
    more = []
    for case, full, fr, st, hist, real, orders, gi_f in todo:
        mfail, mres = next(outs)["r"], next(outs)["r"]
        rec = rec_of(case, hist)
        ctx.count("parfail:run")
        ctx.count("parfail:failing-generation:" + str(min(gi_f, 2)))
        ctx.count("parfail:body-order:" + ("submission" if all(o == sorted(o) for o in orders) else "permuted"))
        pat = stored_pattern(case, st["fs"], st["fn"], full)
        ctx.count("parfail:stored-elements-of-failing-function:" + pat)
        if "ok" in st["first"] and sum(1 for c in fr["calls"] if c[0] == st["fn"]) <= st["idx"]:
            ctx.count("parfail:no-such-call")       # the function is called fewer times than the chosen index: nothing raised
            continue
        if st["first"].get("err") != "raised":
            ctx.violation(rec, f"the exception of the user function did not surface from the pool run (got {st['first'].get('err', 'ok')})", impl=st["first"],
                          key="raise not surfaced")
            continue
        # (1) the failing run is the model's run
        mod = crashfs.canon_model(mfail["events"])
        ctx.record(rec_of(case, hist + [{"kind": "trace"}]), True, validated=True)
        if mfail["result"].get("err") != "raised" or real != mod:
            i = next((i for i, (a, b) in enumerate(zip(real, mod)) if a != b), min(len(real), len(mod)))
            ctx.violation(rec, f"event list of a pool run whose user function raises differs from the model's at event {i}", found_input=False,
                          item="correspondence:trace-par-raise", impl={"event": real[i] if i < len(real) else None, "n": len(real)},
                          model={"event": mod[i] if i < len(mod) else None, "n": len(mod), "result": mfail["result"]})
        elif sorted(_key(f, kw) for f, _li, kw in mfail["calls"]) != sorted(_key(f, kw) for f, kw in st["calls1"]):
            ctx.violation(rec, "the bodies a failing pool run calls are not the submitted bodies of the model", found_input=False, item="correspondence:calls-par-raise",
                          impl={"calls": st["calls1"][:8]}, model={"calls": mfail["calls"][:8]})
        # (2) the property on the resume of what the failing run left (a later element stored next to the failed one)
        ever = crashfs.ever_complete(st["events"], st["folder"])
        judge_resume(ctx, case, hist, st["fs"], st["impl"], st["calls"], st["after"], full, mres, stored_before=ever[-1])
        # (3) the failing run additionally killed at sampled prefixes; thorough: a second failing pool run on what the first left
        ev1, f1 = st["events"], st["folder"]
        pts = [p for p in crashfs.crash_points(ev1) if p[1] is None and 0 < p[0] < len(ev1)]
        for k, tear in (ctx.rng.sample(pts, min(len(pts), 0 if quick else 6)) if pts else []):
            more.append(("kill", case, full, hist + [kill_hist(ev1, f1, k, tear)], ever[k], None,
                         lab.pool.submit(resume_state, lab, case, [(ev1, k, tear, f1)])))
        if not quick and pat != "all":
            left = [c for c in fr["calls"] if c[0] == st["fn"]]
            idx2 = ctx.rng.randrange(max(1, len(left) - 1))
            more.append(("again", case, full, hist, ever[-1], fr, lab.pool.submit(fail_run, lab, case, st["fn"], idx2, [(ev1, len(ev1), None, f1)])))
    # ---- model batch 2 (for a second failing run the submitted bodies are those of the model's run on the folder it started on)
    done = [(kind, case, full, hist, ever_k, fr, fut.result()) for kind, case, full, hist, ever_k, fr, fut in more]
    again = [x for x in done if x[0] == "again" and "unmodelled" not in x[6] and x[6]["first"].get("err") == "raised"]
    subs = ctx.lean([{"m": "map.run_on", "a": model_req(x[1], fs=x[6]["fs0"])} for x in again]) if again else []
    sub_of = {id(x[6]): o["r"]["calls"] for x, o in zip(again, subs)}
    reqs, todo = [], []
    for kind, case, full, hist, ever_k, fr, st in done:
        if "unmodelled" in st:
            unmodelled(ctx, rec_of(case, hist), st)
            continue
        if kind == "kill":
            ctx.count("parfail:kill-inside-failing-run")
            reqs.append({"m": "map.run_on", "a": model_req(case, fs=st["fs"])})
            todo.append((kind, case, full, hist, ever_k, st, None))
            continue
        # a second failing pool run: which element raises now depends on what is missing; read it off the trace
        h2 = {"kind": "raise-par", "function": st["fn"], "call_index": st["idx"], "on": "the folder the first failing run left"}
        if st["first"].get("err") != "raised":          # fewer missing elements than the chosen index: the run completed
            ctx.count("parfail:second-run-completed")
            continue
        try:
            real = crashfs.canon_real(st["events"], st["folder"])
            j, orders, _g = read_schedule(case, sub_of[id(st)], real, st["fn"], st["idx"])
        except (crashfs.Unmodelled, ValueError) as e:
            ctx.skip("parfail:schedule2:" + type(e).__name__)
            continue
        h2.update({"global_call": j, "orders": orders})
        ctx.count("parfail:second-failing-run")
        reqs.append({"m": "map.par_fail_events", "a": model_req(case, cfg={"fail_at": j}, orders=orders, fs=st["fs0"])})
        reqs.append({"m": "map.run_on", "a": model_req(case, fs=st["fs"])})
        todo.append((kind, case, full, hist + [h2], ever_k, st, real))
    outs = iter(ctx.lean(reqs) if reqs else [])
    for kind, case, full, hist, ever_k, st, real in todo:
        if kind == "kill":
            judge_resume(ctx, case, hist, st["fs"], st["impl"], st["calls"], st["after"], full, next(outs)["r"], stored_before=ever_k)
            continue
        mfail, mres = next(outs)["r"], next(outs)["r"]
        mod = crashfs.canon_model(mfail["events"], st["fs0"]["dirs"])
        ctx.record(rec_of(case, hist + [{"kind": "trace"}]), True, validated=True)
        if mfail["result"].get("err") != "raised" or real != mod:
            i = next((i for i, (a, b) in enumerate(zip(real, mod)) if a != b), min(len(real), len(mod)))
            ctx.violation(rec_of(case, hist), f"event list of a RESUMED pool run whose user function raises differs from the model's at event {i}", found_input=False,
                          item="correspondence:trace-par-raise", impl={"event": real[i] if i < len(real) else None, "n": len(real)},
                          model={"event": mod[i] if i < len(mod) else None, "n": len(mod), "result": mfail["result"]})
        ever2 = crashfs.ever_complete(st["events"], st["folder"], st["fs0"])
        judge_resume(ctx, case, hist, st["fs"], st["impl"], st["calls"], st["after"], full, mres, prior=[st["fs0"]], stored_before=ever_k | ever2[-1])


def replay(ctx, lab, rec):
    """Re-create a recorded `raise-par` history (first stage) and print both sides."""
    from props.c05 import model_req
    case = {"desc": rec["desc"], "storage": rec["storage"], "other": rec.get("other") or [], "mode": "perm", "perm_seed": rec.get("perm_seed", 0),
            "picker": rec.get("picker") or []}
    h = next(x for x in rec["history"] if x["kind"] == "raise-par")
    st = fail_run(lab, case, h["function"], h["call_index"])
    if "unmodelled" in st:
        print("cannot replay:", st["unmodelled"])
        return None
    real = crashfs.canon_real(st["events"], st["folder"])
    print("failing pool run:", st["first"], "\nreal events :", json.dumps(real)[:3000])
    print("folder left:", json.dumps(st["fs"])[:1500], "\nresumed:", json.dumps(st["impl"])[:600], "\ncalls of the resumed run:", st["calls"])
    if "global_call" in h:
        m = ctx.lean([{"m": "map.par_fail_events", "a": model_req(case, cfg={"fail_at": h["global_call"]}, orders=h["orders"])},
                      {"m": "map.run_on", "a": model_req(case, fs=st["fs"])}])
        print("model events:", json.dumps(crashfs.canon_model(m[0]["r"]["events"]))[:3000], "\nmodel result:", m[0]["r"]["result"])
        print("model resume:", json.dumps(m[1]["r"]["result"])[:600], "\nmodel calls:", [[c[0], c[1]] for c in m[1]["r"]["calls"]])
    return None
