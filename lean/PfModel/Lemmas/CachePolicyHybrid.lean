import PfModel.Lemmas.CachePolicy
/-! Helper lemmas for C14: the HybridCache representation invariant, `_expire`, and lawfulness. -/
namespace PF.Cache

theorem has_congr_keys {α β : Type} (a : List (Key × α)) (b : List (Key × β)) (h : keys a = keys b) (k : Key) :
    has a k = has b k := by
  rw [Bool.eq_iff_iff, has_iff_mem_keys, has_iff_mem_keys, h]

theorem lookup_erase_some {β : Type} (d : List (Key × β)) (e k : Key) (x : β) (h : lookup (erase d e) k = some x) :
    lookup d k = some x := by
  by_cases hk : k = e
  · subst hk; simp at h
  · rwa [lookup_erase_ne _ _ _ hk] at h

theorem keys_set_congr {α β : Type} (a : List (Key × α)) (b : List (Key × β)) (h : keys a = keys b) (k : Key) (x : α) (y : β) :
    keys (set a k x) = keys (set b k y) := by
  rw [keys_set, keys_set, has_congr_keys a b h k, h]

theorem keys_erase_congr {α β : Type} (a : List (Key × α)) (b : List (Key × β)) (h : keys a = keys b) (k : Key) :
    keys (erase a k) = keys (erase b k) := by
  rw [keys_erase, keys_erase, h]

/-- the three dicts hold the same keys in the same order, once each, and no more than `max_size` of them -/
structure Hyb.Inv (s : Hyb) : Prop where
  pos : 0 < s.max
  kac : keys s.ac = keys s.dict
  kdu : keys s.du = keys s.dict
  nodup : (keys s.dict).Nodup
  bound : s.dict.length ≤ s.max

theorem Hyb.inv_empty (n wa wd : Nat) (h : 0 < n) : (Hyb.empty n wa wd).Inv :=
  ⟨h, rfl, rfl, by simp [Hyb.empty, keys], by simp [Hyb.empty]⟩

theorem Hyb.keys_scores (s : Hyb) : keys (Hyb.scores s) = keys s.ac := by
  simp [Hyb.scores, keys]

/-- `_expire` on a non-empty invariant state: removes the first minimum of `scores` from all three dicts -/
theorem Hyb.expire_spec (s : Hyb) (h : s.Inv) (hne : 0 < s.dict.length) :
    ∃ e sc, argmin (Hyb.scores s) = some (e, sc) ∧ has s.dict e = true ∧
      s.expire = .ok ({ s with dict := erase s.dict e, ac := erase s.ac e, du := erase s.du e }, e) := by
  have hall : s.ac.all (fun p => has s.du p.1) = true := by
    rw [List.all_eq_true]
    intro p hp
    rw [has_iff_mem_keys, h.kdu, ← h.kac]
    exact List.mem_map_of_mem (f := (·.1)) hp
  have hsne : Hyb.scores s ≠ [] := by
    intro e
    have : (keys (Hyb.scores s)).length = 0 := by rw [e]; rfl
    rw [Hyb.keys_scores, h.kac, length_keys] at this
    omega
  cases ha : argmin (Hyb.scores s) with
  | none => exact absurd ((argmin_none _).mp ha) hsne
  | some p =>
    obtain ⟨e, sc⟩ := p
    have hmem := argmin_mem _ _ _ ha
    have he : has s.dict e = true := by
      rw [has_iff_mem_keys, ← h.kac, ← Hyb.keys_scores]
      exact List.mem_map_of_mem (f := (·.1)) hmem
    refine ⟨e, sc, rfl, he, ?_⟩
    unfold Hyb.expire
    rw [if_pos hall]
    simp only [ha, he, if_true]

theorem Hyb.expire_inv (s : Hyb) (h : s.Inv) (e : Key) (he : has s.dict e = true) :
    Hyb.Inv { s with dict := erase s.dict e, ac := erase s.ac e, du := erase s.du e } ∧
    (erase s.dict e).length + 1 = s.dict.length :=
  ⟨⟨h.pos, keys_erase_congr _ _ h.kac e, keys_erase_congr _ _ h.kdu e, nodup_keys_erase _ _ h.nodup, by
      have := length_erase_has s.dict e h.nodup he
      have := h.bound
      simp only; omega⟩,
   length_erase_has s.dict e h.nodup he⟩

theorem Hyb.store_inv (s : Hyb) (k : Key) (v : Val) (d : Nat) (h : s.Inv) (hroom : has s.dict k = true ∨ s.dict.length < s.max) :
    (s.store k v d).Inv := by
  refine ⟨h.pos, keys_set_congr _ _ h.kac k 1 v, keys_set_congr _ _ h.kdu k d v, nodup_keys_set _ _ _ h.nodup, ?_⟩
  simp only [Hyb.store, length_set]
  have := h.bound
  split
  · exact this
  · next hh =>
    rcases hroom with hr | hr
    · exact absurd hr hh
    · omega

/-- `put` on an invariant state never raises, keeps the invariant, and says which entry left -/
theorem Hyb.put_spec (s : Hyb) (k : Key) (v : Val) (d : Nat) (h : s.Inv) :
    ∃ s' ev, s.put k v d = .ok (s', ev) ∧ s'.Inv ∧ s'.max = s.max ∧
      ((s.dict.length < s.max ∧ ev = none ∧ s' = s.store k v d) ∨
       (s.dict.length = s.max ∧ ∃ e sc, ev = some e ∧ argmin (Hyb.scores s) = some (e, sc) ∧ has s.dict e = true ∧
          s' = Hyb.store { s with dict := erase s.dict e, ac := erase s.ac e, du := erase s.du e } k v d)) := by
  unfold Hyb.put
  by_cases hfull : s.max ≤ s.dict.length
  · rw [if_pos hfull]
    have hb := h.bound
    have hp := h.pos
    obtain ⟨e, sc, ha, he, hx⟩ := Hyb.expire_spec s h (by omega)
    obtain ⟨hi1, hl1⟩ := Hyb.expire_inv s h e he
    rw [hx]
    refine ⟨_, _, rfl, Hyb.store_inv _ k v d hi1 (Or.inr (by simp only; omega)), rfl, Or.inr ⟨by omega, e, sc, rfl, ha, he, rfl⟩⟩
  · rw [if_neg hfull]
    refine ⟨_, _, rfl, Hyb.store_inv s k v d h (Or.inr (by omega)), rfl, Or.inl ⟨by omega, rfl, rfl⟩⟩

theorem Hyb.get_spec (s : Hyb) (k : Key) (h : s.Inv) :
    ∃ s', s.get k = .ok (s', lookup s.dict k) ∧ s'.Inv ∧ s'.dict = s.dict ∧ s'.max = s.max := by
  unfold Hyb.get
  cases hl : lookup s.dict k with
  | none => exact ⟨s, rfl, h, rfl, rfl⟩
  | some v =>
    have hd : has s.dict k = true := by simp [has, hl]
    have hac : has s.ac k = true := by rw [has_congr_keys _ _ h.kac]; exact hd
    obtain ⟨a, ha⟩ := Option.isSome_iff_exists.mp hac
    simp only [ha]
    refine ⟨_, rfl, ⟨h.pos, ?_, h.kdu, h.nodup, h.bound⟩, rfl, rfl⟩
    simp only [keys_set, hac, if_true]
    exact h.kac

theorem Hyb.clear_inv (s : Hyb) (h : s.Inv) : s.clear.Inv :=
  ⟨h.pos, rfl, rfl, by simp [Hyb.clear, keys], by simp [Hyb.clear]⟩

theorem hyb_lawful : Lawful hybSem Hyb.Inv where
  total := by
    intro s op hs _
    cases op with
    | put k v d =>
      obtain ⟨s', ev, hp, hi, _⟩ := Hyb.put_spec s k v d hs
      exact ⟨s', .unit, by simp [hybSem, Hyb.step, hp], hi⟩
    | get k =>
      obtain ⟨s', hg, hi, _⟩ := Hyb.get_spec s k hs
      exact ⟨s', .val (lookup s.dict k), by simp [hybSem, Hyb.step, hg], hi⟩
    | has k => exact ⟨s, _, rfl, hs⟩
    | len => exact ⟨s, _, rfl, hs⟩
    | clear => exact ⟨s.clear, _, rfl, Hyb.clear_inv s hs⟩
    | reopen _ _ => exact ⟨s, _, rfl, hs⟩
  get_obs := by
    intro s k s' o hs h
    obtain ⟨s1, hg, _⟩ := Hyb.get_spec s k hs
    simp only [hybSem, Hyb.step, hg] at h
    cases h; rfl
  has_obs := by
    intro s k s' o _ h
    simp only [hybSem, Hyb.step] at h
    cases h; exact ⟨rfl, rfl⟩
  put_self := by
    intro s k v d s' o hs h
    obtain ⟨s1, ev, hp, _, _, hc⟩ := Hyb.put_spec s k v d hs
    simp only [hybSem, Hyb.step, hp] at h
    cases h
    simp only [hybSem, Hyb.view]
    rcases hc with ⟨_, _, hd⟩ | ⟨_, e, sc, _, _, _, hd⟩ <;> rw [hd] <;> simp [Hyb.store]
  frame := by
    intro s op s' o k x hs h hv
    cases op with
    | put k' v d =>
      obtain ⟨s1, ev, hp, _, _, hc⟩ := Hyb.put_spec s k' v d hs
      simp only [hybSem, Hyb.step, hp] at h
      cases h
      simp only [hybSem, Hyb.view, recent] at hv ⊢
      split
      · next e =>
        subst e
        rcases hc with ⟨_, _, hd⟩ | ⟨_, e, sc, _, _, _, hd⟩ <;> rw [hd] at hv <;> simpa [Hyb.store] using hv
      · next e =>
        rcases hc with ⟨_, _, hd⟩ | ⟨_, e', sc, _, _, _, hd⟩
        · rw [hd] at hv; simp only [Hyb.store] at hv; rwa [lookup_set_ne _ _ _ _ e] at hv
        · rw [hd] at hv; simp only [Hyb.store] at hv; rw [lookup_set_ne _ _ _ _ e] at hv
          exact lookup_erase_some _ _ _ _ hv
    | get k' =>
      obtain ⟨s1, hg, _, hd, _⟩ := Hyb.get_spec s k' hs
      simp only [hybSem, Hyb.step, hg] at h
      cases h
      simp only [hybSem, Hyb.view, recent, hd] at hv ⊢; exact hv
    | has _ => simp only [hybSem, Hyb.step] at h; cases h; exact hv
    | len => simp only [hybSem, Hyb.step] at h; cases h; exact hv
    | clear => simp only [hybSem, Hyb.step] at h; cases h; simp [hybSem, Hyb.view, Hyb.clear, lookup] at hv
    | reopen _ _ => simp only [hybSem, Hyb.step] at h; cases h; exact hv

/-! ### `max_size` never changes along a run -/

theorem LRU.step_max (s s' : LRU) (op : Op) (o : Obs) (hi : s.Inv) (h : s.step op = .ok (s', o)) : s'.max = s.max := by
  cases op with
  | put k v d =>
    obtain ⟨s1, hp, _, hm, _⟩ := LRU.put_spec s k v hi
    simp only [LRU.step, hp] at h; cases h; exact hm
  | get k =>
    obtain ⟨s1, hg, _, _, hm, _⟩ := LRU.get_spec s k hi
    simp only [LRU.step, hg] at h; cases h; exact hm
  | has _ => simp only [LRU.step] at h; cases h; rfl
  | len => simp only [LRU.step] at h; cases h; rfl
  | clear => simp only [LRU.step] at h; cases h; rfl
  | reopen _ _ => simp only [LRU.step] at h; cases h; rfl

theorem Hyb.step_max (s s' : Hyb) (op : Op) (o : Obs) (hi : s.Inv) (h : s.step op = .ok (s', o)) : s'.max = s.max := by
  cases op with
  | put k v d =>
    obtain ⟨s1, ev, hp, _, hm, _⟩ := Hyb.put_spec s k v d hi
    simp only [Hyb.step, hp] at h; cases h; exact hm
  | get k =>
    obtain ⟨s1, hg, _, _, hm⟩ := Hyb.get_spec s k hi
    simp only [Hyb.step, hg] at h; cases h; exact hm
  | has _ => simp only [Hyb.step] at h; cases h; rfl
  | len => simp only [Hyb.step] at h; cases h; rfl
  | clear => simp only [Hyb.step] at h; cases h; rfl
  | reopen _ _ => simp only [Hyb.step] at h; cases h; rfl

theorem lru_run_max (h : List Op) : ∀ (s s' : LRU) os, s.Inv → (∀ op ∈ h, op.WF) → lruSem.run s h = .ok (s', os) → s'.max = s.max := by
  induction h with
  | nil => intro s s' os _ _ hr; simp only [Sem.run] at hr; cases hr; rfl
  | cons op h ih =>
    intro s s' os hi hwf hr
    obtain ⟨s1, o, h1, hi1⟩ := lru_lawful.total s op hi (hwf op (by simp))
    simp only [Sem.run, h1] at hr
    cases h2 : lruSem.run s1 h with
    | error e => simp [h2] at hr
    | ok p =>
      obtain ⟨s2, os2⟩ := p
      simp only [h2] at hr; cases hr
      rw [ih s1 s' os2 hi1 (fun op' hm => hwf op' (List.mem_cons_of_mem _ hm)) h2]
      exact LRU.step_max s s1 op o hi h1

theorem hyb_run_max (h : List Op) : ∀ (s s' : Hyb) os, s.Inv → (∀ op ∈ h, op.WF) → hybSem.run s h = .ok (s', os) → s'.max = s.max := by
  induction h with
  | nil => intro s s' os _ _ hr; simp only [Sem.run] at hr; cases hr; rfl
  | cons op h ih =>
    intro s s' os hi hwf hr
    obtain ⟨s1, o, h1, hi1⟩ := hyb_lawful.total s op hi (hwf op (by simp))
    simp only [Sem.run, h1] at hr
    cases h2 : hybSem.run s1 h with
    | error e => simp [h2] at hr
    | ok p =>
      obtain ⟨s2, os2⟩ := p
      simp only [h2] at hr; cases hr
      rw [ih s1 s' os2 hi1 (fun op' hm => hwf op' (List.mem_cons_of_mem _ hm)) h2]
      exact Hyb.step_max s s1 op o hi h1

end PF.Cache
