import PfModel.Model.MapPiecesScope
/-! helper for `Props/C06Scope.lean` -/
namespace PF.Pieces
open PF PF.Map

theorem flatMap_map_single (s : List Nat) (fn : String) :
    (s.map fun x => ({ func := fn, seq := some [x] } : Learner)).flatMap pointsOf = s := by
  induction s with
  | nil => rfl
  | cons x xs ih => simp only [List.map_cons, List.flatMap_cons, pointsOf, Option.getD_some, List.singleton_append] at ih ⊢; rw [ih]

end PF.Pieces
