/-
Variants of the key computation of `pipefunc/_pipeline/_cache.py:compute_cache_key` that the pinned code does NOT use, kept as
executable definitions so that the reason for the pinned choice is a checked fact (`PfModel/Props/C09Keys.lean`).

`compute_cache_key` returns `None` (the function is not cached for this call) as soon as one root argument of the requested
output is neither supplied nor a default of the cached function itself — this is how a function DOWNSTREAM of the owner of a
defaulted parameter behaves when the call relies on that default.  `computeKeySkip` is the tempting alternative "leave that
argument out of the key" (seeded change C09-s3-A).
-/
import PfModel.Model.PipeCache
namespace PF.PipeCache
open PF PF.Pipe

/-- the loop of `compute_cache_key` with `continue` in place of `return None` -/
def collectSkip {H} (view : String → Option Val) (h : Val → H) : List String → List (String × H)
  | [] => []
  | x :: xs =>
    match view x with
    | none => collectSkip view h xs
    | some v => (x, h v) :: collectSkip view h xs

/-- `computeKey` with the skipping loop: a key exists whenever no intermediate is supplied -/
def computeKeySkip {H} (h : Val → H) (fs : List Func) (kw : List (String × Val)) (f : Func) (o : String) : Option (Key H) :=
  if intermediateSupplied fs kw o then none else some ⟨f.outputs, collectSkip (keyView fs f kw) h (rootsOf fs o)⟩

end PF.PipeCache
