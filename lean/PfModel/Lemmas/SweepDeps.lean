/-
`func_dependencies` (`PF.Pipe.funcDeps`, the breadth-first traversal of `_traverse_graph`) characterised: with the fuel
that `countDeps` gives it, the result is exactly the set of strict ancestors of the start function, without repeats.
Core Lean only.
-/
import PfModel.Model.Pipeline
namespace PF.Pipe
open PF

/-- one backward step of the dependency graph: function `j` produces a (non-bound) parameter of function `k`;
    self-loops dropped as in `funcDeps` -/
def Step (fs : List Func) (k j : Nat) : Prop := Node.fn j ∈ preds fs k ∧ j ≠ k

/-- `j` is a strict ancestor of `i` -/
inductive Reach (fs : List Func) (i : Nat) : Nat → Prop
  | one {j} : Step fs i j → Reach fs i j
  | more {k j} : Reach fs i k → Step fs k j → Reach fs i j

/-! ### small facts -/

theorem producerIdx_lt {fs : List Func} {o : String} {j : Nat} (h : producerIdx fs o = some j) : j < fs.length := by
  unfold producerIdx at h
  rw [List.findIdx?_eq_some_iff_getElem] at h
  exact h.1

/-- a function that is a predecessor is a position in the list -/
theorem preds_fn_lt {fs : List Func} {k j : Nat} (h : Node.fn j ∈ preds fs k) : j < fs.length := by
  unfold preds at h
  rw [List.mem_filterMap] at h
  obtain ⟨⟨p, q⟩, _, hp⟩ := h
  dsimp only at hp
  split at hp
  · cases hp
  · split at hp
    · rename_i j' hj'
      cases hp
      exact producerIdx_lt hj'
    · cases hp

theorem Step.lt {fs : List Func} {k j : Nat} (h : Step fs k j) : j < fs.length := preds_fn_lt h.1

theorem Reach.lt {fs : List Func} {i j : Nat} (h : Reach fs i j) : j < fs.length := by
  cases h with
  | one h => exact h.lt
  | more _ h => exact h.lt

theorem nodup_eraseDups_aux (n : Nat) : ∀ (l : List Nat), l.length ≤ n → l.eraseDups.Nodup := by
  induction n with
  | zero =>
    intro l hl
    cases l with
    | nil => simp
    | cons a as => simp at hl
  | succ n ih =>
    intro l hl
    cases l with
    | nil => simp
    | cons a as =>
      rw [List.eraseDups_cons, List.nodup_cons]
      refine ⟨?_, ih _ ?_⟩
      · simp
      · have := List.length_filter_le (fun b => !b == a) as
        simp only [List.length_cons] at hl
        omega

theorem nodup_eraseDups (l : List Nat) : l.eraseDups.Nodup := nodup_eraseDups_aux l.length l (Nat.le_refl _)

/-- pigeonhole: a list of distinct numbers below `n` has at most `n` elements -/
theorem length_le_of_nodup_lt (n : Nat) : ∀ (l : List Nat), l.Nodup → (∀ x ∈ l, x < n) → l.length ≤ n := by
  induction n with
  | zero =>
    intro l _ hlt
    cases l with
    | nil => simp
    | cons a as => exact absurd (hlt a (by simp)) (by omega)
  | succ n ih =>
    intro l hnd hlt
    have h1 : (l.erase n).length ≤ n := by
      apply ih
      · exact hnd.erase n
      · intro x hx
        rw [hnd.mem_erase_iff] at hx
        have := hlt x hx.2
        omega
    have h2 := List.length_erase_le (a := n) (l := l)
    by_cases hm : n ∈ l
    · rw [List.length_erase_of_mem hm] at h1
      omega
    · rw [List.erase_of_not_mem hm] at h1
      omega

/-! ### one round of the traversal -/

/-- the positions that one round adds: the not yet seen function predecessors of `t`, first occurrences only -/
def newOf (fs : List Func) (seen : List Nat) (t : Nat) : List Nat :=
  ((preds fs t).filterMap fun n => match n with
    | .fn j => if seen.contains j || j = t then none else some j
    | .root _ => none).eraseDups

theorem mem_newOf {fs : List Func} {seen : List Nat} {t j : Nat} :
    j ∈ newOf fs seen t ↔ Step fs t j ∧ j ∉ seen := by
  unfold newOf Step
  rw [List.mem_eraseDups, List.mem_filterMap]
  constructor
  · rintro ⟨n, hn, h⟩
    cases n with
    | root p => simp at h
    | fn j' =>
      dsimp only at h
      split at h
      · cases h
      · rename_i hc
        cases h
        simp only [List.contains_iff_mem, Bool.or_eq_true, decide_eq_true_eq, not_or] at hc
        exact ⟨⟨hn, hc.2⟩, hc.1⟩
  · rintro ⟨⟨hn, hne⟩, hs⟩
    refine ⟨.fn j, hn, ?_⟩
    dsimp only
    rw [if_neg]
    simp only [List.contains_iff_mem, Bool.or_eq_true, decide_eq_true_eq, not_or]
    exact ⟨hs, hne⟩

theorem newOf_nodup (fs : List Func) (seen : List Nat) (t : Nat) : (newOf fs seen t).Nodup :=
  nodup_eraseDups _

theorem filter_newOf (fs : List Func) (seen : List Nat) (t : Nat) :
    (newOf fs seen t).filter (fun j => !(seen.contains j)) = newOf fs seen t := by
  rw [List.filter_eq_self]
  intro j hj
  have := (mem_newOf.1 hj).2
  simp [this]

theorem funcDeps_cons (fs : List Func) (fuel t : Nat) (rest seen : List Nat) :
    funcDeps fs (fuel + 1) (t :: rest) seen
      = funcDeps fs fuel (rest ++ newOf fs seen t) (seen ++ newOf fs seen t) := by
  rw [funcDeps]
  show funcDeps fs fuel (rest ++ newOf fs seen t)
    (seen ++ (newOf fs seen t).filter (fun j => !(seen.contains j))) = _
  rw [filter_newOf]

theorem funcDeps_zero (fs : List Func) (todo seen : List Nat) : funcDeps fs 0 todo seen = seen := by
  rw [funcDeps]

theorem funcDeps_nil (fs : List Func) (fuel : Nat) (seen : List Nat) : funcDeps fs fuel [] seen = seen := by
  cases fuel <;> rw [funcDeps]

theorem nodup_append_newOf {fs : List Func} {seen : List Nat} (t : Nat) (h : seen.Nodup) :
    (seen ++ newOf fs seen t).Nodup := by
  rw [List.nodup_append]
  refine ⟨h, newOf_nodup fs seen t, ?_⟩
  intro a ha b hb hab
  subst hab
  exact (mem_newOf.1 hb).2 ha

/-! ### no repeats -/

theorem funcDeps_nodup_gen (fs : List Func) : ∀ (fuel : Nat) (todo seen : List Nat),
    seen.Nodup → (funcDeps fs fuel todo seen).Nodup := by
  intro fuel
  induction fuel with
  | zero => intro todo seen h; rw [funcDeps_zero]; exact h
  | succ fuel ih =>
    intro todo seen h
    cases todo with
    | nil => rw [funcDeps_nil]; exact h
    | cons t rest =>
      rw [funcDeps_cons]
      exact ih _ _ (nodup_append_newOf t h)

theorem funcDeps_nodup (fs : List Func) (i : Nat) (fuel : Nat) : (funcDeps fs fuel [i] []).Nodup :=
  funcDeps_nodup_gen fs fuel [i] [] List.nodup_nil

/-! ### soundness: every reported position is a strict ancestor -/

theorem funcDeps_sound_gen (fs : List Func) (i : Nat) : ∀ (fuel : Nat) (todo seen : List Nat),
    (∀ x ∈ todo, x = i ∨ Reach fs i x) → (∀ x ∈ seen, Reach fs i x) →
    ∀ x ∈ funcDeps fs fuel todo seen, Reach fs i x := by
  intro fuel
  induction fuel with
  | zero => intro todo seen _ hs; rw [funcDeps_zero]; exact hs
  | succ fuel ih =>
    intro todo seen ht hs
    cases todo with
    | nil => rw [funcDeps_nil]; exact hs
    | cons t rest =>
      rw [funcDeps_cons]
      have hnew : ∀ x ∈ newOf fs seen t, Reach fs i x := by
        intro x hx
        have hst := (mem_newOf.1 hx).1
        cases ht t (by simp) with
        | inl h => subst h; exact .one hst
        | inr h => exact .more h hst
      apply ih
      · intro x hx
        rw [List.mem_append] at hx
        cases hx with
        | inl h => exact ht x (by simp [h])
        | inr h => exact Or.inr (hnew x h)
      · intro x hx
        rw [List.mem_append] at hx
        cases hx with
        | inl h => exact hs x h
        | inr h => exact hnew x h

theorem funcDeps_sound (fs : List Func) (i j : Nat) (fuel : Nat) :
    j ∈ funcDeps fs fuel [i] [] → Reach fs i j :=
  funcDeps_sound_gen fs i fuel [i] [] (by simp) (by simp) j

/-! ### completeness: with enough fuel every strict ancestor is reported -/

/-- the result is closed under `Step`, provided the fuel covers the work left: the queue, plus one round for every position
    not yet seen -/
theorem funcDeps_closed_gen (fs : List Func) (i : Nat) : ∀ (fuel : Nat) (todo seen : List Nat),
    seen.Nodup → (∀ x ∈ seen, x < fs.length) →
    todo.length + (fs.length - seen.length) ≤ fuel →
    (∀ k, (k = i ∨ k ∈ seen) → k ∈ todo ∨ ∀ j, Step fs k j → j ∈ seen) →
    ∀ k, (k = i ∨ k ∈ funcDeps fs fuel todo seen) → ∀ j, Step fs k j → j ∈ funcDeps fs fuel todo seen := by
  intro fuel
  induction fuel with
  | zero =>
    intro todo seen _ _ hm hinv k hk j hj
    rw [funcDeps_zero] at hk ⊢
    cases todo with
    | nil =>
      cases hinv k hk with
      | inl h => simp at h
      | inr h => exact h j hj
    | cons t rest => simp only [List.length_cons] at hm; omega
  | succ fuel ih =>
    intro todo seen hnd hlt hm hinv
    cases todo with
    | nil =>
      intro k hk j hj
      rw [funcDeps_nil] at hk ⊢
      cases hinv k hk with
      | inl h => simp at h
      | inr h => exact h j hj
    | cons t rest =>
      rw [funcDeps_cons]
      have hnd' := nodup_append_newOf (fs := fs) t hnd
      have hlt' : ∀ x ∈ seen ++ newOf fs seen t, x < fs.length := by
        intro x hx
        rw [List.mem_append] at hx
        cases hx with
        | inl h => exact hlt x h
        | inr h => exact (mem_newOf.1 h).1.lt
      have hlen := length_le_of_nodup_lt fs.length _ hnd' hlt'
      apply ih _ _ hnd' hlt'
      · simp only [List.length_append, List.length_cons] at hm hlen ⊢
        omega
      · intro k hk
        have hk' : (k = i ∨ k ∈ seen) ∨ k ∈ newOf fs seen t := by
          rw [List.mem_append] at hk
          cases hk with
          | inl h => exact Or.inl (Or.inl h)
          | inr h =>
            cases h with
            | inl h => exact Or.inl (Or.inr h)
            | inr h => exact Or.inr h
        cases hk' with
        | inr h => exact Or.inl (List.mem_append.2 (Or.inr h))
        | inl h =>
          cases hinv k h with
          | inr hcl => exact Or.inr fun j hj => List.mem_append.2 (Or.inl (hcl j hj))
          | inl hmem =>
            rw [List.mem_cons] at hmem
            cases hmem with
            | inr hr => exact Or.inl (List.mem_append.2 (Or.inl hr))
            | inl he =>
              subst he
              refine Or.inr fun j hj => ?_
              rw [List.mem_append]
              by_cases hjs : j ∈ seen
              · exact Or.inl hjs
              · exact Or.inr (mem_newOf.2 ⟨hj, hjs⟩)

theorem fuel_enough (n : Nat) : 1 + n ≤ n * n + 2 := by
  have := Nat.le_mul_self n
  omega

theorem funcDeps_complete (fs : List Func) (i j : Nat) (hi : i < fs.length) :
    Reach fs i j → j ∈ funcDeps fs (fs.length * fs.length + 2) [i] [] := by
  intro h
  have _ := hi
  have hcl := funcDeps_closed_gen fs i (fs.length * fs.length + 2) [i] [] List.nodup_nil (by simp)
    (by have := fuel_enough fs.length; simp only [List.length_cons, List.length_nil]; omega)
    (by intro k hk; left; simpa using hk)
  induction h with
  | one hs => exact hcl i (Or.inl rfl) _ hs
  | more _ hs ih => exact hcl _ (Or.inr ih) _ hs

theorem mem_funcDeps_iff (fs : List Func) (i j : Nat) (hi : i < fs.length) :
    j ∈ funcDeps fs (fs.length * fs.length + 2) [i] [] ↔ Reach fs i j :=
  ⟨funcDeps_sound fs i j _, funcDeps_complete fs i j hi⟩

end PF.Pipe
