import PfModel.Model.Sweep
import PfModel.Lemmas.Sweep
import PfModel.Lemmas.SweepProduct
/-!
# C17 — Sweeps enumerate exactly the documented combinations

All theorems are about the executable definitions of `PfModel/Model/Sweep.lean` (the ones `Driver/C17.lean` runs), for an
arbitrary value type `V` and arbitrary derivers / exclude predicates.
-/
namespace PF.C17
open PF.Sweep

variable {V : Type}

/-- **list() / iteration.**  For every well-formed sweep, `generate` does not raise and yields exactly `specList`: the
    Cartesian product of the zipped groups in row-major order (groups = the dimensions in item order when `dims` is omitted
    or is just the set of names, else the groups of `dims` in the order given), every combination extended by the constants
    (`setdefault`), then by the derivers in order, and dropped when `exclude` holds; nothing for a sweep without items. -/
theorem C17_list (s : Sweep V) (h : wf s = true) : generate s = .ok (specList s) := by
  have hk := wf_items h
  unfold generate specList
  by_cases he : s.items.isEmpty = true
  · simp [he]
  · simp only [he, if_false, Bool.false_eq_true]
    by_cases hf : fullBranch s = true
    · simp only [hf, if_true, effGroups]
      congr 1
      have e1 : (fun res => finish s (ofPairs ((keys s.items).zip res))) = (fun c => finish s c) ∘ (fun res => (keys s.items).zip res) := by
        funext res; simp [ofPairs_zip hk res]
      rw [e1, ← List.filterMap_map, ← cart_singletons, ← map_col_keys s.items hk, finish_filterMap]
      simp [keys, List.map_map, Function.comp_def]
    · simp only [hf, if_false, Bool.false_eq_true, effGroups]
      cases hd : s.dims with
      | none => simp [fullBranch, hd] at hf
      | some d =>
        obtain ⟨hnd, hg⟩ := wf_dims h hd
        have hgn : ∀ g ∈ d, groupOK s.items g = true ∧ g.keys.Nodup := by
          intro g hgm
          refine ⟨hg g hgm, ?_⟩
          have hsub : List.Sublist g.keys (d.flatMap Group.keys) := by
            clear hnd hg hd
            induction d with
            | nil => simp at hgm
            | cons g' r ih =>
              simp only [List.flatMap_cons]
              rcases List.mem_cons.mp hgm with e | hm
              · subst e; exact List.sublist_append_left _ _
              · exact (ih hm).trans (List.sublist_append_right _ _)
          exact hnd.sublist hsub
        simp only [Option.getD_some, parts_ok hgn]
        congr 1
        rw [← finish_filterMap, List.filterMap_map]
        have em : List.map (zipGroup s.items) (List.map Group.keys d) = List.map (fun g => zipGroup s.items g.keys) d := by
          simp [List.map_map, Function.comp_def]
        rw [em]
        apply filterMap_congr_mem
        intro combo hc
        have hc' : combo ∈ cart ((d.map Group.keys).map (zipGroup s.items)) := by rw [em]; exact hc
        have hsub := keys_flatten_sublist s.items (d.map Group.keys) combo hc'
        have : (keys combo.flatten).Nodup := by
          apply List.Nodup.sublist hsub
          simpa [List.flatMap_def] using hnd
        simp [mergeDicts_of_nodup combo this]

/-- **Row-major order.**  When `dims` is omitted the groups are the dimensions in item order; when `dims` lists its groups
    in item order the groups are exactly the groups of `dims` in that order.  With `C17_list` (and `cart`, whose first factor
    varies slowest) this is the row-major order of the statement. -/
theorem C17_list_rowmajor (s : Sweep V) :
    (s.dims = none → effGroups s = (keys s.items).map (fun k => [k])) ∧
    (∀ d, s.dims = some d → (d.map Group.keys).flatten = keys s.items → effGroups s = d.map Group.keys) := by
  constructor
  · intro h; simp [effGroups, fullBranch, h]
  · intro d hd hflat
    unfold effGroups
    by_cases hf : fullBranch s = true
    · simp only [hf, if_true]
      simp only [fullBranch, hd, setEqKeys, Bool.and_eq_true, List.all_eq_true] at hf
      have hstr : ∀ g ∈ d, ∃ k, g = Group.str k := by
        intro g hg
        have := hf.1 g hg
        cases g with
        | str k => exact ⟨k, rfl⟩
        | tup _ => simp at this
      rw [← hflat]
      clear hf hd hflat
      induction d with
      | nil => rfl
      | cons g r ih =>
        obtain ⟨k, rfl⟩ := hstr g (by simp)
        simp only [List.map_cons, Group.keys, List.flatten_cons, List.singleton_append]
        rw [ih (fun g' hg' => hstr g' (by simp [hg']))]
    · simp [hf, hd]

/-- **len.**  Whenever `list()` does not raise, `len(sweep) == len(sweep.list())` (for every sweep, well formed or not). -/
theorem C17_len (s : Sweep V) (l : List (Dict V)) (h : generate s = .ok l) : len s = .ok l.length := by
  unfold len
  unfold generate at h
  by_cases he : s.items.isEmpty = true
  · simp only [he, if_true, Except.ok.injEq] at h ⊢
    subst h; rfl
  · simp only [he, if_false, Bool.false_eq_true] at h ⊢
    by_cases hx : s.exclude.isSome = true
    · simp only [hx, if_true]
      unfold generate
      simp only [he, if_false, Bool.false_eq_true, h]
    · simp only [hx, if_false, Bool.false_eq_true]
      have hnone : s.exclude = none := by
        cases hs : s.exclude with
        | none => rfl
        | some _ => simp [hs] at hx
      by_cases hf : fullBranch s = true
      · simp only [hf, if_true, Except.ok.injEq] at h ⊢
        subst h
        rw [length_filterMap_finish s hnone (fun res => ofPairs ((keys s.items).zip res)), length_cart, foldl_mul_length, Nat.one_mul]
      · simp only [hf, if_false, Bool.false_eq_true] at h ⊢
        split at h
        · cases h
        · next ps hps =>
          simp only [Except.ok.injEq] at h
          subst h
          rw [lenDims_of_parts hps, length_filterMap_finish s hnone (fun combo => mergeDicts combo), length_cart]

/-- **MultiSweep.**  A `MultiSweep` yields the concatenation of its members' combinations, in order (the first member that
    raises makes the whole enumeration raise). -/
theorem C17_multi (l : List (SW V)) :
    (SW.multi l).generate = l.foldr (fun x acc => seqApp x.generate acc) (.ok []) := by
  simp only [SW.generate]
  induction l with
  | nil => rfl
  | cons x r ih => rw [generateL_cons, ih, List.foldr_cons]

/-- **`+`.**  `x + y` yields the combinations of `x` followed by those of `y`, whatever mixture of `Sweep`s and
    `MultiSweep`s the operands are. -/
theorem C17_add (x y : SW V) : (x.add y).generate = seqApp x.generate y.generate := by
  have nil : SW.generateL ([] : List (SW V)) = .ok [] := rfl
  cases x with
  | single s =>
    show SW.generateL [SW.single s, y] = _
    rw [generateL_cons, generateL_cons, nil, seqApp_ok_nil]
  | multi l =>
    cases y with
    | single o =>
      show SW.generateL (l ++ [SW.single o]) = seqApp (SW.generateL l) _
      rw [generateL_append, generateL_cons, nil, seqApp_ok_nil]
    | multi l' =>
      show SW.generateL (l ++ l') = seqApp (SW.generateL l) (SW.generateL l')
      rw [generateL_append]

mutual
/-- **len of sums.**  `len` of any `Sweep` / `MultiSweep` tree equals the number of combinations it yields. -/
theorem C17_len_multi (x : SW V) (l : List (Dict V)) (h : x.generate = .ok l) : x.len = .ok l.length := by
  cases x with
  | single s => exact C17_len s l h
  | multi xs => simp only [SW.generate] at h; simp only [SW.len]; exact C17_len_members xs l h
theorem C17_len_members (xs : List (SW V)) (l : List (Dict V)) (h : SW.generateL xs = .ok l) :
    SW.lenL xs = .ok l.length := by
  cases xs with
  | nil => simp only [SW.generateL, Except.ok.injEq] at h; subst h; rfl
  | cons x r =>
    simp only [SW.generateL] at h
    split at h
    · cases h
    · next a ha =>
      split at h
      · cases h
      · next b hb =>
        simp only [Except.ok.injEq] at h
        subst h
        simp only [SW.lenL, C17_len_multi x a ha, C17_len_members r b hb, List.length_append]
end

/-- **product with an empty operand** (DF-26).  If the receiver or any other operand has no items, the product is a sweep
    that yields nothing — which is the Cartesian product of the operands' lists, one of them being empty. -/
theorem C17_product_empty (s : Sweep V) (others : List (Sweep V)) (o : Sweep V) (ho : o ∈ s :: others)
    (he : o.items.isEmpty = true) :
    ∃ p, product s others = .ok p ∧ generate p = .ok [] ∧ prodAll ((s :: others).map specList) = [] := by
  have hany : (s.items.isEmpty || others.any (fun o => o.items.isEmpty)) = true := by
    rcases List.mem_cons.mp ho with e | hm
    · subst e; simp [he]
    · simp only [Bool.or_eq_true, List.any_eq_true]; exact Or.inr ⟨o, hm, he⟩
  refine ⟨{ items := [] }, by simp [product, hany], by simp [generate], ?_⟩
  apply prodAll_of_nil_mem
  simp only [List.mem_map]
  exact ⟨o, ho, by simp [specList, he]⟩

/-- **product: constants, derivers and exclude of all operands** (DF-08) — the part of the product clause that is proved.
    Let `p = product s others` for operands with items, whose names (dimensions, constants, deriver outputs) are pairwise
    disjoint and whose derivers / exclude read only names of their own operand (`LocalFns`; the code applies every function to
    the *merged* dictionary, which is the same thing under this side-condition and is not the same without it).  Then for
    any raw combinations `Bs` of the operands (one list per operand, entries named within the operand), finishing the merged
    raw combinations with `p`'s constants, derivers and exclude gives — as dictionaries, in order — the Cartesian product of
    the operands' own finished lists.

    *Round 2:* the missing half is proved — `C17_product_enum` / `C17_product` in `Props/C17Ext.lean`.
    *Was missing for the full clause* (covered by the correspondence check, where the driver also confirms `wf p` on every
    generated case): that the raw combinations of `p` are the merged raw combinations of the operands, i.e. that the merged
    `items` / `dims` enumerate `prodAll` of the operands' zipped groups.  That part is false on the pinned code exactly when
    the receiver has `dims = none` and another operand has `dims` (known finding DF-07, witness below). -/
theorem C17_product_partial (s : Sweep V) (others : List (Sweep V)) (p : Sweep V) (hp : product s others = .ok p)
    (hne : (s.items.isEmpty || others.any (fun o => o.items.isEmpty)) = false)
    (hc : (keys ((s :: others).flatMap (fun o => o.constants.getD []))).Nodup)
    (hd : (keys ((s :: others).flatMap (fun o => o.derivers.getD []))).Nodup)
    (hdisj : (s :: others).Pairwise (fun a b => ∀ k ∈ ownKeys a, k ∉ ownKeys b))
    (hloc : ∀ o ∈ s :: others, LocalFns o)
    (Bs : List (List (Dict V))) (hlen : Bs.length = (s :: others).length)
    (hB : ∀ ob ∈ (s :: others).zip Bs, ∀ c ∈ ob.2, ∀ k ∈ keys c, k ∈ ownKeys ob.1) :
    ((prodAll Bs).filterMap (finish p)).map lookup =
      (prodAll (((s :: others).zip Bs).map (fun ob => ob.2.filterMap (finish ob.1)))).map lookup := by
  have hfin : finish p = (combAll (((s :: others).zip Bs).map operandOf)).run := by
    funext c
    rw [finish_eq_run, finOf_product s others p hne hc hd hp Bs hlen]
  have hBs : (((s :: others).zip Bs).map operandOf).map (·.B) = Bs := by
    simp only [List.map_map, Function.comp_def, operandOf]
    exact List.map_snd_zip (by omega)
  have hfst : ((s :: others).zip Bs).map Prod.fst = s :: others := List.map_fst_zip (by omega)
  have hmain := prodAll_filterMap (((s :: others).zip Bs).map operandOf)
    (by
      intro o ho
      simp only [List.mem_map] at ho
      obtain ⟨ob, hob, rfl⟩ := ho
      exact finOf_local (hloc ob.1 (by rw [← hfst]; exact List.mem_map_of_mem hob)))
    (by
      intro o ho
      simp only [List.mem_map] at ho
      obtain ⟨ob, hob, rfl⟩ := ho
      exact hB ob hob)
    (by
      rw [List.pairwise_map]
      have : List.Pairwise (fun a b : Sweep V => ∀ k ∈ ownKeys a, k ∉ ownKeys b) (((s :: others).zip Bs).map Prod.fst) := by
        rw [hfst]; exact hdisj
      rw [List.pairwise_map] at this
      exact this)
  rw [hBs] at hmain
  rw [hfin, hmain]
  congr 2
  simp only [List.map_map, Function.comp_def, operandOf]
  apply List.map_congr_left
  intro ob _
  congr 1
  funext c
  exact (finish_eq_run ob.1 c).symm

section Count
variable [DecidableEq V]

/-- **count_sweep.**  For every dependency `(output, root_args)` of the requested output, in order, `countSweep` reports a
    table that maps each root-argument tuple to the number of combinations having that tuple; a tuple occurs in the table
    once, and only if at least one combination has it.  (`countSweep` raises `KeyError` when a combination lacks a root
    argument; the statement is about the runs that do not raise.) -/
theorem C17_count (deps : List (String × List Key)) (combos : List (Dict V)) (r : List (String × List (List V × Nat)))
    (h : countSweep deps combos = .ok r) :
    r.map Prod.fst = deps.map Prod.fst ∧
    ∀ d c, (d, c) ∈ deps.zip r →
      (∀ t, cntGet c.2 t = (combos.filter (hasTuple d.2 t)).length) ∧ (c.2.map Prod.fst).Nodup ∧ ∀ p ∈ c.2, p.2 > 0 := by
  induction deps generalizing r with
  | nil =>
    simp only [countSweep, Except.ok.injEq] at h
    subst h; simp
  | cons d rest ih =>
    obtain ⟨o, args⟩ := d
    simp only [countSweep] at h
    split at h
    · cases h
    · next cnt hc =>
      split at h
      · cases h
      · next r' hr =>
        simp only [Except.ok.injEq] at h
        subst h
        obtain ⟨ih1, ih2⟩ := ih r' hr
        obtain ⟨c1, c2, c3⟩ := countArgs_spec args combos [] cnt hc
        refine ⟨by simp [ih1], ?_⟩
        intro d c hm
        simp only [List.zip_cons_cons, List.mem_cons, Prod.mk.injEq] at hm
        rcases hm with ⟨rfl, rfl⟩ | hm
        · exact ⟨fun t => by simpa [cntGet] using c1 t, c2 (by simp), c3 (by simp)⟩
        · exact ih2 d c hm

end Count

section Filtered
variable [DecidableEq V]

/-- **filtered_sweep, branch for sweeps with derivers** — the part of the clause that is proved.  The filtered sweep is built
    from the projections of all combinations of `s` onto `keys`, each distinct tuple of values kept once (first
    occurrence): its single zipped group `keys` has the columns of those distinct tuples.

    *Round 2:* the read-back for this branch is now proved — `C17_filtered_derivers` in `Props/C17Ext.lean` (`generate` of the
    result is exactly `distinctFold` of the projections, and `len` their number).
    *Missing for the full clause* (covered by the correspondence check: random sweeps in both tiers, every sweep with <= 2
    dimensions over {0,1} and every key subset in the thorough tier): that `generate` of the result reads the columns back
    as exactly these tuples, and the branch without derivers, where the fixed code (DF-09, DF-C17-01) removes repeated rows of
    every remaining zipped group instead of enumerating the sweep. -/
theorem C17_filtered_partial (s f : Sweep V) (ks : List Key) (hd : s.derivers.isSome = true)
    (h : filtered s ks = .ok f) :
    ∃ combos ps, generate s = .ok combos ∧ projectAll ks combos = .ok ps ∧
      f.items = columnsOf ks (distinctFold (ps.map vals)) ∧ f.dims = some [.tup ks] ∧
      (distinctFold (ps.map vals)).Nodup ∧ ∀ r, r ∈ distinctFold (ps.map vals) ↔ r ∈ ps.map vals := by
  unfold filtered at h
  simp only [hd, if_true] at h
  split at h
  · cases h
  · next combos hc =>
    split at h
    · cases h
    · next ps hps =>
      simp only [Except.ok.injEq] at h
      subst h
      exact ⟨combos, ps, hc, hps, rfl, rfl, distinctFold_nodup _, mem_distinctFold _⟩

end Filtered

/-! ### Non-vacuity and witnesses -/

section Examples

def exZip : Sweep Nat := { items := [("a", [1, 2]), ("b", [3, 4]), ("c", [5, 6])], dims := some [.tup ["a", "b"], .str "c"] }

example : wf exZip = true := by decide
example : (generate exZip).toOption.map List.length = some 4 := by decide
example : (len exZip).toOption = some 4 := by decide

/-- DF-06 (fixed): a sweep without items has length 0, like its list. -/
theorem C17_DF06_witness : (len ({ items := [] } : Sweep Nat)).toOption = some 0 ∧
    (generate ({ items := [] } : Sweep Nat)).toOption = some [] := by decide

def exLeft : Sweep Nat := { items := [("a", [1, 2])] }
def exRight : Sweep Nat := { items := [("b", [1, 2]), ("c", [3, 4])], dims := some [.tup ["b", "c"]] }

/-- DF-07 (known finding, modelled as the code behaves): the receiver has `dims = none`, so the zipped group of the right
    operand is multiplied out — 8 combinations, while the Cartesian product of the operands' lists has 2 * 2 = 4. -/
theorem C17_DF07_witness :
    ((product exLeft [exRight]).toOption.bind (fun p => (generate p).toOption)).map List.length = some 8 ∧
    (prodAll ([exLeft, exRight].map specList)).length = 4 := by decide

/-- with `dims` on the receiver the same operands give the 4 documented combinations -/
example : ((product { exLeft with dims := some [.str "a"] } [exRight]).toOption.bind
    (fun p => (generate p).toOption)).map List.length = some 4 := by decide

def exDer : Sweep Nat :=
  { items := [("a", [1, 2])], derivers := some [("d", fun c => (lookup c "a").getD 0 * 10)] }
def exExc : Sweep Nat :=
  { items := [("b", [3, 4])], exclude := some (fun c => lookup c "b" == some 3), constants := some [("k", 7)] }

example : LocalFns exDer := by
  refine ⟨?_, fun _ _ _ => rfl⟩
  intro kf hkf c c' h
  simp only [exDer, Option.getD_some, List.mem_singleton] at hkf
  subst hkf
  simp only [h "a" (by simp [ownKeys, exDer, keys])]

example : LocalFns exExc := by
  refine ⟨by simp [exExc], ?_⟩
  intro c c' h
  simp only [exExc, excluded, h "b" (by simp [ownKeys, exExc, keys])]

example : [exDer, exExc].Pairwise (fun a b => ∀ k ∈ ownKeys a, k ∉ ownKeys b) := by
  simp [ownKeys, exDer, exExc, keys]

/-- DF-08 (fixed): the middle operand's exclude survives a three-way product -/
example : ((product exLeft [exExc, exDer]).toOption.bind (fun p => (generate p).toOption)).map List.length = some 2 := by
  decide

example : (filtered exDer ["d"]).toOption.bind (fun f => (generate f).toOption) = some [[("d", 10)], [("d", 20)]] := by
  decide

/-- DF-09 (fixed): duplicate projections are removed in the branch without derivers -/
example : (filtered ({ items := [("a", [1, 1]), ("b", [3, 4])] } : Sweep Nat) ["a"]).toOption.bind
    (fun f => (generate f).toOption) = some [[("a", 1)]] := by decide

/-- DF-C17-01 (fixed): nothing to project when a filtered-out dimension has no values -/
example : (filtered ({ items := [("a", []), ("b", [0, 0, 1])] } : Sweep Nat) ["b"]).toOption.bind
    (fun f => (generate f).toOption) = some [] := by decide

example : (countSweep [("c", ["a", "b"])] ([[("a", 1), ("b", 2)], [("a", 1), ("b", 2)], [("a", 2), ("b", 3)]] : List (Dict Nat))).toOption
    = some [("c", [([1, 2], 2), ([2, 3], 1)])] := by decide

end Examples

end PF.C17
