/-
Model of `pipefunc/map/_mapspec.py`: `ArraySpec`, `MapSpec` (validation, printing, shapes, index maps, rename,
add_axes) and the module functions `validate_consistent_axes`, `mapspec_axes`.  Core Lean only.

Every definition mirrors the Python named in its doc comment.  Names are `String`s; the scanners and printers work on
`List Char` (`String.toList` / `String.ofList`).  Identifiers are ASCII (`[A-Za-z_][A-Za-z0-9_]*`; the driver answers
`skip` for non-ASCII input).  `dict`s are insertion-ordered association lists with unique keys.  The private dataclass
field `_is_generated` is not part of the model (DESIGN.md C08, reading (i)).

Other properties (C01, C06, C10, C19) import this file: the two structures are deliberately plain.
-/
import PfModel.Core.Enum
namespace PF.MS

/-- `ArraySpec(name, axes)` (`_mapspec.py:45-50`); `none` is the `:` axis. -/
structure ArraySpec where
  name : String
  axes : List (Option String)
  deriving DecidableEq, Repr

/-- `MapSpec(inputs, outputs)` (`_mapspec.py:100-113`), without the private `_is_generated` flag. -/
structure MapSpec where
  inputs : List ArraySpec
  outputs : List ArraySpec
  deriving DecidableEq, Repr

/-- the exception classes the modelled code can raise -/
inductive Err
  | valueError | indexError | keyError | assertionError
  deriving DecidableEq, Repr

/-! ### identifiers (`str.isidentifier`, ASCII) -/

/-- `\w` (ASCII) -/
def isWord (c : Char) : Bool := c.isAlphanum || c == '_'
def isIdStart (c : Char) : Bool := c.isAlpha || c == '_'

/-- `str.isidentifier()` restricted to ASCII -/
def isIdentChars : List Char → Bool
  | [] => false
  | c :: cs => isIdStart c && cs.all isWord

def isIdent (s : String) : Bool := isIdentChars s.toList

/-- `s.split(".", 1)` when `"." in s`: the text before and after the first dot -/
def splitDot : List Char → Option (List Char × List Char)
  | [] => none
  | c :: cs =>
    if c = '.' then some ([], cs) else
    match splitDot cs with
    | some (a, b) => some (c :: a, b)
    | none => none

/-- array-name check of `ArraySpec.__post_init__` (`_mapspec.py:53-63`) -/
def nameOKChars (n : List Char) : Bool :=
  match splitDot n with
  | some (scope, name) => isIdentChars scope && isIdentChars name
  | none => isIdentChars n

def axisOK : Option String → Bool
  | none => true
  | some i => isIdent i

/-- `ArraySpec.__post_init__` (`_mapspec.py:52-67`): `false` is the `ValueError` -/
def arrayOK (a : ArraySpec) : Bool := nameOKChars a.name.toList && a.axes.all axisOK

/-- `ArraySpec.indices` (`_mapspec.py:73-76`) -/
def indices (a : ArraySpec) : List String := a.axes.filterMap id

/-! ### `MapSpec.__post_init__` -/

def hasColon (a : ArraySpec) : Bool := a.axes.any Option.isNone

/-- `input_indices` (`_mapspec.py:151-154`) as a list with repetitions -/
def inputIndexList (m : MapSpec) : List String := m.inputs.flatMap indices

/-- `MapSpec.__post_init__` (`_mapspec.py:115-129`) **as repaired for DF-10**: `:` is looked for in *every* output.
    `outputs[0]` of an empty tuple is the `IndexError`. -/
def postInit (m : MapSpec) : Except Err Unit :=
  match m.outputs with
  | [] => .error .indexError
  | o :: rest =>
    if m.outputs.any hasColon then .error .valueError
    else if !(rest.all fun x => indices x = indices o) then .error .valueError
    else if (inputIndexList m).any (fun i => !(indices o).contains i) then .error .valueError
    else .ok ()

/-- the pinned code before the DF-10 repair: only `outputs[0]` is searched for `:`. Used by no property theorem. -/
def postInitLegacy (m : MapSpec) : Except Err Unit :=
  match m.outputs with
  | [] => .error .indexError
  | o :: rest =>
    if hasColon o then .error .valueError
    else if !(rest.all fun x => indices x = indices o) then .error .valueError
    else if (inputIndexList m).any (fun i => !(indices o).contains i) then .error .valueError
    else .ok ()

/-- building the `ArraySpec`s (each runs its `__post_init__`) and then the `MapSpec` -/
def construct (inputs outputs : List ArraySpec) : Except Err MapSpec :=
  if !(inputs.all arrayOK && outputs.all arrayOK) then .error .valueError else
  match postInit ⟨inputs, outputs⟩ with
  | .error e => .error e
  | .ok () => .ok ⟨inputs, outputs⟩

def constructLegacy (inputs outputs : List ArraySpec) : Except Err MapSpec :=
  if !(inputs.all arrayOK && outputs.all arrayOK) then .error .valueError else
  match postInitLegacy ⟨inputs, outputs⟩ with
  | .error e => .error e
  | .ok () => .ok ⟨inputs, outputs⟩

/-! ### printing (`__str__`, `_mapspec.py:69-71, 247-250`) -/

/-- `sep.join(parts)` on character lists -/
def joinWith (sep : List Char) : List (List Char) → List Char
  | [] => []
  | [x] => x
  | x :: y :: r => x ++ sep ++ joinWith sep (y :: r)

def axisChars : Option String → List Char
  | none => [':']
  | some a => a.toList

/-- `ArraySpec.__str__` -/
def specChars (a : ArraySpec) : List Char :=
  a.name.toList ++ '[' :: (joinWith [',', ' '] (a.axes.map axisChars) ++ [']'])

def sideChars (l : List ArraySpec) : List Char := joinWith [',', ' '] (l.map specChars)

/-- `MapSpec.__str__`: `...` stands for "no inputs" -/
def toChars (m : MapSpec) : List Char :=
  (match m.inputs with
   | [] => ['.', '.', '.']
   | _ :: _ => sideChars m.inputs) ++ [' ', '-', '>', ' '] ++ sideChars m.outputs

def toStr (m : MapSpec) : String := String.ofList (toChars m)

/-! ### names and index sets -/

def inputNames (m : MapSpec) : List String := m.inputs.map (·.name)
def outputNames (m : MapSpec) : List String := m.outputs.map (·.name)

/-- `output_indices` (`_mapspec.py:141-144`): the indices of `outputs[0]` (`[]` stands for the IndexError) -/
def outputIndices (m : MapSpec) : List String :=
  match m.outputs with
  | [] => []
  | o :: _ => indices o

/-- `external_indices` (`_mapspec.py:146-149`) -/
def externalIndices (m : MapSpec) : List String :=
  (outputIndices m).filter fun n => (inputIndexList m).contains n

/-- number of distinct elements: `len(set(l))` -/
def nDistinct : List String → Nat
  | [] => 0
  | x :: xs => if xs.contains x then nDistinct xs else nDistinct xs + 1

/-! ### shapes (`shape`, `_validate_shapes`, `_get_common_dim`, `_get_output_dim`) -/

abbrev ShapeDict := List (String × List Nat)

def lookup {β} (k : String) : List (String × β) → Option β
  | [] => none
  | (k', v) :: r => if k' = k then some v else lookup k r

def keys {β} (d : List (String × β)) : List String := d.map (·.1)

/-- `ArraySpec.validate` for every input after the two name-set checks (`_mapspec.py:435-454, 83-89`):
    `false` is the `ValueError`.  `internal` is `internal_shapes or {}`. -/
def validateShapes (m : MapSpec) (ins internal : ShapeDict) : Bool :=
  (keys ins).all (fun n => (inputNames m).contains n) &&
  (inputNames m).all (fun n => (keys ins).contains n) &&
  m.inputs.all (fun x => match lookup x.name ins with
                         | some s => s.length == x.axes.length
                         | none => false) &&
  (keys internal).all (fun n => (outputNames m).contains n)

/-- `array.axes.index(index)` -/
def axisPos (ax : String) : List (Option String) → Option Nat
  | [] => none
  | a :: r => if a = some ax then some 0 else (axisPos ax r).map (· + 1)

/-- `_get_dim` inside `_get_common_dim` (`_mapspec.py:462-464`) -/
def getDim (ins : ShapeDict) (x : ArraySpec) (ax : String) : Option Nat :=
  match lookup x.name ins, axisPos ax x.axes with
  | some s, some p => s[p]?
  | _, _ => none

/-- `relevant_arrays` (`_mapspec.py:182`) -/
def relevant (m : MapSpec) (ax : String) : List ArraySpec := m.inputs.filter fun x => (indices x).contains ax

/-- `_get_common_dim` (`_mapspec.py:457-471`); a failed lookup (excluded by `validateShapes`) is reported as KeyError -/
def commonDim (ins : ShapeDict) (ax : String) : List ArraySpec → Except Err Nat
  | [] => .error .keyError
  | x :: rest =>
    match getDim ins x ax with
    | none => .error .keyError
    | some d => if rest.all (fun y => getDim ins y ax == some d) then .ok d else .error .valueError

/-- `_get_output_dim` (`_mapspec.py:474-489`), sizes are integers -/
def outputDim (isz : Option (List Nat)) (k : Nat) : Except Err Nat :=
  match isz with
  | none => .error .valueError
  | some l =>
    match l[k]? with
    | none => .error .valueError
    | some d => .ok d

/-- the loop of `MapSpec.shape` (`_mapspec.py:176-192`) over the axes of `outputs[0]`; `k` is `internal_shape_index` -/
def shapeLoop (m : MapSpec) (ins : ShapeDict) (isz : Option (List Nat)) : Nat → List (Option String) →
    Except Err (List Nat × List Bool)
  | _, [] => .ok ([], [])
  | _, none :: _ => .error .assertionError
  | k, some ax :: rest =>
    match relevant m ax with
    | [] =>
      match outputDim isz k with
      | .error e => .error e
      | .ok d =>
        match shapeLoop m ins isz (k + 1) rest with
        | .error e => .error e
        | .ok (sh, mk) => .ok (d :: sh, false :: mk)
    | x :: xs =>
      match commonDim ins ax (x :: xs) with
      | .error e => .error e
      | .ok d =>
        match shapeLoop m ins isz k rest with
        | .error e => .error e
        | .ok (sh, mk) => .ok (d :: sh, true :: mk)

/-- `MapSpec.shape` (`_mapspec.py:156-192`) -/
def shape (m : MapSpec) (ins internal : ShapeDict) : Except Err (List Nat × List Bool) :=
  if !validateShapes m ins internal then .error .valueError else
  match m.outputs with
  | [] => .error .indexError
  | o :: _ => shapeLoop m ins (lookup o.name internal) 0 o.axes

/-! ### index maps (`output_key`, `input_keys`) -/

/-- `MapSpec.output_key` (`_mapspec.py:194-214`); the length test is against `len(self.input_indices)` (a set) -/
def outputKey (m : MapSpec) (shape : List Nat) (i : Nat) : Except Err (List Nat) :=
  if shape.length ≠ nDistinct (inputIndexList m) then .error .valueError
  else .ok (PF.shapeToKey shape i)

/-- `dict(zip(ks, vs))[k]`: the last pair with key `k` wins -/
def lookupLast (k : String) : List (String × Nat) → Option Nat
  | [] => none
  | (k', v) :: r =>
    match lookupLast k r with
    | some w => some w
    | none => if k' = k then some v else none

/-- one key tuple of `input_keys`: `none` is `slice(None)`; a missing id is the `KeyError` -/
def keyOf (ids : List (String × Nat)) : List (Option String) → Except Err (List (Option Nat))
  | [] => .ok []
  | none :: r =>
    match keyOf ids r with
    | .error e => .error e
    | .ok ks => .ok (none :: ks)
  | some ax :: r =>
    match lookupLast ax ids with
    | none => .error .keyError
    | some v =>
      match keyOf ids r with
      | .error e => .error e
      | .ok ks => .ok (some v :: ks)

def keysOf (ids : List (String × Nat)) : List ArraySpec → Except Err (List (String × List (Option Nat)))
  | [] => .ok []
  | x :: r =>
    match keyOf ids x.axes with
    | .error e => .error e
    | .ok k =>
      match keysOf ids r with
      | .error e => .error e
      | .ok ks => .ok ((x.name, k) :: ks)

/-- `MapSpec.input_keys` (`_mapspec.py:216-245`): one `(name, key)` per input in order (the code builds a `dict`, so
    a repeated input name keeps its last key; the harness applies `dict(...)` to this list). -/
def inputKeys (m : MapSpec) (shape : List Nat) (i : Nat) : Except Err (List (String × List (Option Nat))) :=
  if shape.length ≠ (externalIndices m).length then .error .valueError
  else keysOf (List.zip (externalIndices m) (PF.shapeToKey shape i)) m.inputs

/-! ### `rename`, `add_axes` -/

/-- `MapSpec.rename` (`_mapspec.py:277-285`); `renames` is a `dict` -/
def renameName (ρ : List (String × String)) (n : String) : String := (lookup n ρ).getD n

def renameSpec (ρ : List (String × String)) (a : ArraySpec) : ArraySpec := ⟨renameName ρ a.name, a.axes⟩

def rename (ρ : List (String × String)) (m : MapSpec) : Except Err MapSpec :=
  if !((inputNames m ++ outputNames m).any fun n => (keys ρ).contains n) then .ok m
  else construct (m.inputs.map (renameSpec ρ)) (m.outputs.map (renameSpec ρ))

/-- the duplicate test of `ArraySpec.add_axes` (`_mapspec.py:91-97`) -/
def clashes (axis : List (Option String)) (a : ArraySpec) : Bool :=
  axis.any fun ax => ax.isSome && a.axes.contains ax

def extendSpec (axis : List (Option String)) (a : ArraySpec) : ArraySpec := ⟨a.name, a.axes ++ axis⟩

/-- `MapSpec.add_axes` (`_mapspec.py:270-275`) -/
def addAxes (axis : List (Option String)) (m : MapSpec) : Except Err MapSpec :=
  if (m.inputs ++ m.outputs).any (clashes axis) then .error .valueError
  else construct (m.inputs.map (extendSpec axis)) (m.outputs.map (extendSpec axis))

/-! ### `validate_consistent_axes`, `mapspec_axes` -/

def allSpecs (ms : List MapSpec) : List ArraySpec := ms.flatMap fun m => m.inputs ++ m.outputs

/-- two specs of the same array disagree: different rank, or different names at one position -/
def axesClash : List (Option String) → List (Option String) → Bool
  | [], [] => false
  | some a :: r, some b :: s => a != b || axesClash r s
  | _ :: r, _ :: s => axesClash r s
  | _, _ => true

/-- `validate_consistent_axes` (`_mapspec.py:384-412`): `false` is the `ValueError` -/
def consistentAxes (ms : List MapSpec) : Bool :=
  (allSpecs ms).all fun a => (allSpecs ms).all fun b => !(a.name == b.name && axesClash a.axes b.axes)

/-- positions of the named axes of one spec: `enumerate(arrayspec.axes)` filtered -/
def namedAt : Nat → List (Option String) → List (Nat × String)
  | _, [] => []
  | i, none :: r => namedAt (i + 1) r
  | i, some a :: r => (i, a) :: namedAt (i + 1) r

def natLookupLast (k : Nat) : List (Nat × String) → Option String
  | [] => none
  | (k', v) :: r =>
    match natLookupLast k r with
    | some w => some w
    | none => if k' = k then some v else none

def nDistinctNat : List Nat → Nat
  | [] => 0
  | x :: xs => if xs.contains x then nDistinctNat xs else nDistinctNat xs + 1

def firstOcc : List String → List String
  | [] => []
  | x :: xs => x :: (firstOcc xs).filter (· != x)

/-- positions `i, i+1, …` (n of them) of the positional axes tuple: the last name recorded at a position, `none` for a
    position that is only ever sliced -/
def collectAxes (dct : List (Nat × String)) : Nat → Nat → List (Option String)
  | 0, _ => []
  | n + 1, i => natLookupLast i dct :: collectAxes dct n (i + 1)

def maxRank (specs : List ArraySpec) (n : String) : Nat :=
  (specs.filter (·.name == n)).foldl (fun m a => max m a.axes.length) 0

def mapspecAxesGo (specs : List ArraySpec) : List String → List (String × List (Option String))
  | [] => []
  | n :: ns =>
    let dct := (specs.filter (·.name == n)).flatMap fun a => namedAt 0 a.axes
    (n, collectAxes dct (maxRank specs n) 0) :: mapspecAxesGo specs ns

/-- `mapspec_axes` (`_mapspec.py`, as repaired by DF-29): for every array a positional tuple of its full rank, the last name
    recorded at each position and `none` for an axis that no MapSpec names -/
def mapspecAxes (ms : List MapSpec) : List (String × List (Option String)) :=
  let specs := allSpecs ms
  mapspecAxesGo specs (firstOcc (specs.map (·.name)))

end PF.MS
