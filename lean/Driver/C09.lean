import PfModel.DriverVal
import PfModel.Model.PipeCache
import PfModel.Model.PipeCacheFail
import PfModel.Model.PipeCacheLRU
import PfModel.Model.PipeCacheMapHist
import PfModel.Model.PipeCacheStable
/-! Driver for C09 (`pipe.cached`: a cached pipeline and its uncached twin through a history; `map.elems`: the element
    computations of a map run through the shared cache; `map.hist`: successive map runs on one pipeline object through the ONE
    cache, `runRuns` — the object of the `C09_map_history_*` theorems). -/
open Lean PF PF.Drv PF.Pipe PF.PipeCache

def getFunc (j : Json) : R Func := do
  return { name := ← strF j "name", params := ← listF (asPair asStr asStr) j "params", outputs := ← listF asStr j "outputs",
           defaults := (← optF getKw j "defaults").getD [], bound := (← optF getKw j "bound").getD [] }

def putErr : Err → Json
  | .fuel => jObj [("err", jStr "RecursionError")]
  | .missing _ => jObj [("err", jStr "ValueError")]
  | .noFunc _ => jObj [("err", jStr "KeyError")]
  | .unused ps => jObj [("err", jStr "UnusedParametersError"), ("unused", jList jStr ps)]
  | .outputInKwargs => jObj [("err", jStr "ValueError")]
  | .mapspec => jObj [("err", jStr "RuntimeError")]

def getStep (j : Json) : R Step := do
  match fld? j "call", fld? j "update_defaults", fld? j "update_bound", fld? j "replace" with
  | some c, _, _, _ => return .call (← strF c "out") (← getKw (← fld c "kw")) (← boolF c "full")
  | _, some d, _, _ => return .mutate (.updateDefaults (← getKw d))
  | _, _, some b, _ => return .mutate (.updateBound (← listF asStr b "o") (← getKw (← fld b "b")))
  | _, _, _, some f => return .mutate (.replace (← getFunc f))
  | _, _, _, _ => .error "step expected: call | update_defaults | update_bound | replace"

abbrev K := Key String

def putKey (k : K) : Json := jArr [jList jStr k.outs, jList (jPair jStr jStr) k.items.eraseDups]

def putC (r : Option (Except Err (COutcome String (List (K × Val))))) : Json :=
  match r with
  | none => Json.null
  | some (.error e) => putErr e
  | some (.ok o) =>
    let base := [("value", putVal o.value), ("full", putKw o.full), ("calls", jList jStr o.calls),
                 ("hits", jList putKey o.hits), ("puts", jList putKey o.puts), ("unused", jList jStr o.unused)]
    if o.succeeded then jObj base else jObj (("err", jStr "UnusedParametersError") :: base)

def putU (r : Option (Except Err Outcome)) : Json :=
  match r with
  | none => Json.null
  | some (.error e) => putErr e
  | some (.ok o) => jObj [("value", putVal o.value), ("full", putKw o.full), ("calls", jList jStr o.calls)]

-- `uniqueNamesB`, `stableB`: `Model/PipeCacheStable.lean` (`C09_stable_wf`, `C09_stable_wfp`: the flag implies `WF` and `WFp`)

/-- `histC` (round 1: stops at the first failing call) is a prefix of `histF` (continues with the cache the failure left) -/
def prefixOk (rc rf : List (Option (Except Err (COutcome String (List (K × Val)))))) : Bool :=
  rc.length ≤ rf.length && (rc.zip rf).all fun (a, b) => (putC a).compress == (putC b).compress

/-- `histF` step by step, with the keys a FAILED call added to the cache (its `puts` log is lost with the exception) -/
def stepsF (P : Policy String (List (K × Val))) (cached : Func → Bool)
    (ck : List Func → List (String × Val) → Func → String → Option K) :
    List Func → List (K × Val) → List Step → List (Option (Except Err (COutcome String (List (K × Val)))) × List K)
  | _, _, [] => []
  | fs, c, .mutate m :: rest => (none, []) :: stepsF P cached ck (applyMut fs m) c rest
  | fs, c, .call o kw full :: rest =>
    let r := runTopF P cached (ck fs) fs c kw full o
    let c' : List (K × Val) := match r with | .error (_, c') => c' | .ok out => out.cache
    let newKeys := match r with
      | .error _ => (c'.map (·.1)).filter fun k => !((c.map (·.1)).contains k)
      | .ok _ => []
    (some (dropS r), newKeys) :: stepsF P cached ck fs c' rest

def putCF (x : Option (Except Err (COutcome String (List (K × Val)))) × List K) : Json :=
  match x.1 with
  | some (.error e) => match putErr e with
    | Json.obj _ => (putErr e).mergeObj (jObj [("puts", jList putKey x.2)])
    | j => j
  | r => putC r

/-- the function lists the history passes through (for the well-formedness flags) -/
def stages : List Func → List Step → List (List Func)
  | fs, [] => [fs]
  | fs, .mutate m :: r => fs :: stages (applyMut fs m) r
  | fs, .call _ _ _ :: r => stages fs r

def handle (m : String) (a : Json) : R Json := do
  match m with
  | "pipe.cached" =>
    let fs ← listF getFunc a "funcs"
    let cachedNames ← listF asStr a "cached"
    let steps ← listF getStep a "history"
    let legacy := (← optF asBool a "legacy").getD false
    let cached : Func → Bool := fun f => cachedNames.contains f.name
    let ck : List Func → List (String × Val) → Func → String → Option K :=
      if legacy then computeKeyLegacy encVal else computeKey encVal
    -- {"lru_max": n}: `LRUCache(max_size=n)` (the recency-list policy, hits/misses under eviction); absent: unbounded
    let lruMax ← optF asNat a "lru_max"
    let P : Policy String (List (K × Val)) := match lruMax with
      | some n => lruPolicy String n
      | none => simplePolicy String
    let rc0 := histC P cached ck fs [] steps
    let rc := histF P cached ck fs [] steps
    let ru := histU fs steps
    let st := stages fs steps
    -- the last successfully modelled call's cache
    let lastCache : List (K × Val) := rc.foldl (fun acc x => match x with | some (.ok o) => o.cache | _ => acc) []
    let rf := stepsF P cached ck fs [] steps
    return jObj [("steps", jList putCF rf), ("twin", jList putU ru),
                 ("histf_ok", jBool (rf.length == rc.length && (rf.zip rc).all fun (a, b) => (putC a.1).compress == (putC b).compress)),
                 ("resident", jList putKey (lastCache.map (·.1))),
                 ("stable", jBool (st.all (stableB encVal))),
                 ("prefix_ok", jBool (prefixOk rc0 rc)),
                 ("roots_ok", jBool (st.all rootsAgreeB))]
  | "map.elems" =>
    -- {"elems": [{"name": f, "outs": [...], "kwargs": kw}]}: the element calls in the order they reach the cache
    let elems ← listF (fun j => do
      let n ← strF j "name"; let outs ← listF asStr j "outs"; let kw ← getKw (← fld j "kwargs")
      return elemOfCall (fun _ => outs) ({ name := n, args := kw } : PF.Map.Call)) a "elems"
    let (rs, c) := runElems (simplePolicy String) encVal [] elems
    return jObj [("results", jList (fun (r : Val × Bool) => jArr [putVal r.1, jBool r.2]) rs), ("resident", jNat c.length)]
  | "map.hist" =>
    -- {"runs": [[{"name": f, "outs": [...], "kwargs": kw}]]}: the element calls of successive map runs on ONE pipeline object, every
    -- run in the order its calls reach the cache; the answer says for every element its value and whether it executed
    let getElem : Json → R Elem := fun j => do
      let n ← strF j "name"; let outs ← listF asStr j "outs"; let kw ← getKw (← fld j "kwargs")
      return elemOfCall (fun _ => outs) ({ name := n, args := kw } : PF.Map.Call)
    let runs ← listF (asList getElem) a "runs"
    let (rs, c) := runRuns (simplePolicy String) encVal [] runs
    let flags := rs.map (·.map (·.2))
    return jObj [("runs", jList (jList fun (r : Val × Bool) => jArr [putVal r.1, jBool r.2]) rs), ("resident", jNat c.length),
                 -- `C09_map_history_executes_first_occurrences`, evaluated: the flags are the first occurrences of the keys
                 ("flags_ok", jBool (flags == firstOccRuns [] (runs.map (·.map (elemKey encVal))))),
                 -- `C09_map_history_transparent`, evaluated: every element got the value of its own call (fails iff two distinct calls share a key)
                 ("own_values", jBool ((rs.map (·.map fun r => encVal r.1)) == runs.map (·.map fun e => encVal e.value)))]
  | _ => .error s!"unknown entry {m}"

def main : IO Unit := loop handle
