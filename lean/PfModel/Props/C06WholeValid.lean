import PfModel.Props.C06Whole
import PfModel.Props.C06FlowWF
/-!
C06, round 9 — "pieces = whole" for every VALID map request (C01's `Conforms`), with the hypotheses that earlier rounds left to the
driver discharged: distinct output names along the execution order (`hnd` of `C06_pieces_flow*`, so far "evaluated by the driver as
`nodup` on every case — not derived from `constructible`") and non-empty output lists follow from `Conforms`; `flowWF` of every part
follows from the part's run having passed `_validate_fixed_indices` (`C06_flowWF_derived`, round 3).  What remains is exactly what
the statement quantifies over: the parts cover the index space (`coverB`), and the runs succeed.
-/
namespace PF.C06
open PF PF.Map PF.Pieces PF.C01

/-- **For a valid request the output names along the execution order are distinct and no function is without output** — the
    hypotheses `hnd` / `hne` of the pipeline-level theorems are consequences of `Conforms` (`constructible`: `nodupB (allOutputs fs)`,
    every function has an output), through the Kahn layering. -/
theorem C06_outputs_nodup_of_conforms (fs : List MFunc) (inputs : List (String × Val)) (ui : List (String × List Nat))
    (hC : Conforms fs inputs ui = true) :
    ((generations fs).flatten.flatMap (·.outputs)).Nodup ∧ (∀ f ∈ (generations fs).flatten, f.outputs ≠ []) ∧
    ∀ (fixed : Option (List (String × Sel))) (old : List (String × Slot)) (r : PartResult),
      runPart fs inputs ui fixed old = .ok r → (akeys r.store).Nodup := by
  obtain ⟨_, hcon, _, _⟩ := conforms_parts fs inputs ui hC
  unfold constructible at hcon
  simp only [Bool.and_eq_true] at hcon
  obtain ⟨⟨hnd, _⟩, hall⟩ := hcon
  have h1 := gens_outputs_nodup fs (nodupB_nodup _ hnd)
  refine ⟨h1, ?_, ?_⟩
  · intro f hf
    obtain ⟨gen, hgen, hfg⟩ := List.mem_flatten.mp hf
    have hmem := layers_mem fs (fs.length + 1) [] fs (fun g hg => hg) gen hgen f hfg
    have := (List.all_eq_true.mp hall) f hmem
    simp only [Bool.and_eq_true, Bool.not_eq_eq_eq_not, Bool.not_true] at this
    intro e
    rw [e] at this
    simp at this
  · intro fixed old r h
    obtain ⟨_, _, _, _, _, hkeys⟩ := runPart_inv fs inputs ui fixed old r h
    rw [hkeys]; exact h1

/-- **Pieces = whole for every valid map request.**  `Conforms fs inputs ui` (C01: the request is one `run_map` accepts); `rF` one
    full run; `parts` ANY non-empty list of `fixed_indices` dictionaries — any order, overlapping or not — whose masks cover the
    index space of every mapped function; run one after the other with `cleanup=False` on a folder that holds only elements of the
    full run.  If the runs succeed (in particular every part passed `_validate_fixed_indices`: no reduced, unknown, internal-only
    axis, no index out of range), the folder holds element by element what the full run stores, nothing else, misses nothing, and
    the final full run calls no function and changes nothing. -/
theorem C06_pieces_whole_valid (fs : List MFunc) (inputs : List (String × Val)) (ui : List (String × List Nat)) (rF : PartResult)
    (hC : Conforms fs inputs ui = true) (hF : runPart fs inputs ui none [] = .ok rF)
    (parts : List (List (String × Sel))) (hpne : parts ≠ []) (old : List (String × Slot)) (rs : List PartResult)
    (hold : OldLe old rF.store) (hcov : coverB fs rF.res.shapes rF.res.masks parts = true)
    (h : runPieces fs inputs ui (parts.map some) old = .ok rs) :
    let S := finalStore rs old
    (∀ f ∈ (generations fs).flatten, ∀ ms sh mk, mappedInfo rF.res.shapes rF.res.masks f = some (ms, sh, mk) →
      ∀ o ∈ f.outputs, ∀ li, li < prod (extOf mk sh) →
        (cellLookup (oldCells S o) li).isSome = true ∧ cellLookup (oldCells S o) li = cellLookup (oldCells rF.store o) li) ∧
    OldLe S rF.store ∧
    completeB fs rF.res.shapes rF.res.masks S = true ∧
    ∀ rL, runPart fs inputs ui none S = .ok rL → rL.res.calls = [] ∧
      (∀ f ∈ (generations fs).flatten, ∀ ms sh mk, mappedInfo rF.res.shapes rF.res.masks f = some (ms, sh, mk) →
        ∀ o ∈ f.outputs, ∀ li, cellLookup (oldCells rL.store o) li = cellLookup (oldCells S o) li) := by
  intro S
  obtain ⟨hnd, hne, hk⟩ := C06_outputs_nodup_of_conforms fs inputs ui hC
  obtain ⟨_, hle⟩ := C06_pieces_flow_seq_valid fs inputs ui rF hC hF (hk none [] rF hF) parts old rs hold h
  exact pieces_whole_core fs inputs ui rF hF hnd hne parts hpne old rs hle hcov h

/-- **… and in every order of the parts**: a permutation of a covering family covers, so (if its runs succeed) it leaves a folder
    with exactly the same elements — those of the full run. -/
theorem C06_pieces_whole_order (fs : List MFunc) (inputs : List (String × Val)) (ui : List (String × List Nat)) (rF : PartResult)
    (hC : Conforms fs inputs ui = true) (hF : runPart fs inputs ui none [] = .ok rF)
    (parts parts' : List (List (String × Sel))) (hperm : parts.Perm parts') (hpne : parts ≠ []) (rs rs' : List PartResult)
    (hcov : coverB fs rF.res.shapes rF.res.masks parts = true)
    (h : runPieces fs inputs ui (parts.map some) [] = .ok rs) (h' : runPieces fs inputs ui (parts'.map some) [] = .ok rs') :
    ∀ f ∈ (generations fs).flatten, ∀ ms sh mk, mappedInfo rF.res.shapes rF.res.masks f = some (ms, sh, mk) →
      ∀ o ∈ f.outputs, ∀ li, li < prod (extOf mk sh) →
        cellLookup (oldCells (finalStore rs []) o) li = cellLookup (oldCells (finalStore rs' []) o) li := by
  have hold : OldLe [] rF.store := by constructor <;> simp [oldCells, alookup, cellLookup]
  have hpne' : parts' ≠ [] := by
    intro e; rw [e] at hperm; exact hpne (List.perm_nil.mp hperm)
  have hcov' : coverB fs rF.res.shapes rF.res.masks parts' = true := by rw [← C06_cover_order fs _ _ parts parts' hperm]; exact hcov
  obtain ⟨a, _⟩ := C06_pieces_whole_valid fs inputs ui rF hC hF parts hpne [] rs hold hcov h
  obtain ⟨a', _⟩ := C06_pieces_whole_valid fs inputs ui rF hC hF parts' hpne' [] rs' hold hcov' h'
  intro f hf ms sh mk hi o ho li hli
  rw [(a f hf ms sh mk hi o ho li hli).2, (a' f hf ms sh mk hi o ho li hli).2]

/-! ### non-vacuity -/

private def vY : MFunc := { name := "f", params := [("x", "x")], outputs := ["y"], mapspec := some { inputs := [⟨"x", [some "i"]⟩], outputs := [⟨"y", [some "i"]⟩] }, ret := none, internal := none, defaults := [], bound := [] }
private def vZ : MFunc := { name := "g", params := [("y", "y"), ("w", "w")], outputs := ["z"], mapspec := some { inputs := [⟨"y", [some "i"]⟩, ⟨"w", [some "j"]⟩], outputs := [⟨"z", [some "i", some "j"]⟩] }, ret := none, internal := none, defaults := [], bound := [] }
private def vIn : List (String × Val) := [("x", .arr [3] [.int 0, .int 1, .int 2]), ("w", .arr [2] [.int 7, .int 8])]
private def vParts : List (List (String × Sel)) :=
  [[("i", .slice (some 1) none none), ("j", .slice none none (some (-1)))], [("i", .idx 0), ("j", .idx 1)], [("j", .idx 0), ("i", .idx (-3))]]

private def validDemo : Bool :=
  Conforms [vY, vZ] vIn [] &&
  match runPart [vY, vZ] vIn [] none [], runPieces [vY, vZ] vIn [] (vParts.map some) [], runPieces [vY, vZ] vIn [] (vParts.reverse.map some) [] with
  | .ok rF, .ok _, .ok _ => coverB [vY, vZ] rF.res.shapes rF.res.masks vParts
  | _, _, _ => false

/-- the request conforms, the full run and the three block parts (in both orders) run, and the parts cover -/
example : validDemo = true := by decide

end PF.C06
