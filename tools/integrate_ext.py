#!/usr/bin/env python3
"""tools/integrate_ext.py CXX SRC_COPY [FILES.txt] : copy an extension builder's files (FILES.txt, evidence excluded) from its scratch copy into
/verif, apply its fix patches (fixes/CXX/ext/*.patch, pipefunc/ only) to /repo as individual commits, and merge its known-findings
entries (same id replaces).  Does not run the baseline or the checks and does not commit /verif."""
import json, pathlib, shutil, subprocess, sys
V = pathlib.Path(__file__).resolve().parent.parent
pid, src = sys.argv[1], pathlib.Path(sys.argv[2])
extname = sys.argv[3] if len(sys.argv) > 3 else "ext"          # e.g. ext3 for a later round
ext = src / "fixes" / pid / extname
flist = ext / "FILES.txt"
for line in flist.read_text().splitlines():
    rel = line.strip().split()[0] if line.strip() else ""
    if not rel or rel.startswith("#") or rel.startswith("evidence/") or rel.startswith("replays/"):
        continue
    s, d = src / rel, V / rel
    if not s.exists():
        print("  MISSING in copy:", rel); continue
    if rel.split("/")[0] not in ("harness", "lean", "fixes", "corpus", "tools"):
        print("  SKIP (outside harness/lean/fixes):", rel); continue
    d.parent.mkdir(parents=True, exist_ok=True)
    if s.is_dir():
        shutil.copytree(s, d, dirs_exist_ok=True)
    else:
        shutil.copy2(s, d)
    print("  copied", rel)
shas = []
for p in sorted(ext.glob("*.patch")):
    r = subprocess.run(["git", "-C", "/repo", "am", "--include=pipefunc/*", "--3way", str(p)], capture_output=True, text=True)
    if r.returncode != 0:
        print("FAILED to apply", p.name, r.stdout[-500:], r.stderr[-500:]); subprocess.run(["git", "-C", "/repo", "am", "--abort"]); sys.exit(1)
    sha = subprocess.check_output(["git", "-C", "/repo", "log", "--format=%h %s", "-1"], text=True).strip()
    print("  applied", p.name, "->", sha); shas.append(sha.split()[0])
ef = ext / "known_findings_entries.json"
if ef.exists():
    entries = json.loads(ef.read_text())
    if isinstance(entries, dict):
        entries = entries.get("findings", entries.get("entries", []))
    kf = json.loads((V / "known_findings.json").read_text())
    fixed = [e for e in entries if e.get("status") == "fixed" and e.get("commit") in (None, "PENDING")]   # entries that wait for a commit of THIS batch
    for i, e in enumerate(fixed):
        if i < len(shas) and e.get("commit") in (None, "PENDING"):
            e["commit"] = shas[i]; e["what"] = e.get("what", "").replace("PENDING", shas[i])
    ids = {e["id"] for e in entries}
    kf["findings"] = [x for x in kf["findings"] if x["id"] not in ids] + entries
    (V / "known_findings.json").write_text(json.dumps(kf, indent=1))
    print(f"  merged {len(entries)} known-findings entries ({len(fixed)} fixed, {len(shas)} patches)")
if (ext).exists():
    (V / "fixes" / pid / extname).mkdir(parents=True, exist_ok=True)
    for f in ext.iterdir():
        if f.is_file():
            shutil.copy2(f, V / "fixes" / pid / extname / f.name)
