import PfModel.Lemmas.MapOutputs
import PfModel.Lemmas.SubPipe
import PfModel.Lemmas.ValidateShapes
/-!
C01 — *which* outputs `Pipeline.map` returns and stores ("returns (and stores) for each output …").
`C01_returned_names`: one entry per output name of every function of the pipeline, in execution order, returned and stored.
`C01_output_names`: with `map(output_names=S)` (`prepare_run` → `Pipeline.subpipeline(set(inputs), S)`, model `PF.Sub.mapWith`)
the run returns exactly the outputs of the functions kept by `subpipeline` — every name of `S` among them, and (by
`C11_kept_eq_needed`) nothing but the outputs of functions needed for `S` — not only `S`.
-/
namespace PF.C01
open PF PF.Map

/-- **The returned dictionary and the store have exactly one entry per output name of every function**, in execution
    (generation) order; for any way `arr` of producing result arrays, in particular for the model of the code and for the
    specification. -/
theorem C01_returned_names (arr : MFunc → List Nat → List Bool → (Nat → List (String × Val)) → String → Val)
    (fs : List MFunc) (inputs : List (String × Val)) (ui : List (String × List Nat)) (r : MapResult)
    (h : runMapWith arr fs inputs ui = .ok r) :
    akeys r.outputs = (generations fs).flatten.flatMap (·.outputs) ∧ akeys r.stored = akeys r.outputs ∧
    ∀ o, o ∈ akeys r.outputs ↔ ∃ f ∈ fs, o ∈ f.outputs := by
  obtain ⟨a, b, c⟩ := runMapWith_outputs arr fs inputs ui r h
  refine ⟨a, by rw [a, b], ?_⟩
  intro o
  rw [a, List.mem_flatMap]
  constructor
  · rintro ⟨f, hf, ho⟩
    obtain ⟨g, hg, hfg⟩ := List.mem_flatten.mp hf
    exact ⟨f, Sub.layers_mem fs _ _ _ g hg f hfg, ho⟩
  · rintro ⟨f, hf, ho⟩
    have hac : acyclic fs = true := by unfold acyclic; simp [c]
    exact ⟨f, Validate.mem_flatten_of_acyclic fs hac f hf, ho⟩

/-- **`map(output_names=S)`** (also with `auto_subpipeline`): the run is the run of the partial pipeline `sub`; it returns and
    stores exactly the outputs of the functions of `sub`, and every requested name is among them. -/
theorem C01_output_names (arr : MFunc → List Nat → List Bool → (Nat → List (String × Val)) → String → Val)
    (fs : List MFunc) (inputs : List (String × Val)) (ui : List (String × List Nat)) (S : List String) (auto : Bool)
    (sub : List MFunc) (r : MapResult) (h : Sub.mapWith arr fs inputs ui (some S) auto = .ok (sub, r)) :
    runMapWith arr sub inputs ui = .ok r ∧
    (∀ o, o ∈ akeys r.outputs ↔ ∃ f ∈ sub, o ∈ f.outputs) ∧ akeys r.stored = akeys r.outputs ∧
    (∀ o ∈ S, o ∈ akeys r.outputs) ∧ (∀ f ∈ sub, f ∈ fs) := by
  unfold Sub.mapWith at h
  split at h
  · cases h
  · next sub' hprep =>
    split at h
    · cases h
    · next r' hrun =>
      cases h
      obtain ⟨_, hst, hnames⟩ := C01_returned_names arr sub inputs ui r hrun
      have hsubp : Sub.subpipeline Sub.mfuncNode fs (some (akeys inputs)) (some S) = .ok sub := by
        simpa [Sub.prepare] using hprep
      unfold Sub.subpipeline at hsubp
      simp only [Option.isNone_some, Bool.false_and, Bool.false_eq_true, ↓reduceIte] at hsubp
      split at hsubp
      · cases hsubp
      · next out hout =>
        obtain ⟨hout1, hout2⟩ := Sub.outNodes_some Sub.mfuncNode fs _ S out hout
        split at hsubp
        · cases hsubp
        · next K hK =>
          simp only [Sub.checkRoots] at hsubp
          split at hsubp
          · cases hsubp
            refine ⟨hrun, hnames, hst, ?_, fun f hf => Sub.keepFrom_subset K fs 0 f hf⟩
            intro o ho
            obtain ⟨i, hi⟩ := Option.isSome_iff_exists.mp (hout2 o ho)
            obtain ⟨f, hfi, hfo⟩ := prodIdx_spec Sub.mfuncNode fs o i hi
            have hiK : i ∈ K := by
              apply (Sub.reachSet_iff _ _ _ K hK i).mpr
              apply Sub.Reach.base
              rw [hout1]
              exact List.mem_filterMap.mpr ⟨o, ho, hi⟩
            apply (hnames o).mpr
            refine ⟨f, (Sub.mem_keepFrom K fs 0 f).mpr ⟨i, by simpa using hiK, hfi⟩, ?_⟩
            simpa [Sub.mfuncNode] using hfo
          · cases hsubp

/-! ### non-vacuity: `x[i] -> y[i]`, `y -> s` (reduction), `x[i] -> t[i]` (an unrelated branch) -/

section Examples
private def ints (n : Nat) : List Val := (List.range n).map fun i => .int (Int.ofNat i)
private def mf (name : String) (params outputs : List String) (ms : Option MSpec) : MFunc :=
  { name := name, params := params.map fun p => (p, p), outputs := outputs, mapspec := ms, ret := none, internal := none,
    defaults := [], bound := [] }
private def fY : MFunc := mf "f" ["x"] ["y"] (some ⟨[⟨"x", [some "i"]⟩], [⟨"y", [some "i"]⟩]⟩)
private def fS : MFunc := mf "h" ["y"] ["s"] none
private def fT : MFunc := mf "g" ["x"] ["t"] (some ⟨[⟨"x", [some "i"]⟩], [⟨"t", [some "i"]⟩]⟩)
private def inp : List (String × Val) := [("x", .arr [2] (ints 2))]

example : (runMap [fS, fT, fY] inp []).toOption.map (fun r => akeys r.outputs) = some ["t", "y", "s"] := by decide
/-- `output_names={"s"}` returns `y` as well (needed for `s`) but not `t` -/
example : (Sub.mapSub [fS, fT, fY] inp [] (some ["s"]) false).toOption.map (fun p => (p.1.map (·.name), akeys p.2.outputs)) =
    some (["h", "f"], ["y", "s"]) := by decide
example : (Sub.mapSub [fS, fT, fY] inp [] (some ["t"]) false).toOption.map (fun p => akeys p.2.outputs) = some ["t"] := by decide
end Examples

end PF.C01
