"""C04, third stream (round 9): `RunInfo.load(F)` after a dump IS the model's `normalise`, for every record.

The second stream of `props/c04.py` skips records whose joined keys collide and decides in Python what a record with
inadmissible names is expected to come back as ("later duplicate wins" in `model_fields`).  Here nothing is skipped and nothing
is merged on the Python side: the driver entry `runinfo.norm` returns `PF.RIC.normalise r` (the right-hand side of
`C04_load_dump_normalise`), and the real `RunInfo.load` result is compared with it field by field -- the order of the three
key dictionaries included (the merged entry sits where the first of the colliding keys was).
"""
from __future__ import annotations

import copy
import json
import os
import shutil
import time

import pfimport  # noqa: F401  (FIRST: blocks zarr)
from pfimport import exc_enum

import terms


def _rec(shapes, masks=None, storage="dict", names=("y",), **kw):
    d = {"inputs": [], "defaults": [], "all_output_names": list(names), "shapes": shapes,
         "internal_shapes": None, "shape_masks": [[k, [True] * len(v)] for k, v in shapes] if masks is None else masks,
         "mapspecs": [], "storage": storage}
    d.update(kw)
    return d


# colliding / non-fixed records (each is the witness of a `decide` theorem of Props/C04Norm.lean or a neighbour of one)
NORM_CORPUS = [
    _rec([[["y"], [2]], ["y,", [3]]]),                                   # C04_collision_one_tuple_witness
    _rec([["y,", [3]], [["y"], [2]]]),
    _rec([["y,", [1]], ["z", [5]], [["y"], [2]]]),                        # C04_collision_position_witness
    _rec([[["a,"], [2]]]),                                                # C04_normKey_not_idempotent_witness
    _rec([[["a", ""], [1]], [["a"], [2]]]),
    _rec([[["a"], [2]], [["a", ""], [1]]]),
    _rec([["a,b", [1]], [["a", "b"], [2]]]),
    _rec([[["a", "b"], [2]], ["a,b", [1]]]),
    _rec([["a,b", [1]], ["a,b,", [2]], [["a", "b"], [3]]]),               # C04_two_stage_witness
    _rec([[["a", "b"], [1]], [["a", "b", ""], [2]]]),                     # C04_collision_load_witness
    _rec([[[], [1]], ["", [2]]]),                                         # C04_collision_empty_witness
    _rec([["", [2]], [[], [1]]]),
    _rec([["a,b,,,", [1, 2]]]),                                           # C04_normKey_no_bound_witness
    _rec([[[""], [1]], [["", "a"], [2]], [["", ""], [3]], [",", [0]]]),
    _rec([["y", [2]]], storage=[["a,b", "dict"], [["a", "b"], "file_array"]]),
    _rec([["y", [2]]], storage=[[["y"], "dict"], ["y,", "file_array"], ["", "shared_memory_dict"], [[], "dict"]]),
    _rec([[["y"], [2]], ["y,", [3]]], masks=[["y,", [False]], [["y"], [True]]],
         storage=[["a,b", "dict"], ["a,b,", "file_array"], [["a", "b"], "shared_memory_dict"]], names=("z", "y", "a,b")),
    _rec([[["y"], [2]], ["y", [2]]], storage=[[["y"], "dict"]], mapspecs=["x[i] -> y[i]"]),   # admissible: a fixed point
]


def _key_str(k):
    return k if isinstance(k, str) else ",".join(k) + ("," if len(k) == 1 else "")


def _collides(rec):
    """two keys of one dictionary with the same JSON key, in `shapes`, `shape_masks` or a `storage` dictionary"""
    for ks in ([k for k, _ in rec["shapes"]], [k for k, _ in rec["shape_masks"]],
               [k for k, _ in rec["storage"]] if isinstance(rec["storage"], list) else []):
        s = [_key_str(k) for k in ks]
        if len(set(s)) != len(s):
            return True
    return False


def _names_ok(rec):
    def ok(k):
        if isinstance(k, str):
            return "," not in k
        return len(k) >= 1 and all(s and "," not in s for s in k)
    ks = [k for k, _ in rec["shapes"]] + [k for k, _ in rec["shape_masks"]] + ([k for k, _ in rec["storage"]] if isinstance(rec["storage"], list) else [])
    return all(ok(k) for k in ks)


def strict_model(ri):
    """The model's RunInfo JSON in the observation's canonical form: ONLY sorted, never merged (a duplicate key stays a
    duplicate and then differs from the implementation's dict)."""
    def keyed(l, conv):
        return sorted(([k, conv(v)] for k, v in l), key=repr)
    return {"shapes": keyed(ri["shapes"], lambda v: {"tuple": v}), "shape_masks": keyed(ri["shape_masks"], lambda v: {"tuple": v}),
            "storage": ri["storage"] if isinstance(ri["storage"], str) else keyed(ri["storage"], lambda s: s),
            "internal_shapes": None if ri["internal_shapes"] is None else sorted([k, v] for k, v in ri["internal_shapes"]),
            "inputs": sorted([k, terms.canon(v)] for k, v in ri["inputs"]), "defaults": sorted([k, terms.canon(v)] for k, v in ri["defaults"]),
            "all_output_names": list(ri["all_output_names"]), "mapspecs": list(ri["mapspecs"])}


def strict_obs(o):
    """The observed RunInfo (`c04_obs.enc_run_info`) without the container type of an input"""
    return {"shapes": o["shapes"], "shape_masks": o["shape_masks"], "storage": o["storage"], "internal_shapes": o["internal_shapes"],
            "inputs": sorted([k, v] for k, _t, v in o["inputs"]), "defaults": sorted([k, v] for k, _t, v in o["defaults"]),
            "all_output_names": o["all_output_names"], "mapspecs": list(o["mapspecs"])}


def _orders(folder):
    """the key order of the three dictionaries `RunInfo.load` builds (first position of a merged entry)"""
    from pipefunc.map._run_info import RunInfo
    import c04_obs
    try:
        back = RunInfo.load(folder)
        return {"shapes": [c04_obs.enc_key(k) for k in back.shapes], "shape_masks": [c04_obs.enc_key(k) for k in back.shape_masks],
                "storage": None if isinstance(back.storage, str) else [c04_obs.enc_key(k) for k in back.storage]}
    except Exception as e:  # noqa: BLE001
        return {"err": exc_enum(e)}


def _model_orders(ri):
    return {"shapes": [k for k, _ in ri["shapes"]], "shape_masks": [k for k, _ in ri["shape_masks"]],
            "storage": None if isinstance(ri["storage"], str) else [k for k, _ in ri["storage"]]}


def run_norm_stream(ctx, base, gen_record, record_impl, model_fields, obs_fields):  # noqa: ARG001  (the two canonicalisers of c04.py merge; see strict_*)
    t0 = time.time()
    rng = ctx.rng
    records = [copy.deepcopy(r) for r in NORM_CORPUS] + [gen_record(rng) for _ in range(ctx.n(150, 3000))]
    impls, orders = [], []
    for i, r in enumerate(records):
        folder = os.path.join(base, f"norm{i}")
        try:
            impl = record_impl(r, folder)
        except Exception as e:  # noqa: BLE001  (record_impl catches; belt and braces)
            impl = {"err": exc_enum(e), "at": "harness", "msg": str(e)[:160]}
        impls.append(impl)
        orders.append(_orders(folder) if "err" not in impl else None)
        shutil.rmtree(folder, ignore_errors=True)
    outs = ctx.lean([{"m": "runinfo.norm", "a": {"runinfo": r}} for r in records])
    for rec, impl, order, resp in zip(records, impls, orders, outs):
        judge_norm(ctx, rec, impl, order, resp["r"])
    ctx.count("norm:stream-seconds(rounded)", int(round(time.time() - t0)))


def judge_norm(ctx, rec, impl, order, model):
    case = {"record": rec, "stream": "norm"}
    okn, col = _names_ok(rec), _collides(rec)
    ctx.count("norm:names-ok" if okn else "norm:names-not-ok")
    ctx.count("norm:keys-collide" if col else "norm:keys-distinct")
    ctx.count("norm:fixed" if model["fixed"] else "norm:changed-by-normalisation")
    ctx.record(case, bool(rec["shapes"]))
    # model evaluation of the theorems (every generated record has distinct input names)
    if model["decodedN"] is None or json.dumps(model["decodedN"], sort_keys=True) != json.dumps(model["normalised"], sort_keys=True):
        ctx.violation(case, "decodeN (dumpAllN r) differs from normalise r in the model", found_input=False,
                      item="C04_load_dump_normalise (model evaluation)", impl=None, model={"decodedN": model["decodedN"], "normalised": model["normalised"]})
        return
    if model["fixed"] != model["recFixed"]:
        ctx.violation(case, "recFixed r disagrees with `normalise r` keeping the three dictionaries", found_input=False,
                      item="C04_normalise_fix_iff (model evaluation)", impl=None, model={"fixed": model["fixed"], "recFixed": model["recFixed"]})
        return
    if okn and not col and not model["fixed"]:
        ctx.violation(case, "an admissible record with distinct keys is changed by the model's normalise", found_input=False,
                      item="C04_normalise_of_namesOK (model evaluation)", impl=None, model=model["normalised"])
        return
    if "err" in impl:
        # the real dump or load raised: an observation, not a comparison (the model's dump + load is total: C04_load_dump_total)
        ctx.count(f"norm:impl-raises-at-{impl.get('at')}:{impl['err']}")
        ctx.violation(case, f"RunInfo {impl.get('at')} raises {impl['err']} for a record the model normalises", found_input=False,
                      item="correspondence:record-normalise", impl=impl, model=None, key=f"norm record {impl.get('at')} raises")
        return
    ctx.count("norm:compared")
    if model["fixed"] != bool(impl["equal"]) and set(rec["all_output_names"]) == set(model["normalised"]["all_output_names"]):
        ctx.violation(case, f"RunInfo.load(F) == the dumped RunInfo is {impl['equal']}, the model's fixed-point test says {model['fixed']}",
                      found_input=False, item="correspondence:record-normalise", impl={"equal": impl["equal"]}, model={"fixed": model["fixed"]})
        return
    ctx.count("norm:roundtrip-" + ("holds" if impl["equal"] else "fails(as normalise predicts)"))
    md, ol = strict_model(model["normalised"]), strict_obs(impl["loaded"])
    if md != ol:
        diff = [k for k in ol if md.get(k) != ol[k]]
        ctx.violation(case, f"RunInfo.load differs from the model's normalise in {diff}", found_input=False, item="correspondence:record-normalise",
                      impl={k: ol[k] for k in diff}, model={k: md.get(k) for k in diff})
        return
    mo = _model_orders(model["normalised"])
    if order is None or "err" in order:
        ctx.count("norm:order-not-observed")
    elif order != mo:
        diff = [k for k in mo if order.get(k) != mo[k]]
        ctx.violation(case, f"the key order of the reloaded dictionaries differs from the model's normalise in {diff}", found_input=False,
                      item="correspondence:record-normalise", impl={k: order.get(k) for k in diff}, model={k: mo[k] for k in diff})
    else:
        ctx.count("norm:order-compared")
        if any(len(v) > 1 for v in mo.values() if v):
            ctx.count("norm:order-compared(several keys)")


def replay_norm(ctx, case, base, record_impl):
    """both sides for one recorded case of this stream (`case["stream"] == "norm"`)"""
    folder = os.path.join(base, "norm-replay")
    impl = record_impl(case["record"], folder)
    print("implementation:", json.dumps(impl, default=str)[:3000])
    print("implementation key order:", json.dumps(_orders(folder) if "err" not in impl else None))
    shutil.rmtree(folder, ignore_errors=True)
    print("model:", json.dumps(ctx.lean([{"m": "runinfo.norm", "a": {"runinfo": case["record"]}}])[0]["r"])[:3000])
