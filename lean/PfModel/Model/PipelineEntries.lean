/-
The other public ways of calling a pipeline, on top of `PF.Pipe.runTop` (`Pipeline.run`):
`Pipeline.__call__` (`pipefunc/_pipeline/_base.py:453-474`, incl. the unique-leaf default `:1168-1177`), `Pipeline.func`
(`:425-444`) and `_PipelineAsFunc.__call__/call_full_output/call_with_dict/call_with_root_args`
(`:1963-2050`: `inspect.Signature(root_args).bind(*args, **kwargs)` then `self(**bound.arguments)`), `Pipeline.__getitem__`
(`:342-355`) and `PipeFunc.__call__` with keyword arguments (`pipefunc/_pipefunc.py:628-673`: unexpected-keyword check,
`defaults | kwargs | bound`, inverse renames).  Core Lean only.
-/
import PfModel.Model.Pipeline
namespace PF.Pipe
open PF

/-- errors of the entry points: those of `Pipeline.run`, plus `TypeError` of `Signature.bind`, the `ValueError` of
    `unique_leaf_node`, and the `ValueError` of `PipeFunc.__call__` for an unexpected keyword -/
inductive EErr
  | pipe (e : Err)
  | tooMany | multiple (p : String) | unexpected (p : String) | missingRoot (p : String)
  | leaves (n : Nat)
  | extraKw (p : String)
  deriving Repr, DecidableEq

def liftE {α : Type} : Except Err α → Except EErr α
  | .ok a => .ok a
  | .error e => .error (.pipe e)

def Req.label : Req → String
  | .name o => o
  | .whole os => ",".intercalate os

/-- `Pipeline.root_args(output_name)` for a request: a tuple name is looked up through `node_mapping`, which maps it (and
    each of its components) to the producing function; `_compute_arg_mapping` starts from that function either way -/
def reqRootArgs (fs : List Func) : Req → Option (List String)
  | .name o => rootArgs fs o
  | .whole os =>
    match os with
    | [] => none
    | o :: _ => if (fs.find? (fun f => f.outputs = os)).isSome then rootArgs fs o else none

/-- `Pipeline.func(output_name)(**kw)`: `func` first computes `root_args(output_name)` (a `KeyError` for an unknown name),
    the wrapper's `__call__` is `pipeline.run(output_name, kwargs=kw)`.  `call_with_dict(kw)` is the same call. -/
def funcCall (fs : List Func) (kw : List (String × Val)) (req : Req) : Except Err Outcome :=
  match reqRootArgs fs req with
  | none => .error (.noFunc req.label)
  | some _ => runTop fs kw req

/-- the root arguments not given positionally must all be given by keyword (`Signature.bind`: "missing a required argument") -/
def bindRest (kw : List (String × Val)) : List String → Except EErr (List (String × Val))
  | [] => .ok []
  | r :: rs =>
    match alookup kw r with
    | none => .error (.missingRoot r)
    | some v =>
      match bindRest kw rs with
      | .error e => .error e
      | .ok l => .ok ((r, v) :: l)

/-- `inspect.Signature([Parameter(n, POSITIONAL_OR_KEYWORD) for n in roots]).bind(*pos, **kw)`, `apply_defaults()` (there
    are no defaults), `.arguments`: the root names in signature order, each with its positional or keyword value -/
def bindRoot (roots : List String) (pos : List Val) (kw : List (String × Val)) : Except EErr (List (String × Val)) :=
  if pos.length > roots.length then .error .tooMany else
  match (akeys kw).find? (fun k => (roots.take pos.length).contains k) with
  | some k => .error (.multiple k)
  | none =>
    match (akeys kw).find? (fun k => !(roots.contains k)) with
    | some k => .error (.unexpected k)
    | none =>
      match bindRest kw (roots.drop pos.length) with
      | .error e => .error e
      | .ok l => .ok (roots.zip pos ++ l)

/-- `Pipeline.func(output_name).call_with_root_args(*pos, **kw)` -/
def callRoot (fs : List Func) (req : Req) (pos : List Val) (kw : List (String × Val)) : Except EErr Outcome :=
  match reqRootArgs fs req with
  | none => .error (.pipe (.noFunc req.label))
  | some roots =>
    match bindRoot roots pos kw with
    | .error e => .error e
    | .ok kw' => liftE (runTop fs kw' req)

/-- `leaf_nodes`: the functions no other function takes an output of through a non-bound parameter (a bound parameter is
    a `_Bound` node in the graph, not an edge from the producer), in listing order -/
def leafFuncs (fs : List Func) : List Func :=
  fs.filter fun f => !(fs.any fun g => g.params.any fun pq => (alookup g.bound pq.1).isNone && f.outputs.contains pq.1)

/-- the request that names a whole function: its single output name, or the tuple of its output names -/
def reqOf (f : Func) : Req :=
  match f.outputs with
  | [o] => .name o
  | os => .whole os

/-- `pipeline(**kw)` without an output name: the unique leaf node's `output_name` (`ValueError` unless there is exactly one) -/
def callLeaf (fs : List Func) (kw : List (String × Val)) : Except EErr Outcome :=
  match leafFuncs fs with
  | [f] => liftE (runTop fs kw (reqOf f))
  | l => .error (.leaves l.length)

/-- `pipeline[output_name]`: the producing function (`KeyError` for an unknown name); a tuple name must be the whole
    `output_name` of a function -/
def getItem (fs : List Func) : Req → Option Func
  | .name o => producer fs o
  | .whole os => fs.find? (fun f => f.outputs = os)

/-- the value `PipeFunc.__call__` delivers for the pipeline-level parameter `p`: `defaults | kwargs | bound` — a bound
    value wins over a keyword, a keyword over the function's own default -/
def pfArg (f : Func) (kw : List (String × Val)) (p : String) : Option Val :=
  match alookup f.bound p with
  | some v => some v
  | none =>
    match alookup kw p with
    | some v => some v
    | none => alookup f.defaults p

/-- the keyword arguments handed to the wrapped function, keyed by its own names (inverse renames); a parameter nobody
    supplies is the wrapped function's own `TypeError`, modelled as `missing` -/
def pfArgs (f : Func) (kw : List (String × Val)) : List (String × String) → Except EErr (List (String × Val))
  | [] => .ok []
  | (p, orig) :: ps =>
    match pfArg f kw p with
    | none => .error (.pipe (.missing p))
    | some v =>
      match pfArgs f kw ps with
      | .error e => .error e
      | .ok l => .ok ((orig, v) :: l)

/-- `PipeFunc.__call__(**kw)` on a function taken out of the pipeline (`_pipefunc.py:628-673`): an unexpected keyword is a
    `ValueError`; then `defaults | kwargs | bound`, inverse renames, and the wrapped function is called -/
def pfCall (f : Func) (kw : List (String × Val)) : Except EErr Val :=
  match (akeys kw).find? (fun k => !(f.params.any (·.1 = k))) with
  | some k => .error (.extraKw k)
  | none =>
    match pfArgs f kw f.params with
    | .error e => .error e
    | .ok a => .ok (result f a)

end PF.Pipe
