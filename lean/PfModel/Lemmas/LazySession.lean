import PfModel.Lemmas.LazySound
import PfModel.Lemmas.LazyEval
import PfModel.Lemmas.LazyExact
/-! Helper lemmas for `Props/C18.lean`, part 5: the session invariant and the core facts about one lazy call. -/
namespace PF.Lazy
open PF PF.Pipe

/-- the invariant of a session on one pipeline: any sequence of lazy calls (with ANY keyword arguments, each call its own),
    `evaluate()`s and `construct_dag()` blocks.  The cache clause speaks about every entry of the task graph's cache and of the
    pipeline's own cache and about every set of keyword arguments that can find it (`EntryOK`). -/
structure Sess (fs : List Func) (s : LSt) : Prop where
  closed : Closed s.nodes
  cache : CacheSound fs s
  graph : GInv s
  done : DoneSound s.nodes s.ev
  log : LogInv s.ev
  xclosed : DoneClosed s.nodes s.ev     -- the arguments of an evaluated node are evaluated
  logged : DoneLogged s.ev              -- a node whose `_evaluated` flag is set is in the log of invocations

theorem Sess.xinv {fs : List Func} {s : LSt} (h : Sess fs s) : XInv s.nodes s.ev := ⟨h.log, h.xclosed, h.logged⟩

theorem sess_inv0 {fs : List Func} (kw : List (String × Val)) {s : LSt} (h : Sess fs s) :
    Inv fs kw { s with memo := kw.map fun (k, v) => (k, LArg.val v), used := [], usedNone := false } := by
  refine ⟨h.closed, ?_, h.cache, h.graph⟩
  intro p a hk hp
  simp only [] at hp
  rw [alookup_map_val, hk] at hp; cases hp

/-- the core fact about one lazy call `pipeline(o, **kw)` -/
theorem lrunTop_name {fs : List Func} {kw : List (String × Val)} {rank : String → Nat} (wf : PipeCache.WF fs rank) {s : LSt}
    (hs : Sess fs s) {o : String}
    {a : LArg} {s' : LSt} (h : lrunTop fs kw (.name o) s = .ok (a, s')) :
    Step s s' ∧ Inv fs kw s' ∧ ∃ v k, den s'.nodes a = some v ∧ compose fs kw k o = .ok v := by
  simp only [lrunTop] at h
  split at h
  · cases h
  · next hko =>
    split at h
    · cases h
    · next a1 s1 hrun =>
      split at h
      · injection h with h; injection h with h1 h2; subst h1; subst h2
        have hko' : alookup kw o = none := by
          cases hh : alookup kw o with
          | none => rfl
          | some _ => rw [hh] at hko; simp at hko
        obtain ⟨hst, hi, hv⟩ := lrun_sound wf (fuelFor fs) o _ a1 s1 (sess_inv0 kw hs) hrun
        exact ⟨hst, hi, hv hko'⟩
      · cases h

/-! ### a request for the whole tuple of one function -/

/-- the end of `Pipeline.run`: the surplus-keyword check, skipped after a cache hit -/
def fin (kw : List (String × Val)) (a : LArg) (s : LSt) : Except Err (LArg × LSt) :=
  if s.usedNone || ((akeys kw).filter (fun k => !(s.used.contains k))).isEmpty then .ok (a, s)
  else .error (.unused ((akeys kw).filter (fun k => !(s.used.contains k))))

theorem fin_ok {kw : List (String × Val)} {a a' : LArg} {s s' : LSt} (h : fin kw a s = .ok (a', s')) : a' = a ∧ s' = s := by
  unfold fin at h
  split at h
  · injection h with h; injection h with h1 h2; exact ⟨h1.symm, h2.symm⟩
  · cases h

def wholeKey (fs : List Func) (kw : List (String × Val)) (f : Func) (os : List String) (s : LSt) : Option Key :=
  match os with | o :: _ => activeKey fs kw f o s | [] => none

theorem lrunTop_whole_eq (fs : List Func) (kw : List (String × Val)) (os : List String) (s : LSt) :
    lrunTop fs kw (.whole os) s =
    match fs.find? (fun f => f.outputs = os) with
    | none => .error (.noFunc (",".intercalate os))
    | some f =>
      match cacheLookup { s with memo := kw.map fun (k, v) => (k, LArg.val v), used := [], usedNone := false }
          (wholeKey fs kw f os { s with memo := kw.map fun (k, v) => (k, LArg.val v), used := [], usedNone := false }) with
      | some r => fin kw r { s with memo := kw.map fun (k, v) => (k, LArg.val v), used := [], usedNone := true }
      | none =>
        match largs (lrun fs kw (fuelFor fs)) fs kw f f.params
            { s with memo := kw.map fun (k, v) => (k, LArg.val v), used := [], usedNone := false } with
        | .error e => .error e
        | .ok (args, s1) =>
          fin kw (.ref s1.nodes.length)
            (cachePut (wholeKey fs kw f os { s with memo := kw.map fun (k, v) => (k, LArg.val v), used := [], usedNone := false })
              (.ref s1.nodes.length) (mkNode (.call f args) s1).2) := by
  rfl

/-- the core fact about a lazy call that requests the whole tuple of one function, `pipeline(("b", "c"), **kw)`: the returned
    object stands for the function's raw result on the composition of its arguments -/
theorem lrunTop_whole {fs : List Func} {kw : List (String × Val)} {rank : String → Nat} (wf : PipeCache.WF fs rank) {s : LSt}
    (hs : Sess fs s) {os : List String}
    {a : LArg} {s' : LSt} (h : lrunTop fs kw (.whole os) s = .ok (a, s')) :
    Step s s' ∧ Inv fs kw s' ∧ ∃ f k vals, fs.find? (fun f => f.outputs = os) = some f ∧
      composeArgsWith (compose fs kw k) fs kw f f.params = .ok vals ∧ den s'.nodes a = some (result f vals) := by
  rw [lrunTop_whole_eq] at h
  split at h
  · cases h
  · next f hfind =>
    have hfm : f ∈ fs := List.mem_of_find?_eq_some hfind
    have hfo : f.outputs = os := by simpa using List.find?_some hfind
    have hi0 := sess_inv0 kw hs
    have hprod : ∀ o rest, os = o :: rest → producer fs o = some f := fun o rest e =>
      (producer_some_iff fs wf.uniq o f).mpr ⟨hfm, by rw [hfo, e]; exact List.mem_cons_self⟩
    have hwk : ∀ s0 k', wholeKey fs kw f os s0 = some k' → ∃ o rest, os = o :: rest ∧ cacheKey fs kw f o = some k' := by
      intro s0 k' hk'
      unfold wholeKey at hk'
      split at hk'
      · next o rest => exact ⟨o, rest, rfl, activeKey_some hk'⟩
      · cases hk'
    split at h
    · next r hr =>
      -- the whole tuple was requested before (same key): the cached `_LazyFunction` is returned
      obtain ⟨rfl, rfl⟩ := fin_ok h
      obtain ⟨key, k', hkey, hmem, hq⟩ := cacheLookup_sound hr
      obtain ⟨o, rest, hos, hck⟩ := hwk _ k' hkey
      obtain ⟨k, vals, hk, hd⟩ := hi0.cache key a hmem f o kw k' (hprod o rest hos) hck hq
      exact ⟨⟨⟨[], by simp⟩, rfl, rfl⟩, ⟨hi0.closed, hi0.memo, hi0.cache, hi0.graph⟩, f, k, vals, hfind, hk, hd⟩
    · split at h
      · cases h
      · next args s1 hargs =>
        obtain ⟨rfl, rfl⟩ := fin_ok h
        obtain ⟨hs1, hi1, k, vals, hk, hdargs⟩ := largs_sound _ (lrun_sound wf (fuelFor fs)) f f.params _ args s1 hi0 hargs
        obtain ⟨hi2, hd2⟩ := call_node_sound (f := f) s1 hi1 hdargs
        have hs1' : Step s s1 := hs1
        cases hwk' : wholeKey fs kw f os { s with memo := kw.map fun (k, v) => (k, LArg.val v), used := [], usedNone := false } with
        | none =>
          exact ⟨hs1'.trans (mkNode_step _ s1), by simpa [cachePut] using hi2, f, k, vals, hfind, hk, by simpa [cachePut] using hd2⟩
        | some k' =>
          obtain ⟨o, rest, hos, hck⟩ := hwk _ k' hwk'
          obtain ⟨hi3, hs3, hn3, _⟩ := cachePut_inv wf (some k') (.ref s1.nodes.length) _ hi2 (hprod o rest hos)
            (fun k'' hk'' => by injection hk'' with hk''; rw [← hk'']; exact hck) hk hd2
          exact ⟨hs1'.trans ((mkNode_step _ s1).trans hs3), hi3, f, k, vals, hfind, hk, by rw [hn3]; exact hd2⟩

theorem sess_after {fs : List Func} {kw : List (String × Val)} {s s' : LSt} (hs : Sess fs s) (hst : Step s s')
    (hi : Inv fs kw s') : Sess fs s' := by
  obtain ⟨⟨ext, hext⟩, hev, _⟩ := hst
  refine ⟨hi.closed, hi.cache, hi.graph, ?_, by rw [hev]; exact hs.log, ?_, by rw [hev]; exact hs.logged⟩
  · intro i w hl
    rw [hev] at hl
    rw [hext]; exact den_ext ext (hs.done i w hl)
  · intro i nd hd hn j hj
    rw [hev] at hd ⊢
    obtain ⟨w, hw⟩ := Option.isSome_iff_exists.mp hd
    have hlt : i < s.nodes.length := den_some_lt (hs.done i w hw)
    rw [hext, List.getElem?_append_left hlt] at hn
    exact hs.xclosed i nd hd hn j hj

end PF.Lazy
