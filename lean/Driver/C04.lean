import PfModel.DriverVal
import PfModel.Model.RunInfoCodec
import PfModel.Model.RunInfoResume
/-! Driver for C04: `runinfo.codec` (decode ∘ encode of an arbitrary record, with the pinned code's key codec next to it)
    and `run.reload` (the folder a run leaves behind, reloaded); `run.resume` (round 4): the same after an EARLIER run into the folder
    with its own storage configuration and inputs (`PF.RIC.runOn` with `cleanup=False` on the folder the earlier run left). -/
open Lean PF PF.Drv PF.Map PF.RIC

def getASpec (j : Json) : R ASpec := do
  let (n, ax) ← asPair asStr (asList (asOpt asStr)) j
  return { name := n, axes := ax }

def getMSpec (j : Json) : R MSpec := do
  return { inputs := ← listF getASpec j "inputs", outputs := ← listF getASpec j "outputs" }

def getMFunc (j : Json) : R MFunc := do
  return { name := ← strF j "name", params := ← listF (asPair asStr asStr) j "params", outputs := ← listF asStr j "outputs",
           mapspec := ← optF getMSpec j "mapspec", ret := ← optF (asList asNat) j "ret", internal := ← optF (asList asNat) j "internal",
           defaults := (← optF getKw j "defaults").getD [], bound := (← optF getKw j "bound").getD [] }

def putMErr : PF.Map.Err → Json
  | .value w => jObj [("err", jStr "ValueError"), ("why", jStr w)]
  | .type w => jObj [("err", jStr "TypeError"), ("why", jStr w)]
  | .index w => jObj [("err", jStr "IndexError"), ("why", jStr w)]
  | .key w => jObj [("err", jStr "KeyError"), ("why", jStr w)]
  | .fuel => jObj [("err", jStr "RecursionError")]

def getKey (j : Json) : R Key :=
  match j with
  | .str s => .ok (.one s)
  | _ => do return .many (← asList asStr j)

def putKey : Key → Json
  | .one s => jStr s
  | .many ss => jList jStr ss

def getIShape (j : Json) : R IShape :=
  match j with
  | .num _ => do return .int (← asNat j)
  | _ => do return .tup (← asList asNat j)

def putIShape : IShape → Json
  | .int n => jNat n
  | .tup l => jList jNat l

def getStorage (j : Json) : R Storage :=
  match j with
  | .str s => .ok (.uniform s)
  | _ => do return .per (← asList (asPair getKey asStr) j)

def putStorage : Storage → Json
  | .uniform s => jStr s
  | .per m => jList (jPair putKey jStr) m

def getRunInfo (j : Json) : R RunInfo := do
  return { inputs := ← getKw (← fld j "inputs"), defaults := ← getKw (← fld j "defaults"),
           allOutputNames := ← listF asStr j "all_output_names",
           shapes := ← listF (asPair getKey (asList asNat)) j "shapes",
           internalShapes := ← optF (asList (asPair asStr getIShape)) j "internal_shapes",
           shapeMasks := ← listF (asPair getKey (asList asBool)) j "shape_masks",
           mapspecs := ← listF asStr j "mapspecs", storage := ← getStorage (← fld j "storage"),
           version := (← optF asStr j "version").getD "v" }

def putRunInfo (r : RunInfo) : Json :=
  jObj [("inputs", putKw r.inputs), ("defaults", putKw r.defaults), ("all_output_names", jList jStr r.allOutputNames),
        ("shapes", jList (jPair putKey (jList jNat)) r.shapes),
        ("internal_shapes", jOpt (jList (jPair jStr putIShape)) r.internalShapes),
        ("shape_masks", jList (jPair putKey (jList jBool)) r.shapeMasks),
        ("mapspecs", jList jStr r.mapspecs), ("storage", putStorage r.storage), ("version", jStr r.version)]

def pathStr : Path → String
  | .folder => "$F"
  | .runInfo => "$F/run_info.json"
  | .input n => "$F/inputs/" ++ n ++ ".cloudpickle"
  | .defaults => "$F/defaults/defaults.cloudpickle"
  | .output n => "$F/outputs/" ++ n ++ ".cloudpickle"
  | .cell n li => "$F/outputs/" ++ n ++ "/__" ++ toString li ++ "__.pickle"
  | .dictFile n => "$F/outputs/" ++ n ++ "/dict_array.cloudpickle"

/-- the model's JSON value as real JSON (objects as lists of pairs, so that key order and duplicates stay visible) -/
partial def putJ : J → Json
  | .null => Json.null
  | .bool b => jBool b
  | .num n => jInt n
  | .str s => jStr s
  | .path p => jStr (pathStr p)
  | .arr l => jArr (l.map putJ)
  | .obj kv => jObj [("obj", jArr (kv.map fun (k, v) => jArr [jStr k, putJ v]))]

def handle (m : String) (a : Json) : R Json := do
  match m with
  | "runinfo.codec" =>
    let r ← getRunInfo (← fld a "runinfo")
    let fo := dumpAll Folder.empty r
    let keys := r.shapes.map (·.1)
    return jObj [("json", putJ (encode r)), ("decoded", jOpt putRunInfo (decode fo)),
                 ("keys", jList (fun k => jArr [putKey k, jStr (keyStr k), putKey (strKey (keyStr k)),
                    jStr (String.ofList (keyCharsLegacy k)), putKey (charsKeyLegacy (keyCharsLegacy k))]) keys)]
  | "run.reload" | "run.resume" =>
    let fs ← listF getMFunc a "funcs"
    let inputs ← getKw (← fld a "inputs")
    let user := (← optF (asList (asPair asStr getIShape)) a "user_internal").getD []
    let tupled := (← optF (asList asStr) a "tupled").getD []
    let intForm := (← optF (asList asStr) a "int_pf").getD []
    let storage ← getStorage (← fld a "storage")
    let persistMemory := (← optF asBool a "persist").getD true
    let version := (← optF asStr a "version").getD "v"
    -- the folder before the run: empty, or what an earlier (complete) run with its own inputs and storage left
    let before : Option Folder ← (do
      if m == "run.reload" then return none
      let inputs0 ← getKw (← fld a "first_inputs")
      let storage0 ← getStorage (← fld a "first_storage")
      match runMapStore fs inputs0 (user.map fun (k, s) => (k, s.dims)) with
      | .error _ => .error "run.resume: the earlier run fails in the model"
      | .ok (res0, store0) =>
        let r0 := createRunInfo fs tupled intForm inputs0 user storage0 version res0.shapes res0.masks
        return some (folderOf persistMemory r0 (backendFor fs storage0) store0))
    match runMapStore fs inputs (user.map fun (k, s) => (k, s.dims)) with
    | .error e => return putMErr e
    | .ok (res, store) =>
      let r := createRunInfo fs tupled intForm inputs user storage version res.shapes res.masks
      let backend := backendFor fs storage
      let folder : Except Refusal Folder := match before with
        | none => .ok (folderOf persistMemory r backend store)
        | some fo0 => runOn (fun _ _ => true) persistMemory fo0 { cleanup := false, info := r, backend := backend, store := store }
      match folder with
      | .error e => return jObj [("err", jStr "ValueError"), ("why", jStr s!"resume refused: {repr e}")]
      | .ok fo =>
      let parse := tableParse fs
      let names := store.map (·.1)
      return jObj [("runinfo", putRunInfo r), ("json", putJ (encode r)), ("decoded", jOpt putRunInfo (decode fo)),
                   ("loaded", jArr (names.map fun o => jArr [jStr o, jOpt putVal (loadOutput parse fo o)])),
                   ("stored", putKw res.stored), ("outputs", putKw res.outputs),
                   ("slots", jArr (store.map fun (o, s) => jArr [jStr o, jStr (match s with | .single _ => "single" | .array .. => "array")])),
                   ("agree", jBool (store.all fun (o, s) => agreeSlot parse r backend o s)),
                   ("resumed", jBool before.isSome),
                   ("backends", jArr (names.map fun o => jArr [jStr o, jOpt (fun b => jStr (match b with
                      | Backend.file => "file_array" | .dict => "dict" | .shm => "shared_memory_dict")) (backend o)]))]
  | _ => .error s!"unknown entry {m}"

def main : IO Unit := loop handle
