import PfModel.Lemmas.SubPipeMapLocal
/-!
C11, round 3 — the value clause for `map`, LOCAL half (see `Lemmas/SubPipeMapLocal.lean`).  `C11_map` / `C11_map_eq_spec` say that
the partial run is the ordinary map run of the partial pipeline (no hypothesis).  Here: every kept function is evaluated in the
partial run exactly as the FULL pipeline evaluates it on the same parameter values, whichever way those values are presented — a
provided intermediate (an array consumed through a MapSpec included) or the stored array of its producer.
-/
namespace PF.C11
open PF PF.Sub

/-- **Substitution of a provided intermediate, for one function** (any pipeline, any array producer `arr`): if two environments
    present the same whole VALUE for every non-bound parameter of `f` — e.g. one holds `y` as a provided input array, the other as
    the stored result array of `y`'s producer with `Slot.toVal = ` that array — then `f`'s run (outputs, stored slots, every call
    with its arguments, for a mapped `f` the element selected at every index) is the same.  No hypothesis on shapes or MapSpecs. -/
theorem C11_map_substitution (arr : Map.MFunc → List Nat → List Bool → (Nat → List (String × Val)) → String → Val)
    (fs : List Map.MFunc) (shapes : List (String × List Nat)) (masks : List (String × List Bool)) (e e' : Map.Env) (f : Map.MFunc)
    (h : ∀ p orig, (p, orig) ∈ f.params → alookup f.bound p = none → viewOf e' p = viewOf e p) :
    Map.runFuncWith arr fs shapes masks e' f = Map.runFuncWith arr fs shapes masks e f :=
  runFuncWith_congr arr fs fs shapes masks e e' f (fun p orig hp hb => ⟨h p orig hp hb, fun _ => rfl⟩)

/-- **Value clause for `map(output_names=S)`, local half (PARTIAL).**  For a pipeline with consistent defaults and a successful
    partial run: the results are the concatenation of one function-run per kept function, and each kept function's run is what
    the FULL pipeline `fs` computes for that function — same shapes table — in ANY environment `e'` presenting the same parameter
    values (in particular the full run's environment, where a provided intermediate sits in the store as its producer's array):
    bound > provided > stored > default, the default being the full pipeline's.
    MISSING for full strength: that the environment the full run presents to a kept function has these views (induction over the
    generations of both runs) and that the full run's shape table agrees with `r.shapes/r.masks` on the kept names; both are
    still carried by the correspondence (stream B compares with the implementation's full run). -/
theorem C11_map_values_local_partial (fs : List Map.MFunc) (inputs : List (String × Val)) (ui : List (String × List Nat))
    (S : List String) (auto : Bool) (sub : List Map.MFunc) (r : Map.MapResult) (hc : ConsistentDefaultsM fs)
    (h : mapSub fs inputs ui (some S) auto = .ok (sub, r)) :
    ∃ rs : List Map.FuncResult, r.outputs = rs.flatMap (·.outputs) ∧ r.calls = rs.flatMap (·.calls) ∧
      ∀ f ∈ sub, ∃ e fr, fr ∈ rs ∧ e.inputs = inputs ∧ Map.runFuncWith Map.opArray sub r.shapes r.masks e f = .ok fr ∧
        ∀ e' : Map.Env, (∀ p orig, (p, orig) ∈ f.params → alookup f.bound p = none → viewOf e' p = viewOf e p) →
          Map.runFuncWith Map.opArray fs r.shapes r.masks e' f = .ok fr := by
  unfold mapSub mapWith at h
  split at h
  · cases h
  · next sub' hprep =>
    split at h
    · cases h
    · next r' hrun =>
      cases h
      have hsubp : subpipeline mfuncNode fs (some (akeys inputs)) (some S) = .ok sub := by simpa [prepare] using hprep
      obtain ⟨K, hK, _, hmiss, rfl⟩ := subpipeline_ok_inv mfuncNode fs (akeys inputs) S sub hsubp
      have hKn : ∀ j, j ∈ K ↔ NeededFor mfuncNode fs (some (akeys inputs)) S j := fun j => reachSet_iff _ _ _ K hK j
      obtain ⟨rs, hcalls, houts, _, hall⟩ := runMapWith_each Map.opArray _ inputs ui r hrun
      refine ⟨rs, houts, hcalls, ?_⟩
      intro f hf
      obtain ⟨e, fr, hfr, he, hR⟩ := hall f hf
      refine ⟨e, fr, hfr, he, hR, ?_⟩
      intro e' hview
      rw [← hR]
      apply runFuncWith_congr
      intro p orig hp hb
      refine ⟨hview p orig hp hb, fun hnone => ?_⟩
      have hi : p ∉ akeys inputs := by
        rw [← alookup_none_iff, ← he]
        unfold viewOf at hnone
        cases hin : alookup e.inputs p with
        | none => rfl
        | some v => rw [hin] at hnone; cases hnone
      exact (pdefaultM_sub fs hc (akeys inputs) S K hKn hmiss f hf p (List.mem_map.mpr ⟨(p, orig), hp, rfl⟩) hb hi).symm

/-! ### non-vacuity -/

private def mf (name : String) (params outputs : List String) (ms : Option Map.MSpec) (dflt : List (String × Val) := []) : Map.MFunc :=
  { name := name, params := params.map fun p => (p, p), outputs := outputs, mapspec := ms, ret := none, internal := none,
    defaults := dflt, bound := [] }
/-- mapped `f(x[i], c=7) → y[i]`, mapped `g(y[i]) → z[i]` -/
private def mp : List Map.MFunc :=
  [mf "f" ["x", "c"] ["y"] (some ⟨[⟨"x", [some "i"]⟩], [⟨"y", [some "i"]⟩]⟩) [("c", .int 7)],
   mf "g" ["y"] ["z"] (some ⟨[⟨"y", [some "i"]⟩], [⟨"z", [some "i"]⟩]⟩)]
example : ConsistentDefaultsM mp := by
  intro f hf g hg p v w hv hw
  simp only [mp, List.mem_cons, List.mem_nil_iff, or_false] at hf hg
  rcases hf with rfl | rfl <;> rcases hg with rfl | rfl <;> simp_all [mf]
-- a provided ARRAY `y` consumed through `g`'s MapSpec: the partial pipeline is `[g]`, called once per element of `y`
example : (mapSub mp [("y", .arr [2] [.int 0, .int 1])] [] (some ["z"]) false).toOption.map
    (fun p => (p.1.map (·.name), p.2.calls.map (·.name))) = some (["g"], ["g", "g"]) := by decide
-- the same array presented as an input and as the stored array of its producer: the same view
example : viewOf ⟨[("y", .arr [2] [.int 0, .int 1])], []⟩ "y" =
    viewOf ⟨[], [("y", .array [2] [true] [(0, .int 0), (1, .int 1)])]⟩ "y" := by rfl

end PF.C11
