import PfModel.Lemmas.HashablePandas
import PfModel.Props.C15
/-!
C15 for the pandas branches of `to_hashable` (`Model/HashablePandas.lean`: `seriesKey`, `frameKey`; `pipefunc/cache.py:786-791`).
Clause carried: "returns unequal keys for values that differ in … content" — for a Series the content is the name and the
label ↦ value mapping, for a DataFrame the column label ↦ column values mapping.  The theorems say exactly what the key
determines (and `…_lost` / `…_ignored` what it does not: the known finding KF-C15-pandas-lossy-key).
-/
namespace PF.C15
open PF.Hashable

def lblA : Atom := .str [97]
def lblB : Atom := .str [98]
def lbl (n : Nat) : Atom := .num 0 (2 * (n : Int))

/-- Two Series with the same key have the same class, the same name and — read as dicts — are the same value. -/
theorem C15_series_key_sound (c c' : Nat) (n n' : PV) (rows rows' : List (Atom × PV)) (k : PV)
    (h : seriesKey true c n rows = .ok k) (h' : seriesKey true c' n' rows' = .ok k) :
    c = c' ∧ n = n' ∧ Equiv (seriesDict rows) (seriesDict rows') := by
  simp only [seriesKey] at h h'
  cases hk : key true (seriesDict rows) with
  | error e => rw [hk] at h; cases h
  | ok a =>
    cases hk' : key true (seriesDict rows') with
    | error e => rw [hk'] at h'; cases h'
    | ok a' =>
      rw [hk] at h; rw [hk'] at h'
      cases h
      simp only [Except.ok.injEq] at h'
      obtain ⟨e1, e2⟩ := tagged_inj h'
      simp only [Cls.other.injEq] at e1
      simp only [tup, PV.node.injEq, true_and, List.cons.injEq, and_true] at e2
      obtain ⟨e2, e3⟩ := e2
      subst e3
      exact ⟨e1.symm, e2.symm, key_injective _ _ _ hk hk'⟩

/-- The index labels enter the key: two Series (index labels pairwise different in each) with the same key have the same
    number of rows, and every row `(label, value)` of the one is a row `(label, value')` of the other with the same value —
    the same label ↦ value mapping.  (What a cache needs for `idxmax`, `.loc`, alignment: seeded change C15-s3-A keyed the
    rows by position and broke exactly this.) -/
theorem C15_series_labels_in_key (c c' : Nat) (n n' : PV) (rows rows' : List (Atom × PV)) (k : PV)
    (hn : (rows.map Prod.fst).Nodup) (hn' : (rows'.map Prod.fst).Nodup)
    (h : seriesKey true c n rows = .ok k) (h' : seriesKey true c' n' rows' = .ok k) :
    n = n' ∧ rows.length = rows'.length ∧ ∀ l v, (l, v) ∈ rows → ∃ v', (l, v') ∈ rows' ∧ Equiv v v' := by
  obtain ⟨_, e, he⟩ := C15_series_key_sound c c' n n' rows rows' k h h'
  simp only [seriesDict, pyDict_nodup hn, pyDict_nodup hn'] at he
  exact ⟨e, equiv_itemsOf_length he, fun l v hm => equiv_itemsOf_mem he hm⟩

example : (∃ k, seriesKey true 7 (.atom (.str [118])) [(lblA, natAtom 1), (lblB, .node .list [natAtom 5])] = .ok k) ∧
    seriesKey true 7 (.atom (.str [118])) [(lblA, natAtom 1), (lblB, natAtom 5)] ≠
      seriesKey true 7 (.atom (.str [118])) [(.str [120], natAtom 1), (.str [121], natAtom 5)] ∧
    seriesKey true 7 (.atom (.str [118])) [(lbl 0, natAtom 1), (lbl 1, natAtom 5)] ≠
      seriesKey true 7 (.atom (.str [118])) [(lbl 10, natAtom 1), (lbl 20, natAtom 5)] ∧
    seriesKey true 7 (.atom (.str [118])) [(lblA, natAtom 1)] ≠ seriesKey true 7 (.atom .none) [(lblA, natAtom 1)] :=
  ⟨⟨_, rfl⟩, by decide, by decide, by decide⟩

/-- Equal keys for equal Series — and for more: any re-ordering of the rows (index labels pairwise different) keeps the
    key.  The second half is the known finding: the row order of a Series is lost. -/
theorem C15_series_row_order_lost (c : Nat) (n : PV) (rows rows' : List (Atom × PV)) (k : PV)
    (hn : (rows.map Prod.fst).Nodup) (hp : rows.Perm rows') (hwf : wf (seriesDict rows) = true)
    (h : seriesKey true c n rows = .ok k) : seriesKey true c n rows' = .ok k := by
  have hn' : (rows'.map Prod.fst).Nodup := (hp.map Prod.fst).nodup_iff.1 hn
  have he : Equiv (seriesDict rows) (seriesDict rows') := by
    simp only [seriesDict, pyDict_nodup hn, pyDict_nodup hn']
    exact equiv_itemsOf_perm hp
  simp only [seriesKey] at h ⊢
  cases hk : key true (seriesDict rows) with
  | error e => rw [hk] at h; cases h
  | ok a => rw [hk] at h; rw [key_equiv _ _ he hwf a hk]; exact h

example : ((([(lblA, natAtom 1), (lblB, natAtom 2)] : List (Atom × PV)).map Prod.fst).Nodup) ∧
    wf (seriesDict [(lblA, natAtom 1), (lblB, natAtom 2)]) = true ∧
    seriesKey true 7 (.atom .none) [(lblA, natAtom 1), (lblB, natAtom 2)] =
      seriesKey true 7 (.atom .none) [(lblB, natAtom 2), (lblA, natAtom 1)] := ⟨by decide, by decide, by decide⟩

/-- the other half of the known finding for a Series: a repeated index label keeps only its last row -/
theorem C15_series_repeated_label_lost :
    seriesKey true 7 (.atom .none) [(lbl 0, natAtom 1), (lbl 0, natAtom 2)] =
      seriesKey true 7 (.atom .none) [(lbl 0, natAtom 3), (lbl 0, natAtom 2)] ∧
    pyDict [(lbl 0, natAtom 1), (lbl 1, natAtom 5), (lbl 0, natAtom 2)] = [(lbl 0, natAtom 2), (lbl 1, natAtom 5)] := by decide

/-- Two DataFrames (column labels pairwise different in each) with the same key have the same class, the same number of
    columns, and every column `(label, values)` of the one is a column of the other with the same values in the same row
    order — column labels and cell contents enter the key. -/
theorem C15_frame_key_sound (c c' : Nat) (ix ix' : List Atom) (cols cols' : List (Atom × List PV)) (k : PV)
    (hn : (cols.map Prod.fst).Nodup) (hn' : (cols'.map Prod.fst).Nodup)
    (h : frameKey true c ix cols = .ok k) (h' : frameKey true c' ix' cols' = .ok k) :
    c = c' ∧ cols.length = cols'.length ∧ ∀ l vs, (l, vs) ∈ cols → ∃ vs', (l, vs') ∈ cols' ∧ All2 Equiv vs vs' := by
  simp only [frameKey] at h h'
  cases hk : key true (frameDict cols) with
  | error e => rw [hk] at h; cases h
  | ok a =>
    cases hk' : key true (frameDict cols') with
    | error e => rw [hk'] at h'; cases h'
    | ok a' =>
      rw [hk] at h; rw [hk'] at h'
      cases h
      simp only [Except.ok.injEq] at h'
      obtain ⟨e1, e2⟩ := tagged_inj h'
      simp only [Cls.other.injEq] at e1
      subst e2
      have he := key_injective _ _ _ hk hk'
      have m1 : ((cols.map fun p => (p.1, PV.node .list p.2)).map Prod.fst).Nodup := by rw [colPairs_fst]; exact hn
      have m2 : ((cols'.map fun p => (p.1, PV.node .list p.2)).map Prod.fst).Nodup := by rw [colPairs_fst]; exact hn'
      simp only [frameDict, pyDict_nodup m1, pyDict_nodup m2] at he
      refine ⟨e1.symm, by simpa using equiv_itemsOf_length he, ?_⟩
      intro l vs hm
      have hm' : (l, PV.node .list vs) ∈ cols.map fun p => (p.1, PV.node .list p.2) := List.mem_map.2 ⟨(l, vs), hm, rfl⟩
      obtain ⟨v', hv', hev⟩ := equiv_itemsOf_mem he hm'
      obtain ⟨ys, rfl, hall⟩ := equiv_list_inv hev
      obtain ⟨q, hq, hqe⟩ := List.mem_map.1 hv'
      simp only [Prod.mk.injEq, PV.node.injEq, true_and] at hqe
      refine ⟨ys, ?_, hall⟩
      rw [← hqe.1, ← hqe.2]
      exact hq

example : (∃ k, frameKey true 8 [] [(lblA, [natAtom 1, natAtom 2]), (lblB, [.node .list [natAtom 1], natAtom 0])] = .ok k) ∧
    frameKey true 8 [] [(lblA, [natAtom 1, natAtom 2])] ≠ frameKey true 8 [] [(lblB, [natAtom 1, natAtom 2])] ∧
    frameKey true 8 [] [(lblA, [natAtom 1, natAtom 2])] ≠ frameKey true 8 [] [(lblA, [natAtom 2, natAtom 1])] :=
  ⟨⟨_, rfl⟩, by decide, by decide⟩

/-- known finding, DataFrame part: the index never reaches the key … -/
theorem C15_frame_index_ignored (esc : Bool) (c : Nat) (ix ix' : List Atom) (cols : List (Atom × List PV)) :
    frameKey esc c ix cols = frameKey esc c ix' cols := rfl

/-- … and the column order is lost (column labels pairwise different). -/
theorem C15_frame_column_order_lost (c : Nat) (ix : List Atom) (cols cols' : List (Atom × List PV)) (k : PV)
    (hn : (cols.map Prod.fst).Nodup) (hp : cols.Perm cols') (hwf : wf (frameDict cols) = true)
    (h : frameKey true c ix cols = .ok k) : frameKey true c ix cols' = .ok k := by
  have hn' : (cols'.map Prod.fst).Nodup := (hp.map Prod.fst).nodup_iff.1 hn
  have m1 : ((cols.map fun p => (p.1, PV.node .list p.2)).map Prod.fst).Nodup := by rw [colPairs_fst]; exact hn
  have m2 : ((cols'.map fun p => (p.1, PV.node .list p.2)).map Prod.fst).Nodup := by rw [colPairs_fst]; exact hn'
  have he : Equiv (frameDict cols) (frameDict cols') := by
    simp only [frameDict, pyDict_nodup m1, pyDict_nodup m2]
    exact equiv_itemsOf_perm (hp.map _)
  simp only [frameKey] at h ⊢
  cases hk : key true (frameDict cols) with
  | error e => rw [hk] at h; cases h
  | ok a => rw [hk] at h; rw [key_equiv _ _ he hwf a hk]; exact h

example : ((([(lblA, [natAtom 1]), (lblB, [natAtom 2])] : List (Atom × List PV)).map Prod.fst).Nodup) ∧
    wf (frameDict [(lblA, [natAtom 1]), (lblB, [natAtom 2])]) = true ∧
    frameKey true 8 [lbl 0] [(lblA, [natAtom 1]), (lblB, [natAtom 2])] =
      frameKey true 8 [lbl 5] [(lblB, [natAtom 2]), (lblA, [natAtom 1])] := ⟨by decide, by decide, by decide⟩

end PF.C15
