import PfModel.Lemmas.RewriteAxisSim
/-!
`add_mapspec_axis` on a pipeline without prior MapSpecs (part 6): generations, `map_shapes`, and the whole run
(`lift_specMap`): the lifted pipeline run on an array of `K` variants of `p` against the `K` pointwise runs of the original.
-/
namespace PF.Rw.Ax
open PF PF.Map PF.C01

section gens
variable {τ : List String → Option MSpec} {gs : List MFunc} {p axis : String}
variable (K : Nat) (vs : List Val) (rest : List (String × Val))

theorem runGen_inv (R : Env → MFunc → M FuncResult) (env : Env) (f : MFunc) (l : List MFunc) (x : List FuncResult)
    (h : runGenWith R env (f :: l) = .ok x) : ∃ r rs, R env f = .ok r ∧ runGenWith R env l = .ok rs ∧ x = r :: rs := by
  simp only [runGenWith, bind, Except.bind] at h
  cases hr : R env f with
  | error e => rw [hr] at h; cases h
  | ok r =>
    rw [hr] at h
    simp only [] at h
    cases hrs : runGenWith R env l with
    | error e => rw [hrs] at h; cases h
    | ok rs =>
      rw [hrs] at h
      simp only [pure, Except.pure] at h
      injection h with h
      exact ⟨r, rs, rfl, rfl, h.symm⟩

theorem runGens_inv (R : Env → MFunc → M FuncResult) (env : Env) (gen : List MFunc) (more : List (List MFunc))
    (x : List FuncResult × Env) (h : runGensWith R (gen :: more) env = .ok x) :
    ∃ rs ms envF, runGenWith R env gen = .ok rs ∧
      runGensWith R more { env with store := env.store ++ rs.flatMap (·.slots) } = .ok (ms, envF) ∧ x = (rs ++ ms, envF) := by
  simp only [runGensWith, bind, Except.bind] at h
  cases hr : runGenWith R env gen with
  | error e => rw [hr] at h; cases h
  | ok rs =>
    rw [hr] at h
    simp only [] at h
    cases hm : runGensWith R more { env with store := env.store ++ rs.flatMap (·.slots) } with
    | error e => rw [hm] at h; cases h
    | ok res =>
      obtain ⟨ms, envF⟩ := res
      rw [hm] at h
      simp only [pure, Except.pure] at h
      injection h with h
      exact ⟨rs, ms, envF, rfl, hm, h.symm⟩

/-- what the shape table must say about a function for the run: a lifted function's outputs have shape `[K]`, mask `[true]` -/
def ShOK (τ : List String → Option MSpec) (K : Nat) (shapes' : List (String × List Nat)) (masks' : List (String × List Bool)) (g : MFunc) : Prop :=
  (τ g.outputs).isSome = true → ∀ o ∈ g.outputs, alookup shapes' o = some [K] ∧ alookup masks' o = some [true]

/-- **one generation** -/
theorem gen_sim (ok : LiftOK τ gs p axis) (hlen : vs.length = K) (hK : 0 < K) (hrest : ∀ k ∈ akeys rest, producer gs k = none)
    (env' : Env) (envs : Nat → Env) (R : EnvRel τ gs p K vs rest env' envs) (done : List String) (hst : Stored gs env' done)
    (shapes' : List (String × List Nat)) (masks' : List (String × List Bool))
    (sh : Nat → List (String × List Nat)) (mk : Nat → List (String × List Bool)) :
    ∀ (l : List MFunc), (∀ f ∈ l, f ∈ gs ∧ Ready gs done f ∧ ShOK τ K shapes' masks' f) →
      ∀ (rsF : Nat → List FuncResult), (∀ n, n < K → runGenWith (runFuncWith denoteArray gs (sh n) (mk n)) (envs n) l = .ok (rsF n)) →
      ∃ rs', runGenWith (runFuncWith denoteArray (gs.map (withSpec τ)) shapes' masks') env' (l.map (withSpec τ)) = .ok rs' ∧
        VRel τ gs K (rs'.flatMap (·.outputs)) (fun n => (rsF n).flatMap (·.outputs)) ∧
        tv (rs'.flatMap (·.slots)) = rs'.flatMap (·.outputs) ∧
        (∀ n, n < K → tv ((rsF n).flatMap (·.slots)) = (rsF n).flatMap (·.outputs)) ∧
        (∀ f ∈ l, ∀ o ∈ f.outputs, (alookup (rs'.flatMap (·.slots)) o).isSome = true) := by
  intro l
  induction l with
  | nil =>
    intro _ rsF h
    refine ⟨[], rfl, ?_, rfl, ?_, fun f hf => by cases hf⟩
    · have : ∀ n, n < K → rsF n = [] := by
        intro n hn
        have := h n hn
        simp only [runGenWith, pure, Except.pure] at this
        injection this with this
        exact this.symm
      refine ⟨fun x n hn => by rw [this n hn], fun x _ v' hv => by simp [alookup] at hv, fun x _ n hn => by rw [this n hn]⟩
    · intro n hn
      have := h n hn
      simp only [runGenWith, pure, Except.pure] at this
      injection this with this
      rw [← this]; rfl
  | cons f fs ih =>
    intro hl rsF h
    obtain ⟨hfg, hfr, hfs⟩ := hl f List.mem_cons_self
    -- split the pointwise runs
    let r : Nat → FuncResult := fun n => (rsF n).headD ⟨[], [], []⟩
    let rs : Nat → List FuncResult := fun n => (rsF n).tail
    have hsplit : ∀ n, n < K → runFuncWith denoteArray gs (sh n) (mk n) (envs n) f = .ok (r n) ∧
        runGenWith (runFuncWith denoteArray gs (sh n) (mk n)) (envs n) fs = .ok (rs n) ∧ rsF n = r n :: rs n := by
      intro n hn
      obtain ⟨r0, rs0, h1, h2, h3⟩ := runGen_inv _ _ f fs _ (h n hn)
      have hr : r n = r0 := by simp only [r, h3, List.headD_cons]
      have hrs : rs n = rs0 := by simp only [rs, h3, List.tail_cons]
      rw [hr, hrs]; exact ⟨h1, h2, h3⟩
    obtain ⟨r', hr', hv, hs', hsn, hk⟩ := func_sim K vs rest ok hlen hK hrest env' envs R done hst f hfg hfr shapes' masks' hfs sh mk r
      (fun n hn => (hsplit n hn).1)
    obtain ⟨rs', hrs', hv2, hs2', hs2n, hk2⟩ := ih (fun x hx => hl x (List.mem_cons_of_mem _ hx)) rs (fun n hn => (hsplit n hn).2.1)
    refine ⟨r' :: rs', ?_, ?_, ?_, ?_, ?_⟩
    · simp only [List.map_cons, runGenWith, hr', hrs', bind, Except.bind, pure, Except.pure]
    · have := VRel.append τ gs K hv hv2
      simp only [List.flatMap_cons]
      refine ⟨fun x n hn => ?_, fun x hx v' hv' => ?_, fun x hx n hn => ?_⟩
      · rw [(hsplit n hn).2.2, List.flatMap_cons]; exact this.pres x n hn
      · rw [this.lifted x hx v' hv']
        congr 1
        apply List.map_congr_left
        intro n hn
        rw [(hsplit n (List.mem_range.mp hn)).2.2, List.flatMap_cons]
      · rw [(hsplit n hn).2.2, List.flatMap_cons]; exact this.same x hx n hn
    · simp only [List.flatMap_cons, tv_append, hs', hs2']
    · intro n hn
      rw [(hsplit n hn).2.2]
      simp only [List.flatMap_cons, tv_append, hsn n hn, hs2n n hn]
    · intro g hg o ho
      simp only [List.flatMap_cons]
      rcases List.mem_cons.mp hg with rfl | hg
      · apply alookup_append_isSome
        apply alookup_isSome_of_mem_keys
        rw [hk]; exact ho
      · exact alookup_append_right_isSome _ _ _ (hk2 g hg o ho)

/-- **all generations** -/
theorem layers_sim (ok : LiftOK τ gs p axis) (hlen : vs.length = K) (hK : 0 < K) (hrest : ∀ k ∈ akeys rest, producer gs k = none)
    (shapes' : List (String × List Nat)) (masks' : List (String × List Bool))
    (sh : Nat → List (String × List Nat)) (mk : Nat → List (String × List Bool)) :
    ∀ (fuel : Nat) (done : List String) (rst : List MFunc) (env' : Env) (envs : Nat → Env), (∀ f ∈ rst, f ∈ gs) →
      EnvRel τ gs p K vs rest env' envs → Stored gs env' done →
      (∀ f ∈ (layers gs fuel done rst).flatten, ShOK τ K shapes' masks' f) →
      ∀ (resF : Nat → List FuncResult × Env),
        (∀ n, n < K → runGensWith (runFuncWith denoteArray gs (sh n) (mk n)) (layers gs fuel done rst) (envs n) = .ok (resF n)) →
        ∃ res', runGensWith (runFuncWith denoteArray (gs.map (withSpec τ)) shapes' masks')
            ((layers gs fuel done rst).map (List.map (withSpec τ))) env' = .ok res' ∧
          VRel τ gs K (res'.1.flatMap (·.outputs)) (fun n => (resF n).1.flatMap (·.outputs)) ∧
          EnvRel τ gs p K vs rest res'.2 (fun n => (resF n).2) := by
  intro fuel
  induction fuel with
  | zero =>
    intro done rst env' envs _ R _ _ resF h
    have hres : ∀ n, n < K → resF n = ([], envs n) := by
      intro n hn
      have := h n hn
      simp only [layers, runGensWith, pure, Except.pure] at this
      injection this with this
      exact this.symm
    refine ⟨([], env'), rfl, ?_, ?_⟩
    · refine ⟨fun x n hn => by rw [hres n hn], fun x _ v' hv => by simp [alookup] at hv, fun x _ n hn => by rw [hres n hn]⟩
    · refine ⟨R.inp', fun n hn => by rw [hres n hn]; exact R.inpn n hn, ?_⟩
      refine ⟨fun x n hn => by rw [hres n hn]; exact R.store.pres x n hn, fun x hx v' hv => ?_, fun x hx n hn => by rw [hres n hn]; exact R.store.same x hx n hn⟩
      rw [R.store.lifted x hx v' hv]
      congr 1
      apply List.map_congr_left
      intro n hn
      rw [hres n (List.mem_range.mp hn)]
  | succ fuel ih =>
    intro done rst env' envs hsub R hst hshape resF h
    -- the shape of `layers`
    have hlay : layers gs (fuel + 1) done rst =
        if rst.isEmpty then [] else
        if (rst.filter fun f => (upstream gs f).all fun g => done.contains g).isEmpty then [] else
        (rst.filter fun f => (upstream gs f).all fun g => done.contains g) ::
          layers gs fuel (done ++ (rst.filter fun f => (upstream gs f).all fun g => done.contains g).map (·.name))
            (rst.filter fun f => !((rst.filter fun f => (upstream gs f).all fun g => done.contains g).any (·.name = f.name))) := by
      rw [layers]
    generalize hready : (rst.filter fun f => (upstream gs f).all fun g => done.contains g) = ready at hlay
    have hempty : (layers gs (fuel + 1) done rst = []) → ∃ res', runGensWith (runFuncWith denoteArray (gs.map (withSpec τ)) shapes' masks')
            ((layers gs (fuel + 1) done rst).map (List.map (withSpec τ))) env' = .ok res' ∧
          VRel τ gs K (res'.1.flatMap (·.outputs)) (fun n => (resF n).1.flatMap (·.outputs)) ∧
          EnvRel τ gs p K vs rest res'.2 (fun n => (resF n).2) := by
      intro he
      rw [he] at h ⊢
      have hres : ∀ n, n < K → resF n = ([], envs n) := by
        intro n hn
        have := h n hn
        simp only [runGensWith, pure, Except.pure] at this
        injection this with this
        exact this.symm
      refine ⟨([], env'), rfl, ?_, ?_⟩
      · refine ⟨fun x n hn => by rw [hres n hn], fun x _ v' hv => by simp [alookup] at hv, fun x _ n hn => by rw [hres n hn]⟩
      · refine ⟨R.inp', fun n hn => by rw [hres n hn]; exact R.inpn n hn, ?_⟩
        refine ⟨fun x n hn => by rw [hres n hn]; exact R.store.pres x n hn, fun x hx v' hv => ?_, fun x hx n hn => by rw [hres n hn]; exact R.store.same x hx n hn⟩
        rw [R.store.lifted x hx v' hv]
        congr 1
        apply List.map_congr_left
        intro n hn
        rw [hres n (List.mem_range.mp hn)]
    by_cases h1 : rst.isEmpty = true
    · exact hempty (by rw [hlay]; simp [h1])
    · by_cases h2 : ready.isEmpty = true
      · exact hempty (by rw [hlay]; simp [h1, h2])
      · have hcons : layers gs (fuel + 1) done rst = ready ::
            layers gs fuel (done ++ ready.map (·.name)) (rst.filter fun f => !(ready.any (·.name = f.name))) := by
          rw [hlay]; simp [h1, h2]
        rw [hcons] at h hshape ⊢
        have hr : ∀ f ∈ ready, f ∈ gs ∧ Ready gs done f ∧ ShOK τ K shapes' masks' f := by
          intro f hf
          have hf' := hf
          rw [← hready] at hf'
          exact ⟨hsub f (List.mem_filter.mp hf').1, ready_of_upstream gs done f (List.mem_filter.mp hf').2,
            hshape f (by simp only [List.flatten_cons]; exact List.mem_append_left _ hf)⟩
        -- split the pointwise runs
        have hsplit : ∀ n, n < K → ∃ rs ms envF, runGenWith (runFuncWith denoteArray gs (sh n) (mk n)) (envs n) ready = .ok rs ∧
            runGensWith (runFuncWith denoteArray gs (sh n) (mk n))
              (layers gs fuel (done ++ ready.map (·.name)) (rst.filter fun f => !(ready.any (·.name = f.name))))
              { (envs n) with store := (envs n).store ++ rs.flatMap (·.slots) } = .ok (ms, envF) ∧ resF n = (rs ++ ms, envF) :=
          fun n hn => runGens_inv _ _ _ _ _ (h n hn)
        let rsn : Nat → List FuncResult := fun n =>
          match runGenWith (runFuncWith denoteArray gs (sh n) (mk n)) (envs n) ready with | .ok rs => rs | .error _ => []
        have hrsn : ∀ n, n < K → runGenWith (runFuncWith denoteArray gs (sh n) (mk n)) (envs n) ready = .ok (rsn n) := by
          intro n hn
          obtain ⟨rs, _, _, h1, _, _⟩ := hsplit n hn
          simp only [rsn, h1]
        obtain ⟨rs', hrs', hv, hs', hsn, hk⟩ := gen_sim K vs rest ok hlen hK hrest env' envs R done hst shapes' masks' sh mk ready hr rsn hrsn
        let envs2 : Nat → Env := fun n => { (envs n) with store := (envs n).store ++ (rsn n).flatMap (·.slots) }
        have R2 : EnvRel τ gs p K vs rest { env' with store := env'.store ++ rs'.flatMap (·.slots) } envs2 := by
          refine ⟨R.inp', fun n hn => R.inpn n hn, ?_⟩
          have := VRel.append τ gs K R.store hv
          simp only [tv_append, hs']
          refine ⟨fun x n hn => ?_, fun x hx v' hv' => ?_, fun x hx n hn => ?_⟩
          · simp only [envs2, tv_append, hsn n hn]; exact this.pres x n hn
          · rw [this.lifted x hx v' hv']
            congr 1
            apply List.map_congr_left
            intro n hn
            simp only [envs2, tv_append, hsn n (List.mem_range.mp hn)]
          · simp only [envs2, tv_append, hsn n hn]; exact this.same x hx n hn
        have hst2 : Stored gs { env' with store := env'.store ++ rs'.flatMap (·.slots) } (done ++ ready.map (·.name)) := by
          intro h' hh hd o ho
          simp only []
          rcases List.mem_append.mp hd with hd | hd
          · exact alookup_append_isSome _ _ _ (hst h' hh hd o ho)
          · obtain ⟨f, hf, hn⟩ := List.mem_map.mp hd
            have hfh : f = h' := nodupB_inj gs ok.names f (hr f hf).1 h' hh hn
            subst hfh
            exact alookup_append_right_isSome _ _ _ (hk f hf o ho)
        let resF2 : Nat → List FuncResult × Env := fun n => ((resF n).1.drop (rsn n).length, (resF n).2)
        have hres2 : ∀ n, n < K → runGensWith (runFuncWith denoteArray gs (sh n) (mk n))
              (layers gs fuel (done ++ ready.map (·.name)) (rst.filter fun f => !(ready.any (·.name = f.name)))) (envs2 n) = .ok (resF2 n) ∧
            (resF n).1 = rsn n ++ (resF2 n).1 := by
          intro n hn
          obtain ⟨rs, ms, envF, h1, h2, h3⟩ := hsplit n hn
          have : rsn n = rs := by simp only [rsn, h1]
          simp only [envs2, resF2, this, h3, List.drop_left]
          exact ⟨h2, trivial⟩
        obtain ⟨res2, hr2, hv2, he2⟩ := ih (done ++ ready.map (·.name)) (rst.filter fun f => !(ready.any (·.name = f.name)))
          { env' with store := env'.store ++ rs'.flatMap (·.slots) } envs2 (fun f hf => hsub f (List.mem_filter.mp hf).1) R2 hst2
          (fun f hf => hshape f (by simp only [List.flatten_cons]; exact List.mem_append_right _ hf)) resF2 (fun n hn => (hres2 n hn).1)
        refine ⟨(rs' ++ res2.1, res2.2), ?_, ?_, ?_⟩
        · simp only [List.map_cons, runGensWith, hrs', bind, Except.bind, hr2, pure, Except.pure]
        · have := VRel.append τ gs K hv hv2
          simp only [List.flatMap_append]
          refine ⟨fun x n hn => ?_, fun x hx v' hv' => ?_, fun x hx n hn => ?_⟩
          · rw [(hres2 n hn).2, List.flatMap_append]; exact this.pres x n hn
          · rw [this.lifted x hx v' hv']
            congr 1
            apply List.map_congr_left
            intro n hn
            rw [(hres2 n (List.mem_range.mp hn)).2, List.flatMap_append]
          · rw [(hres2 n hn).2, List.flatMap_append]; exact this.same x hx n hn
        · exact he2

end gens
end PF.Rw.Ax
