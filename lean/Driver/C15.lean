import PfModel.DriverLib
import PfModel.Model.Hashable
import PfModel.Model.HashableKeys
import PfModel.Model.HashableSort
import PfModel.Model.HashablePandas
import PfModel.Model.HashableCalls
import PfModel.Model.HashableSub
import PfModel.Model.HashableSubRel
/-! Driver for C15 (`keys`, `memo`; the keys around `to_hashable`: `memokeys`, `pipekeys`, `mapkeys`, `bind`, `pcache`). Run: `lake env lean --run Driver/C15.lean < requests.jsonl`. -/
open Lean PF.Drv PF.Hashable

def clsNames : List (String × Cls) :=
  [("tuple", .tuple), ("list", .list), ("deque", .deque), ("set", .set), ("frozenset", .frozenset), ("dict", .dict),
   ("odict", .odict), ("ddict", .ddict), ("counter", .counter), ("bytearray", .bytearray), ("array", .array),
   ("ndarray", .ndarray), ("int", .int), ("float", .float), ("bool", .bool), ("str", .str), ("bytes", .bytes),
   ("nonetype", .nonetype)]

def getCls (j : Json) : R Cls :=
  match j with
  | .str s => match clsNames.lookup s with
    | some c => .ok c
    | none => .error s!"unknown class {s}"
  | j => do
    match ← asArr j with
    | [.str "other", n] => return .other (← asNat n)
    | _ => .error "class expected"

def putCls (c : Cls) : Json :=
  match c with
  | .other n => jArr [jStr "other", jNat n]
  | c => match clsNames.find? (fun p => p.2 = c) with
    | some p => jStr p.1
    | none => jStr "?"

def getAtom (j : Json) : R Atom := do
  if j == .null then return .none
  if let some v := fld? j "n" then
    let (r, h) ← asPair asInt asInt v
    return .num r h
  if let some v := fld? j "nan" then return .nan (← asNat v)
  if let some v := fld? j "s" then return .str (← asList asNat v)
  if let some v := fld? j "b" then return .bytes (← asList asNat v)
  if let some v := fld? j "c" then return .cls (← getCls v)
  .error s!"atom expected: {j.compress}"

def putAtom : Atom → Json
  | .none => .null
  | .num r h => jObj [("n", jArr [jInt r, jInt h])]
  | .nan i => jObj [("nan", jNat i)]
  | .str s => jObj [("s", jList jNat s)]
  | .bytes s => jObj [("b", jList jNat s)]
  | .cls c => jObj [("c", putCls c)]

def getKind (j : Json) : R Kind := do
  match ← strF j "k" with
  | "tuple" => return .tuple
  | "fset" => return .fset
  | "list" => return .list
  | "deque" => return .deque (← optF asNat j "ml")
  | "set" => return .set
  | "dict" => return .dict
  | "odict" => return .odict
  | "ddict" => return .ddict (← getAtom ((j.getObjVal? "f").toOption.getD .null))
  | "counter" => return .counter
  | "bytearray" => return .bytearray
  | "array" => return .array (← natF j "tc")
  | "ndarray" => return .ndarray (← listF asNat j "shape") (← listF asNat j "dtype")
  | "opaque" => return .opaque (← natF j "cls") (← listF asNat j "d")
  | k => .error s!"unknown kind {k}"

/-- fuel bounds the nesting depth of the JSON value -/
def getPV : Nat → Json → R PV
  | 0, _ => .error "value nested too deeply"
  | fuel + 1, j =>
    match fld? j "k" with
    | some _ => do
      let k ← getKind j
      let xs ← (← asArr (← fld j "x")).mapM (getPV fuel)
      return .node k xs
    | none => do return .atom (← getAtom j)

def putKind : Kind → List (String × Json)
  | .tuple => [("k", jStr "tuple")]
  | .fset => [("k", jStr "fset")]
  | .list => [("k", jStr "list")]
  | .deque ml => [("k", jStr "deque"), ("ml", jOpt jNat ml)]
  | .set => [("k", jStr "set")]
  | .dict => [("k", jStr "dict")]
  | .odict => [("k", jStr "odict")]
  | .ddict f => [("k", jStr "ddict"), ("f", putAtom f)]
  | .counter => [("k", jStr "counter")]
  | .bytearray => [("k", jStr "bytearray")]
  | .array tc => [("k", jStr "array"), ("tc", jNat tc)]
  | .ndarray sh dt => [("k", jStr "ndarray"), ("shape", jList jNat sh), ("dtype", jList jNat dt)]
  | .opaque c d => [("k", jStr "opaque"), ("cls", jNat c), ("d", jList jNat d)]

mutual
def putPV : PV → Json
  | .atom a => putAtom a
  | .node k xs => jObj (putKind k ++ [("x", Json.arr (putPVL xs).toArray)])
def putPVL : List PV → List Json
  | [] => []
  | x :: xs => putPV x :: putPVL xs
end

/-- wide values (`Model/HashableSub.lean`): a container node may carry `"sub": n`, the number of the user subclass it is an instance of -/
def getWV : Nat → Json → R WV
  | 0, _ => .error "value nested too deeply"
  | fuel + 1, j =>
    match fld? j "k" with
    | some _ => do
      let k ← getKind j
      let s ← optF asNat j "sub"
      let xs ← (← asArr (← fld j "x")).mapM (getWV fuel)
      return .node k s xs
    | none => do return .atom (← getAtom j)

def putErr : Err → Json
  | .typeError => jObj [("err", jStr "TypeError")]
  | .partialOrder => jObj [("unspec", jStr "partial-order")]
  | .malformed => jObj [("err", jStr "malformed")]

/-- `cmp`: `comparable v` (`C15_defined_iff`: for well-formed values a key exists iff it holds) -/
def putKey (esc : Bool) (v : PV) : Json :=
  match key esc v with
  | .ok k => jObj [("key", putPV k), ("hashable", jBool (hashable k)), ("wf", jBool (wf v)), ("raw", jBool (k == v)), ("cmp", jBool (comparable v))]
  | .error e => jObj ((match e with
      | .typeError => [("err", jStr "TypeError")]
      | .partialOrder => [("unspec", jStr "partial-order")]
      | .malformed => [("err", jStr "malformed")]) ++ [("wf", jBool (wf v)), ("cmp", jBool (comparable v))])

/-- `wkey true v`; `asis`: returned as it is (then the key is the base value), `core`: the key equals the core model's key of the
    base value (false exactly when a subclass tag occurs in it) -/
def putWKey (f : Nat → Cls) (v : WV) : Json :=
  match wkey true v with
  | .ok k => jObj [("key", putPV k), ("hashable", jBool (hashable k)), ("asis", jBool v.asIs), ("plain", jBool v.plain),
                   ("core", jBool (decide (key true v.base = .ok k))), ("basetag", jBool (decide (wkeyBaseTagged v = .ok k))),
                   ("subok", jBool (v.subOk f))]
  | .error e => putErr e

/-- `"bases": [[class number, builtin base], …]`: the table `f` of `WV.subOk` (a class that is not listed is no user subclass) -/
def getBases (a : Json) : R (Nat → Cls) := do
  match fld? a "bases" with
  | none => return fun n => .other n
  | some j =>
    let tbl ← asList (asPair asNat getCls) j
    return fun n => (tbl.lookup n).getD (.other n)

def memoRun : Memo → List PV → List Json
  | _, [] => []
  | m, a :: as =>
    match m.call a with
    | .ok (r, hit, m') => jArr [jNat r, jBool hit] :: memoRun m' as
    | .error e => putErr e :: memoRun m as

/-- `kwargs`: a list of `[name (code points), value]` in the order the keywords were written -/
def getKw (j : Json) : R (List (PF.Hashable.Name × PV)) := asList (asPair (asList asNat) (getPV 64)) j

def putExc (r : Except Err PV) : Json :=
  match r with
  | .ok k => jObj [("key", putPV k), ("hashable", jBool (hashable k))]
  | .error e => putErr e

/-- `{"args": [...], "kwargs": [[name, v], ...]}` -/
def memoKeyOf (j : Json) : R Json := do
  let args ← (← asArr (← fld j "args")).mapM (getPV 64)
  let kw ← getKw (← fld j "kwargs")
  return putExc (memoKey args kw)

def pipeKeyOf (j : Json) : R Json := do
  let out ← getPV 64 (← fld j "out")
  let roots ← listF (asList asNat) j "roots"
  let kw ← getKw (← fld j "kwargs")
  return match pipeKey out roots kw with
    | .ok (some k) => jObj [("key", putPV k), ("hashable", jBool (hashable k))]
    | .ok none => jObj [("nokey", jBool true)]
    | .error e => putErr e

def mapKeyOf (j : Json) : R Json := do
  let out ← getPV 64 (← fld j "out")
  let kw ← getKw (← fld j "kwargs")
  return putExc (mapKey out kw)

def getParam (j : Json) : R Param := do
  return { name := ← listF asNat j "name", default := ← optF (getPV 64) j "default" }

def bindOf (j : Json) : R Json := do
  let ps ← listF getParam j "params"
  let args ← (← asArr (← fld j "args")).mapM (getPV 64)
  let kw ← getKw (← fld j "kwargs")
  return match bindArgs ps args kw with
    | some l => jObj [("bound", jList (fun (p : PF.Hashable.Name × PV) => jArr [jList jNat p.1, putPV p.2]) l)]
    | none => jObj [("rejected", jBool true)]

/-- `{"cls": n, "name": v, "rows": [[label, value], …]}` (rows in row order) -/
def seriesKeyOf (j : Json) : R Json := do
  let rows ← asList (asPair getAtom (getPV 64)) (← fld j "rows")
  return putExc (seriesKey true (← natF j "cls") (← getPV 64 (← fld j "name")) rows)

/-- `{"cls": n, "index": [label, …], "cols": [[label, [value, …]], …]}` (columns in column order) -/
def frameKeyOf (j : Json) : R Json := do
  let cols ← asList (asPair getAtom (asList (getPV 64))) (← fld j "cols")
  return putExc (frameKey true (← natF j "cls") (← listF getAtom j "index") cols)

/-- `{"params": […], "vp": bool, "vk": bool, "args": […], "kwargs": [[name, v], …]}` -/
def bindSigOf (j : Json) : R Json := do
  let ps ← listF getParam j "params"
  let args ← (← asArr (← fld j "args")).mapM (getPV 64)
  let kw ← getKw (← fld j "kwargs")
  let putKw := jList (fun (p : PF.Hashable.Name × PV) => jArr [jList jNat p.1, putPV p.2])
  return match bindSig (← asBool (← fld j "vp")) (← asBool (← fld j "vk")) ps args kw with
    | some b => jObj [("bound", putKw b.params), ("star", jList putPV b.star), ("kw", putKw b.kw)]
    | none => jObj [("rejected", jBool true)]

def getPCall (j : Json) : R (PV × List PF.Hashable.Name × List (PF.Hashable.Name × PV)) := do
  return (← getPV 64 (← fld j "out"), ← listF (asList asNat) j "roots", ← getKw (← fld j "kwargs"))

def pcacheRun : PCache → List (PV × List PF.Hashable.Name × List (PF.Hashable.Name × PV)) → List Json
  | _, [] => []
  | c, (out, roots, kw) :: as =>
    match c.call out roots kw with
    | .ok (r, hit, c') => jArr [jNat r, jBool hit] :: pcacheRun c' as
    | .error e => putErr e :: pcacheRun c as

def handle (m : String) (a : Json) : R Json := do
  match m with
  | "keys" =>
    let vs ← (← asArr (← fld a "values")).mapM (getPV 64)
    let esc := (← optF asBool a "esc").getD true
    return jList (putKey esc) vs
  | "wkeys" =>
    let vs ← (← asArr (← fld a "values")).mapM (getWV 64)
    let f ← getBases a
    return jList (putWKey f) vs
  | "memo" =>
    let vs ← (← asArr (← fld a "args")).mapM (getPV 64)
    return jArr (memoRun {} vs)
  | "memokeys" => return Json.arr (← (← asArr (← fld a "calls")).mapM memoKeyOf).toArray
  | "pipekeys" => return Json.arr (← (← asArr (← fld a "calls")).mapM pipeKeyOf).toArray
  | "mapkeys" => return Json.arr (← (← asArr (← fld a "calls")).mapM mapKeyOf).toArray
  | "bind" => return Json.arr (← (← asArr (← fld a "calls")).mapM bindOf).toArray
  | "sortw" =>
    let ls ← (← asArr (← fld a "lists")).mapM (asList (asPair (getPV 64) (getPV 64)))
    return jList (fun ps => match sortW ps with
      | .ok s => jObj [("sorted", jList (fun (p : PV × PV) => jArr [putPV p.1, putPV p.2]) s)]
      | .error e => putErr e) ls
  | "bindsig" => return Json.arr (← (← asArr (← fld a "calls")).mapM bindSigOf).toArray
  | "serieskeys" => return Json.arr (← (← asArr (← fld a "calls")).mapM seriesKeyOf).toArray
  | "framekeys" => return Json.arr (← (← asArr (← fld a "calls")).mapM frameKeyOf).toArray
  | "pcache" => return jArr (pcacheRun {} (← (← asArr (← fld a "calls")).mapM getPCall))
  | _ => .error s!"unknown entry {m}"

def main : IO Unit := loop handle
