import PfModel.Lemmas.SubPipeComputable
import PfModel.Props.C01Total
/-!
C11, round 3 — clause (a) as theorems: **"succeeds whenever S is computable from I"**, and its converse.

`Computable nd fs inp S` (`Lemmas/SubPipeComputable.lean`) is the user's reading: every requested name is an output of the
pipeline and every non-bound parameter of every needed function is provided, produced by a needed function, or defaulted by a
needed function.  `Lacking nd fs inp S p` is what a request that is not computable lacks.  Both are stated over the FULL
pipeline — not over the partial pipeline the model builds (that was `MissingRoot` in `C11_reject_total`).
-/
namespace PF.C11
open PF PF.Sub PF.Pipe

/-- `Computable`, equivalently: every requested name has a producer and nothing is lacking -/
theorem C11_computable_iff_nothing_lacking {α} (nd : α → Sub.Node) (fs : List α) (inp S : List String) :
    Computable nd fs inp S ↔ (∀ o ∈ S, ∃ g ∈ fs, o ∈ (nd g).outputs) ∧ ∀ p, ¬ Lacking nd fs inp S p := by
  rw [computable_iff]
  constructor
  · rintro ⟨h1, h2⟩; exact ⟨fun o ho => (prodIdx_isSome_iff nd fs o).mp (h1 o ho), h2⟩
  · rintro ⟨h1, h2⟩; exact ⟨fun o ho => (prodIdx_isSome_iff nd fs o).mpr (h1 o ho), h2⟩

/-- **(a), selection — any function type (call and map pipelines): a computable request is accepted**, and the partial pipeline
    consists of exactly the needed functions. -/
theorem C11_computable_accepted {α} (nd : α → Sub.Node) (fs : List α) (inp S : List String) (h : Computable nd fs inp S) :
    ∃ sub, subpipeline nd fs (some inp) (some S) = .ok sub ∧ ∀ f, f ∈ sub ↔ NeededFn nd fs inp S f :=
  computable_accepted nd fs inp S h

/-- **(a), converse: a request that is not computable is rejected, and the error names exactly what is lacking** — either the
    first requested name that is no output of the pipeline (`KeyError`), or (all requested names being outputs) a non-empty list
    consisting of exactly the lacking names. -/
theorem C11_not_computable_rejected {α} (nd : α → Sub.Node) (fs : List α) (inp S : List String) (h : ¬ Computable nd fs inp S) :
    (∃ o ∈ S, (∀ g ∈ fs, o ∉ (nd g).outputs) ∧ subpipeline nd fs (some inp) (some S) = .error (.unknown o)) ∨
    ((∀ o ∈ S, ∃ g ∈ fs, o ∈ (nd g).outputs) ∧
      ∃ ms, subpipeline nd fs (some inp) (some S) = .error (.missing ms) ∧ ms ≠ [] ∧ ∀ p, p ∈ ms ↔ Lacking nd fs inp S p) :=
  not_computable_rejected nd fs inp S h

/-- **accepted ⇔ computable** -/
theorem C11_accepted_iff_computable {α} (nd : α → Sub.Node) (fs : List α) (inp S : List String) :
    (∃ sub, subpipeline nd fs (some inp) (some S) = .ok sub) ↔ Computable nd fs inp S := by
  constructor
  · rintro ⟨sub, hsub⟩
    apply Classical.byContradiction
    intro hn
    rcases not_computable_rejected nd fs inp S hn with ⟨o, _, _, he⟩ | ⟨_, ms, he, _⟩ <;> (rw [hsub] at he; cases he)
  · intro h
    obtain ⟨sub, hsub, _⟩ := computable_accepted nd fs inp S h
    exact ⟨sub, hsub⟩

/-- **(a), `run` with intermediates on the full pipeline** (`pipeline.run(o, kwargs=I-values)`): for a well-formed pipeline, if
    `o` is computable from the provided names the evaluation goes through with the fuel the model uses, returns the composition
    with the provided names substituted, and calls exactly the needed functions, each once; the call as a whole (`runTop`) then
    succeeds provided no keyword is surplus (every provided name is a parameter of a needed function) — the one exclusion:
    `Pipeline.run` raises `UnusedParametersError` otherwise (`C02_unused_iff`). -/
theorem C11_run_succeeds (fs : List Func) (kw : List (String × Val)) (rank : String → Nat) (hw : WFp fs rank) (o : String)
    (hko : alookup kw o = none) (hcomp : Computable funcNode fs (akeys kw) [o]) :
    ∃ v s', run fs kw (Pipe.fuelFor fs) o ⟨kw, [], []⟩ = .ok (v, s') ∧ (∃ k, compose fs kw k o = .ok v) ∧
      (∀ nm, nm ∈ s'.calls ↔ ∃ f, NeededFn funcNode fs (akeys kw) [o] f ∧ f.name = nm) ∧ s'.calls.Nodup ∧
      ((∀ k ∈ akeys kw, ∃ f, NeededFn funcNode fs (akeys kw) [o] f ∧ ∃ orig, (k, orig) ∈ f.params) →
        runTop fs kw (.name o) = .ok ⟨v, s'.memo, s'.calls⟩) := by
  have hp : (producer fs o).isSome := by
    obtain ⟨g, hg, hgo⟩ := hcomp.1 o (List.mem_singleton.mpr rfl)
    unfold producer; rw [List.find?_isSome]; exact ⟨g, hg, by simpa [funcNode] using hgo⟩
  obtain ⟨v, s', hrun⟩ := C02.C02_run_succeeds fs kw rank hw o hp
    (fun f hf p hp => neededFn_resolved fs kw [o] hcomp f (reach_neededFn fs kw o f hf) p hp)
  obtain ⟨hcalls, hnd⟩ := C11_run_exactly_needed fs kw rank hw _ o v s' hko hrun
  refine ⟨v, s', hrun, C02.C02_run_eq_compose fs kw (unique_of_uniqueOut fs hw.uniq) _ o v s' hko hrun, ?_, hnd, ?_⟩
  · intro nm; rw [hcalls nm]; constructor
    · rintro ⟨j, f, hj, hf, hn⟩; exact ⟨f, ⟨j, hj, hf⟩, hn⟩
    · rintro ⟨f, ⟨j, hj, hf⟩, hn⟩; exact ⟨j, f, hj, hf, hn⟩
  · intro hall
    rw [runTop_name_eq fs kw o v s' hko hrun]
    have hused := C02.C02_used_parameters fs kw rank hw _ o v s' hrun
    have hnil : (akeys kw).filter (fun k => !(s'.used.contains k)) = [] := by
      apply List.filter_eq_nil_iff.mpr
      intro k hk
      obtain ⟨f, ⟨j, hj, hf⟩, orig, hpar⟩ := hall k hk
      have : k ∈ s'.used := (hused k).mpr ⟨f, C11_needed_implies_C02_needed fs kw o hko j hj f hf, orig, hpar⟩
      simp [this]
    rw [hnil]; rfl

/-- **(a), calling the partial pipeline** (`pipeline.subpipeline(set(kw), S)` as an object, then `.run(o, kwargs=kw)` for a
    requested `o`): for a well-formed pipeline with consistent defaults, a computable request is accepted, the evaluation on the
    partial pipeline goes through and returns what the FULL pipeline's composition returns with the provided names substituted;
    the call as a whole either returns that value or — the one exclusion — raises `UnusedParametersError` for a non-empty list
    of keywords (names provided for other members of `S` that `o` does not need). -/
theorem C11_call_sub_succeeds (fs : List Func) (kw : List (String × Val)) (rank : String → Nat) (hw : WFp fs rank)
    (hc : ConsistentDefaults fs) (S : List String) (o : String) (ho : o ∈ S) (hko : alookup kw o = none)
    (hcomp : Computable funcNode fs (akeys kw) S) :
    ∃ sub v s', subpipeline funcNode fs (some (akeys kw)) (some S) = .ok sub ∧
      callSub fs kw S o = .ok (runTop sub kw (.name o)) ∧
      run sub kw (Pipe.fuelFor sub) o ⟨kw, [], []⟩ = .ok (v, s') ∧ (∃ k, compose fs kw k o = .ok v) ∧
      (runTop sub kw (.name o) = .ok ⟨v, s'.memo, s'.calls⟩ ∨
        ∃ ps, ps ≠ [] ∧ runTop sub kw (.name o) = .error (.unused ps)) := by
  obtain ⟨sub, hsub, hmem⟩ := computable_accepted funcNode fs (akeys kw) S hcomp
  obtain ⟨K, hK, hS, hmiss, rfl⟩ := subpipeline_ok_inv funcNode fs (akeys kw) S sub hsub
  have hKn : ∀ j, j ∈ K ↔ NeededFor funcNode fs (some (akeys kw)) S j := fun j => reachSet_iff _ _ _ K hK j
  have hws := wfp_keepFrom fs rank hw K
  -- the requested name's producer is kept
  have hkept : KeptName fs K o := by
    obtain ⟨j, hj⟩ := Option.isSome_iff_exists.mp (hS o ho)
    exact ⟨j, hj, (hKn j).mpr (Sub.Reach.base j (List.mem_filterMap.mpr ⟨o, ho, hj⟩))⟩
  have hp : (producer (keepFrom K 0 fs) o).isSome := by
    rw [producer_sub_kept fs K o hkept]
    obtain ⟨g, hg, hgo⟩ := hcomp.1 o ho
    unfold producer; rw [List.find?_isSome]; exact ⟨g, hg, by simpa [funcNode] using hgo⟩
  have hres : Resolvable (keepFrom K 0 fs) kw o := by
    intro f hf p hpp
    have hfm := Pipe.Reach.mem _ _ hf
    obtain ⟨j, hj, hfj⟩ := (mem_keepFrom K fs 0 f).mp hfm
    have hjK : j ∈ K := by simpa using hj
    rw [(resolve_sub fs kw _ K _ hK hc hmiss j f hjK hfj p.1 p.2 hpp).1]
    exact resolve_not_missing fs kw f p.1 (neededFn_resolved fs kw S hcomp f ⟨j, (hKn j).mp hjK, hfj⟩ p hpp)
  obtain ⟨v, s', hrun⟩ := run_total_fuelFor (keepFrom K 0 fs) kw rank hws o ⟨kw, [], []⟩ hres hp
  obtain ⟨k, hk⟩ := C02.C02_run_eq_compose _ kw (unique_of_uniqueOut _ hws.uniq) _ o v s' hko hrun
  have hval := (C11_subpipeline fs kw S _ hc hsub).2.1 o ho k
  refine ⟨_, v, s', hsub, by simp [callSub, hsub], hrun, ⟨k, by rw [← hval]; exact hk⟩, ?_⟩
  rw [runTop_name_eq _ kw o v s' hko hrun]
  split
  · exact Or.inl rfl
  · next hne =>
    refine Or.inr ⟨_, ?_, rfl⟩
    intro h; rw [h] at hne; exact hne rfl

/-- **(a), `map(output_names=S)` / `map(auto_subpipeline=True, output_names=S)`**: a computable request passes the selection
    (never a `subpipeline` error), the partial pipeline is exactly the needed functions and none of its inputs is missing; the run
    then succeeds whenever the request is a valid map request OF THE PARTIAL PIPELINE (`Conforms`, C01's executable notion: no
    surplus input, acyclic, arrays of consistent shapes, …), and whenever it succeeds the request checks of C01 held.  So the only
    refusals of a computable request are C01's request faults on the partial pipeline — in particular an over-provided input
    ("got extra inputs", `C12_narrow_reject_surplus`). -/
theorem C11_map_succeeds (fs : List Map.MFunc) (inputs : List (String × Val)) (ui : List (String × List Nat)) (S : List String)
    (auto : Bool) (hcomp : Computable mfuncNode fs (akeys inputs) S) :
    ∃ sub, prepare fs inputs (some S) auto = .ok sub ∧ (∀ f, f ∈ sub ↔ NeededFn mfuncNode fs (akeys inputs) S f) ∧
      C01.inputsComplete sub inputs = true ∧
      (C01.Conforms sub inputs ui = true → ∃ r, mapSub fs inputs ui (some S) auto = .ok (sub, r)) ∧
      (∀ sub' r, mapSub fs inputs ui (some S) auto = .ok (sub', r) → sub' = sub ∧ C01.RequestOK sub inputs ui = true) ∧
      (∀ e, mapSub fs inputs ui (some S) auto ≠ .error (.sub e)) := by
  obtain ⟨sub, hsub, hmem⟩ := computable_accepted mfuncNode fs (akeys inputs) S hcomp
  have hprep : prepare fs inputs (some S) auto = .ok sub := by simp [prepare, hsub]
  have hroots := (Validate.prepare_ok fs inputs (some S) auto sub (by simp) hprep).2
  refine ⟨sub, hprep, hmem, ?_, ?_, ?_, ?_⟩
  · unfold C01.inputsComplete
    rw [List.all_eq_true]
    intro p hp
    rcases hroots p hp with h | h <;> simp [h]
  · intro hconf
    obtain ⟨r, hr⟩ := C01.never_refused_with Map.opArray sub inputs ui hconf
    exact ⟨r, by simp [mapSub, mapWith, hprep, hr]⟩
  · intro sub' r h
    unfold mapSub mapWith at h
    rw [hprep] at h
    simp only at h
    split at h
    · cases h
    · next r' hr =>
      cases h
      exact ⟨rfl, C01.answered_requestOK Map.opArray sub inputs ui r hr⟩
  · intro e h
    unfold mapSub mapWith at h
    rw [hprep] at h
    simp only at h
    split at h <;> cases h

/-- **(a), converse for `map`**: a request that is not computable is refused by the selection — before the run starts, hence
    before any user function — with the error of `C11_not_computable_rejected` (exactly the lacking names). -/
theorem C11_map_rejected (fs : List Map.MFunc) (inputs : List (String × Val)) (ui : List (String × List Nat)) (S : List String)
    (auto : Bool) (h : ¬ Computable mfuncNode fs (akeys inputs) S) :
    (∃ o ∈ S, (∀ g ∈ fs, o ∉ g.outputs) ∧ mapSub fs inputs ui (some S) auto = .error (.sub (.unknown o))) ∨
    ∃ ms, mapSub fs inputs ui (some S) auto = .error (.sub (.missing ms)) ∧ ms ≠ [] ∧
      ∀ p, p ∈ ms ↔ Lacking mfuncNode fs (akeys inputs) S p := by
  rcases not_computable_rejected mfuncNode fs (akeys inputs) S h with ⟨o, ho, hno, he⟩ | ⟨_, ms, he, hne, hiff⟩
  · exact Or.inl ⟨o, ho, hno, by simp [mapSub, mapWith, prepare, he]⟩
  · exact Or.inr ⟨ms, by simp [mapSub, mapWith, prepare, he], hne, hiff⟩

/-- **The decidable mirror** the driver executes (`pipe.computable`, `map.computable`): `computableB` decides `Computable`,
    `lackingNames` lists exactly the lacking names, `neededFns` exactly the needed functions. -/
theorem C11_computable_decided {α} (nd : α → Sub.Node) (fs : List α) (inp S : List String) :
    (computableB nd fs inp S = true ↔ Computable nd fs inp S) ∧
    (∀ p, p ∈ lackingNames nd fs inp S ↔ Lacking nd fs inp S p) ∧
    (∀ f, f ∈ neededFns nd fs inp S ↔ NeededFn nd fs inp S f) :=
  ⟨computableB_iff nd fs inp S, mem_lackingNames nd fs inp S, mem_neededFns nd fs inp S⟩

/-- **Over-provided `map` requests, exactly** (report item 3).  For a computable request the selection succeeds and nothing is
    missing, so `_validate_complete_inputs` answers by its second test alone: with `extras sub inputs` — the provided names (and
    defaults of the partial pipeline) that are no root argument of the partial pipeline: a requested or still-produced name, a
    name nothing needed takes — non-empty, `map` is refused with "got extra inputs" naming its first element, before any
    function runs; with `extras` empty that test passes (what can still refuse is C01's: cycle, shapes). -/
theorem C11_map_over_provided (fs : List Map.MFunc) (inputs : List (String × Val)) (ui : List (String × List Nat)) (S : List String)
    (auto : Bool) (hcomp : Computable mfuncNode fs (akeys inputs) S) :
    ∃ sub, prepare fs inputs (some S) auto = .ok sub ∧
      (∀ m rest, extras sub inputs = m :: rest →
        mapSub fs inputs ui (some S) auto = .error (.map (.value s!"got extra inputs: {m}"))) ∧
      (extras sub inputs = [] → Map.validateInputs sub inputs = .ok ()) ∧
      (∀ k, k ∈ extras sub inputs ↔ (k ∈ akeys inputs ∨ k ∈ akeys (Map.pdefaults sub)) ∧ k ∉ Map.rootArgs sub) := by
  obtain ⟨sub, hprep, _, hcomplete, _⟩ := C11_map_succeeds fs inputs ui S auto hcomp
  have hv := validateInputs_exact sub inputs hcomplete
  refine ⟨sub, hprep, ?_, ?_, ?_⟩
  · intro m rest hm
    rw [hm] at hv
    have := runMapWith_validate_error Map.opArray sub inputs ui _ hv
    simp [mapSub, mapWith, hprep, this]
  · intro hnil
    rw [hnil] at hv
    exact hv
  · intro k
    simp only [extras, List.mem_filter, List.mem_append, Bool.not_eq_true', List.contains_eq_mem, decide_eq_false_iff_not]

/-- "not over-provided" is C01's `noSurplus` request check on the partial pipeline — so for a computable request the first two of
    C01's five request checks (`RequestOK`: complete, no surplus, acyclic, root arrays, shapes) are decided by `Computable` and
    `extras` alone -/
theorem C11_extras_iff_no_surplus (sub : List Map.MFunc) (inputs : List (String × Val)) :
    extras sub inputs = [] ↔ C01.noSurplus sub inputs = true := by
  unfold extras C01.noSurplus
  rw [List.filter_eq_nil_iff, List.all_eq_true]
  constructor
  · intro h x hx
    have := h x hx
    simpa using this
  · intro h x hx
    have := h x hx
    simpa using this

/-- **The other admissible behaviour, exactly**: `mapSubLenient` (answer an over-provided request: only the "nothing missing" test,
    then the ordinary run, a provided name winning over a stored output) coincides with `map` on every request that is not
    over-provided; on an over-provided one `map` refuses (`C11_map_over_provided`) and `mapSubLenient` is what an answering
    implementation must return (compared by the harness whenever the implementation answers). -/
theorem C11_map_lenient_agrees (fs : List Map.MFunc) (inputs : List (String × Val)) (ui : List (String × List Nat))
    (S : Option (List String)) (auto : Bool) (sub : List Map.MFunc) (hprep : prepare fs inputs S auto = .ok sub)
    (h : extras sub inputs = []) : mapSubLenient fs inputs ui S auto = mapSub fs inputs ui S auto := by
  unfold mapSubLenient mapSub mapWith
  rw [hprep]
  simp only [runMapLenient_eq Map.opArray sub inputs ui h]
  cases Map.runMapWith Map.opArray sub inputs ui <;> rfl

/-! ### the pinned code refuses computable requests (DF-17), and non-vacuity -/

/-- **DF-17 against `Computable`**: nullary `k()`, `f(x, k) → y`: `y` IS computable from `{x}` in the sense above, the pinned
    code refuses it; `z` of `g(y, d=3)` is computable from `{y}`, the pinned code refuses that too.  The repaired code is
    covered by `C11_computable_accepted` without exclusion. -/
theorem C11_current_refuses_computable :
    Computable funcNode [fK, fF] ["x"] ["y"] ∧
    (Legacy.subpipeline funcNode [fK, fF] (some ["x"]) (some ["y"])).toOption.map (·.map (·.name)) = none ∧
    Computable funcNode [fK, fF, fG] ["y"] ["z"] ∧
    (Legacy.subpipeline funcNode [fK, fF, fG] (some ["y"]) (some ["z"])).toOption.map (·.map (·.name)) = none := by
  refine ⟨(C11_accepted_iff_computable ..).mp ?_, by decide, (C11_accepted_iff_computable ..).mp ?_, by decide⟩
  · cases h : subpipeline funcNode [fK, fF] (some ["x"]) (some ["y"]) with
    | ok sub => exact ⟨sub, rfl⟩
    | error e =>
      have := C11_current_refuses.2
      rw [h] at this; cases this
  · cases h : subpipeline funcNode [fK, fF, fG] (some ["y"]) (some ["z"]) with
    | ok sub => exact ⟨sub, rfl⟩
    | error e =>
      have := C11_current_refuses_default_and_drops_nullary.2.1
      rw [h] at this; cases this

-- `C11_map_over_provided` / `C11_map_lenient_agrees`: `y` provided although `f` is still needed for the requested `y` — refused naming
-- `y`; the lenient run answers; without the surplus name both agree
private def mfn (name : String) (params outputs : List String) : Map.MFunc :=
  { name := name, params := params.map fun p => (p, p), outputs := outputs, mapspec := none, ret := none, internal := none,
    defaults := [], bound := [] }
private def mq : List Map.MFunc := [mfn "f" ["x"] ["y"], mfn "g" ["y"] ["z"]]
example : extras mq [("x", .int 1), ("y", .int 2)] = ["y"] := by decide
example : (match mapSub mq [("x", .int 1), ("y", .int 2)] [] (some ["y", "z"]) false with
    | .error (.map (.value w)) => some w | _ => none) = some "got extra inputs: y" := by decide
example : (mapSubLenient mq [("x", .int 1), ("y", .int 2)] [] (some ["y", "z"]) false).toOption.map (·.2.calls.map (·.name)) =
    some ["f", "g"] := by decide
example : extras mq [("x", .int 1)] = [] := by decide

-- `C11_not_computable_rejected`: `z` is not computable from `{d}` (x is lacking) — the hypothesis is satisfiable
example : ¬ Computable funcNode [fK, fF, fG, fH] ["d"] ["z"] := by
  intro h
  obtain ⟨sub, hsub, _⟩ := C11_computable_accepted funcNode _ _ _ h
  have : (match subpipeline funcNode [fK, fF, fG, fH] (some ["d"]) (some ["z"]) with
    | .error (.missing ms) => some ms | _ => none) = some ["x"] := by decide
  rw [hsub] at this; cases this
-- `C11_run_succeeds` / `C11_call_sub_succeeds`: a well-formed pipeline (example in `C11Ext`), `z` computable from `{y}`
example : Computable funcNode [fK, fF, fG, fH] (akeys [("y", Val.int 5)]) ["z"] := by
  apply (C11_accepted_iff_computable ..).mp
  cases h : subpipeline funcNode [fK, fF, fG, fH] (some (akeys [("y", Val.int 5)])) (some ["z"]) with
  | ok sub => exact ⟨sub, rfl⟩
  | error e =>
    have : (subpipeline funcNode [fK, fF, fG, fH] (some ["y"]) (some ["z"])).toOption.map (·.map (·.name)) = some ["g"] := by decide
    rw [show akeys [("y", Val.int 5)] = ["y"] from rfl] at h
    rw [h] at this; cases this
example : alookup [("y", Val.int 5)] "z" = none := by decide
example : ∃ orig, ("y", orig) ∈ fG.params := ⟨"y", by decide⟩

end PF.C11
