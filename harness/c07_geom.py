"""C07 extension — where the geometry comes from, and the class table the map runner reads.

* `stream_construct`: constructor arguments (well formed or not, defaults, wrong mask lengths) are given to every class of
  `storage_registry` and to the Lean model `PF.St.construct` (`C07_construct_characterised`); the map runner's own call
  `_init_arrays(name, shape, mask, cls, folder)` is compared with `PF.St.initArrays` (`C07_init_arrays_wf`: always well formed).
  Accepted geometries that are NOT well formed (the constructors check only the mask's length) are outside the property's
  quantifier ("every interleaving of external and internal axes"): they are counted, and a short probe records whether the classes
  at least agree with one another on them (reported as a count, never as a violation).
* `stream_registry`: `storage_registry` (keys, classes, `storage_id`, `requires_serialization`, `dump_in_subprocess`,
  `get_storage_class`, `_requires_serialization`, `_maybe_run_folder`) and the runner's decision `_update_array` (dump here iff
  `force_dump or dump_in_subprocess != in_post_process`) against the Lean table `PF.St.registry` / `dumpsHere` / `getsTempFolder`
  (`C07_registry_flags`, `C07_dump_exactly_once`).  zarr classes cannot be imported here: ids starting with "zarr" are skipped.

None of this is a clause of the property statement: disagreements are correspondence items.
"""
from __future__ import annotations

import os
import shutil
import warnings

import pfimport  # noqa: F401
from pfimport import exc_enum
from pipefunc.map._storage_array._base import StorageBase, get_storage_class, storage_registry


def _py_wf(shape, internal, mask):
    return len(shape) == sum(1 for m in mask if m) and len(internal) == sum(1 for m in mask if not m)


def _construct_impl(cls, folder, a):
    args = [tuple(a["shape"])]
    args.append(None if a["internal"] is None else tuple(a["internal"]))
    args.append(None if a["mask"] is None else tuple(a["mask"]))
    if a.get("defaults"):          # leave trailing `None`s out: the signature's defaults
        while len(args) > 1 and args[-1] is None:
            args.pop()
    try:
        arr = cls(folder, *args)
    except Exception as e:  # noqa: BLE001
        return {"err": exc_enum(e)}, None
    out = {"ok": {"shape": list(arr.shape), "internal": list(arr.internal_shape), "mask": [bool(m) for m in arr.shape_mask]}}
    if not (isinstance(arr.shape, tuple) and isinstance(arr.internal_shape, tuple) and isinstance(arr.shape_mask, tuple)):
        out["ok"]["not-tuples"] = True
    return out, arr


def gen_args(rng):
    rank = rng.choice([0, 1, 1, 2, 2, 3])
    shape = [rng.randint(0, 3) if rng.random() < 0.15 else rng.randint(1, 3) for _ in range(rank)]
    r = rng.random()
    internal = None if r < 0.3 else [rng.randint(1, 3) for _ in range(rng.choice([0, 0, 1, 1, 2]))]
    ni = len(internal or [])
    r = rng.random()
    if r < 0.2:
        mask = None
    elif r < 0.55:      # a true interleaving
        mask = [True] * rank + [False] * ni
        rng.shuffle(mask)
    elif r < 0.8:       # right length, arbitrary content
        mask = [rng.random() < 0.5 for _ in range(rank + ni)]
    else:               # any length (the empty mask often: it is falsy)
        mask = [rng.random() < 0.5 for _ in range(rng.choice([0, 0, 1, 2, 3, 4]))]
    return {"shape": shape, "internal": internal, "mask": mask, "defaults": rng.random() < 0.5}


CONSTRUCT_CORPUS = [
    {"shape": [2], "internal": None, "mask": None, "defaults": True},
    {"shape": [2], "internal": [], "mask": None},                       # TypeError: len(None)
    {"shape": [2], "internal": [3], "mask": None},                      # ValueError
    {"shape": [2], "internal": [3], "mask": [True]},                    # ValueError: length
    {"shape": [2], "internal": [3], "mask": [True, True]},              # accepted, not well formed
    {"shape": [2], "internal": None, "mask": [False]},                  # accepted, not well formed (nothing checked)
    {"shape": [2], "internal": None, "mask": [True, False]},            # accepted, not well formed
    {"shape": [3], "internal": [2], "mask": [False, True]},
    {"shape": [], "internal": [2], "mask": [False]},
    {"shape": [], "internal": None, "mask": None},
    {"shape": [], "internal": [], "mask": []},
    {"shape": [2], "internal": None, "mask": []},                       # an EMPTY mask is a mask (accepted as it is, not the default)
    {"shape": [2], "internal": [], "mask": []},                         # ValueError: length 0 != 1
    {"shape": [2, 3], "internal": [], "mask": [True, True]},
    {"shape": [1], "internal": [2, 3], "mask": [False, True, False]},
]


def _nonwf_probe(arrs):
    """what the classes do with an accepted geometry that is not well formed: exception class / coarse result per probe"""
    def one(arr):
        out = []
        for f in (lambda: tuple(arr.full_shape), lambda: type(arr.to_array()).__name__, lambda: list(arr.mask_linear()),
                  lambda: arr.dump((0,) * len(arr.shape), 1), lambda: list(arr.mask_linear()),
                  lambda: type(arr[(0,) * len(arr.shape_mask)]).__name__):
            try:
                out.append(repr(f()))
            except Exception as e:  # noqa: BLE001
                out.append(exc_enum(e))
        return out
    return {b: one(a) for b, a in arrs.items()}


def prepare_construct(ctx):
    """-> (requests, state): all Lean requests of this stream, to be sent in one batch with the other extension streams"""
    rng = ctx.rng
    n = ctx.n(150, 4000)
    cases = [dict(a) for a in CONSTRUCT_CORPUS] + [gen_args(rng) for _ in range(n)]
    backends = [b for b in sorted(storage_registry) if not b.startswith("zarr")]
    reqs = [{"m": "storage.construct", "a": {"shape": a["shape"], "internal": a["internal"], "mask": a["mask"]}} for a in cases]
    # the runner's call
    from pipefunc.map._run_info import _init_arrays
    init_cases = []
    for _ in range(ctx.n(60, 1500)):
        rank = rng.choice([0, 1, 2, 2, 3, 3])
        full = [rng.randint(1, 3) for _ in range(rank)]
        r = rng.random()
        mask = [rng.random() < 0.55 for _ in range(rank if r < 0.85 else rng.randint(0, 4))]
        init_cases.append({"full": full, "mask": mask})
    reqs += [{"m": "storage.init_arrays", "a": c} for c in init_cases]
    return reqs, (cases, init_cases, backends)


def finish_construct(ctx, base, state, outs):
    from pipefunc.map._run_info import _init_arrays
    cases, init_cases, backends = state
    rng = ctx.rng
    for idx, (a, resp) in enumerate(zip(cases, outs)):
        model = dict(resp["r"])
        wf = model.get("ok", {}).pop("wf", None) if "ok" in model else None
        case = {"stream": "construct", "args": a}
        ctx.count("stream:construct")
        ctx.count("construct:" + ("rejected:" + model["err"] if "err" in model else "accepted-wf" if wf else "accepted-not-wf"))
        use = [b for b in backends if b != "shared_memory_dict" or idx in (1, 4, 7, 11) or idx % 40 == 0]    # a Manager process each
        arrs, impl = {}, {}
        for b in use:
            impl[b], arr = _construct_impl(storage_registry[b], os.path.join(base, f"ctor{idx}-{b}"), a)
            if arr is not None:
                arrs[b] = arr
        ctx.record(case, nontrivial="ok" in model)
        for b, o in impl.items():
            if o != model:
                ctx.violation({**case, "backend": b}, f"{b}: the constructor and PF.St.construct disagree (C07_construct_characterised)",
                              found_input=False, item=f"correspondence:construct:{b}", impl=o, model=model)
                break
        else:
            if "ok" in model and wf is not None:
                g = model["ok"]
                if wf != _py_wf(g["shape"], g["internal"], g["mask"]):
                    ctx.violation(case, "Lean Geom.WF and the harness' reading of well-formedness differ", found_input=False,
                                  item="model:wf", model=model)
                if not wf and len(arrs) > 1:
                    pr = _nonwf_probe(arrs)
                    vals = list(pr.values())
                    ctx.count("non-wf-accepted:backends-" + ("agree" if all(v == vals[0] for v in vals) else "differ"))
    for idx, (c, resp) in enumerate(zip(init_cases, outs[len(cases):])):
        model = resp["r"]["result"]
        wf = model.get("ok", {}).pop("wf", None) if "ok" in model else None
        case = {"stream": "init_arrays", **c}
        ctx.count("stream:init_arrays")
        ctx.count("init_arrays:" + ("rejected" if "err" in model else "accepted"))
        b = backends[idx % len(backends)] if idx % 20 == 0 else rng.choice([x for x in backends if x != "shared_memory_dict"])
        try:
            arr = _init_arrays("y", tuple(c["full"]), tuple(c["mask"]), storage_registry[b], _as_path(os.path.join(base, f"init{idx}")))[0]
            impl = {"ok": {"shape": list(arr.shape), "internal": list(arr.internal_shape), "mask": [bool(m) for m in arr.shape_mask]}}
        except Exception as e:  # noqa: BLE001
            arr, impl = None, {"err": exc_enum(e)}
        ctx.record(case, nontrivial="ok" in model)
        if impl != model:
            ctx.violation({**case, "backend": b}, "_init_arrays and PF.St.initArrays/construct disagree (C07_init_arrays_wf)",
                          found_input=False, item="correspondence:init_arrays", impl=impl, model=model)
        elif arr is not None:
            g = impl["ok"]
            # what C07_init_arrays_wf proves, observed: well formed, and full_shape is the shape the runner started from
            if not _py_wf(g["shape"], g["internal"], g["mask"]) or wf is not True:
                ctx.violation({**case, "backend": b}, "_init_arrays produced a geometry that is not well formed (contradicts C07_init_arrays_wf)",
                              found_input=False, item="correspondence:init_arrays:wf", impl=impl, model=model)
            elif list(arr.full_shape) != c["full"][: len(c["mask"])]:
                ctx.violation({**case, "backend": b}, "full_shape of the array made by _init_arrays is not the shape it was made from",
                              found_input=False, item="correspondence:init_arrays:full_shape", impl=list(arr.full_shape), model=c["full"])


def _as_path(p):
    from pathlib import Path
    return Path(p)


# ------------------------------------------------------------------------------------------------ registry
class _RecArray:
    """just enough of a storage array for `_update_array`: the flag it reads and the `dump` it may call"""

    def __init__(self, flag):
        self.flag = flag
        self.dumped = []

    @property
    def dump_in_subprocess(self):
        return self.flag

    def dump(self, key, value):
        self.dumped.append((key, value))


def observe_registry(base):
    from pipefunc.map import _run_info
    rows = []
    for sid in sorted(storage_registry):
        if sid.startswith("zarr"):
            continue
        cls = storage_registry[sid]
        row = {"id": sid, "cls": cls.__name__, "storage_id": getattr(cls, "storage_id", None),
               "requires_serialization": getattr(cls, "requires_serialization", None), "is_storage_base": issubclass(cls, StorageBase)}
        try:
            arr = cls(os.path.join(base, f"reg-{sid}"), (1,))
            row["dump_in_subprocess"] = arr.dump_in_subprocess
        except Exception as e:  # noqa: BLE001
            row["dump_in_subprocess"] = exc_enum(e)
        try:
            row["lookup"] = get_storage_class(sid) is cls
        except Exception as e:  # noqa: BLE001
            row["lookup"] = exc_enum(e)
        try:
            row["runner_requires_serialization"] = _run_info._requires_serialization(sid)
        except Exception as e:  # noqa: BLE001
            row["runner_requires_serialization"] = exc_enum(e)
        made = None
        try:
            with warnings.catch_warnings():
                warnings.simplefilter("ignore")
                made = _run_info._maybe_run_folder(None, sid)
            row["temp_folder_without_run_folder"] = made is not None
            given = _run_info._maybe_run_folder(os.path.join(base, "given"), sid)
            row["keeps_given_folder"] = str(given) == os.path.join(base, "given")
        except Exception as e:  # noqa: BLE001
            row["temp_folder_without_run_folder"] = exc_enum(e)
        finally:
            if made is not None:
                shutil.rmtree(made, ignore_errors=True)
        rows.append(row)
    try:
        get_storage_class("no-such-storage")
        unknown = "returned"
    except Exception as e:  # noqa: BLE001
        unknown = exc_enum(e)
    return rows, unknown


def observe_update_array():
    """the runner's decision, on the real `_update_array`, for both flags x both call sites x force_dump"""
    from pipefunc import PipeFunc
    from pipefunc.map._run import _update_array

    def ident(x):
        return x
    f = PipeFunc(ident, "y", mapspec="x[i] -> y[i]")
    out = {}
    for flag in (False, True):
        for post in (False, True):
            for force in (False, True):
                arr = _RecArray(flag)
                try:
                    _update_array(f, [arr], (3,), (True,), 1, ["v"], in_post_process=post, force_dump=force)
                    out[(flag, post, force)] = arr.dumped == [((1,), "v")] if arr.dumped else False
                except Exception as e:  # noqa: BLE001
                    out[(flag, post, force)] = exc_enum(e)
    return out


def prepare_registry(ctx):
    return [{"m": "storage.registry", "a": {}}], None


def finish_registry(ctx, base, _state, outs):
    table = outs[0]["r"]
    rows, unknown = observe_registry(base)
    for sid in sorted(storage_registry):
        if sid.startswith("zarr"):
            ctx.skip(f"registry:zarr-class-not-covered:{sid}")
    case = {"stream": "registry"}
    ctx.count("stream:registry")
    ctx.record(case, nontrivial=True)
    want = [{"id": t["id"], "cls": t["cls"], "storage_id": t["id"], "requires_serialization": t["requires_serialization"],
             "is_storage_base": True, "dump_in_subprocess": t["dump_in_subprocess"], "lookup": True,
             "runner_requires_serialization": t["requires_serialization"],
             "temp_folder_without_run_folder": t["temp_folder_without_run_folder"], "keeps_given_folder": True} for t in table]
    if rows != want or unknown != "ValueError" or not all(t["lookup"] for t in table):
        diff = [(r, w) for r, w in zip(rows, want) if r != w] or [(rows[len(want):], want[len(rows):])]
        ctx.violation(case, "storage_registry / class flags differ from the Lean table PF.St.registry (C07_registry_flags)", found_input=False,
                      item="correspondence:registry", impl={"first-difference": diff[0][0], "unknown-id": unknown},
                      model={"first-difference": diff[0][1], "unknown-id": "ValueError"})
    # the runner's decision on each flag
    upd = observe_update_array()
    ucase = {"stream": "update_array"}
    ctx.count("stream:update_array")
    ctx.record(ucase, nontrivial=True)
    by_flag = {t["dump_in_subprocess"]: t for t in table}
    for (flag, post, force), got in sorted(upd.items()):
        if flag not in by_flag:
            continue
        t = by_flag[flag]
        exp = True if force else (t["dumps_in_parent"] if post else t["dumps_in_worker"])
        ctx.count(f"update_array:flag={flag}:post={post}:force={force}:{'dump' if exp else 'skip'}")
        if got != exp:
            ctx.violation({**ucase, "dump_in_subprocess": flag, "in_post_process": post, "force_dump": force},
                          "_update_array and PF.St.dumpsHere disagree on whether this call dumps (C07_dump_exactly_once)",
                          found_input=False, item="correspondence:update_array", impl=got, model=exp)


def replay(ctx, case, base):
    if case["stream"] == "construct":
        model = ctx.lean([{"m": "storage.construct", "a": {k: case["args"][k] for k in ("shape", "internal", "mask")}}])[0]["r"]
        print("arguments:", case["args"])
        print("   model PF.St.construct:", model)
        for b in sorted(storage_registry):
            if not b.startswith("zarr"):
                print(f"   {b:20s}:", _construct_impl(storage_registry[b], os.path.join(base, f"r-{b}"), case["args"])[0])
    elif case["stream"] == "init_arrays":
        from pipefunc.map._run_info import _init_arrays
        model = ctx.lean([{"m": "storage.init_arrays", "a": {"full": case["full"], "mask": case["mask"]}}])[0]["r"]
        print("shape, mask:", case["full"], case["mask"])
        print("   model:", model)
        for b in sorted(storage_registry):
            if b.startswith("zarr"):
                continue
            try:
                arr = _init_arrays("y", tuple(case["full"]), tuple(case["mask"]), storage_registry[b], _as_path(os.path.join(base, f"r-{b}")))[0]
                print(f"   {b:20s}:", arr.shape, arr.internal_shape, arr.shape_mask, "full_shape", arr.full_shape)
            except Exception as e:  # noqa: BLE001
                print(f"   {b:20s}:", exc_enum(e))
    elif case["stream"] == "registry":
        print("model table:", ctx.lean([{"m": "storage.registry", "a": {}}])[0]["r"])
        print("implementation:", observe_registry(base))
    else:
        print("model table:", ctx.lean([{"m": "storage.registry", "a": {}}])[0]["r"])
        print("_update_array (flag, in_post_process, force_dump) -> dumped:", observe_update_array())
