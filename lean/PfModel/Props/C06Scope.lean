import PfModel.Lemmas.MapPiecesScope
/-!
C06, round 10 — the learners of an element-scoped function (`resources_scope="element"`) stand for exactly the linear indices of the
learner they replace: splitting neither loses, adds, reorders nor RENUMBERS a point (seeded change C06-s5-A replaced the entries of
the sequence by their positions `0..n-1`).
-/
namespace PF.C06
open PF PF.Map PF.Pieces

/-- splitting keeps the points: the learners that replace `l`, in order, stand for exactly the entries of `l`'s sequence, in order
    (full strength: every learner). -/
theorem C06_split_points (l : Learner) : (splitLearner l).flatMap pointsOf = pointsOf l := by
  unfold splitLearner
  split
  · simp
  · rename_i s h
    split
    · simp
    · rw [flatMap_map_single]; simp [pointsOf, h]

/-- every learner of a split belongs to the same function and, when more than one point is selected, stands for ONE entry of the
    original sequence (`adaptive_scheduler._get_index` relies on it). -/
theorem C06_split_single (l : Learner) (s : List Nat) (h : l.seq = some s) (hn : s.length ≠ 1) :
    ∀ m ∈ splitLearner l, m.func = l.func ∧ ∃ x ∈ s, m.seq = some [x] := by
  intro m hm
  unfold splitLearner at hm
  rw [h] at hm
  simp only [hn, if_false, List.mem_map] at hm
  obtain ⟨x, hx, rfl⟩ := hm
  exact ⟨rfl, x, hx, rfl⟩

/-- a generation keeps its points function by function whatever is element-scoped -/
theorem C06_scope_points (elem : List String) (gen : List Learner) :
    (scopeGen elem gen).flatMap pointsOf = gen.flatMap pointsOf := by
  induction gen with
  | nil => rfl
  | cons l ls ih =>
    simp only [scopeGen, List.flatMap_cons, List.flatMap_append] at ih ⊢
    rw [ih]
    split
    · rw [C06_split_points]
    · simp

/-- with no element-scoped function `create_learners` is the round-1 model -/
theorem C06_scope_none (gen : List Learner) : scopeGen [] gen = gen := by
  induction gen with
  | nil => rfl
  | cons l ls ih => simp only [scopeGen, List.flatMap_cons] at ih ⊢; rw [ih]; simp

-- non-vacuity: the part `i = 2:` of a 4 x 3 function: the learner over [6..11] becomes six learners over [6], …, [11] (not [0], …, [5])
example : (splitLearner { func := "f", seq := some [6, 7, 8, 9, 10, 11] }).map (·.seq) =
    [some [6], some [7], some [8], some [9], some [10], some [11]] := by decide
example : ∃ l s, l.seq = some s ∧ s.length ≠ 1 ∧ (splitLearner l).length = 2 := ⟨{ func := "f", seq := some [3, 4] }, [3, 4], rfl, by decide, rfl⟩
example : (scopeGen ["f"] [{ func := "f", seq := some [3, 4] }, { func := "g", seq := some [3, 4] }, { func := "f", seq := none }]).map (·.seq) =
    [some [3], some [4], some [3, 4], none] := by decide

end PF.C06
