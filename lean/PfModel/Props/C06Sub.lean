import PfModel.Model.MapPiecesSub
import PfModel.Props.C06
/-!
C06, round 2 — `fixed_indices` together with `output_names=` / `auto_subpipeline=True`: the request is validated against the
NARROWED pipeline (`prepare_run`, `_prepare.py:52-62`).  Model: `Model/MapPiecesSub.lean` (`runPartSub`), on `PF.Sub.prepare`
(C11) and `PF.Pieces.runPart`.
-/
namespace PF.C06
open PF PF.Map PF.Pieces

/-- a successful partial run passed `_validate_fixed_indices` -/
theorem C06_run_validated (fs : List MFunc) (inputs : List (String × Val)) (ui : List (String × List Nat))
    (fixed : Option (List (String × Sel))) (old : List (String × Slot)) (r : PartResult) (h : runPart fs inputs ui fixed old = .ok r) :
    validateFixed fs inputs fixed = .ok () := by
  unfold runPart at h
  cases hv : validateInputs fs inputs with
  | error e => rw [hv] at h; cases h
  | ok u =>
    rw [hv] at h
    simp only [bind, Except.bind, pure, Except.pure] at h
    split at h
    · cases h
    · cases hf : validateFixed fs inputs fixed with
      | error e => rw [hf] at h; cases h
      | ok u => rfl

/-- a request `_validate_fixed_indices` refuses is rejected by the run, whatever the folder holds -/
theorem C06_run_rejects (fs : List MFunc) (inputs : List (String × Val)) (ui : List (String × List Nat))
    (fixed : Option (List (String × Sel))) (old : List (String × Slot)) (e : Err) (h : validateFixed fs inputs fixed = .error e) :
    ∃ e', runPart fs inputs ui fixed old = .error e' := by
  cases hr : runPart fs inputs ui fixed old with
  | error e' => exact ⟨e', rfl⟩
  | ok r => rw [C06_run_validated fs inputs ui fixed old r hr] at h; cases h

/-- **Fixed indices are validated against the narrowed pipeline.**  A run with `output_names=S` / `auto_subpipeline=auto`
    succeeds exactly when `subpipeline(set(inputs), S)` exists and the partial run of THAT pipeline succeeds; in particular
    the fixed indices pass `_validate_fixed_indices` of the narrowed pipeline, i.e. (`C06_reject`) every key indexes every
    input of the sub-map, every fixed axis is an axis of the sub-map, and no fixed axis is reduced inside the sub-map.
    What the dropped functions do with an axis plays no role. -/
theorem C06_sub_narrowed (fs : List MFunc) (inputs : List (String × Val)) (ui : List (String × List Nat)) (S : Option (List String))
    (auto : Bool) (fixed : Option (List (String × Sel))) (old : List (String × Slot)) (r : PartResult) :
    runPartSub fs inputs ui S auto fixed old = .ok r ↔
      ∃ sub, Sub.prepare fs inputs S auto = .ok sub ∧ runPart sub inputs ui fixed old = .ok r ∧
        validateFixed sub inputs fixed = .ok () := by
  unfold runPartSub
  cases hp : Sub.prepare fs inputs S auto with
  | error e => simp
  | ok sub =>
    simp only [Except.ok.injEq, exists_eq_left']
    exact ⟨fun h => ⟨h, C06_run_validated sub inputs ui fixed old r h⟩, fun h => h.1⟩

/-- **Requests the narrowed pipeline refuses are rejected** — an axis that only the dropped branch knows, an integer out of
    range for an input of the sub-map, an axis reduced inside the sub-map, an axis no function of the sub-map maps over
    (round 3: only ever internal there) (`C06_reject` applied to `sub`) — whatever the run folder holds, before any function
    runs. -/
theorem C06_sub_reject (fs : List MFunc) (inputs : List (String × Val)) (ui : List (String × List Nat)) (S : Option (List String))
    (auto : Bool) (fx : List (String × Sel)) (old : List (String × Slot)) (sub : List MFunc)
    (hp : Sub.prepare fs inputs S auto = .ok sub)
    (hbad : ¬ ((∀ pa ∈ mapspecAxes sub, ∀ v sh, alookup inputs pa.1 = some v → shapeOf v = some sh →
                  ∀ sd ∈ List.zip (pa.2.map (axisSel fx)) sh, ∃ r, selIndices sd.2 sd.1 = .ok r) ∧
               (∀ kv ∈ fx, kv.1 ∈ knownAxes (mapspecAxes sub)) ∧
               (∀ kv ∈ fx, kv.1 ∉ reducedAxes sub (mapspecAxes sub)) ∧
               (∀ kv ∈ fx, kv.1 ∈ mappedAxes sub))) :
    ∃ e, runPartSub fs inputs ui S auto (some fx) old = .error e := by
  unfold runPartSub
  rw [hp]
  cases hv : validateFixed sub inputs (some fx) with
  | ok u => exact absurd ((C06_reject sub inputs fx).mp hv) hbad
  | error e => exact C06_run_rejects sub inputs ui (some fx) old e hv

/-- without `output_names` and `auto_subpipeline` nothing is narrowed -/
theorem C06_sub_plain (fs : List MFunc) (inputs : List (String × Val)) (ui : List (String × List Nat))
    (fixed : Option (List (String × Sel))) (old : List (String × Slot)) :
    runPartSub fs inputs ui none false fixed old = runPart fs inputs ui fixed old := rfl

/-- a failing `subpipeline` is the failure of the run (nothing is validated, nothing runs) -/
theorem C06_sub_prepare_error (fs : List MFunc) (inputs : List (String × Val)) (ui : List (String × List Nat)) (S : Option (List String))
    (auto : Bool) (fixed : Option (List (String × Sel))) (old : List (String × Slot)) (e : Sub.SErr)
    (hp : Sub.prepare fs inputs S auto = .error e) : runPartSub fs inputs ui S auto fixed old = .error (subErr e) := by
  unfold runPartSub; rw [hp]

/-! ### the order is observable: witnesses -/

private instance {ε α : Type} [DecidableEq ε] [DecidableEq α] : DecidableEq (Except ε α)
  | .ok a, .ok b => if h : a = b then isTrue (by rw [h]) else isFalse (by intro e; cases e; exact h rfl)
  | .error a, .error b => if h : a = b then isTrue (by rw [h]) else isFalse (by intro e; cases e; exact h rfl)
  | .ok _, .error _ => isFalse (by intro e; cases e)
  | .error _, .ok _ => isFalse (by intro e; cases e)

private def fY : MFunc := { name := "f", params := [("x", "x")], outputs := ["y"], mapspec := some { inputs := [⟨"x", [some "i"]⟩], outputs := [⟨"y", [some "i"]⟩] }, ret := none, internal := none, defaults := [], bound := [] }
private def fV : MFunc := { name := "h", params := [("w", "w")], outputs := ["v"], mapspec := some { inputs := [⟨"w", [some "j"]⟩], outputs := [⟨"v", [some "j"]⟩] }, ret := none, internal := none, defaults := [], bound := [] }
private def fZ : MFunc := { name := "g", params := [("y", "y"), ("v", "v")], outputs := ["z"], mapspec := some { inputs := [⟨"y", [some "i"]⟩, ⟨"v", [some "j"]⟩], outputs := [⟨"z", [some "i", some "j"]⟩] }, ret := none, internal := none, defaults := [], bound := [] }
private def fT : MFunc := { name := "total", params := [("y", "y")], outputs := ["t"], mapspec := none, ret := none, internal := none, defaults := [], bound := [] }
private def xIn : List (String × Val) := [("x", .arr [4] [.int 0, .int 1, .int 2, .int 3])]

/-- **Witness 1 (an axis of the dropped branch).**  `x[i] -> y[i]`, `w[j] -> v[j]`, `y[i], v[j] -> z[i, j]`, run with
    `output_names={"y"}` and only `x` supplied: the narrowed pipeline is `[f]`; `{"j": 99}` names an axis unknown to it and is
    refused, although the validation against the pipeline as passed in would accept it (`w`, the only input carrying `j`, is
    not supplied, so the index is never looked at). -/
theorem C06_sub_witness_unknown_axis :
    (Sub.prepare [fY, fV, fZ] xIn (some ["y"]) false).map (·.map (·.name)) = .ok ["f"] ∧
    validateFixed [fY] xIn (some [("j", .idx 99)]) = .error (.value "got extra fixed_indices") ∧
    validateFixed [fY, fV, fZ] xIn (some [("j", .idx 99)]) = .ok () := by decide

/-- **Witness 2 (an axis reduced only by a dropped function).**  `x[i] -> y[i]`, `total(y)`, run with `output_names={"y"}`:
    the narrowed pipeline is `[f]`, where nothing reduces `i`, so `{"i": slice(2, None)}` is a legal part of the sub-map,
    although the pipeline as passed in reduces `i` (in `total`). -/
theorem C06_sub_witness_reduced_elsewhere :
    (Sub.prepare [fY, fT] xIn (some ["y"]) false).map (·.map (·.name)) = .ok ["f"] ∧
    validateFixed [fY] xIn (some [("i", .slice (some 2) none none)]) = .ok () ∧
    validateFixed [fY, fT] xIn (some [("i", .slice (some 2) none none)]) =
      .error (.value "axis is reduced and cannot be in fixed_indices") := by decide

/- round 3: the observation `C06_internal_axis_index_ignored_witness` that stood here (an index on an axis that is only ever
   internal passed the validation and was ignored) was a genuine defect of pipefunc; it is repaired (DF-C06-internal-axis) and
   replaced by `C06_internal_only_axis_refused` / `C06_internal_axis_refused_witness` in Props/C06Internal.lean. -/

/-! ### non-vacuity -/

/-- `C06_sub_reject`'s hypotheses hold (here with nothing narrowed: `{"j": 99}` on the one-function map of `y`) -/
example : ∃ e, runPartSub [fY] xIn [] none false (some [("j", .idx 99)]) [] = .error e := by
  refine C06_sub_reject _ _ _ _ _ _ _ [fY] rfl ?_
  intro h
  have hv : validateFixed [fY] xIn (some [("j", .idx 99)]) = .error (.value "got extra fixed_indices") := by decide
  rw [(C06_reject [fY] xIn [("j", .idx 99)]).mpr h] at hv
  cases hv

/-- `C06_sub_narrowed`'s left-hand side is inhabited: the part `{"i": slice(2, None)}` of the sub-map of witness 2 runs and
    calls `f` twice (elements 2 and 3), `total` never -/
example : (runPartSub [fY, fT] xIn [] (some ["y"]) false (some [("i", .slice (some 2) none none)]) []).map
    (fun r => r.res.calls.map (·.name)) = .ok ["f", "f"] := by decide

/-- and the request of witness 1 is refused by the run itself, before anything is called -/
example : (runPartSub [fY, fV, fZ] xIn [] (some ["y"]) false (some [("j", .idx 99)]) []).map
    (fun r => r.res.calls.map (·.name)) = .error (.value "got extra fixed_indices") := by decide

end PF.C06
