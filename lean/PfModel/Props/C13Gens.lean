import PfModel.Lemmas.ErrorsGens
import PfModel.Props.C13
import PfModel.Props.C13Async
/-!
C13 (extension) — "no function of a later generation is invoked", for the pipeline's *own* generations and along the DAG.

`C13_no_later_generation` / `C13_async_raised` speak about an abstract list of generations: every logged invocation's function
is a *member* of a generation `≤ g`.  Here the list is `generations fs` (Kahn layers of the pipeline): the layers are pairwise
disjoint by function name (`C13_generations_names_disjoint`), so a function of a later generation is not also a function of an
earlier one, and no invocation in the log of a raised run carries the name of a function of a generation `> g`
(`C13_later_generation_not_invoked`); every function that consumes an output of the failing function is of a later generation,
so it is not invoked either (`C13_consumers_not_invoked`).  Every mode, every schedule (fair or not), no hypothesis on `fs`.
-/
namespace PF.C13
open PF PF.Map PF.Errors

/-- **The generations are disjoint**: a function of generation `j` does not share its name with a function of an earlier
    generation (so "of a later generation" and "of generation `≤ g`" exclude each other). -/
theorem C13_generations_names_disjoint (fs : List MFunc) :
    ∀ (i j : Nat) (a b : List MFunc) (f h : MFunc), i < j → (generations fs)[i]? = some a → (generations fs)[j]? = some b →
      f ∈ a → h ∈ b → f.name ≠ h.name :=
  fun i j a b f h hij ea eb hf hh => generations_names_disjoint fs i j a b f h hij ea eb hf hh

/-- **Producers come first**: every producer (by name) of a function of generation `j` is a function of a generation `< j`. -/
theorem C13_generations_upstream_earlier (fs : List MFunc) :
    ∀ (j : Nat) (b : List MFunc) (h : MFunc) (n : String), (generations fs)[j]? = some b → h ∈ b → n ∈ upstream fs h →
      ∃ i, i < j ∧ ∃ a, (generations fs)[i]? = some a ∧ ∃ f ∈ a, f.name = n := by
  intro j b h n e hm hn
  rcases layers_upstream_earlier fs _ _ _ j b h n e hm hn with hd | h'
  · cases hd
  · exact h'

/-- a raised `Pipeline.map` is a raised run of the generation loop over the pipeline's own generations, started at 0 -/
theorem C13_map_raised_run (mode : Mode) (fails : Oracle) (sched : Nat → List Nat) (fs : List MFunc)
    (inputs : List (String × Val)) (ui : List (String × List Nat)) (g : Nat) (r : Raised) (log : List Task)
    (stored : List (String × Val)) (h : runMapE mode fails sched fs inputs ui = .raised g r log stored) :
    ∃ shapes masks st, runGensE mode fails sched (runFuncWith opArray fs shapes masks) (generations fs)
      { inputs := inputs, store := [] } 0 = .raised g r log st := by
  unfold runMapE at h
  cases hv : validateInputs fs inputs with
  | error e => simp [hv] at h
  | ok u =>
    simp only [hv] at h
    by_cases hc : (generations fs).flatten.length ≠ fs.length
    · simp only [if_pos hc] at h; cases h
    · simp only [if_neg hc] at h
      cases hm : mapShapes fs inputs (constructInternal fs ui) with
      | error e => simp [hm] at h
      | ok sm =>
        obtain ⟨shapes, masks⟩ := sm
        simp only [hm] at h
        cases hr : runGensE mode fails sched (runFuncWith opArray fs shapes masks) (generations fs)
            { inputs := inputs, store := [] } 0 with
        | ok a b c => simp [hr] at h
        | refused e => simp [hr] at h
        | hang a b => simp [hr] at h
        | raised g1 r1 log1 st1 =>
          simp only [hr] at h
          injection h with h1 h2 h3 h4
          subst h1; subst h2; subst h3
          exact ⟨shapes, masks, _, hr⟩

/-- **No function of a later generation is invoked** (`Pipeline.map`, every mode, every schedule).  When the map raises in
    generation `g`: the failing function is a function of generation `g` of the pipeline; every logged invocation is of a
    function of a generation `≤ g`; and no logged invocation carries the name of a function of a generation `> g`. -/
theorem C13_later_generation_not_invoked (mode : Mode) (fails : Oracle) (sched : Nat → List Nat) (fs : List MFunc)
    (inputs : List (String × Val)) (ui : List (String × List Nat)) (g : Nat) (r : Raised) (log : List Task)
    (stored : List (String × Val)) (h : runMapE mode fails sched fs inputs ui = .raised g r log stored) :
    (∃ (gen : List MFunc) (t : Task), (generations fs)[g]? = some gen ∧ t.f ∈ gen ∧ r.noteFunc = t.f.name) ∧
    (∀ u ∈ log, ∃ j gen, j ≤ g ∧ (generations fs)[j]? = some gen ∧ u.f ∈ gen) ∧
    (∀ j gen h, g < j → (generations fs)[j]? = some gen → h ∈ gen → ∀ u ∈ log, u.f.name ≠ h.name) := by
  obtain ⟨shapes, masks, st, hr⟩ := C13_map_raised_run mode fails sched fs inputs ui g r log stored h
  obtain ⟨gen, t, eg, ht, _, hn, _⟩ := C13_attributed mode fails sched _ _ _ 0 g r log st hr
  have hlog := (C13_no_later_generation mode fails sched _ _ _ 0 g r log st hr).2
  simp only [Nat.sub_zero] at eg hlog
  exact ⟨⟨gen, t, eg, ht, hn⟩, hlog, log_not_later fs g log hlog⟩

/-- **No consumer of the failing function is invoked** (`Pipeline.map`, every mode, every schedule): a function of the
    pipeline that takes an output of the failing function as a (non-bound) parameter is never called. -/
theorem C13_consumers_not_invoked (mode : Mode) (fails : Oracle) (sched : Nat → List Nat) (fs : List MFunc)
    (inputs : List (String × Val)) (ui : List (String × List Nat)) (g : Nat) (r : Raised) (log : List Task)
    (stored : List (String × Val)) (h : runMapE mode fails sched fs inputs ui = .raised g r log stored) :
    ∀ h ∈ (generations fs).flatten, r.noteFunc ∈ upstream fs h → ∀ u ∈ log, u.f.name ≠ h.name := by
  obtain ⟨⟨gen, t, eg, ht, hn⟩, _, hlater⟩ := C13_later_generation_not_invoked mode fails sched fs inputs ui g r log stored h
  intro c hc hup
  rw [hn] at hup
  obtain ⟨j, b, hj, ej, hcb⟩ := consumer_later fs g gen t.f eg ht c hc hup
  exact hlater j b c hj ej hcb

/-- a raised `Pipeline.map_async` is a raised run of the asynchronous generation loop over the pipeline's own generations -/
theorem C13_async_map_raised_run (fails : Oracle) (sched loopo : Nat → List Nat) (fs : List MFunc)
    (inputs : List (String × Val)) (ui : List (String × List Nat)) (g : Nat) (r : Raised) (log : List Task)
    (stored : List (String × Val)) (h : runMapA fails sched loopo fs inputs ui = .raised g r log stored) :
    ∃ shapes masks st, runGensA fails sched loopo (runFuncWith opArray fs shapes masks) (generations fs)
      { inputs := inputs, store := [] } 0 = .raised g r log st := by
  unfold runMapA at h
  cases hv : validateInputs fs inputs with
  | error e => simp [hv] at h
  | ok u =>
    simp only [hv] at h
    by_cases hc : (generations fs).flatten.length ≠ fs.length
    · simp only [if_pos hc] at h; cases h
    · simp only [if_neg hc] at h
      cases hm : mapShapes fs inputs (constructInternal fs ui) with
      | error e => simp [hm] at h
      | ok sm =>
        obtain ⟨shapes, masks⟩ := sm
        simp only [hm] at h
        cases hr : runGensA fails sched loopo (runFuncWith opArray fs shapes masks) (generations fs)
            { inputs := inputs, store := [] } 0 with
        | ok a b c => simp [hr] at h
        | refused e => simp [hr] at h
        | hang a b => simp [hr] at h
        | raised g1 r1 log1 st1 =>
          simp only [hr] at h
          injection h with h1 h2 h3 h4
          subst h1; subst h2; subst h3
          exact ⟨shapes, masks, _, hr⟩

/-- **No function of a later generation is invoked** (`Pipeline.map_async`, every pool schedule and loop order). -/
theorem C13_async_later_generation_not_invoked (fails : Oracle) (sched loopo : Nat → List Nat) (fs : List MFunc)
    (inputs : List (String × Val)) (ui : List (String × List Nat)) (g : Nat) (r : Raised) (log : List Task)
    (stored : List (String × Val)) (h : runMapA fails sched loopo fs inputs ui = .raised g r log stored) :
    (∃ (gen : List MFunc) (t : Task), (generations fs)[g]? = some gen ∧ t.f ∈ gen ∧ r.noteFunc = t.f.name) ∧
    (∀ u ∈ log, ∃ j gen, j ≤ g ∧ (generations fs)[j]? = some gen ∧ u.f ∈ gen) ∧
    (∀ j gen h, g < j → (generations fs)[j]? = some gen → h ∈ gen → ∀ u ∈ log, u.f.name ≠ h.name) := by
  obtain ⟨shapes, masks, st, hr⟩ := C13_async_map_raised_run fails sched loopo fs inputs ui g r log stored h
  obtain ⟨_, ⟨gen, t, eg, ht, _, hn, _⟩, hlog, _⟩ := C13_async_raised fails sched loopo _ _ _ 0 g r log st hr
  simp only [Nat.sub_zero] at eg hlog
  exact ⟨⟨gen, t, eg, ht, hn⟩, hlog, log_not_later fs g log hlog⟩

/-- **No consumer of the failing function is invoked** (`Pipeline.map_async`, every pool schedule and loop order). -/
theorem C13_async_consumers_not_invoked (fails : Oracle) (sched loopo : Nat → List Nat) (fs : List MFunc)
    (inputs : List (String × Val)) (ui : List (String × List Nat)) (g : Nat) (r : Raised) (log : List Task)
    (stored : List (String × Val)) (h : runMapA fails sched loopo fs inputs ui = .raised g r log stored) :
    ∀ h ∈ (generations fs).flatten, r.noteFunc ∈ upstream fs h → ∀ u ∈ log, u.f.name ≠ h.name := by
  obtain ⟨⟨gen, t, eg, ht, hn⟩, _, hlater⟩ :=
    C13_async_later_generation_not_invoked fails sched loopo fs inputs ui g r log stored h
  intro c hc hup
  rw [hn] at hup
  obtain ⟨j, b, hj, ej, hcb⟩ := consumer_later fs g gen t.f eg ht c hc hup
  exact hlater j b c hj ej hcb

/-! ## non-vacuity -/

/-- the generations of the example pipeline of `Props/C13.lean`: `g0`, `g1` first, then their consumer `g2` -/
example : (generations [g0, g1, g2]).map (·.map (·.name)) = [["g0", "g1"], ["g2"]] := by decide
/-- `g2` consumes the outputs of `g0` and `g1` (hypothesis `r.noteFunc ∈ upstream fs h` of `C13_consumers_not_invoked`) -/
example : upstream [g0, g1, g2] g2 = ["g0", "g1"] := by decide
/-- generation 1 exists and holds `g2`, generation 0 holds `g0` (hypotheses of `C13_generations_names_disjoint`,
    `C13_generations_upstream_earlier` and of the third conjunct of `C13_later_generation_not_invoked`) -/
example : (generations [g0, g1, g2])[0]? = some [g0, g1] ∧ (generations [g0, g1, g2])[1]? = some [g2] ∧
    g2 ∈ (generations [g0, g1, g2]).flatten := by
  refine ⟨by rfl, by rfl, ?_⟩
  have e : (generations [g0, g1, g2]).flatten = [g0, g1, g2] := by rfl
  rw [e]; simp
/-- the hypothesis of the `Pipeline.map` theorems holds (executor, reverse schedule): the run raises in generation 0, the note
    names `g0`, and the log holds `g0`, `g1` only -/
example : summary (runMapE .pool orc (fun _ => [5, 4, 3, 2, 1, 0]) [g0, g1, g2] [("x", x3)] []) =
    ("raised", 0, "ValueError", ["g0", "x"], ["g1", "g1", "g1", "g0", "g0", "g0"]) := by decide
/-- `C13_consumers_not_invoked` on that run: whatever was logged, `g2` is not in it -/
example (g : Nat) (r : Raised) (log : List Task) (stored : List (String × Val))
    (h : runMapE .pool orc (fun _ => [5, 4, 3, 2, 1, 0]) [g0, g1, g2] [("x", x3)] [] = .raised g r log stored)
    (hr : r.noteFunc = "g0") : ∀ u ∈ log, u.f.name ≠ "g2" := by
  have e : (generations [g0, g1, g2]).flatten = [g0, g1, g2] := by rfl
  have hup : r.noteFunc ∈ upstream [g0, g1, g2] g2 := by
    rw [hr]; have : upstream [g0, g1, g2] g2 = ["g0", "g1"] := by decide
    rw [this]; simp
  exact C13_consumers_not_invoked _ _ _ _ _ _ g r log stored h g2 (by rw [e]; simp) hup
/-- the hypothesis of the `Pipeline.map_async` theorems holds: the run raises in generation 0 and `g2` is not called -/
example : summaryA (runMapA orcA (fun _ => [0, 1, 2, 3, 4, 5]) (fun _ => [3, 2, 1, 0, 5, 4]) [g0, g1, g2] [("x", x3)] []) =
    ("raised", 0, "KeyError", ["g0", "g0", "g0", "g1", "g1", "g1"]) := by decide
/-- `C13_async_later_generation_not_invoked` on that run: generation 1 is `[g2]`, so `g2` is not in the log if `g = 0` -/
example (r : Raised) (log : List Task) (stored : List (String × Val))
    (h : runMapA orcA (fun _ => [0, 1, 2, 3, 4, 5]) (fun _ => [3, 2, 1, 0, 5, 4]) [g0, g1, g2] [("x", x3)] [] = .raised 0 r log stored) :
    ∀ u ∈ log, u.f.name ≠ "g2" :=
  (C13_async_later_generation_not_invoked _ _ _ _ _ _ 0 r log stored h).2.2 1 [g2] g2 (by omega) (by rfl) (by simp)

end PF.C13
