import PfModel.Model.Typing
/-!
Model of the loop of `validate_consistent_type_annotations` (`pipefunc/_pipeline/_validation.py:42-83`) over a *pipeline
description*: which (producer, consumer, parameter) triples are visited and with which annotations.

A function of the pipeline is described by what the loop reads from a `PipeFunc`: `output_name`, `parameters`, `_bound`,
`renames`, the hints `safe_get_type_hints` returns for the callable whose signature is used (the function itself, `__init__`
of a class, the fields of a pydantic model, `call_full_output` of a `NestedPipeFunc`), the `return` hint, the kind of callable
and the MapSpec the function has when `_validate` runs (after `_autogen_mapspec_axes`).

The model mirrors the *repaired* code (fix commits of `fixes/C16/ext`): a parameter that is bound in the consumer is not an
edge and is not checked (DF-C16-bound); a `NestedPipeFunc` has no output annotation (DF-C16-nested); a `tuple[T, ...]` return
hint gives every output name the annotation `T` (DF-C16-variadic).
-/
namespace PF.Typing

/-- one value of the dict returned by `safe_get_type_hints` (`typing.py:304-323`) -/
inductive Hint
  | ty : Ty → Hint          -- a resolved annotation
  | unres : Hint            -- `Unresolvable(str)`: a forward reference that cannot be evaluated
  deriving Repr, Inhabited

/-- the `return` entry of the hints -/
inductive RetHint
  | missing : RetHint       -- no `return` key: `NoAnnotation`
  | unres : RetHint         -- `Unresolvable`
  | ty : Ty → RetHint       -- a resolved annotation; `tuple[A, B]` is `.ty (.gen .tuple [A, B])`
  | variadic : Ty → RetHint -- `tuple[T, ...]` (only meaningful with a tuple `output_name`, see `Func.wf`)
  deriving Repr, Inhabited

/-- what kind of callable the `PipeFunc` wraps, as far as `parameter_annotations` / `output_annotation` distinguish -/
inductive Kind
  | plain : Kind            -- function, method, `functools.partial` with `__wrapped__`, callable instance
  | cls : Ty → Kind         -- a class (also dataclass, pydantic model): a single output is annotated with the class itself
  | picker : Kind           -- `output_picker` given: the outputs have no annotation
  | nested : Kind           -- `NestedPipeFunc`
  deriving Repr, Inhabited

structure Func where
  outs : List String                 -- `at_least_tuple(output_name)` (after renames / scope)
  outIsTuple : Bool                  -- `isinstance(output_name, tuple)`
  params : List String               -- `parameters` (after renames / scope)
  bound : List String                -- keys of `_bound`
  renames : List (String × String)   -- `renames`
  phints : List (String × Hint)      -- hints by ORIGINAL parameter name, without `return`
  ret : RetHint
  kind : Kind
  mapspec : Option MSpec
  deriving Repr, Inhabited

/-! ### dictionaries as association lists with unique keys -/

/-- `d[k] = v` -/
def dinsert {β} (k : String) (v : β) : List (String × β) → List (String × β)
  | [] => [(k, v)]
  | (k', v') :: r => if k' = k then (k', v) :: r else (k', v') :: dinsert k v r

/-- `dict(pairs)`: a later pair overrides an earlier one with the same key (it keeps the position of the first) -/
def mkDict {β} (l : List (String × β)) : List (String × β) :=
  l.foldl (fun d kv => dinsert kv.1 kv.2 d) []

/-- `renames.get(k, k)` -/
def renamed (rn : List (String × String)) (k : String) : String :=
  match alookup k rn with
  | some n => n
  | none => k

/-- `PipeFunc.parameter_annotations` (`_pipefunc.py:731-740`): `{renames.get(k, k): v for k, v in hints.items() if k != "return"}` -/
def paramAnnotations (f : Func) : List (String × Hint) :=
  mkDict (f.phints.map (fun kv => (renamed f.renames kv.1, kv.2)))

def allMissing (names : List String) : List (String × Hint) := mkDict (names.map (fun n => (n, Hint.ty .noann)))

/-- `PipeFunc.output_annotation` (`_pipefunc.py:742-761`): a class with a single output is annotated with the class; an output
    picker or a `NestedPipeFunc` leaves the outputs without annotation; a single output has the `return` hint; a tuple
    `output_name` splits a `tuple[A, B, ..]` hint per name (`dict(zip(output_name, get_args(hint)))`: surplus names get no entry,
    surplus arguments are dropped), a `tuple[T, ...]` hint gives every name `T`, anything else leaves all names without
    annotation. -/
def outputAnnotation (f : Func) : List (String × Hint) :=
  match f.kind, f.outIsTuple with
  | .cls c, false => mkDict (f.outs.map (fun n => (n, Hint.ty c)))
  | .cls _, true => allMissing f.outs
  | .picker, _ => allMissing f.outs
  | .nested, _ => allMissing f.outs
  | .plain, false =>
    match f.ret with
    | .missing => allMissing f.outs
    | .unres => mkDict (f.outs.map (fun n => (n, Hint.unres)))
    | .ty t => mkDict (f.outs.map (fun n => (n, Hint.ty t)))
    | .variadic _ => allMissing f.outs            -- outside the modelled fragment (`Func.wf`)
  | .plain, true =>
    match f.ret with
    | .ty (.gen .tuple (t :: ts)) => mkDict ((f.outs.zip (t :: ts)).map (fun p => (p.1, Hint.ty p.2)))
    | .variadic t => mkDict (f.outs.map (fun n => (n, Hint.ty t)))
    | _ => allMissing f.outs

/-- the description is inside the modelled fragment: a single `output_name` is one name, and a `tuple[T, ...]` hint is only
    described for a tuple `output_name` (as a single annotation it is outside the grammar `Ty`) -/
def Func.wf (f : Func) : Bool :=
  (f.outIsTuple || f.outs.length == 1) &&
  (match f.ret with | .variadic _ => f.outIsTuple | _ => true)

/-- `Pipeline.graph` (`_base.py:384-423`) has an edge `f → g` when a parameter of `g` that is not bound is an output of `f`;
    `nx.descendants_at_distance(graph, f, 1)` (`_validation.py:47`) are the targets of these edges other than `f` itself -/
def feeds (f g : Func) : Bool :=
  g.params.any (fun p => !g.bound.contains p && f.outs.contains p)

/-- one visit of the inner loop body that reaches the comparison -/
structure CEdge where
  prod : Nat              -- index of `node` in `pipeline.functions`
  cons : Nat              -- index of `dep`
  param : String          -- `parameter_name`
  out : Hint              -- `node.output_annotation[parameter_name]`
  inp : Hint              -- `dep.parameter_annotations[parameter_name]`
  pm : Option MSpec       -- `node.mapspec`
  cm : Option MSpec       -- `dep.mapspec`
  deriving Repr

/-- the body of `for parameter_name, input_type in dep.parameter_annotations.items()` up to the comparison
    (`_validation.py:51-53` and the bound-parameter guard of the fix) -/
def visitParams (i j : Nat) (f g : Func) : List CEdge :=
  (paramAnnotations g).filterMap (fun kv =>
    match alookup kv.1 (outputAnnotation f) with
    | none => none                                              -- `if parameter_name not in output_types: continue`
    | some o => if g.bound.contains kv.1 then none              -- a bound parameter does not receive the output
                else some ⟨i, j, kv.1, o, kv.2, f.mapspec, g.mapspec⟩)

/-- `for dep in nx.descendants_at_distance(graph, node, 1)` -/
def visitNode (fs : List Func) (i : Nat) (f : Func) : List CEdge :=
  ((List.range fs.length).filter (fun j => j != i && (match fs[j]? with | some g => feeds f g | none => false))).flatMap
    (fun j => match fs[j]? with | some g => visitParams i j f g | none => [])

/-- `for node in graph.nodes` restricted to the `PipeFunc` nodes: every (node, dep, parameter) the loop compares -/
def visit (fs : List Func) : List CEdge :=
  (List.range fs.length).flatMap (fun i => match fs[i]? with | some f => visitNode fs i f | none => [])

/-- the comparison sees resolved annotations on both sides: the edge of `Model/Typing.lean` -/
def CEdge.toEdge? (c : CEdge) : Option Edge :=
  match c.out, c.inp with
  | .ty o, .ty t => some ⟨c.param, o, t, c.pm, c.cm⟩
  | _, _ => none

def stripAnnot : Ty → Ty
  | .annot p => stripAnnot p
  | t => t

def Ty.isTypeVar : Ty → Bool
  | .tvFree => true
  | .tvBound _ => true
  | .tvConstr _ => true
  | _ => false

/-- the visit ends in `_check_identical_or_any` (`typing.py:78-92`) with an `Unresolvable` on one side: a warning is issued and
    the comparison is skipped.  Generated MapSpecs and internal shapes are skipped earlier (no warning); an incoming TypeVar
    (after `Array` wrapping and looking through plain `Annotated`) returns before the `Unresolvable` test (no warning). -/
def CEdge.warns (c : CEdge) : Bool :=
  let e : Edge := ⟨c.param, .noann, .noann, c.pm, c.cm⟩
  !mapspecIsGenerated e && !withInternalShape e &&
    (match c.out, c.inp with
     | .unres, _ => true
     | .ty o, .unres => !(stripAnnot (wrapOut { e with out := o })).isTypeVar
     | .ty _, .ty _ => false)

/-- the edges whose annotations are compared (an `Unresolvable` hint on either side is skipped with a warning) -/
def checkedEdges (fs : List Func) : List Edge := (visit fs).filterMap CEdge.toEdge?

/-- `Pipeline._validate` restricted to type annotations, over the pipeline description -/
def constructP (validate : Bool) (fs : List Func) : Outcome := construct validate (checkedEdges fs)

/-- `validate_unique_output_names`: no output name is produced twice (otherwise construction fails with `ValueError` before) -/
def uniqueOuts (fs : List Func) : Prop := (fs.map Func.outs).flatten.Nodup

end PF.Typing
