"""File-system trace of a real run: `strace -f -y -s … -xx` around a child interpreter, parsed into an event list.

Events (paths absolute, only those under the run folder, plus the appends to the call log):
  ("mkdir", path) ("open", path, truncates) ("write", path, bytes) ("close", path) ("rename", src, dst)
  ("unlink", path) ("rmdir", path) ("call", func, kwargs_enc)            -- `call` = the "call" record appended to the log
Only successful syscalls are kept.  Lines of concurrently running tasks (`<unfinished …>` / `<… resumed>`) are joined per pid;
the order is the order in which strace saw the syscalls complete.
"""
from __future__ import annotations

import json
import os
import re
import subprocess
import sys

HARNESS = os.path.dirname(os.path.abspath(__file__))
PY = os.environ.get("VERIF_PYTHON", "/venv/bin/python")
SYSCALLS = "openat,open,creat,write,pwrite64,writev,close,rename,renameat,renameat2,unlink,unlinkat,mkdir,mkdirat,rmdir,ftruncate,truncate,link,linkat,symlink,symlinkat"
_HEX = re.compile(r"\\x([0-9a-f]{2})")
_STR = re.compile(r'"((?:\\x[0-9a-f]{2})*)"(\.\.\.)?')
_LINE = re.compile(r"^(\d+)\s+(\w+)\((.*)\)\s+=\s+(-?\d+)")
_FDPATH = re.compile(r"^(\d+)<((?:\\x[0-9a-f]{2})*)>")       # `-y`: the descriptor's path, hex-escaped under `-xx`


class TraceError(Exception):
    pass


def child_env():
    env = dict(os.environ)
    env["PYTHONPATH"] = HARNESS + os.pathsep + env.get("PYTHONPATH", "")
    for k in ("OPENBLAS_NUM_THREADS", "OMP_NUM_THREADS", "MKL_NUM_THREADS"):
        env.setdefault(k, "1")
    return env


def run_child(spec_path, trace_path=None, timeout=300):
    """Run harness/c05_child.py on a spec, optionally under strace.  Returns the child's JSON result (or an `err`)."""
    cmd = [PY, os.path.join(HARNESS, "c05_child.py"), spec_path]
    if trace_path:
        cmd = ["strace", "-f", "-y", "-s", "10000000", "-xx", "-e", "trace=" + SYSCALLS, "-o", trace_path, *cmd]
    try:
        p = subprocess.run(cmd, capture_output=True, text=True, timeout=timeout, env=child_env())
    except subprocess.TimeoutExpired:
        return {"err": "Timeout", "msg": "child timed out"}
    for line in p.stdout.splitlines():
        if line.startswith("C05RESULT "):
            return json.loads(line[len("C05RESULT "):])
    return {"err": "ChildDied", "msg": (p.stderr or p.stdout)[-600:], "rc": p.returncode}


class Zygotes:
    """A pool of pre-imported interpreters (`c05_child.py --server`); each request is served by a fork of a zygote that has
    never run a map — as good as a fresh interpreter for the purpose of 'no state survives the crash', at a tenth of the cost."""

    def __init__(self, n):
        import queue
        self.free = queue.Queue()
        self.procs = []
        env = child_env()
        for _ in range(n):
            p = subprocess.Popen([PY, os.path.join(HARNESS, "c05_child.py"), "--server"], stdin=subprocess.PIPE, stdout=subprocess.PIPE,
                                 stderr=subprocess.DEVNULL, text=True, env=env, bufsize=1)
            self.procs.append(p)
            self.free.put(p)

    def run(self, spec_path):
        p = self.free.get()
        try:
            p.stdin.write(spec_path + "\n")
            p.stdin.flush()
            res = None
            while True:
                line = p.stdout.readline()
                if not line:
                    return {"err": "ChildDied", "msg": "zygote exited"}
                if line.startswith("C05RESULT "):
                    res = json.loads(line[len("C05RESULT "):])
                elif line.startswith("C05DONE"):
                    return res if res is not None else {"err": "ChildDied", "msg": "killed: " + line.strip()}
        finally:
            self.free.put(p)

    def close(self):
        for p in self.procs:
            try:
                p.stdin.close()
                p.wait(timeout=10)
            except Exception:  # noqa: BLE001
                p.kill()


def _unhex(s):
    return bytes(int(x, 16) for x in _HEX.findall(s))


def _other_file(args, path):
    """Does strace's `-y` annotation of the first argument (a descriptor) name something else than `path`?  The per-process
    descriptor tables are not tracked (threads share them, `fork` copies them), so a descriptor number is also looked up under
    other task ids; the annotation tells a socket / pipe / other file of ANOTHER process with the same number apart (seen: the
    server process of a `multiprocessing.Manager` answering a new connection on descriptor n while the parent has
    `dict_array.cloudpickle`'s temporary file open as n)."""
    m = _FDPATH.match(args)
    if not m or path is None:
        return False
    ann = _unhex(m.group(2)).decode(errors="replace")
    if ann.endswith(" (deleted)"):
        ann = ann[: -len(" (deleted)")]
    return bool(ann) and os.path.abspath(ann) != path if ann.startswith("/") else bool(ann)


def _joined_lines(trace_path):
    pending = {}
    with open(trace_path, errors="replace") as fh:
        for line in fh:
            line = line.rstrip("\n")
            m = re.match(r"^(\d+)\s+(.*)$", line)
            if not m:
                continue
            pid, rest = m.group(1), m.group(2)
            if rest.endswith("<unfinished ...>"):
                pending[pid] = rest[: -len("<unfinished ...>")]
                continue
            r = re.match(r"^<\.\.\. (\w+) resumed>(.*)$", rest)
            if r:
                head = pending.pop(pid, None)
                if head is None:
                    continue
                rest = head + r.group(2)
            yield pid + " " + rest


def parse(trace_path, folder, log_path=None):
    folder = os.path.abspath(folder)
    pre = folder + os.sep
    ev, fds = [], {}

    def inside(p):
        return p == folder or p.startswith(pre)

    for line in _joined_lines(trace_path):
        m = _LINE.match(line)
        if not m:
            continue
        pid, call, args, ret = m.group(1), m.group(2), m.group(3), int(m.group(4))
        if ret < 0:
            continue
        found = _STR.findall(args)
        if any(t for _, t in found):
            raise TraceError("strace truncated a string: raise -s")
        strs = [_unhex(s) for s, _ in found]
        if call in ("openat", "open", "creat"):
            if not strs:
                continue
            path = os.path.abspath(strs[0].decode())
            writing = call == "creat" or "O_WRONLY" in args or "O_RDWR" in args
            if writing and (inside(path) or path == log_path):
                fds[(pid, ret)] = path
                if inside(path):
                    if "O_APPEND" in args:
                        raise TraceError(f"append-mode open in the run folder: {path}")
                    ev.append(("open", path, "O_TRUNC" in args or call == "creat"))
        elif call in ("write", "pwrite64", "writev"):
            fd = int(re.match(r"(\d+)", args).group(1))
            path = fds.get((pid, fd))
            if path is None:
                # threads of one process share descriptors: look for the same fd under another task id
                cands = [p for (q, f), p in fds.items() if f == fd]
                path = cands[0] if len(cands) == 1 and not _other_file(args, cands[0]) else None
            if path is None:
                continue
            if call != "write" and inside(path):
                raise TraceError(f"unsupported write call {call} on {path}")
            data = strs[0] if strs else b""
            if path == log_path:
                try:
                    recs = [json.loads(rec) for rec in data.decode().splitlines() if rec.strip()]
                except ValueError:      # (UnicodeDecodeError is one)
                    # not the call log: the descriptor fallback above matched a pipe / socket of ANOTHER process (pool workers) that
                    # happens to carry the same descriptor number while the log is open elsewhere
                    continue
                for name, kw, phase, _pid in recs:
                    if phase == "call":
                        ev.append(("call", name, kw))
            else:
                ev.append(("write", path, data[:ret]))
        elif call == "close":
            fd = int(re.match(r"(\d+)", args).group(1))
            path = fds.pop((pid, fd), None)
            if path is None:
                for key in [k for k in fds if k[1] == fd]:
                    # a close by another task of the same process (not: another process closing ITS descriptor of that number)
                    if not _other_file(args, fds[key]):
                        path = fds.pop(key)
                        break
            if path is not None and inside(path):
                ev.append(("close", path))
        elif call in ("mkdir", "mkdirat"):
            if strs and inside(os.path.abspath(strs[-1].decode())):
                ev.append(("mkdir", os.path.abspath(strs[-1].decode())))
        elif call in ("unlink", "unlinkat", "rmdir"):
            if strs and inside(os.path.abspath(strs[-1].decode())):
                kind = "rmdir" if call == "rmdir" or "AT_REMOVEDIR" in args else "unlink"
                ev.append((kind, os.path.abspath(strs[-1].decode())))
        elif call.startswith("rename"):
            if strs and (inside(os.path.abspath(strs[0].decode())) or inside(os.path.abspath(strs[-1].decode()))):
                ev.append(("rename", os.path.abspath(strs[0].decode()), os.path.abspath(strs[-1].decode())))
        elif call == "ftruncate":
            fd = int(re.match(r"(\d+)", args).group(1))
            if inside(fds.get((pid, fd), "")):
                raise TraceError("unmodelled syscall ftruncate in the run folder")
        elif call in ("truncate", "link", "linkat", "symlink", "symlinkat"):
            if any(inside(os.path.abspath(s.decode(errors="replace"))) for s in strs):
                raise TraceError(f"unmodelled syscall {call} in the run folder")
    return ev


def traced_run(spec, spec_path, trace_path):
    """Write the spec, run it under strace, return (child result, events)."""
    with open(spec_path, "w") as fh:
        json.dump(spec, fh)
    res = run_child(spec_path, trace_path)
    ev = parse(trace_path, spec["folder"], spec.get("log"))
    return res, ev


if __name__ == "__main__":
    for e in parse(sys.argv[1], sys.argv[2], sys.argv[3] if len(sys.argv) > 3 else None):
        print(e[0], *(x if not isinstance(x, bytes) else f"<{len(x)} bytes>" for x in e[1:]))
