"""Translator for the heap model of C20 (secondary tie): the ordered DICT-OBJECT EVENTS of every combinator of pipefunc/resources.py.

For `update`, `combine_max`, `with_defaults`, `maybe_with_defaults`, `dict`, `from_dict` the function body is walked with `ast` in evaluation
order and every expression / statement that creates, copies, aliases or writes a dict (or instance) object is emitted as one event:

  "{}" "{k:v}" "{**}" "{comp}"      dict displays: empty / literal / with ** unpacking (a NEW merged dict) / comprehension
  "dict(..)" "dict(..)**"            the builtin `dict(x)` / `dict(a, **b)`: a NEW dict
  ".copy()" "asdict" ".dict()"       shallow copy / dataclasses.asdict (deep copy) / Resources.dict()
  "x[k]=" "x[k][k]="                 subscript store one level deep (rebinding an entry of the local keyword dict) / two levels deep (an
                                     IN-PLACE write into the dict object stored under a key)
  ".update()" ".setdefault()" ...    mutating method calls;  "del[..]";  "x.attr=" / "setattr": attribute stores
  "alias extra_args"                 a bare `….extra_args` / `…["extra_args"]` stored or passed on WITHOUT a copy
  "Resources(..)" "with_defaults()"  the constructor (or from_dict) / delegation to with_defaults
  "for" "endfor"                     loop brackets;  "return self" "return <param>" "return None" "return": what is handed back

`lean/PfModel/Generated/C20HeapFacts.lean` is rewritten on every run; `Props/C20HeapSrc.lean` proves by `decide` that the lists are the ones the
heap programs of `Model/ResourcesHeap.lean` were written for (`PF.ResH.*Events`, each event annotated there with the primitive it became).
"""
from __future__ import annotations

import ast
import os
from pathlib import Path

REPO = Path(os.environ.get("VERIF_REPO", "/repo"))
OUT = Path(__file__).resolve().parent.parent / "lean" / "PfModel" / "Generated" / "C20HeapFacts.lean"
METHODS = ["update", "combine_max", "with_defaults", "maybe_with_defaults", "dict", "from_dict"]
MUTATORS = {"update", "setdefault", "pop", "popitem", "clear", "__setitem__", "__delitem__", "__ior__"}


def is_extra(e):
    if isinstance(e, ast.Attribute) and e.attr == "extra_args":
        return True
    return isinstance(e, ast.Subscript) and isinstance(e.slice, ast.Constant) and e.slice.value == "extra_args"


def events_of(fn: ast.FunctionDef):
    ev = []
    params = {a.arg for a in fn.args.args + fn.args.kwonlyargs}

    def expr(e):
        if e is None:
            return
        if isinstance(e, ast.Call):
            f = e.func
            if isinstance(f, ast.Attribute):
                expr(f.value)
            for x in e.args:
                expr(x)
                if is_extra(x):
                    ev.append("alias extra_args")
            for kw in e.keywords:
                expr(kw.value)
                if is_extra(kw.value) and not (isinstance(f, ast.Name) and f.id == "dict"):
                    ev.append("alias extra_args")
            if isinstance(f, ast.Name) and f.id == "dict":
                # dict(x) copies x (also when x is an extra_args object): drop the alias event just emitted for a positional argument
                while ev and ev[-1] == "alias extra_args":
                    ev.pop()
                ev.append("dict(..)**" if any(kw.arg is None for kw in e.keywords) else "dict(..)")
            elif isinstance(f, ast.Name) and f.id in ("asdict", "deepcopy"):
                while ev and ev[-1] == "alias extra_args":
                    ev.pop()
                ev.append("asdict")
            elif isinstance(f, ast.Name) and f.id == "setattr":
                ev.append("setattr")
            elif isinstance(f, ast.Name) and f.id == "Resources":
                ev.append("Resources(..)")
            elif isinstance(f, ast.Attribute) and f.attr == "from_dict":
                ev.append("Resources(..)")
            elif isinstance(f, ast.Attribute) and f.attr in ("copy", "deepcopy"):
                ev.append(".copy()")
            elif isinstance(f, ast.Attribute) and f.attr == "dict":
                ev.append(".dict()")
            elif isinstance(f, ast.Attribute) and f.attr == "with_defaults":
                ev.append("with_defaults()")
            elif isinstance(f, ast.Attribute) and f.attr == "__setattr__":
                ev.append("setattr")
            elif isinstance(f, ast.Attribute) and f.attr in MUTATORS:
                ev.append(f".{f.attr}()")
            return
        if isinstance(e, ast.Dict):
            for k, v in zip(e.keys, e.values):
                expr(k)
                expr(v)
                if is_extra(v) and k is not None:
                    ev.append("alias extra_args")
            ev.append("{}" if not e.keys else "{**}" if any(k is None for k in e.keys) else "{k:v}")
            return
        if isinstance(e, ast.DictComp):
            for g in e.generators:
                expr(g.iter)
            ev.append("{comp}")
            return
        for child in ast.iter_child_nodes(e):
            if isinstance(child, ast.expr):
                expr(child)
            elif isinstance(child, ast.comprehension):
                expr(child.iter)

    def target(t, value):
        if isinstance(t, ast.Subscript):
            depth, x = 0, t
            while isinstance(x, ast.Subscript):
                depth, x = depth + 1, x.value
            ev.append("x" + "[k]" * depth + "=")
        elif isinstance(t, ast.Attribute):
            ev.append("x.attr=")
        elif isinstance(t, (ast.Tuple, ast.List)):
            for x in t.elts:
                target(x, None)
        if value is not None and is_extra(value):
            ev.append("alias extra_args")

    def block(stmts):
        for s in stmts:
            stmt(s)

    def stmt(s):
        if isinstance(s, ast.Assign):
            expr(s.value)
            for t in s.targets:
                target(t, s.value)
        elif isinstance(s, ast.AnnAssign):
            expr(s.value)
            target(s.target, s.value)
        elif isinstance(s, ast.AugAssign):
            expr(s.value)
            target(s.target, s.value)
        elif isinstance(s, ast.Expr):
            if not (isinstance(s.value, ast.Constant) and isinstance(s.value.value, str)):
                expr(s.value)
        elif isinstance(s, ast.Return):
            expr(s.value)
            v = s.value
            if isinstance(v, ast.Name) and v.id == "self":
                ev.append("return self")
            elif isinstance(v, ast.Name) and v.id in params:
                ev.append(f"return {v.id}")
            elif v is None or (isinstance(v, ast.Constant) and v.value is None):
                ev.append("return None")
            else:
                if is_extra(v):
                    ev.append("alias extra_args")
                ev.append("return")
        elif isinstance(s, ast.If):
            expr(s.test)
            block(s.body)
            block(s.orelse)
        elif isinstance(s, (ast.For, ast.While)):
            expr(s.iter if isinstance(s, ast.For) else s.test)
            ev.append("for")
            block(s.body)
            block(s.orelse)
            ev.append("endfor")
        elif isinstance(s, ast.Try):
            block(s.body)
            for h in s.handlers:
                block(h.body)
            block(s.orelse)
            block(s.finalbody)
        elif isinstance(s, ast.With):
            for it in s.items:
                expr(it.context_expr)
            block(s.body)
        elif isinstance(s, ast.Delete):
            for t in s.targets:
                ev.append("del[..]" if isinstance(t, ast.Subscript) else "del")
        elif isinstance(s, (ast.FunctionDef, ast.ClassDef)):
            ev.append("nested def")
        else:
            for child in ast.iter_child_nodes(s):
                if isinstance(child, ast.expr):
                    expr(child)

    block(fn.body)
    return ev


def extract():
    tree = ast.parse((REPO / "pipefunc" / "resources.py").read_text())
    cls = next((n for n in tree.body if isinstance(n, ast.ClassDef) and n.name == "Resources"), None)
    if cls is None:
        raise ValueError("class Resources not found")
    out = {}
    for n in cls.body:
        if isinstance(n, ast.FunctionDef) and n.name in METHODS:
            out[n.name] = events_of(n)
    missing = [m for m in METHODS if m not in out]
    if missing:
        raise ValueError(f"methods not found: {missing}")
    # facts about the dataclass itself: frozen, and extra_args made by default_factory=dict
    frozen = any(isinstance(d, ast.Call) and getattr(d.func, "id", None) == "dataclass"
                 and any(k.arg == "frozen" and isinstance(k.value, ast.Constant) and k.value.value is True for k in d.keywords)
                 for d in cls.decorator_list)
    factory = False
    for n in cls.body:
        if isinstance(n, ast.AnnAssign) and getattr(n.target, "id", None) == "extra_args" and isinstance(n.value, ast.Call):
            factory = any(k.arg == "default_factory" and getattr(k.value, "id", None) == "dict" for k in n.value.keywords)
    return out, frozen, factory


def lean_str(s):
    return '"' + s.replace("\\", "\\\\").replace('"', '\\"') + '"'


def camel(name):
    parts = name.split("_")
    return parts[0] + "".join(p.capitalize() for p in parts[1:])


def render(events, frozen, factory):
    lines = ["/- GENERATED by harness/c20_heap_extract.py from pipefunc/resources.py on every run of ./check C20. Do not edit. -/",
             "namespace PF.Generated.C20Heap", ""]
    for m in METHODS:
        lines.append(f"/-- dict-object events of `Resources.{m}`, in evaluation order -/")
        lines.append(f"def {camel(m)}Events : List String := [{', '.join(lean_str(e) for e in events.get(m, []))}]")
        lines.append("")
    lines.append(f"def frozenDataclass : Bool := {'true' if frozen else 'false'}")
    lines.append(f"def extraArgsDefaultFactoryDict : Bool := {'true' if factory else 'false'}")
    lines += ["", "end PF.Generated.C20Heap", ""]
    return "\n".join(lines)


def write():
    events, frozen, factory = extract()
    body = render(events, frozen, factory)
    if not OUT.exists() or OUT.read_text() != body:
        OUT.write_text(body)
    return events, frozen, factory


def write_stub():
    body = render({}, False, False).replace("GENERATED by", "GENERATED stub (the translator could not read the source) by")
    OUT.write_text(body)


if __name__ == "__main__":
    for k, v in write()[0].items():
        print(k, v)
