"""C01, clause "a valid request is never refused": cross-check of the Lean predicate `PF.C01.Conforms` against reality.

`PF.C01.C01_never_refused` (lean/PfModel/Props/C01Total.lean) proves `Conforms fs inputs internal -> runMap succeeds`.
`cross_check(ctx, descs)` evaluates the same `Conforms` (driver `C01Total`, entry `conforms`) on mapgen-generated requests
and on single-fault mutants of them (drop an input, add a surplus input, change the rank of an input, resize one mapped
input, drop an internal shape), runs the REAL `Pipeline.map` on every one of them, and

* reports a C01 violation when a conforming request is refused by the real library;
* reports a broken tie when the driver says `conforms` but the model itself does not run (contradicts the theorem), or when
  a generated (unmutated) request does not conform (the theorem would be vacuous on the generator's cases);
* counts, as information, how `conforms` and real refusals coincide per mutation kind.

Not registered anywhere: call `cross_check` from harness/props/c01.py.
"""
from __future__ import annotations

import copy

import numpy as np

import pfimport  # noqa: F401
from pfimport import exc_enum

import mapgen

DRIVER = "C01Total"
MUTATIONS = ["drop-input", "surplus-input", "rank", "resize", "drop-internal", "scalar-for-array", "short-internal", "wrong-internal", "inconsistent-axes"]


def _mapped_names(desc):
    return {a[0] for f in desc["funcs"] if f["mapspec"] for a in f["mapspec"]["inputs"]}


def _array_inputs(desc, only_mapped=True):
    mapped = _mapped_names(desc)
    return [i for i, (n, v) in enumerate(desc["inputs"]) if isinstance(v, dict) and "arr" in v and (n in mapped or not only_mapped)]


def mutate(desc, kind, rng):
    """One single-fault mutant of `desc` (a deep copy), or None when the fault does not apply to this request."""
    d = copy.deepcopy(desc)
    if kind == "drop-input":
        if not d["inputs"]:
            return None
        d["inputs"].pop(rng.randrange(len(d["inputs"])))
        return d
    if kind == "surplus-input":
        d["inputs"].append(["zz_surplus", {"s": "surplus"}])
        return d
    if kind == "rank":
        cands = _array_inputs(d) or _array_inputs(d, only_mapped=False)
        if not cands:
            return None
        i = rng.choice(cands)
        name, v = d["inputs"][i]
        shape, elems = v["arr"]
        # the same elements under a shape of another rank
        new_shape = [len(elems)] if len(shape) > 1 else list(shape) + [1]
        d["inputs"][i] = [name, {"arr": [new_shape, elems]}]
        if len(new_shape) != 1:
            d["input_kinds"][name] = "array"
        return d
    if kind == "resize":
        # prefer an axis that is zipped with another array (same index name in one MapSpec); else any mapped root array
        roots = {n: i for i, (n, v) in enumerate(d["inputs"]) if isinstance(v, dict) and "arr" in v}
        zipped, anyaxis = [], []
        for f in d["funcs"]:
            ins = f["mapspec"]["inputs"] if f["mapspec"] else []
            for a in ins:
                for t, ax in enumerate(a[1]):
                    if a[0] in roots and t < len(d["inputs"][roots[a[0]]][1]["arr"][0]):
                        anyaxis.append((a[0], t))
                        if ax is not None and any(b[0] != a[0] and ax in b[1] for b in ins):
                            zipped.append((a[0], t))
        cands = zipped if zipped and rng.random() < 0.8 else anyaxis
        if not cands:
            return None
        name, t = rng.choice(cands)
        shape, elems = d["inputs"][roots[name]][1]["arr"]
        idx = np.arange(len(elems)).reshape(shape)
        idx = np.concatenate([idx, np.take(idx, [-1], axis=t)], axis=t)       # one more slab along axis t (never an empty array)
        d["inputs"][roots[name]] = [name, {"arr": [list(idx.shape), [elems[q] for q in idx.flat]]}]
        return d
    if kind == "drop-internal":
        spots = [("user", k) for k in range(len(d["internal"]))] + [("func", k) for k, f in enumerate(d["funcs"]) if f["internal"]]
        if not spots:
            return None
        where, k = rng.choice(spots)
        if where == "user":
            d["internal"].pop(k)
        else:
            d["funcs"][k]["internal"] = None
        return d
    if kind == "scalar-for-array":
        # a root argument that a MapSpec names is given as a non-array (an opaque Term): `rootArrays` fails
        cands = _array_inputs(d)
        if not cands:
            return None
        i = rng.choice(cands)
        name = d["inputs"][i][0]
        d["inputs"][i] = [name, {"f": "in", "k": [["n", {"s": name}]]}]
        d["input_kinds"].pop(name, None)
        return d
    if kind == "short-internal":
        # an internal shape that is declared but too short for the internal axes of the output (rank-2 internal -> rank-1)
        spots = [("user", k) for k, (_, s) in enumerate(d["internal"]) if len(s) > 1] + \
                [("func", k) for k, f in enumerate(d["funcs"]) if f["internal"] and len(f["internal"]) > 1]
        if not spots:
            return None
        where, k = rng.choice(spots)
        if where == "user":
            d["internal"][k][1] = d["internal"][k][1][:1]
        else:
            d["funcs"][k]["internal"] = d["funcs"][k]["internal"][:1]
        return d
    if kind == "wrong-internal":
        # the declared internal size is one larger than what the function returns: the REQUEST passes every check, the
        # DESCRIPTION is not realisable (a function that does not return what it declares) -- counted, never judged
        spots = [("user", k) for k in range(len(d["internal"]))] + [("func", k) for k, f in enumerate(d["funcs"]) if f["internal"]]
        if not spots:
            return None
        where, k = rng.choice(spots)
        if where == "user":
            d["internal"][k][1] = [d["internal"][k][1][0] + 1] + d["internal"][k][1][1:]
        else:
            d["funcs"][k]["internal"] = [d["funcs"][k]["internal"][0] + 1] + d["funcs"][k]["internal"][1:]
        return d
    if kind == "inconsistent-axes":
        # one more consumer that names the (single) axis of a mapped rank-1 root array differently: `validate_consistent_axes` refuses
        # the pipeline at the start of map by design; the model of run_map has no such check and answers; `Conforms` excludes it
        # (`consistentAxes`) -- counted, never judged, it documents why the clause is there
        cands = []
        for f in d["funcs"]:
            for a in (f["mapspec"]["inputs"] if f["mapspec"] else []):
                if len(a[1]) == 1 and a[1][0] is not None and any(a[0] == n for n, _ in d["inputs"]):
                    cands.append((a[0], a[1][0]))
        if not cands:
            return None
        name, ax = rng.choice(cands)
        other = next(q for q in mapgen.AX if q != ax)
        ms = {"inputs": [[name, [other]]], "outputs": [["zz_t", [other]]]}
        d["funcs"].append({"name": "fzz", "params": [[name, name]], "outputs": ["zz_t"], "mapspec": ms, "mapspec_str": mapgen.spec_str(ms),
                           "autogen": False, "ret": None, "internal": None, "defaults": [], "bound": []})
        return d
    raise ValueError(kind)


def run_real(desc):
    """Does the real `Pipeline.map` answer the request?  -> (ok, exception class or None, where)."""
    try:
        p, _log = mapgen.build(desc)
    except Exception as e:  # noqa: BLE001
        return False, exc_enum(e), "construct"
    try:
        mapgen.quiet(p.map, mapgen.py_inputs(desc), internal_shapes=mapgen.internal_shapes_arg(desc), parallel=False, storage="dict")
    except Exception as e:  # noqa: BLE001
        return False, exc_enum(e), "map"
    return True, None, None


def _overridden_mapped_default(desc):
    supplied = {n for n, _ in desc["inputs"]}
    for f in desc["funcs"]:
        mapped = {a[0] for a in (f["mapspec"]["inputs"] if f["mapspec"] else [])}
        if any(p in mapped and p in supplied for p, _ in f["defaults"]):
            return True
    return False


def _class_checks(ctx, case, kind, desc, r, real_ok):
    """Round 9 (Props/C01Class.lean): the syntactic class `InClass`, the residual `ReturnsDeclared`, and what the theorems say about
    them, on one driver answer `r` (+ whether the real library answered).  Returns True when a verdict was issued."""
    if "inClass" not in r:
        return False
    in_class, ret_decl, no_int = bool(r["inClass"]), bool(r["returnsDeclared"]), bool(r["noInternal"])
    request_ok, desc_ok, model_ok = bool(r["requestOK"]), bool(r["descOK"]), bool(r["ok"])
    if in_class:
        ctx.count(f"class:{kind}:in:{'plain' if no_int else 'internal-axes'}")
    else:
        ctx.count(f"class:{kind}:outside:{','.join(r['classFailed'])}")
    if desc_ok and not ret_decl:
        ctx.violation(case, "DescOK holds but ReturnsDeclared does not (contradicts C01_returns_declared_of_desc)", found_input=False,
                      item="theorem:C01_returns_declared_of_desc", impl=None, model=r)
        return True
    if in_class and request_ok:
        ctx.count(f"class:residual:{kind}:descOK={'yes' if desc_ok else 'no'}")
        if desc_ok != ret_decl:
            ctx.violation(case, "inside the class, on a request passing the request checks, DescOK differs from ReturnsDeclared "
                          "(contradicts C01_desc_residual)", found_input=False, item="theorem:C01_desc_residual", impl=None, model=r)
            return True
    if "retSyntactic" in r:
        ret_syn = bool(r["retSyntactic"])
        ctx.count(f"class:retSyntactic:{kind}={'yes' if ret_syn else 'no'}")
        if in_class and request_ok and ret_decl != ret_syn:
            ctx.violation(case, "inside the class, on a request passing the request checks, ReturnsDeclared differs from the table-free "
                          "RetSyntactic (contradicts C01_returns_declared_syntactic)", found_input=False,
                          item="theorem:C01_returns_declared_syntactic", impl=None, model=r)
            return True
        if in_class and ret_syn and model_ok != request_ok:
            ctx.violation(case, "class + RetSyntactic: the model does not answer exactly when RequestOK holds (contradicts C01_never_refused_syntactic)",
                          found_input=False, item="theorem:C01_never_refused_syntactic", impl=None, model=r)
            return True
        if kind in ("generated", "second-stream") and in_class and not ret_syn:
            ctx.violation(case, "a generated request is in the class but its functions do not return their declared internal shapes (RetSyntactic): "
                          "the exact-refusal theorem would not apply to it", found_input=False, item="correspondence:class-covers-generated",
                          impl=None, model=r)
            return True
    if in_class and no_int:
        # C01_never_refused_plain / C01_refused_iff_plain: answered <-> RequestOK, nothing evaluated on the description
        if model_ok != request_ok:
            ctx.violation(case, "plain pipeline of the class: the model answers iff RequestOK fails to hold (contradicts C01_never_refused_plain)",
                          found_input=False, item="theorem:C01_never_refused_plain", impl=None, model=r)
            return True
        ctx.count(f"class:plain-exact:{kind}:requestOK={'yes' if request_ok else 'no'}" +
                  ("" if real_ok is None else f":real={'answers' if real_ok else 'refuses'}"))
        if real_ok is not None and real_ok != request_ok and kind != "inconsistent-axes":
            if request_ok:
                # a clause of the property: the request is valid (Conforms follows, by the theorem) and the real library refuses it
                return False        # judged below as `valid request (Conforms) refused`
            ctx.violation(case, f"plain pipeline of the class: the real library answers a request that fails a request check ({r['failed']})",
                          found_input=False, item="correspondence:exact-refusal-plain", impl={"ok": True}, model=r)
            return True
    if "checkedOk" in r:
        # Model/MapChecked.lean: `Pipeline.map` = prepare_run (input + axes checks) + run_map
        checked = bool(r["checkedOk"])
        if checked != (model_ok and "consistentAxes" not in r["classFailed"]):
            ctx.violation(case, "mapChecked does not answer exactly when runMap answers and the axes are consistent (contradicts C01_checked_iff)",
                          found_input=False, item="theorem:C01_checked_iff", impl=None, model=r)
            return True
        others = [c for c in r["classFailed"] if c != "consistentAxes"]
        if real_ok is not None and not others and (ret_decl or not request_ok):
            # C01_checked_never_refused_class + C01_checked_refuses_inconsistent: inside the class (axes aside) with functions that return what
            # they declare, prepare_run + run_map answers iff the five request checks pass and every array has one axis naming
            ctx.count(f"class:checked:{kind}:model={'answers' if checked else 'refuses'}:real={'answers' if real_ok else 'refuses'}")
            if checked != (request_ok and "consistentAxes" not in r["classFailed"]):
                ctx.violation(case, "mapChecked is not RequestOK && consistentAxes inside the class (contradicts C01_checked_never_refused_class)",
                              found_input=False, item="theorem:C01_checked_never_refused_class", impl=None, model=r)
                return True
            if real_ok and not checked:
                ctx.violation(case, f"the real library answers a request that prepare_run + run_map refuse in the model (fails {r['failed']})",
                              found_input=False, item="correspondence:checked-refusal", impl={"ok": True}, model=r)
                return True
            # checked and not real_ok: the request conforms; judged by the caller as `valid request (Conforms) refused`
    if kind in ("generated", "second-stream") and not in_class:
        if r["classFailed"] == ["mappedDefaultsAgree"] and _overridden_mapped_default(desc):
            ctx.count("class:outside (overridden default of a mapped root has another shape)")
            return False
        ctx.violation(case, f"a generated request lies outside the class the theorems of Props/C01Class.lean cover (fails {r['classFailed']})",
                      found_input=False, item="correspondence:class-covers-generated", impl=None, model=r)
        return True
    return False


def class_coverage(ctx, descs):
    """Second-stream requests (templates, decorated mapgen cases): are they inside `InClass`, and do the theorem's consequences hold
    on them?  No real run here (the stream's own judge does that); one driver batch."""
    if not descs:
        return
    outs = ctx.lean([{"m": "conforms", "a": mapgen.model_request(d)} for d in descs], driver=DRIVER)
    for desc, resp in zip(descs, outs):
        r = resp["r"]
        if desc.get("output_names") is not None:
            # the inputs are restricted to what S needs: RequestOK of the WHOLE pipeline may fail; the class does not depend on it
            ctx.count(f"class:output_names:{'in' if r['inClass'] else 'outside:' + ','.join(r['classFailed'])}")
            if not r["inClass"] and not (r["classFailed"] == ["mappedDefaultsAgree"] and _overridden_mapped_default(desc)):
                ctx.violation({"desc": desc, "storage": "dict"}, f"a generated request lies outside the class (fails {r['classFailed']})",
                              found_input=False, item="correspondence:class-covers-generated", impl=None, model=r)
            continue
        _class_checks(ctx, {"desc": desc, "storage": "dict", "mutation": "second-stream"}, "second-stream", desc, r, None)


def _witness(name, spec, xshape, defaults=None, supplied=None):
    ms = {"inputs": [["x0", spec]], "outputs": [["y0", [a for a in dict.fromkeys(spec) if a]]]}
    n = 1
    for q in xshape:
        n *= q
    el = lambda tag, shape, cnt: {"arr": [list(shape), [{"f": tag, "k": [["n", {"s": "x0"}], ["at", {"arr": [[1], [q]]}]]} for q in range(cnt)]]}  # noqa: E731
    return {"funcs": [{"name": name, "params": [["x0", "x0"]], "outputs": ["y0"], "mapspec": ms, "mapspec_str": mapgen.spec_str(ms), "autogen": False,
                       "ret": None, "internal": None, "defaults": defaults or [], "bound": []}],
            "inputs": [["x0", el("in", xshape, n)]], "input_kinds": {"x0": "array"}, "internal": [], "sizes": {"i": 2, "j": 1, "k": 1}}


def class_witnesses(ctx):
    """The decide-witnesses at the boundary of the class (Props/C01Class.lean, `Boundary of the class (1)`) replayed on the real code:
    `x[i, i] -> y[i]` on a 2x3 array (answered with the diagonal by model and code, RequestOK, not DescOK, outside the class) and on a
    3x2 array (RequestOK, refused at run time by both).  Accept/refuse and the flags are compared; a difference is a broken tie."""
    ws = [("diag23", _witness("fdiag", ["i", "i"], [2, 3]), True), ("diag32", _witness("fdiag", ["i", "i"], [3, 2]), False),
          ("diag22", _witness("fdiag", ["i", "i"], [2, 2]), True)]
    outs = ctx.lean([{"m": "conforms", "a": mapgen.model_request(d)} for _, d, _ in ws], driver=DRIVER)
    for (tag, desc, expect_ok), resp in zip(ws, outs):
        r = resp["r"]
        ok, err, where = run_real(desc)
        ctx.count(f"class:witness:{tag}:model={'answers' if r['ok'] else 'refuses'}:real={'answers' if ok else 'refuses'}")
        case = {"desc": desc, "storage": "dict", "mutation": "witness:" + tag}
        if r["inClass"] or not r["requestOK"] or r["classFailed"] != ["funcStatic"] or bool(r["ok"]) != expect_ok:
            ctx.violation(case, f"class-boundary witness {tag}: the driver no longer gives the flags the decide-example states", found_input=False,
                          item="theorem:C01Class-boundary-witness", impl=None, model=r)
        elif ok != bool(r["ok"]):
            ctx.violation(case, f"class-boundary witness {tag}: model {'answers' if r['ok'] else 'refuses'}, real library "
                          f"{'answers' if ok else 'refuses (' + str(err) + ' at ' + str(where) + ')'}", found_input=False,
                          item="correspondence:class-boundary", impl={"ok": ok, "err": err}, model=r)


def cross_check(ctx, descs, mutations=MUTATIONS, mutants_per_case=None):
    """`descs`: mapgen descriptions (generated, i.e. valid by construction).  One driver batch, one real run per request."""
    rng = ctx.rng
    cases = []
    for desc in descs:
        cases.append(("generated", desc))
        kinds = list(mutations)
        if mutants_per_case is not None:
            rng.shuffle(kinds)
            kinds = kinds[:mutants_per_case]
        for kind in kinds:
            m = mutate(desc, kind, rng)
            if m is None:
                ctx.count(f"total:{kind}:not-applicable")
                continue
            cases.append((kind, m))
    if not cases:
        return
    outs = ctx.lean([{"m": "conforms", "a": mapgen.model_request(d)} for _, d in cases], driver=DRIVER)
    for (kind, desc), resp in zip(cases, outs):
        r = resp["r"]
        conforms, model_ok = bool(r["conforms"]), bool(r["ok"])
        request_ok, desc_ok = bool(r.get("requestOK", conforms)), bool(r.get("descOK", conforms))
        ok, err, where = run_real(desc)
        case = {"desc": desc, "storage": "dict", "mutation": kind}
        ctx.count(f"total:{kind}:conforms={'yes' if conforms else 'no'}:real={'answered' if ok else 'refused'}")
        if not conforms:
            for c in r["failed"]:
                ctx.count(f"total:{kind}:fails:{c}")
            if model_ok != ok:
                ctx.count(f"total:{kind}:not-conforming:model-{'answers' if model_ok else 'refuses'}-real-{'answers' if ok else 'refuses'}")
        ctx.count(f"exact:{kind}:requestOK={'yes' if request_ok else 'no'}:descOK={'yes' if desc_ok else 'no'}:"
                  f"model={'answers' if model_ok else 'refuses'}:real={'answers' if ok else 'refuses'}")
        if _class_checks(ctx, case, kind, desc, r, ok):
            continue
        if conforms != (request_ok and desc_ok):
            ctx.violation(case, "Conforms is not RequestOK && DescOK (contradicts C01_conforms_split)", found_input=False,
                          item="theorem:C01_conforms_split", impl=None, model=r)
            continue
        if model_ok and not request_ok:
            ctx.violation(case, "the model of map answers a request that fails a request check (contradicts C01_answered_request_ok)",
                          found_input=False, item="theorem:C01_answered_request_ok", impl=None, model=r)
            continue
        if ok and not request_ok:
            # exact refusal (C01_refused_iff): a request that fails one of the five request checks is refused by the model; the real
            # library answering it is a model/code disagreement on WHEN map refuses (not a C01 clause: C01 only forbids refusing valid ones)
            ctx.violation(case, f"the real library answers a request that fails a request check ({r['failed']}); the model refuses it",
                          found_input=False, item="correspondence:exact-refusal", impl={"ok": True}, model=r)
            continue
        if conforms and not model_ok:
            ctx.violation(case, "Conforms holds but the model of map refuses the request (contradicts C01_never_refused)",
                          found_input=False, item="theorem:C01_never_refused", impl=None, model=r)
            continue
        if kind == "generated" and not conforms and r["failed"] == ["defaultsTyped"] and _overridden_mapped_default(desc):
            # `Conforms` is sufficient, not necessary: it asks every DEFAULT of a mapped name to have the recorded shape, also when the
            # inputs supply that name (the default is then never used).  Such requests are compared with the model as usual.
            ctx.count("conforms:outside (overridden default of a mapped root has another shape)")
            continue
        if kind == "generated" and not conforms:
            ctx.violation(case, f"a request that is valid by construction does not satisfy Conforms (fails {r['failed']})",
                          found_input=False, item="correspondence:conforms-on-generated", impl={"ok": ok, "err": err}, model=r)
            continue
        if conforms and not ok:
            ctx.violation(case, f"valid request (Conforms) refused at {where} with {err}", impl={"err": err, "at": where}, model=r)
