import PfModel.Lemmas.XLabelRank
import PfModel.Lemmas.MapPiecesFlowTbl
import PfModel.Lemmas.MapConsistent
/-!
C19 (proof round): the well-formedness `RankWF` that the rank theorems need is part of C01's notion of a valid map request
(`PF.C01.Conforms`: the `constructible` conjunct, and `singleTyped` for functions declared `... -> v[j]`), and C19's `Consistent` is
the predicate that C01's model of `validate_consistent_axes` decides.  Core Lean only.
-/
namespace PF.XLabel
open PF PF.Map PF.RIC PF.C01

theorem goTot_len (ms : MSpec) (S : List (String × List Nat)) (ish : List Nat) :
    ∀ (axes : List String) (k : Nat), (goTot ms S ish axes k).1.length = axes.length := by
  intro axes
  induction axes with
  | nil => intro k; rfl
  | cons ix rest ih =>
    intro k
    simp only [goTot]
    split <;> simp [ih]

theorem all_isSome_named : ∀ l : List (Option String), l.all Option.isSome = true → l = (l.filterMap id).map some
  | [], _ => rfl
  | none :: _, h => by simp at h
  | some n :: r, h => by
    simp only [List.all_cons, Option.isSome_some, Bool.true_and] at h
    have := all_isSome_named r h
    simp only [List.filterMap_cons, id, List.map_cons]
    rw [← this]

/-- C19's `Consistent` is what `axesAgree` decides, pair by pair -/
theorem consistent_iff_agree (specs : List ASpec) :
    Consistent specs ↔ ∀ a ∈ specs, ∀ b ∈ specs, a.name = b.name → axesAgree a.axes b.axes = true := by
  unfold Consistent
  constructor
  · intro h a ha b hb hn
    rw [PF.MapAxes.axesAgree_iff]
    exact h a ha b hb hn
  · intro h a ha b hb hn
    have := h a ha b hb hn
    rw [PF.MapAxes.axesAgree_iff] at this
    exact this

theorem mem_pipelineMapspecs (fs : List MFunc) (ms : MSpec) (h : ms ∈ pipelineMapspecs fs) : ∃ f ∈ fs, f.mapspec = some ms := by
  obtain ⟨f, hf, hm⟩ := List.mem_filterMap.mp h
  exact ⟨f, generations_mem fs f hf, hm⟩

theorem allSpecs_pipeline_sub (fs : List MFunc) (a : ASpec) (h : a ∈ allSpecs (pipelineMapspecs fs)) : a ∈ PF.C01.allSpecs fs := by
  unfold allSpecs at h
  obtain ⟨ms, hms, ha⟩ := List.mem_flatMap.mp h
  obtain ⟨f, hf, hm⟩ := mem_pipelineMapspecs fs ms hms
  unfold PF.C01.allSpecs
  exact List.mem_flatMap.mpr ⟨f, hf, by rw [hm]; exact ha⟩

/-- **A valid map request (C01's `Conforms`) is rank-well-formed.** -/
theorem rankWF_of_conforms (fs : List MFunc) (inputs : List (String × Val)) (ui : List (String × List Nat))
    (h : Conforms fs inputs ui = true) : RankWF fs := by
  unfold Conforms at h
  simp only [Bool.and_eq_true] at h
  obtain ⟨⟨⟨⟨⟨⟨⟨⟨⟨_, _⟩, hac⟩, _⟩, _⟩, _⟩, _⟩, _⟩, hft⟩, hcon⟩ := h
  unfold constructible at hcon
  simp only [Bool.and_eq_true] at hcon
  obtain ⟨⟨hnd, hca⟩, hall⟩ := hcon
  have hall' := List.all_eq_true.mp hall
  have hft' := List.all_eq_true.mp hft
  have hper : ∀ f ∈ fs, ∀ ms, f.mapspec = some ms →
      f.outputs.isEmpty = false ∧ ms.outputs.map (·.name) = f.outputs ∧
      ∀ a ∈ ms.outputs, a.axes.all Option.isSome = true ∧ a.axes = (ms.outputs.headD default).axes := by
    intro f hf ms hm
    have := hall' f hf
    simp only [hm, Bool.and_eq_true, Bool.not_eq_true', beq_iff_eq] at this
    obtain ⟨h0, ⟨⟨h1, h2⟩, _⟩, _⟩ := this
    refine ⟨h0, h1, ?_⟩
    intro a ha
    have := List.all_eq_true.mp h2 a ha
    simp only [Bool.and_eq_true, beq_iff_eq] at this
    exact this
  refine ⟨PF.Pieces.nodupB_nodup _ hnd, fun f hf ms hm => (hper f hf ms hm).2.1, ?_, ?_, ?_⟩
  · intro f hf ms hm a ha
    obtain ⟨hs, he⟩ := (hper f hf ms hm).2.2 a ha
    exact ⟨a.axes.filterMap id, all_isSome_named a.axes hs, he.symm⟩
  · rw [consistent_iff_agree]
    intro a ha b hb hn
    exact (PF.MapAxes.consistentAxes_iff fs).mp hca a (allSpecs_pipeline_sub fs a ha) b (allSpecs_pipeline_sub fs b hb) hn
  · intro f hf ms hm hin
    obtain ⟨t', ht'⟩ := PF.Pieces.declTbl_lookup fs inputs ui hac hnd f hf
    have hne := (hper f hf ms hm).1
    cases ho : f.outputs with
    | nil => rw [ho] at hne; simp at hne
    | cons o rest =>
      have hoin : o ∈ f.outputs := by rw [ho]; exact List.mem_cons_self ..
      have hl := ht' o hoin
      rw [hm] at hl
      simp only [Option.map_some] at hl
      have hty := hft' f hf
      have hrm : runsMapped f = none := by simp [runsMapped, hm, hin]
      simp only [funcTyped, hrm, singleTyped] at hty
      have := List.all_eq_true.mp hty o hoin
      rw [hl] at this
      simp only [decide_eq_true_eq] at this
      exact ⟨_, this, by unfold funcShape; exact goTot_len _ _ _ _ _⟩

end PF.XLabel
