"""C06: the static hypotheses of the pipeline-level data-flow theorem (`C06_pieces_flow`, lean/PfModel/Props/C06Flow.lean) are
evaluated by the driver (`flow.wf`) for every `fixed_indices` dictionary of every generated sequence of parts: whenever the model's
`_validate_fixed_indices` accepts the request, `flowWF` must hold and the output names of the full run's store must be unique —
otherwise the theorem does not speak about that case (a gap of the model, reported as a correspondence item).
Round 3: for requests on a pipeline that satisfies C01's `Conforms` the hypothesis is a theorem (`C06_flowWF_of_conforms`,
lean/PfModel/Props/C06FlowWF.lean); the driver reports `conforms` and the harness counts derived vs merely evaluated cases."""
from __future__ import annotations


def add_reqs(jobs):
    """one `flow.wf` request per (pipeline, sub-map): all distinct `fixed_indices` dictionaries of its sequences of parts; the
    request is appended to the first job of the group (whose first request is `pieces.run`)"""
    groups: dict = {}
    for job in jobs:
        if job.get("kind") not in ("pieces", "pieces2", "sub-pieces", "malformed", "sub-malformed", "internal-axis"):
            continue
        if not job.get("reqs") or job.get("resp_from") is not None or job["reqs"][0].get("m") != "pieces.run":
            continue                    # a run under another mode shares the answers of the sequential job
        key = (id(job["desc"]), repr(job.get("sub")))
        first, fixed = groups.setdefault(key, (job, []))
        for fx in job["reqs"][0]["a"]["parts"]:
            if fx is not None and fx not in fixed:
                fixed.append(fx)
    for first, fixed in groups.values():
        if fixed:
            a = first["reqs"][0]["a"]
            first["reqs"].append({"m": "flow.wf", "a": {**{k: v for k, v in a.items() if k != "parts"}, "fixed": fixed}})
            first["flow"] = fixed


def judge(ctx, job, case, resp):
    r = resp["r"]
    if "err" in r:
        ctx.count(f"flowWF:no full run ({r['err']})")
        return
    conf = r.get("conforms")
    ctx.count(f"flowWF-derivation:pipeline {'conforms (C01.Conforms): flowWF is a theorem for every accepted request' if conf else 'does NOT conform: flowWF only evaluated'}")
    for fx, wf, acc in zip(job["flow"], r["wf"], r["accepted"]):
        ctx.count(f"flowWF:{'holds' if wf else 'fails'},request {'accepted' if acc else 'refused'} by _validate_fixed_indices")
        if acc:
            ctx.count("flowWF-derivation:accepted request, " + ("derived (C06_flowWF_of_conforms)" if conf else "evaluated only"))
        if conf and acc and not wf:       # impossible by C06_flowWF_of_conforms: the driver would not be running the proved definitions
            ctx.violation({**case, "fixed": fx}, f"the request {fx} is accepted and the pipeline conforms, yet the driver evaluates flowWF to false "
                          "(contradicts C06_flowWF_of_conforms)", found_input=False, item="correspondence:flowWF-derived", key="flowWF-derived",
                          impl=None, model=r)
        if acc and not (wf and r["nodup"]):
            ctx.violation({**case, "fixed": fx}, f"the request {fx} passes _validate_fixed_indices but the static hypotheses of C06_pieces_flow "
                          f"fail (flowWF={wf}, unique output names={r['nodup']}): the data-flow theorem does not cover this case",
                          found_input=False, item="correspondence:flowWF", key="flowWF", impl=None, model=r)
