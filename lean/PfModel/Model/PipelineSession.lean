/-
Sessions on ONE pipeline object: calls interleaved with in-place edits through the public `update_*` methods of the pipeline
(`Pipeline.update_defaults` `pipefunc/_pipeline/_base.py:937-967`, `Pipeline.update_renames` `:969-1008`) and of its member
functions (`PipeFunc.update_defaults` `pipefunc/_pipefunc.py:352-370`, `update_renames` `:372-442`, `update_bound` `:515-533`).

Two machines over the same steps:
* `freshRun`  — the reference: every answer is the C02 model (`runTop`, `funcCall`, `callRoot`, …) applied to the *edited description*,
  i.e. the answer of a freshly built pipeline over the edited functions;
* `cachedRun` — the object as implemented: the pipeline keeps `functools.cached_property`s and `_internal_cache` tables that calls fill
  (`Pipeline.defaults` `:913-920` read by `_get_func_args` `:502-503`; `_internal_cache.root_args` `:882-891` which also stands for the
  cached `_PipelineAsFunc` wrapper of `Pipeline.func` `:441-447` holding those root args; `_internal_cache.arg_combinations` `:874-880`)
  and that every edit clears (`PipeFunc._clear_internal_cache` `_pipefunc.py:535-538` → `Pipeline._clear_internal_cache` `_base.py:453-454`).
`Props/C02Session.lean` proves that the two agree on every history, and that they do not when an edit forgets the invalidation.
Core Lean only.
-/
import PfModel.Model.PipelineEntries
namespace PF.Pipe
open PF

/-! ### the evaluation with the defaults table as a parameter (what `_get_func_args` reads is `self.defaults`, a cached value) -/

/-- `_get_func_args` with `self.defaults` given as a lookup `d` -/
def resolveD (d : String → Option Val) (fs : List Func) (kw : List (String × Val)) (f : Func) (p : String) : Res :=
  match alookup f.bound p with
  | some v => .val v
  | none =>
    match alookup kw p with
    | some v => .val v
    | none =>
      match producer fs p with
      | some _ => .upstream
      | none =>
        match d p with
        | some v => .val v
        | none => .missing

def argsWithD (d : String → Option Val) (rec : String → St → Except Err (Val × St)) (fs : List Func) (kw : List (String × Val)) (f : Func) :
    List (String × String) → St → Except Err (List (String × Val) × St)
  | [], s => .ok ([], s)
  | (p, orig) :: ps, s =>
    match resolveD d fs kw f p with
    | .missing => .error (.missing p)
    | .val v =>
      match argsWithD d rec fs kw f ps { s with used := s.used ++ [p] } with
      | .error e => .error e
      | .ok (rest, s2) => .ok ((orig, v) :: rest, s2)
    | .upstream =>
      match rec p s with
      | .error e => .error e
      | .ok (v, s1) =>
        match argsWithD d rec fs kw f ps { s1 with used := s1.used ++ [p] } with
        | .error e => .error e
        | .ok (rest, s2) => .ok ((orig, v) :: rest, s2)

def runD (d : String → Option Val) (fs : List Func) (kw : List (String × Val)) : Nat → String → St → Except Err (Val × St)
  | 0, _, _ => .error .fuel
  | n+1, o, s =>
    match alookup s.memo o with
    | some v => .ok (v, s)
    | none =>
      match producer fs o with
      | none => .error (.noFunc o)
      | some f =>
        match argsWithD d (runD d fs kw n) fs kw f f.params s with
        | .error e => .error e
        | .ok (args, s') =>
          let s'' : St := { s' with memo := outVals f args ++ s'.memo, calls := s'.calls ++ [f.name] }
          match alookup (outVals f args) o with
          | some v => .ok (v, s'')
          | none => .error (.noFunc o)

def runTopD (d : String → Option Val) (fs : List Func) (kw : List (String × Val)) (req : Req) : Except Err Outcome :=
  let s0 : St := { memo := kw, calls := [], used := [] }
  let finish (v : Val) (s : St) : Except Err Outcome :=
    let unused := (akeys kw).filter (fun k => !(s.used.contains k))
    if unused.isEmpty then .ok { value := v, full := s.memo, calls := s.calls } else .error (.unused unused)
  match req with
  | .name o =>
    if (alookup kw o).isSome then .error .outputInKwargs else
    match runD d fs kw (fuelFor fs) o s0 with
    | .error e => .error e
    | .ok (v, s) => finish v s
  | .whole os =>
    match fs.find? (fun f => f.outputs = os) with
    | none => .error (.noFunc (",".intercalate os))
    | some f =>
      match argsWithD d (runD d fs kw (fuelFor fs)) fs kw f f.params s0 with
      | .error e => .error e
      | .ok (args, s) => finish (result f args) { s with calls := s.calls ++ [f.name] }

/-- the lookup a dict built by the comprehension of `Pipeline.defaults` offers: the last entry of a name is the live one -/
def tableOf (t : List (String × Val)) (p : String) : Option Val := alookup t.reverse p

/-! ### edits of the description -/

/-- `dict(old, **{k: v})`: the value replaced in place, or the key appended -/
def aset (l : List (String × Val)) (k : String) (v : Val) : List (String × Val) :=
  if (alookup l k).isSome then l.map (fun kv => if kv.1 = k then (k, v) else kv) else l ++ [(k, v)]

def Func.hasParam (f : Func) (p : String) : Bool := f.params.any (·.1 = p)

def renameIn (old new x : String) : String := if x = old then new else x

/-- `PipeFunc.update_renames({old: new})` (update_from="current"): the pipeline-level parameter or output name changes, the wrapped
    function's own name stays; `_defaults` and `_bound` are re-keyed (`_pipefunc.py:415-435`) -/
def Func.rename (f : Func) (old new : String) : Func :=
  { f with params := f.params.map (fun po => (renameIn old new po.1, po.2)),
           outputs := f.outputs.map (renameIn old new),
           defaults := f.defaults.map (fun kv => (renameIn old new kv.1, kv.2)),
           bound := f.bound.map (fun kv => (renameIn old new kv.1, kv.2)) }

inductive Edit
  | memberDefaults (fn p : String) (v : Val)      -- `pipeline[..].update_defaults({p: v})` on the member named `fn`
  | memberBound (fn p : String) (v : Val)         -- `….update_bound({p: v})`
  | memberRename (fn old new : String)            -- `….update_renames({old: new})`
  | pipeDefaults (p : String) (v : Val)           -- `pipeline.update_defaults({p: v})`
  | pipeRename (old new : String)                 -- `pipeline.update_renames({old: new})`
  deriving Repr

/-- why an edit leaves the description unchanged: the key names nothing (`ValueError` of `_validate_update` / "Unused keyword
    arguments", raised before anything is assigned); no such member (a harness error); or the edit is outside the modelled class
    (the real method assigns first and raises afterwards: a default for a bound parameter, a rename onto a sibling name) -/
inductive EditErr | unknownKey | noMember | outside
  deriving Repr, DecidableEq

def mapMember (fs : List Func) (fn : String) (g : Func → Func) : List Func := fs.map fun f => if f.name = fn then g f else f

def Func.names (f : Func) : List String := f.params.map (·.1) ++ f.outputs

def applyEdit (fs : List Func) : Edit → Except EditErr (List Func)
  | .memberDefaults fn p v =>
    match fs.find? (·.name = fn) with
    | none => .error .noMember
    | some f =>
      if !f.hasParam p then .error .unknownKey
      else if (alookup f.bound p).isSome then .error .outside
      else .ok (mapMember fs fn fun f => { f with defaults := aset f.defaults p v })
  | .memberBound fn p v =>
    match fs.find? (·.name = fn) with
    | none => .error .noMember
    | some f =>
      if !f.hasParam p then .error .unknownKey
      else .ok (mapMember fs fn fun f => { f with bound := aset f.bound p v })
  | .memberRename fn old new =>
    match fs.find? (·.name = fn) with
    | none => .error .noMember
    | some f =>
      if !f.names.contains old then .error .unknownKey
      else if new ≠ old && f.names.contains new then .error .outside
      else .ok (mapMember fs fn fun f => f.rename old new)
  | .pipeDefaults p v =>
    -- every function that takes `p` and has not bound it (`_base.py:957-961`)
    if fs.any (fun f => f.hasParam p && (alookup f.bound p).isNone) then
      .ok (fs.map fun f => if f.hasParam p && (alookup f.bound p).isNone then { f with defaults := aset f.defaults p v } else f)
    else .error .unknownKey
  | .pipeRename old new =>
    if !(fs.any fun f => f.names.contains old) then .error .unknownKey
    else if fs.any (fun f => f.names.contains old && new ≠ old && f.names.contains new) then .error .outside
    else .ok (fs.map fun f => if f.names.contains old then f.rename old new else f)

/-- the edited description: unchanged when the edit is refused -/
def editFs (fs : List Func) (e : Edit) : List Func := match applyEdit fs e with | .ok fs' => fs' | .error _ => fs

def editErr (fs : List Func) (e : Edit) : Option EditErr := match applyEdit fs e with | .ok _ => none | .error x => some x

/-- the class of descriptions a session must stay in for its calls to be C02's subject (everything else is refused by the
    validation inside `Pipeline.graph`, C12's subject): output names unique, no function takes its own output, shared root
    arguments carry one default (`validate_consistent_defaults`, compared structurally by the driver) -/
def namesOk (fs : List Func) : Bool :=
  let outs := fs.flatMap (·.outputs)
  outs.eraseDups.length = outs.length && fs.all fun f => f.outputs.all fun o => !f.hasParam o

/-! ### queries and answers -/

deriving instance DecidableEq for Req

inductive Query
  | run (kw : List (String × Val)) (req : Req)                       -- `pipeline(o, **kw)`, `run`, `run(full_output=True)`
  | func (kw : List (String × Val)) (req : Req)                      -- `pipeline.func(o)(**kw)`, `.call_full_output`, `.call_with_dict`
  | callRoot (req : Req) (pos : List Val) (kw : List (String × Val)) -- `pipeline.func(o).call_with_root_args(*pos, **kw)`
  | callLeaf (kw : List (String × Val))                              -- `pipeline(**kw)`
  | pfCall (req : Req) (kw : List (String × Val))                    -- `pipeline[o](**kw)`
  | argCombos (o : String)                                           -- `arg_combinations(o)`, `root_args(o)`
  | defaults                                                         -- `pipeline.defaults`
  deriving Repr

inductive Answer
  | outcome (r : Except EErr Outcome)
  | value (r : Option (Except EErr Val))                             -- `none`: `KeyError` of `pipeline[o]`
  | combos (c : Option (List (List String))) (r : Option (List String))
  | table (d : List (String × Val))                                  -- the dict `Pipeline.defaults` as an association list, last entry live
  | edited (r : Option EditErr)
  deriving Repr

/-- the answer of a freshly built pipeline over `fs` -/
def freshAnswer (fs : List Func) : Query → Answer
  | .run kw req => .outcome (liftE (runTop fs kw req))
  | .func kw req => .outcome (liftE (funcCall fs kw req))
  | .callRoot req pos kw => .outcome (callRoot fs req pos kw)
  | .callLeaf kw => .outcome (callLeaf fs kw)
  | .pfCall req kw => .value ((getItem fs req).map fun f => pfCall f kw)
  | .argCombos o => .combos (argCombinations fs o) (rootArgs fs o)
  | .defaults => .table (pdefaults fs)

inductive Step
  | edit (e : Edit)
  /-- `fill`: whether this call consulted `Pipeline.defaults` (and so filled the cached property); left open — the real call reads it
      only when a parameter falls through to the default branch, or for a cache key -/
  | query (fill : Bool) (q : Query)
  deriving Repr

def freshStep (fs : List Func) : Step → Answer × List Func
  | .edit e => (.edited (editErr fs e), editFs fs e)
  | .query _ q => (freshAnswer fs q, fs)

def freshRun (fs : List Func) : List Step → List Answer
  | [] => []
  | st :: rest => (freshStep fs st).1 :: freshRun (freshStep fs st).2 rest

/-! ### the pipeline object with its caches -/

structure PState where
  fs : List Func
  dflt : Option (List (String × Val))             -- the cached property `Pipeline.defaults`
  roots : List (Req × List String)                -- `_internal_cache.root_args` (and the `_PipelineAsFunc` wrappers holding them)
  combos : List (String × List (List String))     -- `_internal_cache.arg_combinations`
  deriving Repr

def PState.init (fs : List Func) : PState := { fs := fs, dflt := none, roots := [], combos := [] }

/-- reading the cached property -/
def PState.table (s : PState) : List (String × Val) := s.dflt.getD (pdefaults s.fs)

def PState.touch (s : PState) (fill : Bool) : PState := if fill then { s with dflt := some s.table } else s

def lookupReq (l : List (Req × List String)) (q : Req) : Option (List String) :=
  match l with
  | [] => none
  | (k, r) :: rest => if k = q then some r else lookupReq rest q

/-- `root_args(output_name)` through `_internal_cache.root_args` -/
def PState.rootsOf (s : PState) (q : Req) : Option (List String) × PState :=
  match lookupReq s.roots q with
  | some r => (some r, s)
  | none =>
    match reqRootArgs s.fs q with
    | none => (none, s)
    | some r => (some r, { s with roots := (q, r) :: s.roots })

def lookupCombos (l : List (String × List (List String))) (o : String) : Option (List (List String)) :=
  match l with
  | [] => none
  | (k, r) :: rest => if k = o then some r else lookupCombos rest o

def PState.combosOf (s : PState) (o : String) : Option (List (List String)) × PState :=
  match lookupCombos s.combos o with
  | some c => (some c, s)
  | none =>
    match argCombinations s.fs o with
    | none => (none, s)
    | some c => (some c, { s with combos := (o, c) :: s.combos })

/-- one query on the object: what it answers from its caches, and the caches afterwards -/
def cachedAnswer (s : PState) (fill : Bool) : Query → Answer × PState
  | .run kw req => (.outcome (liftE (runTopD (tableOf s.table) s.fs kw req)), s.touch fill)
  | .func kw req =>
    match s.rootsOf req with
    | (none, s1) => (.outcome (.error (.pipe (.noFunc req.label))), s1)
    | (some _, s1) => (.outcome (liftE (runTopD (tableOf s1.table) s1.fs kw req)), s1.touch fill)
  | .callRoot req pos kw =>
    match s.rootsOf req with
    | (none, s1) => (.outcome (.error (.pipe (.noFunc req.label))), s1)
    | (some roots, s1) =>
      match bindRoot roots pos kw with
      | .error e => (.outcome (.error e), s1)
      | .ok kw' => (.outcome (liftE (runTopD (tableOf s1.table) s1.fs kw' req)), s1.touch fill)
  | .callLeaf kw =>
    match leafFuncs s.fs with
    | [f] => (.outcome (liftE (runTopD (tableOf s.table) s.fs kw (reqOf f))), s.touch fill)
    | l => (.outcome (.error (.leaves l.length)), s)
  | .pfCall req kw => (.value ((getItem s.fs req).map fun f => pfCall f kw), s)
  | .argCombos o =>
    match s.combosOf o with
    | (c, s1) =>
      -- `root_args` reads its own table first, else picks the root-only combination of (cached) `arg_combinations`
      match lookupReq s1.roots (.name o) with
      | some r => (.combos c (some r), s1)
      | none =>
        match c with
        | none => (.combos none none, s1)
        | some cs =>
          match cs.find? (fun c => c.all fun n => (producer s1.fs n).isNone) with
          | none => (.combos c none, s1)
          | some r => (.combos c (some r), { s1 with roots := (.name o, r) :: s1.roots })
  | .defaults => (.table s.table, s.touch true)

/-- which tables an edit clears: all of them (`_clear_internal_cache`); the parameter exists to state what goes wrong otherwise -/
structure Invalidation where
  memberDefaults : Bool := true
  memberBound : Bool := true
  memberRename : Bool := true
  pipeDefaults : Bool := true
  pipeRename : Bool := true

def Invalidation.clears (i : Invalidation) : Edit → Bool
  | .memberDefaults .. => i.memberDefaults
  | .memberBound .. => i.memberBound
  | .memberRename .. => i.memberRename
  | .pipeDefaults .. => i.pipeDefaults
  | .pipeRename .. => i.pipeRename

def cachedStepI (i : Invalidation) (s : PState) : Step → Answer × PState
  | .edit e =>
    (.edited (editErr s.fs e),
      if i.clears e then PState.init (editFs s.fs e) else { s with fs := editFs s.fs e })
  | .query fill q => cachedAnswer s fill q

def cachedRunI (i : Invalidation) (s : PState) : List Step → List Answer
  | [] => []
  | st :: rest => (cachedStepI i s st).1 :: cachedRunI i (cachedStepI i s st).2 rest

/-- the object as implemented: every edit clears every table -/
def cachedStep := cachedStepI {}
def cachedRun := cachedRunI {}

/-- accepted / refused: the decidable shadow of an answer (values are terms without decidable equality) -/
def Answer.accepted : Answer → Bool
  | .outcome (.ok _) => true
  | .outcome (.error _) => false
  | .value (some (.ok _)) => true
  | .value _ => false
  | .combos c _ => c.isSome
  | .table _ => true
  | .edited r => r.isNone

end PF.Pipe
