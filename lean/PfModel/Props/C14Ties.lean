import PfModel.Lemmas.CachePolicy
import PfModel.Model.CachePolicyTies
/-!
C14 (d), HybridCache: ties.  What `floatAmbiguous` and `minKeys` (Model/CachePolicyTies.lean — the two definitions through which
the harness decides "skip this eviction" and "the implementation evicted another minimal entry") mean.
-/
namespace PF.C14
open PF.Cache

/-- When the driver does NOT flag a full cache as ambiguous, every entry other than the victim either has a STRICTLY greater
    exact score or is scored from the same (count, duration) numbers as the victim (bit-identical float scores; the victim is
    the first of them): the eviction is decided, whatever the rounding of well-separated scores. -/
theorem C14_hybrid_unambiguous_strict (s : Hyb) (e : Key) (m : Nat) (h : argmin (Hyb.scores s) = some (e, m))
    (hfull : s.max ≤ s.dict.length) (hna : s.floatAmbiguous = false) :
    ∀ p ∈ Hyb.scores s, p.1 ≠ e → m < p.2 ∨ Hyb.samePair s p.1 e = true := by
  intro p hp hne
  have hle := (argmin_spec _ _ _ h).1 p hp
  simp only [Hyb.floatAmbiguous, h, hfull, decide_true, Bool.true_and, List.any_eq_false] at hna
  have := hna p hp
  by_cases hlt : m < p.2
  · exact Or.inl hlt
  · right
    have heq : p.2 = m := by omega
    simp [hne, heq] at this
    exact this

/-- … and conversely a flagged cache really holds such a pair -/
theorem C14_hybrid_ambiguous_iff (s : Hyb) (e : Key) (m : Nat) (h : argmin (Hyb.scores s) = some (e, m)) :
    s.floatAmbiguous = true ↔ s.max ≤ s.dict.length ∧ ∃ p ∈ Hyb.scores s, p.1 ≠ e ∧ p.2 = m ∧ Hyb.samePair s p.1 e = false := by
  simp only [Hyb.floatAmbiguous, h, Bool.and_eq_true, decide_eq_true_eq, List.any_eq_true]
  constructor
  · rintro ⟨hf, p, hp, hc⟩
    refine ⟨hf, p, hp, ?_⟩
    simp at hc
    exact ⟨hc.1.1, hc.1.2, hc.2⟩
  · rintro ⟨hf, p, hp, h1, h2, h3⟩
    refine ⟨hf, p, hp, ?_⟩
    simp [h1, h2, h3]

/-- `minKeys` lists exactly the entries with the minimal exact score, and its first element is the model's victim (`min` over a
    dict returns the first minimal key): an implementation that evicts another member of `minKeys` still evicts "the entry with
    the lowest score" and differs only in the tie rule (reported as `correspondence:hybrid-tie-order`). -/
theorem C14_hybrid_minKeys_spec (s : Hyb) (e : Key) (m : Nat) (h : argmin (Hyb.scores s) = some (e, m)) :
    (∀ k, k ∈ s.minKeys ↔ (k, m) ∈ Hyb.scores s) ∧ s.minKeys.head? = some e := by
  obtain ⟨_, pre, post, hl, hpre⟩ := argmin_spec _ _ _ h
  constructor
  · intro k
    simp only [Hyb.minKeys, h, List.mem_map, List.mem_filter]
    constructor
    · rintro ⟨p, ⟨hp, hm⟩, rfl⟩
      have : p.2 = m := by simpa using hm
      obtain ⟨a, b⟩ := p
      simp only at this
      subst this
      exact hp
    · intro hk
      exact ⟨(k, m), ⟨hk, by simp⟩, rfl⟩
  · simp only [Hyb.minKeys, h]
    have : pre.filter (fun p => p.2 == m) = [] := by
      rw [List.filter_eq_nil_iff]
      intro p hp
      have := hpre p hp
      simp only [beq_iff_eq]
      omega
    rw [hl, List.filter_append, this]
    simp [List.filter_cons]

/-! ### non-vacuity -/
/-- counts 2 and 1, durations 1 and 2, equal weights: both exact scores are 1/3·1/2 + … = equal, from different pairs -/
example : (⟨2, 1, 1, [(0, 1), (1, 2)], [(0, 2), (1, 1)], [(0, 1), (1, 2)]⟩ : Hyb).floatAmbiguous = true ∧
    (⟨2, 1, 1, [(0, 1), (1, 2)], [(0, 2), (1, 1)], [(0, 1), (1, 2)]⟩ : Hyb).minKeys = [0, 1] := by decide
/-- the same pair twice: a tie that floats break like the model -/
example : (⟨2, 1, 1, [(0, 1), (1, 2)], [(0, 1), (1, 1)], [(0, 3), (1, 3)]⟩ : Hyb).floatAmbiguous = false ∧
    (⟨2, 1, 1, [(0, 1), (1, 2)], [(0, 1), (1, 1)], [(0, 3), (1, 3)]⟩ : Hyb).minKeys = [0, 1] ∧
    argmin (Hyb.scores ⟨2, 1, 1, [(0, 1), (1, 2)], [(0, 1), (1, 1)], [(0, 3), (1, 3)]⟩) = some (0, 12) := by decide

end PF.C14
