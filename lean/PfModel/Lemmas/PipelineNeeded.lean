import PfModel.Lemmas.PipelineLog
/-!
Which functions a call evaluates, and which parameters it marks as used (helper lemmas for `Props/C02Needed.lean`).

`Reach fs kw o f` is the least relation with: the producer of `o` is reachable; the producer of a parameter that a
reachable function takes from upstream (not bound, not supplied, produced) is reachable.  `NeededF`/`Needed` add the
condition that `o` itself is not supplied.
-/
namespace PF.Pipe
open PF

variable (fs : List Func) (kw : List (String × Val)) (rank : String → Nat)

/-- backwards reachability from the output `o` through parameters that resolve as `.upstream` -/
inductive Reach : String → Func → Prop
  | root {o f} : producer fs o = some f → Reach o f
  | step {o f g q orig} : Reach o f → (q, orig) ∈ f.params → IsUp (resolve fs kw f q) → producer fs q = some g → Reach o g

/-- the function `f` is needed for `o`: `o` is not supplied and `f` is reachable from it -/
def NeededF (o : String) (f : Func) : Prop := alookup kw o = none ∧ Reach fs kw o f

/-- the function *named* `nm` is needed for `o` -/
def Needed (o nm : String) : Prop := ∃ f, NeededF fs kw o f ∧ f.name = nm

/-- `NeededF` is the *least* set closed under the two rules -/
theorem neededF_least (o : String) (S : Func → Prop)
    (h0 : alookup kw o = none → ∀ f, producer fs o = some f → S f)
    (hs : ∀ f g q orig, S f → (q, orig) ∈ f.params → IsUp (resolve fs kw f q) → producer fs q = some g → S g) :
    ∀ f, NeededF fs kw o f → S f := by
  intro f ⟨hk, hr⟩
  induction hr with
  | root h => exact h0 hk _ h
  | step _ hp hu hg ih => exact hs _ _ _ _ ih hp hu hg

/-- … and it is closed under them -/
theorem neededF_root {o f} (hk : alookup kw o = none) (h : producer fs o = some f) : NeededF fs kw o f :=
  ⟨hk, .root h⟩

theorem neededF_step {o f g q orig} (h : NeededF fs kw o f) (hp : (q, orig) ∈ f.params)
    (hu : IsUp (resolve fs kw f q)) (hg : producer fs q = some g) : NeededF fs kw o g :=
  ⟨h.1, .step h.2 hp hu hg⟩

theorem producer_mem {o f} (h : producer fs o = some f) : f ∈ fs := List.mem_of_find?_eq_some h

theorem producer_out {o f} (h : producer fs o = some f) : o ∈ f.outputs := by
  have := List.find?_some h; simpa using this

theorem Reach.mem {o f} (h : Reach fs kw o f) : f ∈ fs := by
  cases h with
  | root h => exact producer_mem fs h
  | step _ _ _ hg => exact producer_mem fs hg

theorem Reach.trans {o f q orig g} (h1 : Reach fs kw o f) (hp : (q, orig) ∈ f.params)
    (hu : IsUp (resolve fs kw f q)) (h2 : Reach fs kw q g) : Reach fs kw o g := by
  induction h2 with
  | root h => exact .step h1 hp hu h
  | step _ hp' hu' hg ih => exact .step ih hp' hu' hg

/-! ### every call made is reachable from the requested output -/

def RecReach (r : String → St → Except Err (Val × St)) : Prop :=
  ∀ o s v s', r o s = .ok (v, s') →
    ∃ add, s'.calls = s.calls ++ add ∧ ∀ nm ∈ add, ∃ f, Reach fs kw o f ∧ f.name = nm

theorem argsWith_reach (r : String → St → Except Err (Val × St)) (hr : RecReach fs kw r) (f : Func) :
    ∀ ps s a s', (∀ p ∈ ps, p ∈ f.params) → argsWith r fs kw f ps s = .ok (a, s') →
      ∃ add, s'.calls = s.calls ++ add ∧
        ∀ nm ∈ add, ∃ q orig g, (q, orig) ∈ f.params ∧ IsUp (resolve fs kw f q) ∧ Reach fs kw q g ∧ g.name = nm := by
  intro ps
  induction ps with
  | nil =>
    intro s a s' _ h
    simp [argsWith] at h; obtain ⟨_, rfl⟩ := h
    exact ⟨[], by simp, by simp⟩
  | cons p ps ih =>
    obtain ⟨p, orig⟩ := p
    intro s a s' hps h
    have hps' : ∀ q ∈ ps, q ∈ f.params := fun q hq => hps q (List.mem_cons_of_mem _ hq)
    simp only [argsWith] at h
    split at h
    · simp at h
    · next v hv =>
      split at h
      · simp at h
      · next rest s2 hrest =>
        simp at h; obtain ⟨_, rfl⟩ := h
        obtain ⟨a2, e2, b2⟩ := ih _ rest s2 hps' hrest
        exact ⟨a2, e2, b2⟩
    · next hup =>
      have hupP : IsUp (resolve fs kw f p) := by rw [hup]; trivial
      split at h
      · simp at h
      · next v s1 hrun =>
        split at h
        · simp at h
        · next rest s2 hrest =>
          simp at h; obtain ⟨_, rfl⟩ := h
          obtain ⟨a1, e1, b1⟩ := hr p s v s1 hrun
          obtain ⟨a2, e2, b2⟩ := ih _ rest s2 hps' hrest
          refine ⟨a1 ++ a2, by simp only [] at e2; rw [e2, e1, List.append_assoc], ?_⟩
          intro nm hnm
          rcases List.mem_append.mp hnm with h1 | h2
          · obtain ⟨g, hg, hn⟩ := b1 nm h1
            exact ⟨p, orig, g, hps _ List.mem_cons_self, hupP, hg, hn⟩
          · exact b2 nm h2

theorem run_reach : ∀ n, RecReach fs kw (run fs kw n) := by
  intro n
  induction n with
  | zero => intro o s v s' h; simp [run] at h
  | succ n ihn =>
    intro o s v s' h
    rw [run_succ] at h
    split at h
    · simp at h; obtain ⟨_, rfl⟩ := h; exact ⟨[], by simp, by simp⟩
    · split at h
      · simp at h
      · next f hf =>
        split at h
        · simp at h
        · next args s1 hargs =>
          obtain ⟨add, eadd, badd⟩ := argsWith_reach fs kw _ ihn f f.params s args s1 (fun p hp => hp) hargs
          split at h
          · simp at h; obtain ⟨_, rfl⟩ := h
            refine ⟨add ++ [f.name], by simp only []; rw [eadd, List.append_assoc], ?_⟩
            intro nm hnm
            rcases List.mem_append.mp hnm with h0 | h1
            · obtain ⟨q, orig, g, hq, hu, hg, hn⟩ := badd nm h0
              exact ⟨g, Reach.trans fs kw (.root hf) hq hu hg, hn⟩
            · simp at h1; subst h1; exact ⟨f, .root hf, rfl⟩
          · simp at h

/-! ### every reachable function is called -/

theorem reach_called (o : String) (calls : List String) (hord : DepsFirst fs kw calls)
    (hroot : ∀ f, producer fs o = some f → f.name ∈ calls) :
    ∀ f, Reach fs kw o f → f.name ∈ calls := by
  intro f hr
  induction hr with
  | root h => exact hroot _ h
  | step hf hp hu hg ih =>
    have hmem := ih
    obtain ⟨pre, post, e⟩ := List.append_of_mem hmem
    obtain ⟨g', hg', hin⟩ := hord pre _ post e _ (Reach.mem fs kw hf) rfl _ hp hu
    rw [hg] at hg'; cases hg'
    rw [e]; exact List.mem_append_left _ hin

/-! ### the used-parameter set -/

/-- `used` consists of the parameters of the functions called so far, plus the exception set `X` (the parameters of the
    functions whose arguments are being collected right now) -/
structure UInv (X : String → Prop) (s : St) : Prop where
  src : ∀ k ∈ s.used, X k ∨ ∃ g ∈ fs, g.name ∈ s.calls ∧ ∃ orig, (k, orig) ∈ g.params
  cov : ∀ nm ∈ s.calls, ∃ g ∈ fs, g.name = nm ∧ ∀ p ∈ g.params, p.1 ∈ s.used

def RecUsed (r : String → St → Except Err (Val × St)) : Prop :=
  ∀ o s v s' (X : String → Prop), UInv fs X s → r o s = .ok (v, s') → UInv fs X s' ∧ ∀ k ∈ s.used, k ∈ s'.used

theorem uinv_push (X : String → Prop) (s : St) (p : String) (h : UInv fs X s) :
    UInv fs (fun k => X k ∨ k = p) { s with used := s.used ++ [p] } := by
  refine ⟨?_, ?_⟩
  · intro k hk
    simp only [List.mem_append, List.mem_singleton] at hk
    rcases hk with hk | hk
    · rcases h.src k hk with hx | hg
      · exact Or.inl (Or.inl hx)
      · exact Or.inr hg
    · exact Or.inl (Or.inr hk)
  · intro nm hnm
    obtain ⟨g, hg, hn, hp⟩ := h.cov nm hnm
    exact ⟨g, hg, hn, fun q hq => List.mem_append_left _ (hp q hq)⟩

theorem argsWith_used (r : String → St → Except Err (Val × St)) (hr : RecUsed fs r) (f : Func) :
    ∀ ps s a s' (X : String → Prop), UInv fs X s → argsWith r fs kw f ps s = .ok (a, s') →
      UInv fs (fun k => X k ∨ ∃ orig, (k, orig) ∈ ps) s' ∧ (∀ k ∈ s.used, k ∈ s'.used) ∧ (∀ p ∈ ps, p.1 ∈ s'.used) := by
  intro ps
  induction ps with
  | nil =>
    intro s a s' X hi h
    simp [argsWith] at h; obtain ⟨_, rfl⟩ := h
    refine ⟨⟨?_, hi.cov⟩, fun k hk => hk, by simp⟩
    intro k hk
    rcases hi.src k hk with hx | hg
    · exact Or.inl (Or.inl hx)
    · exact Or.inr hg
  | cons p ps ih =>
    obtain ⟨p, orig⟩ := p
    intro s a s' X hi h
    -- the common tail: from a state satisfying `UInv X` on which `p` is pushed
    have tail : ∀ (s1 : St) rest s2, UInv fs X s1 →
        argsWith r fs kw f ps { s1 with used := s1.used ++ [p] } = .ok (rest, s2) →
        UInv fs (fun k => X k ∨ ∃ orig', (k, orig') ∈ (p, orig) :: ps) s2 ∧ (∀ k ∈ s1.used, k ∈ s2.used) ∧
          (∀ q ∈ (p, orig) :: ps, q.1 ∈ s2.used) := by
      intro s1 rest s2 h1 hrest
      obtain ⟨i2, m2, c2⟩ := ih _ rest s2 _ (uinv_push fs X s1 p h1) hrest
      refine ⟨⟨?_, i2.cov⟩, fun k hk => m2 k (List.mem_append_left _ hk), ?_⟩
      · intro k hk
        rcases i2.src k hk with hx | hg
        · rcases hx with (hx | rfl) | ⟨o', ho'⟩
          · exact Or.inl (Or.inl hx)
          · exact Or.inl (Or.inr ⟨orig, List.mem_cons_self⟩)
          · exact Or.inl (Or.inr ⟨o', List.mem_cons_of_mem _ ho'⟩)
        · exact Or.inr hg
      · intro q hq
        rcases List.mem_cons.mp hq with rfl | hq
        · exact m2 _ (by simp)
        · exact c2 q hq
    simp only [argsWith] at h
    split at h
    · simp at h
    · split at h
      · simp at h
      · next rest s2 hrest =>
        simp at h; obtain ⟨_, rfl⟩ := h
        exact tail s rest s2 hi hrest
    · split at h
      · simp at h
      · next v s1 hrun =>
        split at h
        · simp at h
        · next rest s2 hrest =>
          simp at h; obtain ⟨_, rfl⟩ := h
          obtain ⟨i1, m1⟩ := hr p s v s1 X hi hrun
          obtain ⟨i2, m2, c2⟩ := tail s1 rest s2 i1 hrest
          exact ⟨i2, fun k hk => m2 k (m1 k hk), c2⟩

theorem run_used : ∀ n, RecUsed fs (run fs kw n) := by
  intro n
  induction n with
  | zero => intro o s v s' X _ h; simp [run] at h
  | succ n ihn =>
    intro o s v s' X hi h
    rw [run_succ] at h
    split at h
    · simp at h; obtain ⟨_, rfl⟩ := h; exact ⟨hi, fun k hk => hk⟩
    · split at h
      · simp at h
      · next f hf =>
        have hfmem := producer_mem fs hf
        split at h
        · simp at h
        · next args s1 hargs =>
          obtain ⟨i1, m1, c1⟩ := argsWith_used fs kw _ ihn f f.params s args s1 X hi hargs
          split at h
          · simp at h; obtain ⟨_, rfl⟩ := h
            refine ⟨⟨?_, ?_⟩, m1⟩
            · intro k hk
              simp only [] at hk ⊢
              rcases i1.src k hk with (hx | ⟨o', ho'⟩) | ⟨g, hg, hc, hp⟩
              · exact Or.inl hx
              · exact Or.inr ⟨f, hfmem, by simp, o', ho'⟩
              · exact Or.inr ⟨g, hg, List.mem_append_left _ hc, hp⟩
            · intro nm hnm
              simp only [] at hnm ⊢
              rcases List.mem_append.mp hnm with h0 | h1
              · exact i1.cov nm h0
              · simp at h1; subst h1; exact ⟨f, hfmem, rfl, c1⟩
          · simp at h

/-! ### the two characterisations, from the initial state -/

theorem inv_init : Inv fs kw ⟨kw, [], []⟩ :=
  ⟨by simp, by simp, fun q hq => Or.inl hq, by intro pre nm post e; simp at e, by simp⟩

theorem run_supplied (n : Nat) (o : String) (w v : Val) (s' : St) (hk : alookup kw o = some w)
    (h : run fs kw n o ⟨kw, [], []⟩ = .ok (v, s')) : s' = ⟨kw, [], []⟩ := by
  cases n with
  | zero => simp [run] at h
  | succ n => rw [run_succ] at h; simp only [hk] at h; simp at h; exact h.2.symm

theorem run_calls_iff (hw : WFp fs rank) (n : Nat) (o : String) (v : Val) (s' : St)
    (h : run fs kw n o ⟨kw, [], []⟩ = .ok (v, s')) : ∀ nm, nm ∈ s'.calls ↔ Needed fs kw o nm := by
  intro nm
  cases hk : alookup kw o with
  | some w =>
    rw [run_supplied fs kw n o w v s' hk h]
    constructor
    · intro h; simp at h
    · rintro ⟨f, ⟨hn, _⟩, _⟩; rw [hk] at hn; cases hn
  | none =>
    constructor
    · intro hnm
      obtain ⟨add, eadd, badd⟩ := run_reach fs kw n o _ v s' h
      simp only [List.nil_append] at eadd
      rw [eadd] at hnm
      obtain ⟨f, hf, hn⟩ := badd nm hnm
      exact ⟨f, ⟨hk, hf⟩, hn⟩
    · rintro ⟨f, ⟨_, hf⟩, rfl⟩
      obtain ⟨i, hm, _⟩ := run_log fs kw rank hw n o _ v s' (inv_init fs kw) h
      apply reach_called fs kw o s'.calls i.order ?_ f hf
      intro f0 hf0
      rcases i.origin o hm with h0 | ⟨g, hg, hgc⟩
      · rw [hk] at h0; simp at h0
      · rw [hf0] at hg; cases hg; exact hgc

theorem run_used_iff (hw : WFp fs rank) (n : Nat) (o : String) (v : Val) (s' : St)
    (h : run fs kw n o ⟨kw, [], []⟩ = .ok (v, s')) :
    ∀ k, k ∈ s'.used ↔ ∃ f, NeededF fs kw o f ∧ ∃ orig, (k, orig) ∈ f.params := by
  intro k
  have h0 : UInv fs (fun _ => False) ⟨kw, [], []⟩ := ⟨by simp, by simp⟩
  obtain ⟨i, _⟩ := run_used fs kw n o _ v s' _ h0 h
  have hcalls := run_calls_iff fs kw rank hw n o v s' h
  constructor
  · intro hk
    rcases i.src k hk with hx | ⟨g, hg, hc, hp⟩
    · exact hx.elim
    · obtain ⟨f, hf, hn⟩ := (hcalls g.name).mp hc
      have : f = g := hw.names f (Reach.mem fs kw hf.2) g hg hn
      subst this; exact ⟨f, hf, hp⟩
  · rintro ⟨f, hf, orig, hp⟩
    have hc : f.name ∈ s'.calls := (hcalls f.name).mpr ⟨f, hf, rfl⟩
    obtain ⟨g, hg, hn, hcov⟩ := i.cov f.name hc
    have : g = f := hw.names g hg f (Reach.mem fs kw hf.2) hn
    subst this; exact hcov (k, orig) hp

/-- what `Pipeline.run` answers once the evaluation itself went through -/
theorem runTop_name_eq (o : String) (v : Val) (s : St)
    (ho : alookup kw o = none) (h : run fs kw (fuelFor fs) o ⟨kw, [], []⟩ = .ok (v, s)) :
    runTop fs kw (.name o) =
      if ((akeys kw).filter (fun k => !(s.used.contains k))).isEmpty then .ok ⟨v, s.memo, s.calls⟩
      else .error (.unused ((akeys kw).filter (fun k => !(s.used.contains k)))) := by
  simp only [runTop, ho, h]; simp

end PF.Pipe
