"""C14 — deterministic preemption of one cache operation by a peer process (instrumentation only; the stream that uses it
is `preempt_stream` in props/c14.py).

`install(cache, sched)` replaces, on ONE cache object of the parent process, the lock (`_cache_lock`) by a recorder and every
shared container (`_cache_dict`, `_cache_queue`, `_access_counts`, `_computation_durations`) by a forwarding proxy.  All
attributes are looked up with getattr: an implementation that renames them turns the stream into a counter
(`preempt:no-lock-attr`, `preempt:no-container:<name>`), never into an alarm.

Preemption points of the operation P that runs next on the instrumented cache:
  * "out" points — P does NOT hold the lock: just before every lock acquire, just after every lock release, just before every
    container access made without the lock.  A peer operation of any kind may run to completion here.
  * "in" points — P holds the lock: just before every container access and just before the release.  Only a peer operation
    that takes no lock itself can run here (any other peer would block until P releases; the stream uses these points for
    peers that a dry run showed to be lock-free, and a short timeout turns a blocked peer into 'ran after P').
`Sched.target = ("out"|"in", n)` fires `Sched.action()` exactly once, at the n-th point of that class.
"""
from __future__ import annotations

LOCK_ATTR = "_cache_lock"
CONTAINER_ATTRS = ("_cache_dict", "_cache_queue", "_access_counts", "_computation_durations")


class Sched:
    def __init__(self, target=None, action=None):
        self.depth = 0            # lock nesting of P as seen by the recorder
        self.n_out = 0
        self.n_in = 0
        self.acquires = 0
        self.accesses_unlocked = 0
        self.target = target
        self.action = action
        self.fired = False
        self.fired_at = None
        self.trace = []           # the points passed, in order: ("out"|"in", what)

    def point(self, what):
        cls = "in" if self.depth > 0 else "out"
        if cls == "in":
            self.n_in += 1
            idx = self.n_in
        else:
            self.n_out += 1
            idx = self.n_out
        self.trace.append([cls, what])
        if not self.fired and self.target is not None and tuple(self.target) == (cls, idx):
            self.fired = True
            self.fired_at = what
            if self.action is not None:
                self.action()


class LockRecorder:
    """stands in for `_cache_lock`; supports the `with` protocol and acquire/release"""

    def __init__(self, real, sched: Sched):
        object.__setattr__(self, "_real", real)
        object.__setattr__(self, "_sched", sched)

    def _before(self):
        if self._sched.depth == 0:
            self._sched.point("acquire")

    def _after_release(self):
        self._sched.depth = max(0, self._sched.depth - 1)
        if self._sched.depth == 0:
            self._sched.point("released")

    def __enter__(self):
        self._before()
        r = self._real.__enter__()
        self._sched.depth += 1
        self._sched.acquires += 1
        return r

    def __exit__(self, *exc):
        if self._sched.depth == 1:
            self._sched.point("release")          # an "in" point: after the last access of the critical section
        try:
            return self._real.__exit__(*exc)
        finally:
            self._after_release()

    def acquire(self, *a, **k):
        self._before()
        r = self._real.acquire(*a, **k)
        if r is not False:
            self._sched.depth += 1
            self._sched.acquires += 1
        return r

    def release(self):
        if self._sched.depth == 1:
            self._sched.point("release")
        try:
            return self._real.release()
        finally:
            self._after_release()

    def __getattr__(self, name):
        return getattr(self._real, name)


class ContainerProxy:
    """forwards everything to the real (manager-backed) container; every access is a preemption point"""

    def __init__(self, real, sched: Sched, label: str):
        object.__setattr__(self, "_real", real)
        object.__setattr__(self, "_sched", sched)
        object.__setattr__(self, "_label", label)

    def _pt(self, what):
        if self._sched.depth == 0:
            self._sched.accesses_unlocked += 1
        self._sched.point(f"{self._label}.{what}")

    def __contains__(self, k):
        self._pt("__contains__")
        return k in self._real

    def __getitem__(self, k):
        self._pt("__getitem__")
        return self._real[k]

    def __setitem__(self, k, v):
        self._pt("__setitem__")
        self._real[k] = v

    def __delitem__(self, k):
        self._pt("__delitem__")
        del self._real[k]

    def __len__(self):
        self._pt("__len__")
        return len(self._real)

    def __iter__(self):
        self._pt("__iter__")
        return iter(self._real)

    def __bool__(self):
        self._pt("__bool__")
        return bool(self._real)

    def __eq__(self, other):
        return self._real == other

    def __hash__(self):
        return id(self)

    def __repr__(self):
        return repr(self._real)

    def __str__(self):
        return str(self._real)

    def __reduce__(self):
        raise RuntimeError("an instrumented cache must not be pickled (harness bug)")

    def __getattr__(self, name):
        attr = getattr(self._real, name)
        if not callable(attr):
            return attr

        def call(*a, **k):
            self._pt(name)
            return attr(*a, **k)
        return call

    def __setattr__(self, name, value):
        setattr(self._real, name, value)


def install(obj, sched: Sched):
    """instrument `obj` (an LRUCache / HybridCache); returns (saved attributes, list of missing attribute names) or (None, …)
    when there is no lock attribute"""
    missing = []
    lock = getattr(obj, LOCK_ATTR, None)
    if lock is None or not (hasattr(lock, "__enter__") and hasattr(lock, "__exit__")):
        return None, [LOCK_ATTR]
    saved = {LOCK_ATTR: lock}
    setattr(obj, LOCK_ATTR, LockRecorder(lock, sched))
    for name in CONTAINER_ATTRS:
        real = getattr(obj, name, None)
        if real is None:
            missing.append(name)
            continue
        saved[name] = real
        setattr(obj, name, ContainerProxy(real, sched, name))
    return saved, missing


def uninstall(obj, saved):
    for name, real in (saved or {}).items():
        setattr(obj, name, real)
