import PfModel.Lemmas.XLabel
import PfModel.Props.C01
/-!
C19 — xarray datasets label results with the right dimensions and coordinates.
`PF.XLabel` models `mapspec_axes`, `trace_dependencies`, `_xarray`, `_xarray_dataset` and the two constructors on top of the
map model `PF.Map`; xarray's own semantics (construction, merge, `sel`) is specified by the model, not verified.
-/
namespace PF.C19
open PF PF.Map PF.XLabel

/-! ### dimensions and values -/

/-- **Dimensions and values of a MapSpec output.** The `DataArray` built for `o` is named `o`, its dimensions are
    `mapspec_axes[o]` and its values are what the loader has for `o`. -/
theorem C19_dims (mss : List MSpec) (inputs : List (String × Val)) (load : String → Option Val) (li : Bool) (o : String)
    (da : DataArray) (h : xarrayOf mss inputs load li o = .ok da) :
    da.name = o ∧ mapspecAxes mss o = some da.dims ∧ load o = some da.data := by
  unfold xarrayOf at h
  split at h
  · cases h
  · next data hv =>
    split at h
    · cases h
    · split at h
      · cases h
      · next dims hd =>
        simp only [pure, Except.pure] at h
        cases h
        exact ⟨rfl, hd, hv⟩

/-- **… are its MapSpec axes, in order.** For consistent MapSpecs (`validate_consistent_axes`), the dimensions of the variable
    of an array written with all axes named — every MapSpec output is — are exactly that axes tuple, in its order, whatever
    the other MapSpecs that consume the array say (`:` or the same names). -/
theorem C19_dims_in_order (mss : List MSpec) (inputs : List (String × Val)) (load : String → Option Val) (li : Bool)
    (ms : MSpec) (a : ASpec) (names : List String) (da : DataArray)
    (hc : Consistent (allSpecs mss)) (hms : ms ∈ mss) (ha : a ∈ ms.outputs) (hnamed : a.axes = names.map some)
    (h : xarrayOf mss inputs load li a.name = .ok da) : da.dims = names.map some := by
  have hmem : a ∈ allSpecs mss := by
    unfold allSpecs
    exact List.mem_flatMap.mpr ⟨ms, hms, List.mem_append_right _ ha⟩
  have h1 := (C19_dims mss inputs load li a.name da h).2.1
  rw [mapspecAxes_named mss a names hc hmem hnamed] at h1
  rw [← hnamed]
  exact (Option.some.inj h1).symm

/-- **The values are the map result, which is the denotation (C01).** The run whose outputs `xarray_dataset_from_results`
    reads is the specification's run: every mapped output is its denoted array. -/
theorem C19_values (fs : List MFunc) (inputs : List (String × Val)) (ui : List (String × List Nat)) (r : MapResult)
    (h : runMap fs inputs ui = .ok r) : specMap fs inputs ui = .ok r := by
  rw [← PF.C01.C01_map_eq_denotation]; exact h

/-! ### coordinates -/

/-- **Coordinates.** A one-dimensional input `x` (its only axis is `a`) that reaches the mapped output `o` along `a` —
    directly or through mapped intermediates — and for which `inputs` has the array `v`, is carried by a coordinate of the
    `DataArray` of `o` that lives on exactly `[a]`: either the coordinate `x` with values `v`, or the `k`-th level (named `x`,
    values `v`) of one multi-index whose name joins its level names with `:`. -/
theorem C19_coords (mss : List MSpec) (inputs : List (String × Val)) (load : String → Option Val) (li : Bool)
    (o x a : String) (v : Val) (da : DataArray)
    (hreach : Reach (mapspecMapping mss) mss.length o a x) (hfull : mapspecAxes mss x = some [some a])
    (hin : alookup inputs x = some v) (h : xarrayOf mss inputs load li o = .ok da) :
    ∃ c ∈ da.coords, c.dims = [a] ∧ Carries c x v := by
  have hdep := traceDependencies_single mss o x a (reach_traced _ _ _ _ _ hreach) hfull
  have hmem := alookup_some_mem _ _ _ hdep
  have hone : eligibleOne mss inputs load li (x, [a]) = .ok (some (x, [a], v)) := by
    simp [eligibleOne, coordArray, hin, hfull, bind, Except.bind, pure, Except.pure]
  unfold xarrayOf at h
  split at h
  · cases h
  · split at h
    · cases h
    · next es hes =>
      split at h
      · cases h
      · simp only [pure, Except.pure] at h
        cases h
        have hy := eligible_mem mss inputs load li (x, [a]) (x, [a], v) hone _ es hes hmem
        obtain ⟨g, hg, hxg⟩ := groupCoords_mem es x [a] v hy
        obtain ⟨c, hc, hd, hcar⟩ := coordsOfGroup_carries [a] g x v hxg
        exact ⟨c, List.mem_flatMap.mpr ⟨([a], g), hg, hc⟩, hd, hcar⟩

/-- a group on one axis yields one coordinate: zipped 1-D inputs are combined, never listed side by side -/
theorem C19_one_index_per_axis (a : String) (g : List (String × Val)) : (coordsOfGroup ([a], g)).length = 1 :=
  coordsOfGroup_one_axis a g

/-! ### both constructors -/

/-- **Same labels from results and from the run folder.** `load_outputs` gives back exactly what the run returned, so the
    two constructors — the same function of `(mapspecs, inputs)` applied to the two loaders — build the same dataset. -/
theorem C19_same (fs : List MFunc) (inputs : List (String × Val)) (ui : List (String × List Nat)) (r : MapResult)
    (mss : List MSpec) (li : Bool) (h : runMap fs inputs ui = .ok r) :
    fromFolder mss inputs r li = fromResults mss inputs r li := by
  unfold fromFolder fromResults
  rw [runMap_stored_eq_outputs fs inputs ui r h]

/-! ### un-mapped outputs -/

/-- **Outputs without a MapSpec** are variables holding what the loader has for them: dimensionless (`dims = some []`) unless
    the value is an ndarray, which is a plain array variable (`singleDims`: assigned bare when 0-d/1-D, else with the
    dimension names `<name>_dim_<k>`). -/
theorem C19_unmapped (mss : List MSpec) (inputs : List (String × Val)) (load : String → Option Val) (outputNames : List String)
    (li : Bool) (ds : Dataset) (n : String) (h : xarrayDataset mss inputs load outputNames li = .ok ds)
    (hn : n ∈ outputNames) (hun : ∀ ms ∈ mss, ∀ a ∈ ms.outputs, a.name ≠ n) :
    ∃ var ∈ ds.vars, var.name = n ∧ load n = some var.data ∧ var.dims = singleDims n var.data := by
  unfold xarrayDataset at h
  simp only [bind, Except.bind] at h
  split at h
  · cases h
  · split at h
    · cases h
    · next singles hs =>
      simp only [pure, Except.pure] at h
      cases h
      have hmem : n ∈ outputNames.filter fun n => !(((mss.flatMap fun ms => ms.outputs.map (·.name)).filter
          fun n => outputNames.contains n).contains n) := by
        simp only [List.mem_filter, hn, true_and, Bool.not_eq_true', List.contains_eq_mem, decide_eq_false_iff_not,
          List.mem_flatMap, List.mem_map, not_and, decide_eq_true_eq]
        rintro ⟨ms, hms, a, ha, hna⟩ _
        exact hun ms hms a ha hna
      obtain ⟨var, hvar, hg⟩ := mapM_mem _ _ _ hs n hmem
      split at hg
      · cases hg
      · next v hv =>
        simp only [pure, Except.pure] at hg
        cases hg
        exact ⟨_, List.mem_append_right _ hvar, rfl, hv, rfl⟩

/-! ### selecting by coordinate value -/

/-- **Every element of a mapped variable is the function applied at that index** (from C01): the element at a full index `F`
    is `f` applied to the arguments selected at the external part of `F`, projected at the internal part. -/
theorem C19_elem (f : MFunc) (shape : List Nat) (mask : List Bool) (args : Nat → List (String × Val)) (o : String)
    (F : List Nat) (h : InRange shape F) :
    indexVal (denoteArray f shape mask args o) (F.map some) =
      some (elemAt mask (outVal f (args (ravel (extOf mask shape) (extOf mask F))) o) (intOf mask F)) :=
  denote_at f shape mask args o F h

/-- **`sel` is positional lookup through the coordinate.** When the coordinate values are pairwise distinct, selecting the
    value at position `p` slices the data at `p` along the coordinate's dimension. -/
theorem C19_sel_slice (eq : Val → Val → Bool) (da : DataArray) (x a : String) (sh : List Nat) (xs : List Val) (p q : Nat)
    (hc : da.coords.find? (fun k => k.name = x) = some { name := x, dims := [a], val := .plain (.arr sh xs) })
    (hp : p < xs.length) (hrefl : eq xs[p] xs[p] = true) (hdist : ∀ i (_ : i < xs.length), i < p → eq xs[p] xs[i] = false)
    (hq : da.dims.findIdx? (· = some a) = some q) :
    sel eq da x xs[p] = indexVal da.data (keyAt da.dims.length q p) := by
  unfold sel
  simp only [hc, findPos_distinct eq xs p hp hrefl hdist, hq]

/-- **Selecting by coordinate value returns the element computed from that input value** (an output mapped along one axis,
    e.g. `x[a], z[a] -> y[a]`): with pairwise distinct coordinate values, `ds[o].sel(x = xs[p])` is `f` applied to the
    arguments selected at index `p` — … -/
theorem C19_sel (eq : Val → Val → Bool) (f : MFunc) (n : Nat) (args : Nat → List (String × Val)) (o x a : String)
    (sh : List Nat) (xs : List Val) (p : Nat) (coords : List Coord)
    (hc : coords.find? (fun k => k.name = x) = some { name := x, dims := [a], val := .plain (.arr sh xs) })
    (hp : p < xs.length) (hn : p < n) (hrefl : eq xs[p] xs[p] = true)
    (hdist : ∀ i (_ : i < xs.length), i < p → eq xs[p] xs[i] = false) :
    sel eq { name := o, dims := [some a], data := denoteArray f [n] [true] args o, coords := coords } x xs[p] =
      some (outVal f (args p) o) := by
  rw [C19_sel_slice eq _ x a sh xs p 0 hc hp hrefl hdist (by simp)]
  have hF : InRange [n] [p] := ⟨hn, trivial⟩
  have := denote_at f [n] [true] args o [p] hF
  simp only [List.map_cons, List.map_nil] at this
  simp only [keyAt, List.length_singleton, List.range_one, List.map_cons, List.map_nil, if_true]
  rw [this]
  simp [elemAt, extOf, ravel, prod]

/-- … and the argument delivered for the parameter fed by `x` at index `p` is `xs[p]` itself (from `C01_select`). -/
theorem C19_sel_arg (fs : List MFunc) (env : Env) (f : MFunc) (ms : MSpec) (p : Nat) (as : List (String × Val))
    (i : Nat) (x a : String) (sh : List Nat) (xs : List Val) (hi : i < f.params.length)
    (hsel : selectArgs fs env f ms [p] = .ok as) (hx : (f.params[i]).1 = x)
    (hspec : ms.inputSpec x = some { name := x, axes := [some a] }) (hext : ms.externalIndices = [a])
    (hwhole : argWhole fs env f x = .ok (.arr sh xs)) (hp : p < xs.length) (hsh : sh = [xs.length]) :
    as[i]? = some ((f.params[i]).2, xs[p]) := by
  obtain ⟨hlen, hall⟩ := PF.C01.C01_select fs env f ms [p] as hsel
  have ha : i < as.length := by omega
  obtain ⟨h1, whole, hw, hm⟩ := hall i hi ha
  rw [hx] at hw hm
  rw [hwhole] at hw
  cases hw
  rw [hspec] at hm
  simp only [] at hm
  have hk : inputKey ms { name := x, axes := [some a] } [p] = [some p] := by simp [inputKey, hext]
  rw [hk, hsh] at hm
  have : indexVal (.arr [xs.length] xs) [some p] = xs[p]? := by
    have := indexVal_full [xs.length] xs [p] ⟨hp, trivial⟩
    simpa [ravel, prod] using this
  rw [this, List.getElem?_eq_getElem hp] at hm
  rw [List.getElem?_eq_getElem ha]
  congr 1
  exact Prod.ext h1 (Option.some.inj hm).symm

/-! ### non-vacuity -/

/-- `x0[i], x1[i] -> y0[i]`; `y0[i], x2[j] -> y1[j, i]`; `x3[:, k] -> y2[k]` -/
def ms0 : MSpec := ⟨[⟨"x0", [some "i"]⟩, ⟨"x1", [some "i"]⟩], [⟨"y0", [some "i"]⟩]⟩
def ms1 : MSpec := ⟨[⟨"y0", [some "i"]⟩, ⟨"x2", [some "j"]⟩], [⟨"y1", [some "j", some "i"]⟩]⟩
def ms2 : MSpec := ⟨[⟨"x3", [none, some "k"]⟩], [⟨"y2", [some "k"]⟩]⟩
def xs0 : Val := .arr [2] [.int 5, .int 3]
def xs1 : Val := .arr [2] [.str "a", .str "b"]
def xs2 : Val := .arr [1] [.int 7]

example : mapspecAxes [ms0, ms1, ms2] "y1" = some [some "j", some "i"] := by decide
/-- the hypothesis of `C19_dims_in_order` holds for these MapSpecs -/
example : Consistent (allSpecs [ms0, ms1]) := by
  intro s hs t ht hn
  simp [allSpecs, ms0, ms1] at hs ht
  rcases hs with rfl | rfl | rfl | rfl | rfl | rfl <;> rcases ht with rfl | rfl | rfl | rfl | rfl | rfl <;>
    simp at hn <;> refine ⟨rfl, ?_⟩ <;> intro i x y hx hy <;> rw [hx] at hy <;> exact Option.some.inj (Option.some.inj hy)
/-- DF-29 (b): an axis that is only ever sliced keeps its position -/
example : mapspecAxes [ms0, ms1, ms2] "x3" = some [none, some "k"] := by decide
/-- coordinates are traced through the intermediate `y0`; the zipped inputs come out sorted -/
example : traceDependencies [ms0, ms1, ms2] "y1" = [("x0", ["i"]), ("x1", ["i"]), ("x2", ["j"])] := by decide
/-- DF-29 (a): a 2-D input with a sliced axis is traced along its named axis only, so it is not a coordinate -/
example : traceDependencies [ms0, ms1, ms2] "y2" = [("x3", ["k"])] := by decide
example : Reach (mapspecMapping [ms0, ms1, ms2]) 3 "y1" "i" "x0" :=
  .step 2 "y1" ms1 ⟨"y0", [some "i"]⟩ "i" "x0" (by decide) (by decide) (by decide) (by decide)
    (.direct 2 "y0" ms0 ⟨"x0", [some "i"]⟩ "i" (by decide) (by decide) (by decide) (by decide))
/-- the coordinates of `y1`: one multi-index `x0:x1` on `i`, and `x2` on `j` -/
example : ((xarrayOf [ms0, ms1, ms2] [("x0", xs0), ("x1", xs1), ("x2", xs2)] (fun _ => some .none) true "y1").toOption.map
    fun da => (da.dims, da.coords.map fun c => (c.name, c.dims))) =
    some ([some "j", some "i"], [("x0:x1", ["i"]), ("x2", ["j"])]) := by decide

example : singleDims "z" (.str "s") = some [] ∧ singleDims "z" (.arr [3] []) = none ∧
    singleDims "z" (.arr [3, 1] []) = some [some "z_dim_0", some "z_dim_1"] := by decide

end PF.C19
