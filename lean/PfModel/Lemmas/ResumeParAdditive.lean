import PfModel.Lemmas.ResumeAdditive
import PfModel.Lemmas.ResumePar
import PfModel.Model.ResumeParFail
/-! The event list of a POOL run of the repaired protocol (`runOnP`) is additive for every scheduler that runs whole task bodies
    (any selection, any order, duplicates allowed) before the parent's events: `SelSched`, implied by `PermSched` and by `SubSched`.
    The point is that the task bodies (`splitCalls`) of an additive list are additive: the split happens only in front of a user
    call, never inside a `dump` block.  Used by `Props/C05User.lean` (`C05_par_prefix_mono`). -/
namespace PF.ResumeFS
open PF PF.Map

/-- the scheduler runs whole bodies of the generation (any selection, any order), then the parent's events -/
def SelSched (sched : Sched) : Prop := ∀ g bs pe, ∃ bs' : List (List Ev), (∀ b ∈ bs', b ∈ bs) ∧ sched g bs pe = bs'.flatten ++ pe

theorem selSched_of_perm {sched : Sched} (h : PermSched sched) : SelSched sched := fun g bs pe => by
  obtain ⟨bs', hp, he⟩ := h g bs pe
  exact ⟨bs', fun b hb => hp.mem_iff.mp hb, he⟩

/-- the reversed-bodies scheduler (used by the non-vacuity examples) -/
def revSched : Sched := fun _ bs pe => bs.reverse.flatten ++ pe

theorem selSched_of_sub {sched : Sched} (h : SubSched sched) : SelSched sched := h

/-- an additive list is a call-free additive prelude followed by task bodies, each of them additive -/
theorem additive_decomp {l : List Ev} (h : Additive l) :
    ∃ (pre : List Ev) (bs : List (List Ev)), l = pre ++ bs.flatten ∧ Additive pre ∧ (∀ e ∈ pre, isCall e = false) ∧
      ∀ b ∈ bs, IsBody b ∧ Additive b := by
  induction h with
  | nil => exact ⟨[], [], rfl, .nil, (fun _ h => by cases h), (fun _ h => by cases h)⟩
  | mkdirp d _ ih =>
    obtain ⟨pre, bs, rfl, hp, hn, hb⟩ := ih
    refine ⟨.mkdirp d :: pre, bs, rfl, .mkdirp d hp, ?_, hb⟩
    intro e he
    rcases List.mem_cons.mp he with rfl | he
    · rfl
    · exact hn e he
  | call fn li a _ ih =>
    obtain ⟨pre, bs, rfl, hp, hn, hb⟩ := ih
    refine ⟨[], (.call fn li a :: pre) :: bs, by simp, .nil, (fun _ h => by cases h), ?_⟩
    intro b hb'
    rcases List.mem_cons.mp hb' with rfl | hb'
    · exact ⟨⟨fn, li, a, pre, rfl, (callsOf_nil_iff pre).mpr hn⟩, .call fn li a hp⟩
    · exact hb b hb'
  | write p v _ ih =>
    obtain ⟨pre, bs, rfl, hp, hn, hb⟩ := ih
    refine ⟨.mkdirp (dirOf p) :: .begin (.tmp p) :: .chunk (.tmp p) :: .commit (.tmp p) v :: .rename (.tmp p) p :: pre, bs, rfl,
      .write p v hp, ?_, hb⟩
    intro e he
    simp only [List.mem_cons] at he
    rcases he with rfl | rfl | rfl | rfl | rfl | he
    · rfl
    · rfl
    · rfl
    · rfl
    · rfl
    · exact hn e he

/-- **the task bodies of an additive event list are additive** -/
theorem splitCalls_additive {l : List Ev} (h : Additive l) : ∀ b ∈ splitCalls l, Additive b := by
  obtain ⟨pre, bs, rfl, hp, hn, hb⟩ := additive_decomp h
  obtain ⟨e1, e2⟩ := splitCalls_bodies bs fun b h => (hb b h).1
  rw [splitCalls_nocall pre hn bs.flatten e2, e1]
  intro b hb'
  split at hb'
  · exact (hb b hb').2
  · rcases List.mem_cons.mp hb' with rfl | hb'
    · exact hp
    · exact (hb b hb').2

theorem additive_flatten (bs : List (List Ev)) (h : ∀ b ∈ bs, Additive b) : Additive bs.flatten := by
  have : bs.flatten = bs.flatMap id := by simp
  rw [this]
  exact Additive.flatMap _ _ h

/-- what a body-selecting scheduler makes of an additive generation is additive -/
theorem additive_sched {sched : Sched} (hs : SelSched sched) (g : Nat) {sub pe : List Ev} (h1 : Additive sub) (h2 : Additive pe) :
    Additive (sched g (splitCalls sub) pe) := by
  obtain ⟨bs', hsub, he⟩ := hs g (splitCalls sub) pe
  rw [he]
  exact (additive_flatten bs' fun b hb => splitCalls_additive h1 b (hsub b hb)).append h2

theorem additive_runGensP (step : Env → FS → Nat → MFunc → FOut)
    (hs : ∀ env fs nc f, Additive (step env fs nc f).subEvs ∧ Additive (step env fs nc f).procEvs) (sched : Sched) (hsch : SelSched sched) :
    ∀ (gens : List (List MFunc)) (g : Nat) (env : Env) (fs : FS) (nc : Nat), Additive (runGensP step sched g gens env fs nc).evs
  | [], g, env, fs, nc => by simp [runGensP]; exact .nil
  | gen :: rest, g, env, fs, nc => by
    obtain ⟨g1, g2⟩ := additive_runGenR step hs env gen fs nc
    have hA := additive_sched hsch g g1 g2
    unfold runGensP
    simp only
    split
    · exact hA
    · exact hA.append (additive_runGensP step hs sched hsch rest _ _ _ _)

/-- the event list of a pool run of the repaired protocol under a body-selecting scheduler, started on any folder, is additive -/
theorem additive_runOnP (cfg : Cfg) (hl : cfg.legacy = false) (sched : Sched) (hsch : SelSched sched) (fs : FS) (fsd : List MFunc)
    (inputs : List (String × Val)) (ui : List (String × List Nat)) : Additive (runOnP cfg sched fs fsd inputs ui).evs := by
  have hL : ∀ shapes masks mem gens g env fs nc, Additive (runGensP (stepFunc cfg fsd shapes masks mem) sched g gens env fs nc).evs :=
    fun shapes masks mem gens g => additive_runGensP _ (fun env fs nc f => additive_stepFunc cfg hl fsd shapes masks mem env fs nc f) sched hsch gens g
  unfold runOnP
  split
  · exact .nil
  · simp only [hl, compare_evs, List.nil_append]
    split
    · exact .nil
    · split
      · exact (additive_dumpAll inputs).append (additive_initStore _ _)
      · split
        · exact ((additive_dumpAll inputs).append (additive_initStore _ _)).append (hL _ _ _ _ _ _ _ _)
        · exact (((additive_dumpAll inputs).append (additive_initStore _ _)).append (hL _ _ _ _ _ _ _ _)).append (additive_persist _ _)

end PF.ResumeFS
