/-
Model of `pipefunc/resources.py` (class `Resources`).  Core Lean only.

Every definition mirrors the Python named in its doc comment.  Integers are unbounded (`Int`), strings are
`List Char` inside the scanners, memory sizes are exact rationals (the code uses floats: the harness skips and counts
operand pairs whose exact sizes are closer than 1e-9 relative).  `extra_args` is an insertion-ordered association list
with integer values.
-/
namespace PF.Res

/-- The dataclass fields (`resources.py:63-71`). -/
structure R where
  cpus : Option Int := none
  cpusPerNode : Option Int := none
  nodes : Option Int := none
  memory : Option String := none
  gpus : Option Int := none
  time : Option String := none
  partition : Option String := none
  extra : List (String × Int) := []
  mode : String := "external"
  deriving DecidableEq, Repr

/-! ### scanners for the two regexes -/

/-- `$` without MULTILINE also matches just before one trailing newline. -/
def dropFinalNewline : List Char → List Char
  | [] => []
  | ['\n'] => []
  | c :: cs => c :: dropFinalNewline cs

def spanDigits : List Char → List Char × List Char
  | [] => ([], [])
  | c :: cs => if c.isDigit then let (d, r) := spanDigits cs; (c :: d, r) else ([], c :: cs)

def digitsToNat (ds : List Char) : Nat := ds.foldl (fun n c => 10 * n + (c.toNat - '0'.toNat)) 0

/-- the table `units` of `_convert_to_gb` as a power of ten relative to GB -/
def unitExp : List Char → Option Int
  | ['B'] => some (-9)
  | ['K', 'B'] => some (-6)
  | ['M', 'B'] => some (-3)
  | ['G', 'B'] => some 0
  | ['T', 'B'] => some 3
  | ['P', 'B'] => some 6
  | _ => none

def pow10 (e : Int) : Rat := if e ≥ 0 then ((10 ^ e.toNat : Nat) : Rat) else 1 / ((10 ^ (-e).toNat : Nat) : Rat)

/-- `_convert_to_gb` (`resources.py:168-176`): `re.match(r"^(\d+(?:\.\d+)?)([KMGTP]?B)$", memory.upper())`;
    `none` is the `ValueError`. -/
def memSize? (s : String) : Option Rat :=
  let cs := dropFinalNewline (s.toList.map Char.toUpper)
  let (d1, r1) := spanDigits cs
  if d1.isEmpty then none else
  let (d2, r2) : List Char × List Char :=
    match r1 with
    | '.' :: r =>
      let (d, r') := spanDigits r
      if d.isEmpty then ([], r1) else (d, r')
    | _ => ([], r1)
  match unitExp r2 with
  | none => none
  | some e => some ((digitsToNat (d1 ++ d2) : Rat) * pow10 (e - d2.length))

def splitColon : List Char → List (List Char)
  | [] => [[]]
  | c :: cs =>
    match splitColon cs with
    | [] => [[]]            -- unreachable
    | f :: fs => if c = ':' then [] :: f :: fs else (c :: f) :: fs

def allDigits (f : List Char) : Bool := !f.isEmpty && f.all Char.isDigit

/-- `_is_valid_wall_time` (`resources.py:178-181`): `^(\d+:)?(\d{2}:)?\d{2}:\d{2}$`, and the duration in seconds
    (fields weighted 1, 60, 3600, 86400 from the right). `none` = does not match. -/
def timeSecs? (s : String) : Option Nat :=
  let fs := splitColon (dropFinalNewline s.toList)
  if !(fs.all allDigits) then none else
  match fs.map (fun f => (f.length, digitsToNat f)) with
  | [(2, m), (2, sec)] => some (m * 60 + sec)
  | [(_, h), (2, m), (2, sec)] => some (h * 3600 + m * 60 + sec)
  | [(_, d), (2, h), (2, m), (2, sec)] => some (d * 86400 + h * 3600 + m * 60 + sec)
  | _ => none

/-! ### validation (`__post_init__`, `resources.py:73-108`) -/

def posOpt (x : Option Int) : Bool := match x with | none => true | some v => v > 0

def Valid (r : R) : Bool :=
  posOpt r.cpus && (match r.gpus with | none => true | some g => g ≥ 0) && posOpt r.nodes && posOpt r.cpusPerNode
  && (match r.memory with | none => true | some m => (memSize? m).isSome)
  && (match r.time with | none => true | some t => (timeSecs? t).isSome)
  && !(r.nodes.isSome && r.cpus.isSome)
  && !(r.cpusPerNode.isSome && r.nodes.isNone)

/-- the constructor: `ValueError` is `none` -/
def mk? (r : R) : Option R := if Valid r then some r else none

/-! ### combine_max (`resources.py:229-286`), with time compared by duration and memory kept when first seen -/

def maxOpt (acc new : Option Int) : Option Int :=
  match new, acc with
  | none, a => a
  | some n, none => some n
  | some n, some a => some (if a ≥ n then a else n)    -- Python `max(a, n)`: first maximal

def memPick (acc new : Option String) : Option String :=
  match new, acc with
  | none, a => a
  | some n, none => some n
  | some n, some a =>
    match memSize? n, memSize? a with
    | some x, some y => if x > y then some n else some a
    | _, _ => some a

def timePick (acc new : Option String) : Option String :=
  match new, acc with
  | none, a => a
  | some n, none => some n
  | some n, some a =>
    match timeSecs? n, timeSecs? a with
    | some x, some y => if x > y then some n else some a
    | _, _ => some a

def alookup (l : List (String × Int)) (k : String) : Option Int :=
  match l with
  | [] => none
  | (k', v) :: t => if k' = k then some v else alookup t k

/-- `dict[key] = value` on an insertion-ordered dict -/
def aset (l : List (String × Int)) (k : String) (v : Int) : List (String × Int) :=
  match l with
  | [] => [(k, v)]
  | (k', v') :: t => if k' = k then (k', v) :: t else (k', v') :: aset t k v

def extraFirst (acc new : List (String × Int)) : List (String × Int) :=
  new.foldl (fun a kv => if (alookup a kv.1).isSome then a else a ++ [kv]) acc

def combineStep (acc r : R) : R :=
  { cpus := maxOpt acc.cpus r.cpus, gpus := maxOpt acc.gpus r.gpus,
    memory := memPick acc.memory r.memory, time := timePick acc.time r.time,
    partition := match r.partition with | none => acc.partition | some p => some p,
    extra := extraFirst acc.extra r.extra }

def combineMax (l : List R) : R := l.foldl combineStep {}

/-! ### dict / from_dict / with_defaults / update -/

/-- one entry of `Resources.dict()`; `None` fields are dropped, `extra_args` and `parallelization_mode` always present -/
inductive Field
  | cpus (v : Int) | cpusPerNode (v : Int) | nodes (v : Int) | memory (s : String) | gpus (v : Int)
  | time (s : String) | partition (s : String) | extra (l : List (String × Int)) | mode (s : String)
  deriving DecidableEq, Repr

def optF {α} (f : α → Field) : Option α → List Field
  | none => []
  | some v => [f v]

/-- `dict()` (`resources.py:315-324`) in dataclass field order -/
def toDict (r : R) : List Field :=
  optF .cpus r.cpus ++ optF .cpusPerNode r.cpusPerNode ++ optF .nodes r.nodes ++ optF .memory r.memory
    ++ optF .gpus r.gpus ++ optF .time r.time ++ optF .partition r.partition ++ [.extra r.extra, .mode r.mode]

def setField (r : R) : Field → R
  | .cpus v => { r with cpus := some v }
  | .cpusPerNode v => { r with cpusPerNode := some v }
  | .nodes v => { r with nodes := some v }
  | .memory s => { r with memory := some s }
  | .gpus v => { r with gpus := some v }
  | .time s => { r with time := some s }
  | .partition s => { r with partition := some s }
  | .extra l => { r with extra := l }
  | .mode s => { r with mode := s }

/-- `Resources(**data)`: later entries override earlier ones, as in `dict(a, **b)` -/
def fromDict? (d : List Field) : Option R := mk? (d.foldl setField {})

/-- `with_defaults` (`resources.py:288-292`): `Resources(**dict(default.dict(), **self.dict()))` -/
def withDefaults? (self : R) (dflt : Option R) : Option R :=
  match dflt with
  | none => some self
  | some d => fromDict? (toDict d ++ toDict self)

/-- one keyword of `update(**kwargs)`; `unknown k v` is a key that is not a field name (goes to `extra_args`),
    `clear*` passes `None` for a field -/
inductive Upd
  | field (f : Field) | unknown (k : String) (v : Int)
  | clearCpus | clearNodes | clearCpusPerNode | clearMemory | clearGpus | clearTime | clearPartition
  deriving Repr

def applyUpd (data : R) : Upd → R
  | .field (.extra l) => { data with extra := l.foldl (fun a kv => aset a kv.1 kv.2) data.extra }
  | .field f => setField data f
  | .unknown k v => { data with extra := aset data.extra k v }
  | .clearCpus => { data with cpus := none }
  | .clearNodes => { data with nodes := none }
  | .clearCpusPerNode => { data with cpusPerNode := none }
  | .clearMemory => { data with memory := none }
  | .clearGpus => { data with gpus := none }
  | .clearTime => { data with time := none }
  | .clearPartition => { data with partition := none }

/-- `update` (`resources.py:206-227`) returns *(result or ValueError, receiver afterwards)*.  In the repaired code the
    `extra_args` dictionary is copied first, so the receiver is unchanged. -/
def update (self : R) (kw : List Upd) : Option R × R :=
  (mk? (kw.foldl applyUpd self), self)

/-! ### to_slurm_options (`resources.py:183-204`) -/

def truthyI (x : Option Int) : Option Int := match x with | some v => if v ≠ 0 then some v else none | none => none
def truthyS (x : Option String) : Option String := match x with | some s => if s ≠ "" then some s else none | none => none

def optI (flag : String) (x : Option Int) : List String :=
  match truthyI x with | some v => [flag ++ toString v] | none => []
def optS (flag : String) (x : Option String) : List String :=
  match truthyS x with | some v => [flag ++ v] | none => []

def slurmOptions (r : R) : List String :=
  optI "--cpus-per-task=" r.cpus ++ optI "--gres=gpu:" r.gpus ++ optI "--nodes=" r.nodes
    ++ optI "--cpus-per-node=" r.cpusPerNode ++ optS "--mem=" r.memory ++ optS "--time=" r.time
    ++ optS "--partition=" r.partition ++ r.extra.map (fun kv => "--" ++ kv.1 ++ "=" ++ toString kv.2)

def toSlurm (r : R) : String := " ".intercalate (slurmOptions r)

end PF.Res
