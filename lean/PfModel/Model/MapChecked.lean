/-
`Pipeline.map` as `prepare_run` + `run_map` (`pipefunc/map/_prepare.py:61-64`): `_validate_complete_inputs`, then
`validate_consistent_axes(pipeline.mapspecs())` (one axis naming per array; model `PF.MapAxes.validate`, Model/MapConsistent.lean),
then `RunInfo.create` (`map_shapes`) and the run (model `PF.Map.runMap`, which repeats the input validation: it is idempotent).
`runMap` alone (Model/MapRun.lean, shared with many properties, not to be changed) has no axes check; this is the entry point with it.
-/
import PfModel.Model.MapRun
import PfModel.Model.MapConsistent
namespace PF.Map
open PF

/-- `prepare_run` (`map/_prepare.py:61-62`) followed by `run_map`: both checks of `prepare_run` raise `ValueError` -/
def mapChecked (fs : List MFunc) (inputs : List (String × Val)) (userInternal : List (String × List Nat)) : M MapResult :=
  match validateInputs fs inputs with
  | .error e => .error e
  | .ok _ =>
    match PF.MapAxes.validate (PF.MapAxes.mapspecsOf fs) with
    | .error (nm, _) => .error (.value ("MapSpec axes for " ++ nm ++ " are inconsistent"))
    | .ok _ => runMap fs inputs userInternal

end PF.Map
