import PfModel.Lemmas.MapSpecParse
import PfModel.Lemmas.MapSpecShape
import PfModel.Lemmas.MapSpecExtend
/-!
C08 — MapSpec parsing, printing, shapes and index maps are mutually consistent.

Property theorems only.  Model: `Model/MapSpec.lean` (`construct`, `toStr`, `shape`, `outputKey`, `inputKeys`, `rename`,
`addAxes`), `Model/MapSpecParse.lean` (`parse`).  Specifications: `Valid` (Lemmas/MapSpec.lean), `WF` = `Valid` + every
rank ≥ 1 (Lemmas/MapSpecParse.lean), `ShapesFit` / `AxesSpec` (Lemmas/MapSpecShape.lean), `selectC` (Lemmas/MapSpecKeys.lean).

Readings fixed in DESIGN.md: equality is on `(inputs, outputs)` (no `_is_generated`); the denotation theorems assume the
index names of the output are distinct; rank-0 array specs are outside `WF`.
-/
namespace PF.C08
open PF.MS

/-! ## round trip -/

/-- `MapSpec.from_string(str(m)) == m` for every well-formed `m` (any number of inputs and outputs, any rank ≥ 1,
    plain and scoped names, `:` axes, `...` for no inputs). -/
theorem C08_roundtrip (m : MapSpec) (h : WF m) : parse (toStr m) = .ok m := parse_toStr m h

/-! ## acceptance = well-formedness -/

/-- The constructor accepts exactly the specs with none of the malformations (`Valid`), and returns them unchanged. -/
theorem C08_wf_iff_accepted (ins outs : List ArraySpec) (m : MapSpec) :
    construct ins outs = .ok m ↔ (m = ⟨ins, outs⟩ ∧ Valid m) := construct_ok_iff ins outs m

/-- Each of the four malformations of the statement is rejected at construction:
    a non-identifier array or index name; `:` in an output; outputs with different indices; an input index absent
    from an output. -/
theorem C08_rejects_malformed (ins outs : List ArraySpec)
    (h : (∃ a ∈ ins ++ outs, ¬ NamesOK a) ∨ (∃ o ∈ outs, none ∈ o.axes) ∨
         (∃ o ∈ outs, ∃ o' ∈ outs, indices o ≠ indices o') ∨
         (∃ x ∈ ins, ∃ i ∈ indices x, ∃ o ∈ outs, i ∉ indices o)) :
    ∃ e, construct ins outs = .error e ∧ (e = .valueError ∨ e = .indexError) := by
  cases hc : construct ins outs with
  | error e => exact ⟨e, rfl, construct_err ins outs e hc⟩
  | ok m =>
    exfalso
    obtain ⟨rfl, hv⟩ := (construct_ok_iff ins outs m).mp hc
    rcases h with ⟨a, ha, hn⟩ | ⟨o, ho, hn⟩ | ⟨o, ho, o', ho', hn⟩ | ⟨x, hx, i, hi, o, ho, hn⟩
    · exact hn (hv.names a ha)
    · exact hv.no_colon o ho hn
    · exact hn ((hv.same_idx o ho).trans (hv.same_idx o' ho').symm)
    · exact hn (by rw [hv.same_idx o ho]; exact hv.in_sub x hx i hi)

/-- Whatever string `from_string` accepts, the spec it returns has none of the malformations. -/
theorem C08_parse_accepts_only_valid (s : String) (m : MapSpec) (h : parse s = .ok m) : Valid m := by
  have side : ∀ (xs : List Char) (l : List ArraySpec), parseSide xs = .ok l → l.all arrayOK = true := by
    intro xs l hl
    unfold parseSide at hl
    split at hl
    · injection hl with hl; subst hl; rfl
    · split at hl
      · cases hl
      · dsimp only at hl
        split at hl
        · next hall => injection hl with hl; subst hl; exact hall
        · cases hl
  unfold parse parseChars at h
  split at h
  · next a b _ =>
    split at h
    · cases h
    · next ins hi =>
      split at h
      · cases h
      · next outs ho =>
        split at h
        · cases h
        · next hp =>
          injection h with h; subst h
          exact (valid_iff _).mpr ⟨by simp only [side a ins hi, side b outs ho, Bool.and_self], hp⟩
  · cases h

/-- the rejections of the constructor and of `from_string` are `ValueError`s, or the `IndexError` of `outputs[0]` -/
theorem C08_construct_error_kind (ins outs : List ArraySpec) (e : Err) (h : construct ins outs = .error e) :
    e = .valueError ∨ e = .indexError := construct_err ins outs e h

/-! ## output_key -/

/-- Over linear indices `0 … N-1`, `output_key` returns exactly `iterate_shape_indices(shape)`: every position of the
    shape, once, in row-major order (for a shape that passes the method's length test). -/
theorem C08_output_key_enumerates (m : MapSpec) (s : List Nat) (h : s.length = nDistinct (inputIndexList m)) :
    (List.range (PF.prod s)).map (outputKey m s) = (PF.allIdx s).map Except.ok := by
  have : outputKey m s = fun i => .ok (PF.shapeToKey s i) := by
    funext i; simp [outputKey, h]
  rw [this, ← PF.map_key_range, List.map_map]; rfl

/-- The same for the shape over the external indices of a valid spec with distinct output indices (the two length
    tests of `output_key` and `input_keys` agree there). -/
theorem C08_output_key_enumerates_external (m : MapSpec) (hv : Valid m) (hn : (outputIndices m).Nodup) (s : List Nat)
    (h : s.length = (externalIndices m).length) :
    (List.range (PF.prod s)).map (outputKey m s) = (PF.allIdx s).map Except.ok :=
  C08_output_key_enumerates m s (by rw [h, nDistinct_external m hv hn])

/-- exactly once: distinct linear indices below `N` give distinct keys, and every in-range key is hit -/
theorem C08_output_key_bijective (m : MapSpec) (s : List Nat) (h : s.length = nDistinct (inputIndexList m)) :
    (∀ i j, i < PF.prod s → j < PF.prod s → outputKey m s i = outputKey m s j → i = j) ∧
    (∀ k, PF.InRange s k → ∃ i, i < PF.prod s ∧ outputKey m s i = .ok k) := by
  have hk : ∀ i, outputKey m s i = .ok (PF.shapeToKey s i) := by
    intro i; simp [outputKey, h]
  constructor
  · intro i j hi hj e
    rw [hk, hk] at e
    injection e with e
    have a := (PF.ravel_key s i hi).1
    have b := (PF.ravel_key s j hj).1
    rw [← a, ← b, e]
  · intro k hkr
    exact ⟨PF.ravel s k, PF.ravel_lt s k hkr, by rw [hk, PF.key_ravel s k hkr]⟩

/-! ## input_keys -/

/-- For every linear index, `input_keys` gives each input, axis by axis, the whole slice for `:` and otherwise the
    component of the output position (`output_key`) at the place of that axis' index name among the external indices:
    inputs sharing a name get equal components (zip), distinct names range independently (outer product). -/
theorem C08_input_keys_select (m : MapSpec) (hv : Valid m) (hn : (outputIndices m).Nodup) (s : List Nat) (i : Nat)
    (hs : s.length = (externalIndices m).length) :
    ∃ pos, outputKey m s i = .ok pos ∧
      inputKeys m s i = .ok (m.inputs.map fun x => (x.name, x.axes.map (selectC (externalIndices m) pos))) := by
  refine ⟨PF.shapeToKey s i, ?_, inputKeys_select m hv (external_nodup m hn) s i hs⟩
  simp [outputKey, hs, nDistinct_external m hv hn]

/-- the same, one component at a time -/
theorem C08_input_keys_component (m : MapSpec) (hv : Valid m) (hn : (outputIndices m).Nodup) (s : List Nat) (i : Nat)
    (hs : s.length = (externalIndices m).length) :
    ∃ pos ks, outputKey m s i = .ok pos ∧ inputKeys m s i = .ok ks ∧ ks.map (·.1) = m.inputs.map (·.name) ∧
      ∀ (p : Nat) (x : ArraySpec), m.inputs[p]? = some x → ∃ key, ks[p]? = some (x.name, key) ∧
        ∀ (q : Nat), (x.axes[q]? = some none → key[q]? = some none) ∧
          (∀ ax, x.axes[q]? = some (some ax) → ax ∈ externalIndices m ∧
            key[q]? = some (some (pos.getD (posOf ax (externalIndices m)) 0))) := by
  obtain ⟨pos, h1, h2⟩ := C08_input_keys_select m hv hn s i hs
  refine ⟨pos, _, h1, h2, by simp [List.map_map, Function.comp_def], ?_⟩
  intro p x hp
  refine ⟨x.axes.map (selectC (externalIndices m) pos), by simp [List.getElem?_map, hp], ?_⟩
  intro q
  constructor
  · intro hq; simp [List.getElem?_map, hq, selectC]
  · intro ax hq
    have hx : x ∈ m.inputs := List.mem_of_getElem? hp
    refine ⟨valid_axis_external m hv x hx ax (List.mem_of_getElem? hq), ?_⟩
    simp [List.getElem?_map, hq, selectC]

/-! ## shape -/

/-- `shape` succeeds with `(sh, mk)` iff the dictionaries fit the spec (names, ranks) and `(sh, mk)` is the shape the
    inputs imply along the axes of the first output (`AxesSpec`). -/
theorem C08_shape (m : MapSpec) (o : ArraySpec) (rest : List ArraySpec) (ho : m.outputs = o :: rest)
    (ins internal : ShapeDict) (sh : List Nat) (mk : List Bool) :
    shape m ins internal = .ok (sh, mk) ↔
      (ShapesFit m ins internal ∧ AxesSpec m ins ((lookup o.name internal).getD []) o.axes sh mk) := by
  unfold shape
  by_cases hf : validateShapes m ins internal = true
  · simp only [hf, Bool.not_true, Bool.false_eq_true, ↓reduceIte, ho]
    rw [shapeLoop_ok_iff]
    simp only [List.drop_zero]
    exact ⟨fun h => ⟨(validateShapes_iff m ins internal).mp hf, h⟩, fun h => h.2⟩
  · simp only [Bool.eq_false_iff.mpr hf, Bool.not_false, ↓reduceIte]
    constructor
    · intro h; cases h
    · intro h; exact absurd ((validateShapes_iff m ins internal).mpr h.1) hf

/-- what `AxesSpec` says position by position: the mask tells which output axes occur in an input; along such an axis
    the size is the size of *every* input carrying that index name (at that name's axis); the other axes take the
    internal shape of the first output, in order. -/
theorem C08_shape_denotes (m : MapSpec) (o : ArraySpec) (rest : List ArraySpec) (ho : m.outputs = o :: rest)
    (ins internal : ShapeDict) (sh : List Nat) (mk : List Bool) (h : shape m ins internal = .ok (sh, mk)) :
    mk = o.axes.map (isExt m) ∧ sh.length = o.axes.length ∧
    (∀ (q : Nat) (ax : String), o.axes[q]? = some (some ax) → ∀ x ∈ m.inputs, some ax ∈ x.axes →
        ∃ sx p, lookup x.name ins = some sx ∧ sx.length = x.axes.length ∧ axisPos ax x.axes = some p ∧ sx[p]? = sh[q]?) ∧
    PF.intOf mk sh = ((lookup o.name internal).getD []).take (PF.nFalse mk) ∧
    PF.nFalse mk ≤ ((lookup o.name internal).getD []).length := by
  obtain ⟨hf, ha⟩ := (C08_shape m o rest ho ins internal sh mk).mp h
  have hm := axesSpec_mask m ins _ _ _ _ ha
  have hi := axesSpec_internal m ins _ _ _ _ ha
  refine ⟨hm.1, hm.2, ?_, hi.1, hi.2⟩
  intro q ax hq x hx hax
  have hd := axesSpec_external m ins _ _ _ _ ha q ax hq x ((mem_relevant m ax x).mpr ⟨hx, hax⟩)
  obtain ⟨sx, hs, hl⟩ := hf.ranks x hx
  obtain ⟨p, hp, _, _⟩ := axisPos_some ax x.axes hax
  refine ⟨sx, p, hs, hl, hp, ?_⟩
  unfold getDim at hd
  rw [hs, hp] at hd
  exact hd

/-- on a valid spec `shape` raises nothing but `ValueError` -/
theorem C08_shape_error (m : MapSpec) (hv : Valid m) (ins internal : ShapeDict) (e : Err)
    (h : shape m ins internal = .error e) : e = .valueError := by
  unfold shape at h
  split at h
  · injection h with h; exact h.symm
  · next hf =>
    have hf' : ShapesFit m ins internal := (validateShapes_iff m ins internal).mp (by simpa using hf)
    split at h
    · next hno => exact absurd hno hv.out_ne
    · next o r hor =>
      refine shapeLoop_err m ins _ (fun ax y hy => getDim_isSome m ins internal hf' ax y hy) o.axes 0 e ?_ h
      intro a ha e'
      subst e'
      exact hv.no_colon o (by rw [hor]; exact List.mem_cons_self) ha

/-- a rank mismatch (or a missing / foreign input, or an internal shape for a non-output) raises `ValueError` -/
theorem C08_shape_rank_mismatch (m : MapSpec) (ins internal : ShapeDict)
    (h : ¬ ShapesFit m ins internal) : shape m ins internal = .error .valueError := by
  unfold shape
  have : validateShapes m ins internal = false :=
    Bool.eq_false_iff.mpr fun hf => h ((validateShapes_iff m ins internal).mp hf)
  simp [this]

/-- a zipped-dimension mismatch — two inputs carrying the same output index with different sizes — raises `ValueError` -/
theorem C08_shape_zipped_mismatch (m : MapSpec) (hv : Valid m) (ins internal : ShapeDict) (x y : ArraySpec) (ax : String)
    (hx : x ∈ m.inputs) (hy : y ∈ m.inputs) (hax : some ax ∈ x.axes) (hay : some ax ∈ y.axes)
    (dx dy : Nat) (hdx : getDim ins x ax = some dx) (hdy : getDim ins y ax = some dy) (hne : dx ≠ dy) :
    shape m ins internal = .error .valueError := by
  cases hs : shape m ins internal with
  | error e => rw [C08_shape_error m hv ins internal e hs]
  | ok p =>
    exfalso
    obtain ⟨sh, mk⟩ := p
    cases ho : m.outputs with
    | nil => exact hv.out_ne ho
    | cons o rest =>
      obtain ⟨_, ha⟩ := (C08_shape m o rest ho ins internal sh mk).mp hs
      have hin : ax ∈ outputIndices m := hv.in_sub x hx ax ((mem_indices x ax).mpr hax)
      have : some ax ∈ o.axes := by
        unfold outputIndices at hin; rw [ho] at hin; exact (mem_indices o ax).mp hin
      obtain ⟨q, hq⟩ := List.getElem?_of_mem this
      have h1 := axesSpec_external m ins _ _ _ _ ha q ax hq x ((mem_relevant m ax x).mpr ⟨hx, hax⟩)
      have h2 := axesSpec_external m ins _ _ _ _ ha q ax hq y ((mem_relevant m ax y).mpr ⟨hy, hay⟩)
      rw [hdx] at h1; rw [hdy, ← h1] at h2
      injection h2 with h2; exact hne h2.symm

/-! ## rename, add_axes -/

/-- `rename` of a valid spec to valid names succeeds, gives the spec with the array names replaced, which is again valid,
    has the same indices, and whose `input_keys` are those of `m` under the new names. -/
theorem C08_rename (ρ : List (String × String)) (m : MapSpec) (hv : Valid m)
    (hρ : ∀ a ∈ m.inputs ++ m.outputs, nameOKChars (renameName ρ a.name).toList = true) :
    ∃ m', rename ρ m = .ok m' ∧ Valid m' ∧
      m'.inputs = m.inputs.map (renameSpec ρ) ∧ m'.outputs = m.outputs.map (renameSpec ρ) ∧
      externalIndices m' = externalIndices m ∧ outputIndices m' = outputIndices m ∧
      (∀ s i, outputKey m' s i = outputKey m s i) ∧
      (∀ s i ks, inputKeys m s i = .ok ks → inputKeys m' s i = .ok (ks.map fun p => (renameName ρ p.1, p.2))) := by
  refine ⟨_, rename_ok ρ m hv hρ, valid_rename ρ m hv hρ, rfl, rfl, externalIndices_rename ρ m, outputIndices_rename ρ m, ?_, ?_⟩
  · intro s i; unfold outputKey; rw [inputIndexList_rename]
  · intro s i ks hk
    unfold inputKeys at hk ⊢
    rw [externalIndices_rename]
    split
    · next hl => rw [if_pos hl] at hk; cases hk
    · next hl =>
      rw [if_neg hl] at hk
      exact keysOf_rename ρ _ m.inputs ks hk

/-- `add_axes` with fresh identifier axes succeeds on a valid spec: every array gets the axes appended, and the result is valid. -/
theorem C08_add_axes (axis : List String) (m : MapSpec) (hv : Valid m) (hf : FreshAxes axis m) :
    ∃ m', addAxes (axis.map some) m = .ok m' ∧ Valid m' ∧
      m'.inputs = m.inputs.map (extendSpec (axis.map some)) ∧ m'.outputs = m.outputs.map (extendSpec (axis.map some)) ∧
      outputIndices m' = outputIndices m ++ axis :=
  ⟨_, addAxes_ok axis m hv hf, valid_extend axis m hv hf, rfl, rfl, outputIndices_extend axis m hv.out_ne⟩

/-- the extended mapping: after `add_axes(a)` the external indices gain the trailing index `a`, shared by all arrays —
    for the shape extended by `d` and the linear index `i·d + j`, every input key is the old key with `j` appended. -/
theorem C08_add_axes_denotes (m : MapSpec) (hv : Valid m) (a : String) (hf : FreshAxes [a] m) (hne : m.inputs ≠ [])
    (hn : (outputIndices m).Nodup) (s : List Nat) (hs : s.length = (externalIndices m).length)
    (d i j : Nat) (hj : j < d) :
    ∃ m' ks, addAxes [some a] m = .ok m' ∧ externalIndices m' = externalIndices m ++ [a] ∧
      inputKeys m s i = .ok ks ∧
      inputKeys m' (s ++ [d]) (i * d + j) = .ok (ks.map fun p => (p.1, p.2 ++ [some j])) := by
  refine ⟨_, _, addAxes_ok [a] m hv hf, externalIndices_extend m hv a hf hne,
    inputKeys_select m hv (external_nodup m hn) s i hs, ?_⟩
  have := inputKeys_extend m hv a hf hne (external_nodup m hn) s hs d i j hj
  simp only [List.map_cons, List.map_nil] at this ⊢
  rw [this, List.map_map]
  rfl

/-- `add_axes` rejects an axis name already used by one of the arrays, and `:` (it would reach the outputs) -/
theorem C08_add_axes_rejects (axis : List (Option String)) (m : MapSpec) (hv : Valid m)
    (h : (∃ a, some a ∈ axis ∧ ∃ x ∈ m.inputs ++ m.outputs, some a ∈ x.axes) ∨ none ∈ axis) :
    ∃ e, addAxes axis m = .error e := by
  cases hc : addAxes axis m with
  | error e => exact ⟨e, rfl⟩
  | ok m' =>
    exfalso
    unfold addAxes at hc
    split at hc
    · cases hc
    · next hcl =>
      obtain ⟨rfl, hv'⟩ := (construct_ok_iff _ _ _).mp hc
      rcases h with ⟨a, ha, x, hx, hax⟩ | hnone
      · apply hcl
        apply List.any_eq_true.mpr
        refine ⟨x, hx, ?_⟩
        unfold clashes
        apply List.any_eq_true.mpr
        exact ⟨some a, ha, by simp [hax]⟩
      · cases ho : m.outputs with
        | nil => exact hv.out_ne ho
        | cons o r =>
          refine hv'.no_colon (extendSpec axis o) ?_ ?_
          · simp [ho]
          · simp [extendSpec, hnone]

/-! ## the pinned code (before the DF-10 repair) violates the property; the repaired check does not -/

/-- DF-10: the pinned `__post_init__` accepts `a[i] -> b[i], c[i, :]`, a spec with `:` in an output. -/
theorem C08_df10_legacy_witness :
    constructLegacy [⟨"a", [some "i"]⟩] [⟨"b", [some "i"]⟩, ⟨"c", [some "i", none]⟩] =
        .ok ⟨[⟨"a", [some "i"]⟩], [⟨"b", [some "i"]⟩, ⟨"c", [some "i", none]⟩]⟩ ∧
      ¬ Valid ⟨[⟨"a", [some "i"]⟩], [⟨"b", [some "i"]⟩, ⟨"c", [some "i", none]⟩]⟩ ∧
      parseLegacy "a[i] -> b[i], c[i, :]" = .ok ⟨[⟨"a", [some "i"]⟩], [⟨"b", [some "i"]⟩, ⟨"c", [some "i", none]⟩]⟩ := by
  refine ⟨rfl, ?_, rfl⟩
  intro h
  exact h.no_colon ⟨"c", [some "i", none]⟩ (by simp) (by simp)

/-- the repaired check rejects it, from the constructor and from `from_string` -/
theorem C08_df10_repaired :
    construct [⟨"a", [some "i"]⟩] [⟨"b", [some "i"]⟩, ⟨"c", [some "i", none]⟩] = .error .valueError ∧
      parse "a[i] -> b[i], c[i, :]" = .error .valueError := ⟨rfl, rfl⟩

/-! ## non-vacuity -/

/-- `x[i, j], y.s[j, :, k] -> z[i, j, k]` -/
def ex1 : MapSpec :=
  ⟨[⟨"x", [some "i", some "j"]⟩, ⟨"y.s", [some "j", none, some "k"]⟩], [⟨"z", [some "i", some "j", some "k"]⟩]⟩

/-- `... -> out[i]` (no inputs) -/
def ex2 : MapSpec := ⟨[], [⟨"out", [some "i"]⟩]⟩

theorem C08_nonvacuous_ex1 : Valid ex1 := (valid_iff ex1).mpr ⟨by decide, rfl⟩
theorem C08_nonvacuous_ex2 : Valid ex2 := (valid_iff ex2).mpr ⟨by decide, rfl⟩

example : WF ex1 := ⟨C08_nonvacuous_ex1, by decide⟩
example : WF ex2 := ⟨C08_nonvacuous_ex2, by decide⟩
example : toStr ex1 = "x[i, j], y.s[j, :, k] -> z[i, j, k]" := by decide
example : parse (toStr ex1) = .ok ex1 := C08_roundtrip ex1 ⟨C08_nonvacuous_ex1, by decide⟩
example : parse "... -> out[i]" = .ok ex2 := rfl
example : (outputIndices ex1).Nodup := by decide
example : externalIndices ex1 = ["i", "j", "k"] := by decide
example : [5, 2, 3].length = nDistinct (inputIndexList ex1) := by decide
example : outputKey ex1 [5, 2, 3] 23 = .ok [3, 1, 2] := rfl
example : inputKeys ex1 [5, 2, 3] 23 = .ok [("x", [some 3, some 1]), ("y.s", [some 1, none, some 2])] := rfl
example : shape ex1 [("x", [5, 2]), ("y.s", [2, 7, 3])] [] = .ok ([5, 2, 3], [true, true, true]) := rfl
example : shape ex1 [("x", [5, 2]), ("y.s", [3, 7, 3])] [] = .error .valueError := rfl          -- zipped mismatch on j
example : shape ex1 [("x", [5, 2]), ("y.s", [2, 3])] [] = .error .valueError := rfl             -- rank mismatch
example : shape ⟨[⟨"x", [some "i"]⟩], [⟨"y", [some "i", some "j"]⟩]⟩ [("x", [3])] [("y", [2])] = .ok ([3, 2], [true, false]) := rfl
example : ShapesFit ex1 [("x", [5, 2]), ("y.s", [2, 7, 3])] [] :=
  (validateShapes_iff _ _ _).mp (by decide)
example : ¬ ShapesFit ex1 [("x", [5, 2]), ("y.s", [2, 3])] [] := fun h => by
  have := (validateShapes_iff _ _ _).mpr h; revert this; decide
example : getDim [("x", [5, 2]), ("y.s", [3, 7, 3])] ⟨"x", [some "i", some "j"]⟩ "j" = some 2 := by decide
example : ∀ a ∈ ex1.inputs ++ ex1.outputs, nameOKChars (renameName [("x", "w.v")] a.name).toList = true := by decide
example : rename [("x", "w.v")] ex1 =
    .ok ⟨[⟨"w.v", [some "i", some "j"]⟩, ⟨"y.s", [some "j", none, some "k"]⟩], [⟨"z", [some "i", some "j", some "k"]⟩]⟩ := rfl
example : FreshAxes ["q"] ex1 := ⟨by decide, by decide⟩
example : ex1.inputs ≠ [] := by decide
example : inputKeys ⟨ex1.inputs.map (extendSpec [some "q"]), ex1.outputs.map (extendSpec [some "q"])⟩ [5, 2, 3, 4] (23 * 4 + 1) =
    .ok [("x", [some 3, some 1, some 1]), ("y.s", [some 1, none, some 2, some 1])] := rfl
example : ∃ e, addAxes [some "i"] ex1 = .error e := ⟨_, rfl⟩
example : ∃ e, addAxes [none] ex1 = .error e := ⟨_, rfl⟩
example : ¬ NamesOK ⟨"1a", [some "i"]⟩ := fun h => by have := (arrayOK_iff _).mpr h; revert this; decide
example : construct [⟨"a", [some "k"]⟩] [⟨"b", [some "i"]⟩] = .error .valueError := rfl
example : construct [] [] = .error .indexError := rfl

end PF.C08
