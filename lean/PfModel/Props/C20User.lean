import PfModel.Props.C20
import PfModel.Props.C20Heap
/-!
C20 — the clauses of the property text at user level, obtained by chaining the existing theorems, and the remaining
"whenever it returns" hypothesis of `C20_with_defaults` settled.

* `C20_with_defaults_valid_iff`: for VALID receiver and defaults, `with_defaults` raises exactly when one side sets `cpus` and the
  other `nodes` (so `C20_with_defaults`'s hypothesis "it returned" is decidable from the operands, and nothing else can go wrong).
* `C20_with_defaults_total`: without that conflict it returns, and the result is the keep-set / fill-unset record.
* `C20_heap_combine_max_user`: `combine_max` on the object model for valid operands never raises, returns a NEW instance with a NEW
  dict object, at least as large as every operand in cpus / gpus / memory (by size) / time (by duration), all operands unchanged.
* `C20_heap_with_defaults_user`: the same chain for `with_defaults` with an instance.
* `C20_combine_drops_nodes`: what the `≥` clause does NOT cover: `nodes` and `cpus_per_node` of a non-empty `combine_max` are always
  unset (the property text lists cpus, gpus, memory, time only).
-/
namespace PF.C20
open PF.Res PF.ResH

/-- For valid receiver `a` and valid defaults `d`, `a.with_defaults(d)` raises exactly when the merged record would hold both `cpus`
    and `nodes`, i.e. one side sets `cpus` and the other `nodes`.  No other validation rule can fire on a merge of two valid records. -/
theorem C20_with_defaults_valid_iff (a d : R) (ha : Valid a = true) (hd : Valid d = true) :
    withDefaults? a (some d) = none ↔
      (a.cpus.isSome ∧ d.nodes.isSome) ∨ (a.nodes.isSome ∧ d.cpus.isSome) := by
  have va := (C20_validate a).mp (by simp [mk?, ha])
  have vd := (C20_validate d).mp (by simp [mk?, hd])
  obtain ⟨a1, a2, a3, a4, a5, a6, a7, a8⟩ := va
  obtain ⟨d1, d2, d3, d4, d5, d6, d7, d8⟩ := vd
  have key : withDefaults? a (some d) = none ↔ ¬ (mk? (overlay (overlay {} d) a)).isSome := by
    simp only [withDefaults?, fromDict?, List.foldl_append, foldl_toDict]
    cases mk? (overlay (overlay {} d) a) <;> simp
  rw [key, C20_validate]
  have p1 : ∀ c, (overlay (overlay {} d) a).cpus = some c → c > 0 := by
    intro c hc; simp only [overlay] at hc
    cases h : a.cpus with
    | some x => rw [h] at hc; exact a1 c (by rw [h]; simpa using hc)
    | none => rw [h] at hc; cases h' : d.cpus with
      | some y => rw [h'] at hc; exact d1 c (by rw [h']; simpa using hc)
      | none => rw [h'] at hc; simp at hc
  have p2 : ∀ c, (overlay (overlay {} d) a).gpus = some c → c ≥ 0 := by
    intro c hc; simp only [overlay] at hc
    cases h : a.gpus with
    | some x => rw [h] at hc; exact a2 c (by rw [h]; simpa using hc)
    | none => rw [h] at hc; cases h' : d.gpus with
      | some y => rw [h'] at hc; exact d2 c (by rw [h']; simpa using hc)
      | none => rw [h'] at hc; simp at hc
  have p3 : ∀ c, (overlay (overlay {} d) a).nodes = some c → c > 0 := by
    intro c hc; simp only [overlay] at hc
    cases h : a.nodes with
    | some x => rw [h] at hc; exact a3 c (by rw [h]; simpa using hc)
    | none => rw [h] at hc; cases h' : d.nodes with
      | some y => rw [h'] at hc; exact d3 c (by rw [h']; simpa using hc)
      | none => rw [h'] at hc; simp at hc
  have p4 : ∀ c, (overlay (overlay {} d) a).cpusPerNode = some c → c > 0 := by
    intro c hc; simp only [overlay] at hc
    cases h : a.cpusPerNode with
    | some x => rw [h] at hc; exact a4 c (by rw [h]; simpa using hc)
    | none => rw [h] at hc; cases h' : d.cpusPerNode with
      | some y => rw [h'] at hc; exact d4 c (by rw [h']; simpa using hc)
      | none => rw [h'] at hc; simp at hc
  have p5 : ∀ c, (overlay (overlay {} d) a).memory = some c → (memSize? c).isSome := by
    intro c hc; simp only [overlay] at hc
    cases h : a.memory with
    | some x => rw [h] at hc; exact a5 c (by rw [h]; simpa using hc)
    | none => rw [h] at hc; cases h' : d.memory with
      | some y => rw [h'] at hc; exact d5 c (by rw [h']; simpa using hc)
      | none => rw [h'] at hc; simp at hc
  have p6 : ∀ c, (overlay (overlay {} d) a).time = some c → (timeSecs? c).isSome := by
    intro c hc; simp only [overlay] at hc
    cases h : a.time with
    | some x => rw [h] at hc; exact a6 c (by rw [h]; simpa using hc)
    | none => rw [h] at hc; cases h' : d.time with
      | some y => rw [h'] at hc; exact d6 c (by rw [h']; simpa using hc)
      | none => rw [h'] at hc; simp at hc
  have p8 : ¬ ((overlay (overlay {} d) a).cpusPerNode.isSome ∧ (overlay (overlay {} d) a).nodes.isNone) := by
    simp only [overlay]
    cases h1 : a.cpusPerNode <;> cases h2 : a.nodes <;> cases h3 : d.cpusPerNode <;> cases h4 : d.nodes <;>
      simp_all
  have p7 : ¬ ((overlay (overlay {} d) a).nodes.isSome ∧ (overlay (overlay {} d) a).cpus.isSome) ↔
      ¬ ((a.cpus.isSome ∧ d.nodes.isSome) ∨ (a.nodes.isSome ∧ d.cpus.isSome)) := by
    simp only [overlay]
    cases h1 : a.cpus <;> cases h2 : a.nodes <;> cases h3 : d.cpus <;> cases h4 : d.nodes <;> simp_all
  constructor
  · intro hn
    apply Classical.byContradiction
    intro hc
    exact hn ⟨p1, p2, p3, p4, p5, p6, p7.mpr hc, p8⟩
  · intro hc hn
    exact (p7.mp hn.2.2.2.2.2.2.1) hc

/-- Hence, without a cpus/nodes conflict, `with_defaults` of valid operands returns, every quantity set on the receiver is kept and
    every unset one is filled from the defaults: the hypothesis "whenever it returns" of `C20_with_defaults` is discharged. -/
theorem C20_with_defaults_total (a d : R) (ha : Valid a = true) (hd : Valid d = true)
    (hc : ¬ ((a.cpus.isSome ∧ d.nodes.isSome) ∨ (a.nodes.isSome ∧ d.cpus.isSome))) :
    ∃ w, withDefaults? a (some d) = some w ∧ Valid w = true ∧
      w.cpus = (a.cpus <|> d.cpus) ∧ w.cpusPerNode = (a.cpusPerNode <|> d.cpusPerNode) ∧ w.nodes = (a.nodes <|> d.nodes) ∧
      w.memory = (a.memory <|> d.memory) ∧ w.gpus = (a.gpus <|> d.gpus) ∧ w.time = (a.time <|> d.time) ∧
      w.partition = (a.partition <|> d.partition) ∧ w.extra = a.extra ∧ w.mode = a.mode := by
  cases h : withDefaults? a (some d) with
  | none => exact absurd ((C20_with_defaults_valid_iff a d ha hd).mp h) hc
  | some w =>
    refine ⟨w, rfl, ?_, C20_with_defaults a d w h⟩
    simp only [withDefaults?, fromDict?, mk?] at h
    split at h
    · cases h; assumption
    · cases h

/-- decide witnesses: the conflict really is refused in both directions, valid operands without it are merged. -/
theorem C20_with_defaults_conflict_examples :
    withDefaults? { cpus := some 2 } (some { nodes := some 1 }) = none ∧
    withDefaults? { nodes := some 1, cpusPerNode := some 4 } (some { cpus := some 2 }) = none ∧
    withDefaults? { gpus := some 1 } (some { nodes := some 1, cpusPerNode := some 4, gpus := some 3 }) =
      some { nodes := some 1, cpusPerNode := some 4, gpus := some 1 } := by decide

/-- non-vacuity of `C20_with_defaults_valid_iff` / `_total`: valid operands, one pair in conflict and one not. -/
example :
    Valid ({ cpus := some 2, memory := some "1.5GB" } : R) = true ∧ Valid ({ nodes := some 1 } : R) = true ∧
    Valid ({ gpus := some 3, time := some "10:00" } : R) = true ∧
    ¬ ((({ cpus := some 2, memory := some "1.5GB" } : R).cpus.isSome ∧ ({ gpus := some 3, time := some "10:00" } : R).nodes.isSome) ∨
       (({ cpus := some 2, memory := some "1.5GB" } : R).nodes.isSome ∧ ({ gpus := some 3, time := some "10:00" } : R).cpus.isSome)) := by
  decide

/-- What "at least as large in each quantity" does not cover: a non-empty `combine_max` never sets `nodes` or `cpus_per_node`,
    whatever the operands hold (`max_data` has no such keys, `resources.py:250-297`). -/
theorem C20_combine_drops_nodes (l : List R) (hl : l ≠ []) :
    (combineMax l).nodes = none ∧ (combineMax l).cpusPerNode = none := by
  rcases fold_nodes l {} with h | h
  · exact h
  · exact absurd h hl

/-- witness: a single valid operand with `nodes=4, cpus_per_node=8` comes back without them. -/
example : Valid ({ nodes := some 4, cpusPerNode := some 8 } : R) = true ∧
    combineMax [{ nodes := some 4, cpusPerNode := some 8 }] = {} := by decide

/-- `Resources.combine_max(resources_list)` at user level, on the object model: for existing, valid operands (repeats and shared
    `extra_args` objects allowed) the call does not raise; its result is a new instance (no operand) holding a new dict object; it is at
    least as large as every operand in cpus, gpus, memory (by size) and time (by duration); and every instance and dict object that
    existed — all operands in particular — is unchanged. -/
theorem C20_heap_combine_max_user (h : Heap) (wf : WF h) (l : List Nat) (hl : ∀ o ∈ l, o < h.recs.length)
    (hv : ∀ o ∈ l, Valid (view h o) = true) :
    let res := h.recs.length
    let h' := (combineMaxH h l).2
    (combineMaxH h l).1 = some res ∧
    (∀ o ∈ l, o ≠ res ∧ (h'.obj o).ex ≠ (h'.obj res).ex) ∧
    (∀ o ∈ l, ∀ c, (view h o).cpus = some c → ∃ c', (view h' res).cpus = some c' ∧ c ≤ c') ∧
    (∀ o ∈ l, ∀ g, (view h o).gpus = some g → ∃ g', (view h' res).gpus = some g' ∧ g ≤ g') ∧
    (∀ o ∈ l, ∀ m, (view h o).memory = some m → ∃ m', (view h' res).memory = some m' ∧ MemLe m m') ∧
    (∀ o ∈ l, ∀ t, (view h o).time = some t → ∃ t', (view h' res).time = some t' ∧ TimeLe t t') ∧
    (∀ o, o < h.recs.length → h'.obj o = h.obj o ∧ view h' o = view h o) ∧
    (∀ r, r < h.dicts.length → h'.dict r = h.dict r) := by
  intro res h'
  obtain ⟨x, hres, fr, hview⟩ := C20_heap_combine_max h wf l hl
  have hv' : ∀ r ∈ l.map (view h), Valid r = true := by
    intro r hr; obtain ⟨o, ho, rfl⟩ := List.mem_map.mp hr; exact hv o ho
  have hvalid := C20_combine_valid (l.map (view h)) hv'
  obtain ⟨gc, gg, gm, gt⟩ := C20_combine_ge (l.map (view h)) hv'
  obtain ⟨un1, un2⟩ := C20_heap_operands_unchanged h h' x wf
  have ns := (C20_heap_no_show_through h h' x wf res fr).1
  refine ⟨?_, fun o ho => ns o (hl o ho), ?_, ?_, ?_, ?_, un1, un2⟩
  · rw [hres]; simp [mk?, hvalid, res]
  · intro o ho c hc; show ∃ c', (view (combineMaxH h l).2 h.recs.length).cpus = some c' ∧ c ≤ c'
    rw [hview]; exact gc (view h o) (List.mem_map.mpr ⟨o, ho, rfl⟩) c hc
  · intro o ho c hc; show ∃ c', (view (combineMaxH h l).2 h.recs.length).gpus = some c' ∧ c ≤ c'
    rw [hview]; exact gg (view h o) (List.mem_map.mpr ⟨o, ho, rfl⟩) c hc
  · intro o ho c hc; show ∃ c', (view (combineMaxH h l).2 h.recs.length).memory = some c' ∧ MemLe c c'
    rw [hview]; exact gm (view h o) (List.mem_map.mpr ⟨o, ho, rfl⟩) c hc
  · intro o ho c hc; show ∃ c', (view (combineMaxH h l).2 h.recs.length).time = some c' ∧ TimeLe c c'
    rw [hview]; exact gt (view h o) (List.mem_map.mpr ⟨o, ho, rfl⟩) c hc

/-- non-vacuity: the example heap (instances 0 and 1 SHARE dict object 0) is well-formed, its three instances exist and are valid. -/
example : WF exHeap ∧ (∀ o ∈ [0, 1, 2, 0], o < exHeap.recs.length) ∧ (∀ o ∈ [0, 1, 2, 0], Valid (view exHeap o) = true) :=
  ⟨C20_heap_example_wf, by decide, by decide⟩

/-- `self.with_defaults(d)` with an instance `d` at user level, on the object model: for existing, valid receiver and defaults without a
    cpus/nodes conflict the call does not raise; the result is a new instance with a new dict object; it keeps every quantity set on the
    receiver and fills only unset ones; receiver, defaults and everything else that existed are unchanged. -/
theorem C20_heap_with_defaults_user (h : Heap) (wf : WF h) (self d : Nat) (hs : self < h.recs.length) (hd : d < h.recs.length)
    (vs : Valid (view h self) = true) (vd : Valid (view h d) = true)
    (hc : ¬ (((view h self).cpus.isSome ∧ (view h d).nodes.isSome) ∨ ((view h self).nodes.isSome ∧ (view h d).cpus.isSome))) :
    let res := h.recs.length
    let h' := (withDefaultsH h self (some d)).2
    (withDefaultsH h self (some d)).1 = some res ∧
    (∀ p, p < h.recs.length → p ≠ res ∧ (h'.obj p).ex ≠ (h'.obj res).ex) ∧
    (view h' res).cpus = ((view h self).cpus <|> (view h d).cpus) ∧
    (view h' res).cpusPerNode = ((view h self).cpusPerNode <|> (view h d).cpusPerNode) ∧
    (view h' res).nodes = ((view h self).nodes <|> (view h d).nodes) ∧
    (view h' res).memory = ((view h self).memory <|> (view h d).memory) ∧
    (view h' res).gpus = ((view h self).gpus <|> (view h d).gpus) ∧
    (view h' res).time = ((view h self).time <|> (view h d).time) ∧
    (view h' res).partition = ((view h self).partition <|> (view h d).partition) ∧
    (view h' res).extra = (view h self).extra ∧
    (∀ o, o < h.recs.length → h'.obj o = h.obj o ∧ view h' o = view h o) ∧
    (∀ r, r < h.dicts.length → h'.dict r = h.dict r) := by
  intro res h'
  obtain ⟨x, hres, fr, hview⟩ := C20_heap_with_defaults h wf self d hs hd
  obtain ⟨w, hw, _, k1, k2, k3, k4, k5, k6, k7, k8, _⟩ := C20_with_defaults_total (view h self) (view h d) vs vd hc
  obtain ⟨un1, un2⟩ := C20_heap_operands_unchanged h h' x wf
  have ns := (C20_heap_no_show_through h h' x wf res fr).1
  have e : view h' res = w := hview w hw
  refine ⟨?_, ns, ?_, ?_, ?_, ?_, ?_, ?_, ?_, ?_, un1, un2⟩
  · rw [hres, hw]; rfl
  all_goals rw [e]; assumption

/-- non-vacuity: receiver 0 (`cpus=1`) and defaults 1 (`gpus=2, time='10:00'`) of the example heap meet every hypothesis. -/
example : WF exHeap ∧ 0 < exHeap.recs.length ∧ 1 < exHeap.recs.length ∧ Valid (view exHeap 0) = true ∧
    Valid (view exHeap 1) = true ∧
    ¬ (((view exHeap 0).cpus.isSome ∧ (view exHeap 1).nodes.isSome) ∨ ((view exHeap 0).nodes.isSome ∧ (view exHeap 1).cpus.isSome)) :=
  ⟨C20_heap_example_wf, by decide, by decide, by decide, by decide, by decide⟩

end PF.C20
