/-
Exception classes with a meaning to the machinery (C13, extension 3).

1. **Renaming the exception** (`mapOracle`, `…​.mapExn`).  The failure models never look inside an `Exn`: replacing every exception the
   oracle answers by `h` of it (another class — `StopIteration`, `KeyError`, `TimeoutError`, … —, other args, none at all) changes
   nothing of a run but the exception that is delivered, which becomes `h` of the one delivered before.  That is what
   `[process_index(i) for i in indices]`, `[_result(x) for x in r]` (`pipefunc/map/_run.py:700, 1007`), `Future.result()` and
   `raise` do: none of them dispatches on the class.  (`list(map(f, xs))` does — it reads a `StopIteration` escaping from `f` as the
   end of the iteration — `collectIter` below.)
2. **`await`** (`_result_async`, `map/_run.py:975-1016`, after the fix "map_async hands a user function's exception to the caller
   unchanged"): the very exception object reaches the awaiting coroutine, except a `StopIteration`, which no coroutine can raise
   (PEP 479): it arrives as a `RuntimeError` whose `__cause__` it is, with its notes → `awaitExn`.
Core Lean only.
-/
import PfModel.Model.Errors
import PfModel.Model.ErrorsAsync
namespace PF.Errors
open PF PF.Map

/-- the oracle that raises `h x` wherever `fails` raises `x` (same invocations) -/
def mapOracle (h : Exn → Exn) (fails : Oracle) : Oracle := fun n kw => (fails n kw).map h

def Snapshot.mapExn (h : Exn → Exn) (s : Snapshot) : Snapshot := { s with exn := h s.exn }

def Raised.mapExn (h : Exn → Exn) (r : Raised) : Raised := { r with exn := h r.exn, snap := r.snap.mapExn h }

def GenOut.mapExn (h : Exn → Exn) : GenOut → GenOut
  | .ok rs log => .ok rs log
  | .refused e => .refused e
  | .raised r log sl => .raised (r.mapExn h) log sl
  | .hang log => .hang log

def RunOut.mapExn (h : Exn → Exn) : RunOut → RunOut
  | .ok rs env log => .ok rs env log
  | .refused e => .refused e
  | .raised g r log st => .raised g (r.mapExn h) log st
  | .hang g log => .hang g log

def Outcome.mapExn (h : Exn → Exn) : Outcome → Outcome
  | .done r => .done r
  | .refused e => .refused e
  | .raised g r log st => .raised g (r.mapExn h) log st
  | .hang g log => .hang g log

def Call.Result.mapExn (h : Exn → Exn) : Call.Result → Call.Result
  | .value o => .value o
  | .refused e => .refused e
  | .raised r calls => .raised (r.mapExn h) calls

def Call.Stop.mapExn (h : Exn → Exn) : Call.Stop → Call.Stop
  | .model e => .model e
  | .user r => .user (r.mapExn h)

def Call.Out.mapExn {α : Type} (h : Exn → Exn) : Call.Out α → Call.Out α
  | .ok a s => .ok a s
  | .stop e s => .stop (e.mapExn h) s

/-- the futures of a generation with every stored exception renamed -/
def mapFuts (h : Exn → Exn) (a : Futs) : Futs := fun i => (a i).map (Option.map h)

def Await.mapExn (h : Exn → Exn) : Await → Await
  | .allDone => .allDone
  | .raised t x => .raised t (h x)
  | .hang => .hang

def Proc.mapExn (h : Exn → Exn) : Proc → Proc
  | .ok => .ok
  | .raised r sl => .raised (r.mapExn h) sl
  | .hang => .hang

/-! ## what `await` delivers -/

/-- what the awaiting coroutine is handed, and its `__cause__` -/
structure Awaited where
  exn : Exn
  cause : Option Exn
  deriving Repr

/-- the `RuntimeError` that stands for a `StopIteration` (`_result_async`) -/
def stopWrapper : Exn := { cls := "builtins.RuntimeError", args := [.str "user function raised StopIteration"] }

/-- `_result_async`: `isStop x` = "`x`'s class derives from `StopIteration`" -/
def awaitExn (isStop : Exn → Bool) (x : Exn) : Awaited :=
  if isStop x then { exn := stopWrapper, cause := some x } else { exn := x, cause := none }

/-! ## a collection written with the iterator protocol (what the code must NOT be) -/

/-- `list(map(_result, r))`: `Future.result()` in submission order like `awaitAll`, but driven by the iterator protocol — a
    `StopIteration` escaping from `_result` is read by `list()` as the end of the iteration: the wait ends "all done" with the
    results collected so far -/
def collectIter (isStop : Exn → Bool) (futs : Futs) : List Task → Nat → Await
  | [], _ => .allDone
  | t :: ts, i =>
    match futs i with
    | none => .hang
    | some (some x) => if isStop x then .allDone else .raised t x
    | some none => collectIter isStop futs ts (i + 1)

end PF.Errors
