import PfModel.Lemmas.CachePolicyRetain
import PfModel.Lemmas.CachePolicyDiskStamps
/-!
Helper lemmas for `Props/C14Retain.lean`, part 2:

* `Lawful.present_value` — a key reported present after a history answers `get` with the value most recently put;
* `lru_survives_hit` — `lru_survives` with a hit (`get` of a present key) instead of the `put` as the refreshing operation;
* DiskCache: the FILE of a key is kept through any clear-free continuation that puts fewer than `max_size` other keys
  (`disk_survives`); the invariant `FileKept T k` is "every other file that is not strictly older than `k`'s belongs to a key of `T`".
-/
namespace PF.Cache

theorem Lawful.present_value {σ : Type} {M : Sem σ} {Inv : σ → Prop} (L : Lawful M Inv) (s0 : σ) (h0 : Inv s0)
    (hempty : ∀ k, M.view s0 k = none) (h : List Op) (hwf : ∀ op ∈ h, op.WF) (k : Key) (s : σ) (os : List Obs)
    (hr : M.run s0 h = .ok (s, os)) (hb : M.step s (.has k) = .ok (s, .bool true)) :
    ∃ s2 y, M.step s (.get k) = .ok (s2, .val (some y)) ∧ lastPut h k = some y := by
  obtain ⟨s', os', hr', b, o, s2, hh, hg, hbo, hlast⟩ := L.present_iff_get s0 h0 hempty h hwf k
  rw [hr] at hr'
  cases hr'
  rw [hb] at hh
  cases hh
  cases o with
  | none => simp at hbo
  | some y => exact ⟨s2, y, hg, hlast y rfl⟩

/-! ### LRUCache: a hit refreshes like a put -/

theorem lru_survives_hit (max : Nat) (h1 h2 : List Op) (k : Key) (T : List Key)
    (hT : T.length < max) (hwf1 : ∀ op ∈ h1, op.WF) (hwf2 : ∀ op ∈ h2, op.WF) (hnc : ∀ op ∈ h2, op.notClear)
    (ht : ∀ op ∈ h2, ∀ x, op.touches = some x → x = k ∨ x ∈ T)
    (hpres : ∃ s1 os1, lruSem.run (LRU.empty max) h1 = .ok (s1, os1) ∧ s1.step (.has k) = .ok (s1, .bool true)) :
    ∃ s os, lruSem.run (LRU.empty max) (h1 ++ .get k :: h2) = .ok (s, os) ∧
      s.step (.has k) = .ok (s, .bool true) ∧
      ∃ s2 y, s.step (.get k) = .ok (s2, .val (some y)) ∧ lastPut (h1 ++ .get k :: h2) k = some y := by
  have hmax : 0 < max := by omega
  have h0 := LRU.inv_empty max hmax
  obtain ⟨s1, os1, hr1, hb1⟩ := hpres
  have hk1 : has s1.dict k = true := by
    simp only [LRU.step, Except.ok.injEq, Prod.mk.injEq, Obs.bool.injEq, true_and] at hb1; exact hb1
  obtain ⟨s1', os1', hr1', hi1, _⟩ := lru_lawful.run_ok h1 (LRU.empty max) h0 hwf1
  rw [hr1] at hr1'; cases hr1'
  have hm1 : s1.max = max := lru_run_max h1 (LRU.empty max) s1 os1 h0 hwf1 hr1
  obtain ⟨s2, hg, hi2, _, hm2, hq2⟩ := LRU.get_spec s1 k hi1
  have hb2 : Behind T k s2.queue := by rw [hq2, hk1]; exact behind_touch_self T k s1.queue
  obtain ⟨s3, os3, hr3, hi3, _⟩ := lru_lawful.run_ok h2 s2 hi2 hwf2
  obtain ⟨_, hk⟩ := lru_run_keeps T k h2 s2 s3 os3 hi2 (by rw [hm2, hm1]; exact hT) hb2 hwf2 hnc ht hr3
  have hrun : lruSem.run (LRU.empty max) (h1 ++ .get k :: h2) = .ok (s3, os1 ++ (.val (lookup s1.dict k) :: os3)) := by
    rw [run_append, hr1]
    have hstep : lruSem.step s1 (.get k) = .ok (s2, .val (lookup s1.dict k)) := by simp [lruSem, LRU.step, hg]
    simp only [Sem.run, hstep, hr3]
  have hwf : ∀ op ∈ h1 ++ .get k :: h2, op.WF := by
    intro op hm
    rcases List.mem_append.mp hm with hm | hm
    · exact hwf1 op hm
    · rcases List.mem_cons.mp hm with e | hm
      · subst e; trivial
      · exact hwf2 op hm
  have hb3 : lruSem.step s3 (.has k) = .ok (s3, .bool true) := by simp only [lruSem, LRU.step, hk]
  obtain ⟨s4, y, hg4, hl4⟩ := lru_lawful.present_value (LRU.empty max) h0 (fun _ => rfl) _ hwf k s3 _ hrun hb3
  exact ⟨s3, _, hrun, hb3, s4, y, hg4, hl4⟩

/-! ### DiskCache: which files are not older than a key's -/

/-- the key an operation writes a file for -/
def Op.puts : Op → Option Key
  | .put k _ _ => some k
  | _ => none

/-- a reopen keeps `max_size` above the length of `T` -/
def Op.maxOK (T : List Key) : Op → Prop
  | .reopen (some m) _ => T.length < m
  | _ => True

/-- `max_size` (if any) exceeds the length of `T` -/
def MaxOK (T : List Key) (s : Disk) : Prop := ∀ m, s.max = some m → T.length < m

/-- `k` has a file and every other file that is not strictly older belongs to a key of `T` -/
def FileKept (T : List Key) (k : Key) (f : Files) : Prop :=
  ∃ v c, lookup f k = some (v, c) ∧ ∀ p ∈ f, p.1 ≠ k → c ≤ p.2.2 → p.1 ∈ T

theorem FileKept.has {T : List Key} {k : Key} {f : Files} (h : FileKept T k f) : has f k = true := by
  obtain ⟨v, c, hl, _⟩ := h; simp [PF.Cache.has, hl]

theorem mem_of_mem_erase' {β : Type} (d : List (Key × β)) (k : Key) (p : Key × β) (h : p ∈ erase d k) : p ∈ d := by
  induction d with
  | nil => simp [erase] at h
  | cons e es ih =>
    obtain ⟨a, b⟩ := e
    simp only [erase] at h
    split at h
    · exact List.mem_cons_of_mem _ (ih h)
    · rcases List.mem_cons.mp h with h | h
      · rw [h]; simp
      · exact List.mem_cons_of_mem _ (ih h)

theorem length_le_of_others_in (f : Files) (k : Key) (T : List Key) (hnd : (keys f).Nodup) (hk : has f k = true)
    (h : ∀ p ∈ f, p.1 ≠ k → p.1 ∈ T) : f.length ≤ T.length + 1 := by
  have h1 := length_filter_ne hnd ((has_iff_mem_keys f k).mp hk)
  have h2 := length_le_of_subset_nodup ((keys f).filter (· != k)) T (nodup_filter _ hnd) (by
    intro x hx
    obtain ⟨hm, hne⟩ := List.mem_filter.mp hx
    simp only [keys, List.mem_map] at hm
    obtain ⟨p, hp, rfl⟩ := hm
    exact h p hp (by simpa using hne))
  rw [length_keys] at h1
  omega

/-- `_evict_if_needed` removes the oldest files first: as long as more files remain than `T` has members, `k`'s file stays -/
theorem evictN_keeps_recent (T : List Key) (k : Key) (n : Nat) : ∀ f : Files, (keys f).Nodup → FileKept T k f →
    (n ≠ 0 → n + T.length < f.length) → FileKept T k (evictN n f) := by
  induction n with
  | zero => intro f _ hk _; exact hk
  | succ n ih =>
    intro f hnd hk hn
    have hn' := hn (by omega)
    simp only [evictN]
    split
    · exact hk
    · next e t ha =>
      obtain ⟨he, hle⟩ := argmin_stamps_oldest f e t ha
      obtain ⟨v, c, hl, hin⟩ := hk
      have hek : k ≠ e := by
        intro hke
        subst hke
        obtain ⟨p, hp, hpk, hpt⟩ := mem_stamps f k t (argmin_mem _ _ _ ha)
        have hlk := lookup_of_mem f hnd p hp
        rw [hpk, hl] at hlk
        have htc : t = c := by rw [← hpt]; have h' := Option.some.inj hlk; rw [← h']
        have hall : ∀ q ∈ f, q.1 ≠ k → q.1 ∈ T := by
          intro q hq hqk
          exact hin q hq hqk (by rw [← htc]; exact hle q hq)
        have := length_le_of_others_in f k T hnd he hall
        omega
      refine ih (erase f e) (nodup_keys_erase _ _ hnd) ⟨v, c, ?_, ?_⟩ ?_
      · rw [lookup_erase_ne _ _ _ hek]; exact hl
      · intro p hp; exact hin p (mem_of_mem_erase' f e p hp)
      · intro _
        have := length_erase_has f e hnd he
        omega

/-- writing the file of `k` itself, or of a key of `T` while `k`'s file is kept, keeps `k`'s file -/
theorem disk_writeFile_keeps (T : List Key) (k : Key) (s : Disk) (k' : Key) (v' : Val) (hi : s.Inv) (hm : MaxOK T s)
    (hk : k' = k ∨ (k' ∈ T ∧ FileKept T k s.files)) : FileKept T k (s.writeFile k' v').files := by
  have hnd1 : (keys (set s.files k' (v', s.clock))).Nodup := nodup_keys_set _ _ _ hi.fnodup
  have hk1 : FileKept T k (set s.files k' (v', s.clock)) := by
    by_cases e : k' = k
    · subst e
      refine ⟨v', s.clock, lookup_set_self _ _ _, ?_⟩
      intro p hp hne hle
      rcases mem_set_or _ _ _ p hp with h | h
      · rw [h] at hne; exact absurd rfl hne
      · have := hi.fresh p h; omega
    · rcases hk with e' | ⟨hin', v, c, hl, hin⟩
      · exact absurd e' e
      · refine ⟨v, c, by rw [lookup_set_ne _ _ _ _ (Ne.symm e)]; exact hl, ?_⟩
        intro p hp hne hle
        rcases mem_set_or _ _ _ p hp with h | h
        · rw [h]; exact hin'
        · exact hin p h hne hle
  show FileKept T k (evictN (Disk.excess s.max (set s.files k' (v', s.clock))) (set s.files k' (v', s.clock)))
  apply evictN_keeps_recent T k _ _ hnd1 hk1
  intro hne
  unfold Disk.excess at hne ⊢
  cases hmx : s.max with
  | none => simp [hmx] at hne
  | some m =>
    have := hm m hmx
    simp only [hmx] at hne ⊢
    omega

theorem disk_put_files (s s' : Disk) (k : Key) (v : Val) (h : s.put k v = .ok s') :
    s'.files = (s.writeFile k v).files ∧ s'.max = s.max := by
  unfold Disk.put at h
  split at h
  · cases h; exact ⟨rfl, rfl⟩
  · split at h
    · cases h
    · cases h; exact ⟨rfl, rfl⟩

theorem disk_step_max (T : List Key) (s s' : Disk) (op : Op) (o : Obs) (hi : s.Inv) (hm : MaxOK T s) (hok : op.maxOK T)
    (hstep : s.step op = .ok (s', o)) : MaxOK T s' := by
  cases op with
  | put k' v d =>
    obtain ⟨s1, hp, _⟩ := Disk.put_spec s k' v hi
    simp only [Disk.step, hp] at hstep
    cases hstep
    obtain ⟨_, hmx⟩ := disk_put_files s _ k' v hp
    intro m h; exact hm m (by rw [← hmx]; exact h)
  | get k' =>
    obtain ⟨s1, hg, _, hmx, _⟩ := Disk.get_spec s k' hi
    simp only [Disk.step, hg] at hstep
    cases hstep
    intro m h; exact hm m (by rw [← hmx]; exact h)
  | has _ => simp only [Disk.step] at hstep; cases hstep; exact hm
  | len => simp only [Disk.step] at hstep; cases hstep; exact hm
  | clear => simp only [Disk.step] at hstep; cases hstep; exact hm
  | reopen m l =>
    simp only [Disk.step] at hstep; cases hstep
    intro n hn
    simp only [Disk.reopen] at hn
    subst hn
    exact hok

theorem disk_step_keeps (T : List Key) (k : Key) (s s' : Disk) (op : Op) (o : Obs) (hi : s.Inv) (hm : MaxOK T s)
    (hk : FileKept T k s.files) (hnc : op.notClear) (ht : ∀ x, op.puts = some x → x = k ∨ x ∈ T)
    (hstep : s.step op = .ok (s', o)) : FileKept T k s'.files := by
  cases op with
  | put k' v d =>
    obtain ⟨s1, hp, _⟩ := Disk.put_spec s k' v hi
    simp only [Disk.step, hp] at hstep
    cases hstep
    obtain ⟨hf, _⟩ := disk_put_files s _ k' v hp
    rw [hf]
    apply disk_writeFile_keeps T k s k' v hi hm
    rcases ht k' rfl with e | h
    · exact Or.inl e
    · exact Or.inr ⟨h, hk⟩
  | get k' =>
    obtain ⟨s1, hg, _, _, hf, _⟩ := Disk.get_spec s k' hi
    simp only [Disk.step, hg] at hstep
    cases hstep
    rw [hf]; exact hk
  | has _ => simp only [Disk.step] at hstep; cases hstep; exact hk
  | len => simp only [Disk.step] at hstep; cases hstep; exact hk
  | clear => exact hnc.elim
  | reopen m l => simp only [Disk.step] at hstep; cases hstep; exact hk

theorem disk_run_max (T : List Key) (h : List Op) : ∀ (s s' : Disk) (os : List Obs), s.Inv → MaxOK T s → (∀ op ∈ h, op.WF) →
    (∀ op ∈ h, op.maxOK T) → diskSem.run s h = .ok (s', os) → MaxOK T s' := by
  induction h with
  | nil => intro s s' os _ hm _ _ hr; simp only [Sem.run] at hr; cases hr; exact hm
  | cons op h ih =>
    intro s s' os hs hm hwf hok hr
    obtain ⟨s1, o, h1, hi1⟩ := disk_lawful.total s op hs (hwf op (by simp))
    simp only [Sem.run, h1] at hr
    cases h2 : diskSem.run s1 h with
    | error e => simp [h2] at hr
    | ok p =>
      obtain ⟨s2, os2⟩ := p
      simp only [h2] at hr
      cases hr
      exact ih s1 _ _ hi1 (disk_step_max T s s1 op o hs hm (hok op (by simp)) h1)
        (fun op' hm => hwf op' (List.mem_cons_of_mem _ hm)) (fun op' hm => hok op' (List.mem_cons_of_mem _ hm)) h2

theorem disk_run_keeps (T : List Key) (k : Key) (h : List Op) : ∀ (s s' : Disk) (os : List Obs), s.Inv → MaxOK T s →
    FileKept T k s.files → (∀ op ∈ h, op.WF) → (∀ op ∈ h, op.maxOK T) → (∀ op ∈ h, op.notClear) →
    (∀ op ∈ h, ∀ x, op.puts = some x → x = k ∨ x ∈ T) → diskSem.run s h = .ok (s', os) → FileKept T k s'.files := by
  induction h with
  | nil => intro s s' os _ _ hk _ _ _ _ hr; simp only [Sem.run] at hr; cases hr; exact hk
  | cons op h ih =>
    intro s s' os hs hm hk hwf hok hnc ht hr
    obtain ⟨s1, o, h1, hi1⟩ := disk_lawful.total s op hs (hwf op (by simp))
    simp only [Sem.run, h1] at hr
    cases h2 : diskSem.run s1 h with
    | error e => simp [h2] at hr
    | ok p =>
      obtain ⟨s2, os2⟩ := p
      simp only [h2] at hr
      cases hr
      exact ih s1 _ _ hi1 (disk_step_max T s s1 op o hs hm (hok op (by simp)) h1)
        (disk_step_keeps T k s s1 op o hs hm hk (hnc op (by simp)) (ht op (by simp)) h1)
        (fun op' hm => hwf op' (List.mem_cons_of_mem _ hm)) (fun op' hm => hok op' (List.mem_cons_of_mem _ hm))
        (fun op' hm => hnc op' (List.mem_cons_of_mem _ hm)) (fun op' hm => ht op' (List.mem_cons_of_mem _ hm)) h2

/-- DiskCache keeps the file of `k`: `h1` any history (reopens included), `put(k, v)`, then any `h2` without `clear` that puts
    only `k` and keys of `T`, where `T` is shorter than every `max_size` in force (constructor and reopens) -/
theorem disk_survives (m l : Option Nat) (hl : l ≠ some 0) (h1 h2 : List Op) (k : Key) (v : Val) (d : Nat) (T : List Key)
    (hT : ∀ n, m = some n → T.length < n) (hwf1 : ∀ op ∈ h1, op.WF) (hwf2 : ∀ op ∈ h2, op.WF)
    (hok1 : ∀ op ∈ h1, op.maxOK T) (hok2 : ∀ op ∈ h2, op.maxOK T) (hnc : ∀ op ∈ h2, op.notClear)
    (ht : ∀ op ∈ h2, ∀ x, op.puts = some x → x = k ∨ x ∈ T) :
    ∃ s os, diskSem.run (Disk.empty m l) (h1 ++ .put k v d :: h2) = .ok (s, os) ∧ has s.files k = true ∧
      s.step (.has k) = .ok (s, .bool true) ∧
      ∃ s2 y, s.step (.get k) = .ok (s2, .val (some y)) ∧ lastPut (h1 ++ .put k v d :: h2) k = some y := by
  have hm : m ≠ some 0 := by
    intro e; have := hT 0 e; omega
  have h0 := Disk.inv_empty m l hm hl
  have hm0 : MaxOK T (Disk.empty m l) := by intro n hn; exact hT n hn
  obtain ⟨s1, os1, hr1, hi1, _⟩ := disk_lawful.run_ok h1 (Disk.empty m l) h0 hwf1
  have hm1 := disk_run_max T h1 _ s1 os1 h0 hm0 hwf1 hok1 hr1
  obtain ⟨s2, hp, hi2, _⟩ := Disk.put_spec s1 k v hi1
  have hstep : diskSem.step s1 (.put k v d) = .ok (s2, .unit) := by simp [diskSem, Disk.step, hp]
  have hm2 := disk_step_max T s1 s2 (.put k v d) .unit hi1 hm1 trivial hstep
  have hk2 : FileKept T k s2.files := by
    rw [(disk_put_files s1 s2 k v hp).1]
    exact disk_writeFile_keeps T k s1 k v hi1 hm1 (Or.inl rfl)
  obtain ⟨s3, os3, hr3, hi3, _⟩ := disk_lawful.run_ok h2 s2 hi2 hwf2
  have hk3 := disk_run_keeps T k h2 s2 s3 os3 hi2 hm2 hk2 hwf2 hok2 hnc ht hr3
  have hrun : diskSem.run (Disk.empty m l) (h1 ++ .put k v d :: h2) = .ok (s3, os1 ++ (.unit :: os3)) := by
    rw [run_append, hr1]
    simp only [Sem.run, hstep, hr3]
  have hwf : ∀ op ∈ h1 ++ .put k v d :: h2, op.WF := by
    intro op hmem
    rcases List.mem_append.mp hmem with hmem | hmem
    · exact hwf1 op hmem
    · rcases List.mem_cons.mp hmem with e | hmem
      · subst e; trivial
      · exact hwf2 op hmem
  have hb3 : diskSem.step s3 (.has k) = .ok (s3, .bool true) := by
    have : s3.contains k = true := by unfold Disk.contains; rw [hk3.has]; simp
    simp only [diskSem, Disk.step, this]
  obtain ⟨s4, y, hg4, hl4⟩ := disk_lawful.present_value (Disk.empty m l) h0
    (by intro k; cases l <;> simp [Disk.empty, Disk.view, diskSem, LRU.empty, lookup]) _ hwf k s3 _ hrun hb3
  exact ⟨s3, _, hrun, hk3.has, hb3, s4, y, hg4, hl4⟩

end PF.Cache
