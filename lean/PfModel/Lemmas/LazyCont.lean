import PfModel.Model.LazyCont
import PfModel.Lemmas.LazySession
/-! Helper lemmas for `Props/C18Cont.lean`: `evaluate_lazy` on a container tree returns the container of the values its leaves stand
for, keeps the session invariants, appends to the log exactly the nodes its deferred leaves depend on that were not evaluated
before, and is idempotent. -/
namespace PF.Lazy
open PF PF.Pipe

/-- what the proofs need of the way a `_LazyFunction` is evaluated (all three hold of `eval nodes n`) -/
structure RecOK (nodes : List Lazy.Node) (r : Nat → ESt → Except EErr (Val × ESt)) : Prop where
  sound : ERecSound nodes r
  exact : EExact nodes r
  once : EOnce r

theorem eval_recOK {nodes : List Lazy.Node} (hc : Closed nodes) (n : Nat) : RecOK nodes (eval nodes n) :=
  ⟨eval_sound hc n, eval_exact hc n, eval_once hc n⟩

/-- evaluating the objects `r1`, then the objects `r2` -/
theorem xpost_append {nodes : List Lazy.Node} {r1 r2 : List Nat} {s s1 s2 : ESt}
    (h1 : XPost nodes r1 s s1) (h2 : XPost nodes r2 s1 s2) : XPost nodes (r1 ++ r2) s s2 := by
  obtain ⟨hx1, hm1, hr1, hl1⟩ := h1
  obtain ⟨hx2, hm2, hr2, hl2⟩ := h2
  refine ⟨hx2, fun x h => hm2 x (hm1 x h), ?_, ?_⟩
  · intro j hj
    rcases List.mem_append.mp hj with hj | hj
    · exact hm2 _ (hr1 _ hj)
    · exact hr2 j hj
  · intro x
    constructor
    · intro hx
      rcases (hl2 x).mp hx with h | ⟨⟨j, hj, hn⟩, hnone⟩
      · rcases (hl1 x).mp h with h | ⟨⟨j, hj, hn⟩, hnone⟩
        · exact Or.inl h
        · exact Or.inr ⟨⟨j, List.mem_append_left _ hj, hn⟩, hnone⟩
      · refine Or.inr ⟨⟨j, List.mem_append_right _ hj, hn⟩, ?_⟩
        cases hd : dlookup s.done x with
        | none => rfl
        | some w => have := hm1 x (by simp [hd]); rw [hnone] at this; cases this
    · rintro (h | ⟨⟨j, hj, hn⟩, hnone⟩)
      · exact (hl2 x).mpr (Or.inl ((hl1 x).mpr (Or.inl h)))
      · rcases List.mem_append.mp hj with hj | hj
        · exact (hl2 x).mpr (Or.inl ((hl1 x).mpr (Or.inr ⟨⟨j, hj, hn⟩, hnone⟩)))
        · by_cases hd : dlookup s1.done x = none
          · exact (hl2 x).mpr (Or.inr ⟨⟨j, hj, hn⟩, hd⟩)
          · exact (hl2 x).mpr (Or.inl (hx1.logged x (isSome_of_not_none hd)))

/-- what evaluating a container whose deferred leaves are `roots` does to the evaluation state -/
def CPost (nodes : List Lazy.Node) (roots : List Nat) (s s' : ESt) : Prop :=
  DoneSound nodes s' ∧ XPost nodes roots s s' ∧ ∃ new, s'.log = s.log ++ new

theorem cpost_nil {nodes : List Lazy.Node} {s : ESt} (hx : XInv nodes s) (hd : DoneSound nodes s) : CPost nodes [] s s :=
  ⟨hd, xpost_nil hx, [], by simp⟩

theorem cpost_append {nodes : List Lazy.Node} {r1 r2 : List Nat} {s s1 s2 : ESt}
    (h1 : CPost nodes r1 s s1) (h2 : CPost nodes r2 s1 s2) : CPost nodes (r1 ++ r2) s s2 := by
  obtain ⟨_, p1, n1, e1⟩ := h1
  obtain ⟨d2, p2, n2, e2⟩ := h2
  exact ⟨d2, xpost_append p1 p2, n1 ++ n2, by rw [e2, e1, List.append_assoc]⟩

theorem refsOf_append : ∀ (a b : List LArg), refsOf (a ++ b) = refsOf a ++ refsOf b
  | [], b => rfl
  | .ref i :: a, b => by simp only [List.cons_append, refsOf, refsOf_append a b]
  | .val _ :: a, b => by simp only [List.cons_append, refsOf, refsOf_append a b]

theorem mem_refsOf : ∀ (l : List LArg) (j : Nat), j ∈ refsOf l ↔ LArg.ref j ∈ l
  | [], j => by simp [refsOf]
  | .ref i :: a, j => by
      simp only [refsOf, List.mem_cons, mem_refsOf a j]
      constructor
      · rintro (h | h)
        · left; rw [h]
        · right; exact h
      · rintro (h | h)
        · left; injection h
        · right; exact h
  | .val _ :: a, j => by
      simp only [refsOf, List.mem_cons, mem_refsOf a j]
      constructor
      · intro h; right; exact h
      · rintro (h | h)
        · cases h
        · exact h

theorem evalArg_post {nodes : List Lazy.Node} {r} (hr : RecOK nodes r) (a : LArg) (s : ESt) (v : Val) (s1 : ESt)
    (hx : XInv nodes s) (hd : DoneSound nodes s) (h : evalArg r a s = .ok (v, s1)) :
    den nodes a = some v ∧ CPost nodes (refsOf [a]) s s1 := by
  cases a with
  | val w =>
    simp [evalArg] at h; obtain ⟨rfl, rfl⟩ := h
    exact ⟨rfl, cpost_nil hx hd⟩
  | ref i =>
    simp only [evalArg] at h
    obtain ⟨hden, hd1⟩ := hr.sound i s v s1 hd h
    obtain ⟨⟨_, _, _, hnew⟩, _⟩ := hr.once i s v s1 hx.log h
    exact ⟨hden, hd1, hr.exact i s v s1 hx h, hnew⟩

mutual
theorem evalCont_post {nodes : List Lazy.Node} {r} (hr : RecOK nodes r) : ∀ (c : Cont) (s : ESt) (cv : CVal) (s' : ESt),
    XInv nodes s → DoneSound nodes s → evalContWith r c s = .ok (cv, s') →
    denCont nodes c = some cv ∧ CPost nodes (refsOf c.leaves) s s'
  | .leaf a, s, cv, s', hx, hd, h => by
      simp only [evalContWith] at h
      split at h
      · cases h
      · next v s1 h1 =>
        injection h with h; injection h with e1 e2; subst e1; subst e2
        obtain ⟨hden, hp⟩ := evalArg_post hr a s v s1 hx hd h1
        exact ⟨by simp only [denCont, hden], hp⟩
  | .list xs, s, cv, s', hx, hd, h => by
      simp only [evalContWith] at h
      split at h
      · cases h
      · next vs s1 h1 =>
        injection h with h; injection h with e1 e2; subst e1; subst e2
        obtain ⟨hden, hp⟩ := evalConts_post hr xs s vs s1 hx hd h1
        exact ⟨by simp only [denCont, hden], hp⟩
  | .tuple xs, s, cv, s', hx, hd, h => by
      simp only [evalContWith] at h
      split at h
      · cases h
      · next vs s1 h1 =>
        injection h with h; injection h with e1 e2; subst e1; subst e2
        obtain ⟨hden, hp⟩ := evalConts_post hr xs s vs s1 hx hd h1
        exact ⟨by simp only [denCont, hden], hp⟩
  | .dict kvs, s, cv, s', hx, hd, h => by
      simp only [evalContWith] at h
      split at h
      · cases h
      · next vs s1 h1 =>
        injection h with h; injection h with e1 e2; subst e1; subst e2
        obtain ⟨hden, hp⟩ := evalKVs_post hr kvs s vs s1 hx hd h1
        exact ⟨by simp only [denCont, hden], hp⟩
  | .set xs, s, cv, s', hx, hd, h => by
      simp only [evalContWith] at h
      split at h
      · cases h
      · next vs s1 h1 =>
        injection h with h; injection h with e1 e2; subst e1; subst e2
        obtain ⟨hden, hp⟩ := evalConts_post hr xs s vs s1 hx hd h1
        exact ⟨by simp only [denCont, hden], hp⟩
  | .other t xs, s, cv, s', hx, hd, h => by
      simp only [evalContWith] at h
      injection h with h; injection h with e1 e2; subst e1; subst e2
      exact ⟨by simp only [denCont], cpost_nil hx hd⟩
theorem evalConts_post {nodes : List Lazy.Node} {r} (hr : RecOK nodes r) : ∀ (xs : List Cont) (s : ESt) (vs : List CVal) (s' : ESt),
    XInv nodes s → DoneSound nodes s → evalContsWith r xs s = .ok (vs, s') →
    denConts nodes xs = some vs ∧ CPost nodes (refsOf (leavesL xs)) s s'
  | [], s, vs, s', hx, hd, h => by
      simp only [evalContsWith] at h
      injection h with h; injection h with e1 e2; subst e1; subst e2
      exact ⟨by simp only [denConts], cpost_nil hx hd⟩
  | c :: rest, s, vs, s', hx, hd, h => by
      simp only [evalContsWith] at h
      split at h
      · cases h
      · next v s1 h1 =>
        split at h
        · cases h
        · next vs' s2 h2 =>
          injection h with h; injection h with e1 e2; subst e1; subst e2
          obtain ⟨hd1, hp1⟩ := evalCont_post hr c s v s1 hx hd h1
          obtain ⟨hd2, hp2⟩ := evalConts_post hr rest s1 vs' s2 hp1.2.1.1 hp1.1 h2
          refine ⟨by simp only [denConts, hd1, hd2], ?_⟩
          simp only [leavesL, refsOf_append]
          exact cpost_append hp1 hp2
theorem evalKVs_post {nodes : List Lazy.Node} {r} (hr : RecOK nodes r) : ∀ (kvs : List (String × Cont)) (s : ESt)
    (vs : List (String × CVal)) (s' : ESt),
    XInv nodes s → DoneSound nodes s → evalKVsWith r kvs s = .ok (vs, s') →
    denKVs nodes kvs = some vs ∧ CPost nodes (refsOf (leavesKV kvs)) s s'
  | [], s, vs, s', hx, hd, h => by
      simp only [evalKVsWith] at h
      injection h with h; injection h with e1 e2; subst e1; subst e2
      exact ⟨by simp only [denKVs], cpost_nil hx hd⟩
  | (k, c) :: rest, s, vs, s', hx, hd, h => by
      simp only [evalKVsWith] at h
      split at h
      · cases h
      · next v s1 h1 =>
        split at h
        · cases h
        · next vs' s2 h2 =>
          injection h with h; injection h with e1 e2; subst e1; subst e2
          obtain ⟨hd1, hp1⟩ := evalCont_post hr c s v s1 hx hd h1
          obtain ⟨hd2, hp2⟩ := evalKVs_post hr rest s1 vs' s2 hp1.2.1.1 hp1.1 h2
          refine ⟨by simp only [denKVs, hd1, hd2], ?_⟩
          simp only [leavesKV, refsOf_append]
          exact cpost_append hp1 hp2
end

/-! ### the container of values has the container's shape -/
mutual
theorem denCont_shape {nodes : List Lazy.Node} : ∀ (c : Cont) (cv : CVal), denCont nodes c = some cv → cv.shape = c.shape
  | .leaf a, cv, h => by
      simp only [denCont] at h
      split at h
      · injection h with h; subst h; simp only [CVal.shape, Cont.shape]
      · cases h
  | .list xs, cv, h => by
      simp only [denCont] at h
      split at h
      · next vs hv => injection h with h; subst h; simp only [CVal.shape, Cont.shape, denConts_shape xs vs hv]
      · cases h
  | .tuple xs, cv, h => by
      simp only [denCont] at h
      split at h
      · next vs hv => injection h with h; subst h; simp only [CVal.shape, Cont.shape, denConts_shape xs vs hv]
      · cases h
  | .dict kvs, cv, h => by
      simp only [denCont] at h
      split at h
      · next vs hv => injection h with h; subst h; simp only [CVal.shape, Cont.shape, denKVs_shape kvs vs hv]
      · cases h
  | .set xs, cv, h => by
      simp only [denCont] at h
      split at h
      · next vs hv => injection h with h; subst h; simp only [CVal.shape, Cont.shape, denConts_shape xs vs hv]
      · cases h
  | .other t xs, cv, h => by
      simp only [denCont] at h
      injection h with h; subst h; simp only [CVal.shape, Cont.shape]
theorem denConts_shape {nodes : List Lazy.Node} : ∀ (xs : List Cont) (vs : List CVal), denConts nodes xs = some vs → cshapes vs = shapes xs
  | [], vs, h => by
      simp only [denConts] at h; injection h with h; subst h; simp only [cshapes, shapes]
  | c :: rest, vs, h => by
      simp only [denConts] at h
      split at h
      · next v vs' h1 h2 =>
        injection h with h; subst h
        simp only [cshapes, shapes, denCont_shape c v h1, denConts_shape rest vs' h2]
      · cases h
theorem denKVs_shape {nodes : List Lazy.Node} : ∀ (kvs : List (String × Cont)) (vs : List (String × CVal)),
    denKVs nodes kvs = some vs → cshapeKVs vs = shapeKVs kvs
  | [], vs, h => by
      simp only [denKVs] at h; injection h with h; subst h; simp only [cshapeKVs, shapeKVs]
  | (k, c) :: rest, vs, h => by
      simp only [denKVs] at h
      split at h
      · next v vs' h1 h2 =>
        injection h with h; subst h
        simp only [cshapeKVs, shapeKVs, denCont_shape c v h1, denKVs_shape rest vs' h2]
      · cases h
end

/-! ### again: once every deferred leaf is evaluated, `evaluate_lazy` returns the same container and changes nothing -/
theorem evalArg_again {nodes : List Lazy.Node} {n : Nat} (a : LArg) (s : ESt) (v : Val) (hd : DoneSound nodes s)
    (hdone : ∀ j ∈ refsOf [a], (dlookup s.done j).isSome) (hden : den nodes a = some v) :
    evalArg (eval nodes (n+1)) a s = .ok (v, s) := by
  cases a with
  | val w =>
    have : some w = some v := hden
    injection this with this; subst this; rfl
  | ref i =>
    obtain ⟨w, hw⟩ := Option.isSome_iff_exists.mp (hdone i (by simp [refsOf]))
    have := hd i w hw
    rw [hden] at this; injection this with this; subst this
    simp only [evalArg]
    exact eval_done nodes n i s v hw

mutual
theorem evalCont_again {nodes : List Lazy.Node} {n : Nat} : ∀ (c : Cont) (s : ESt) (cv : CVal), DoneSound nodes s →
    (∀ j ∈ refsOf c.leaves, (dlookup s.done j).isSome) → denCont nodes c = some cv →
    evalContWith (eval nodes (n+1)) c s = .ok (cv, s)
  | .leaf a, s, cv, hd, hdone, h => by
      simp only [denCont] at h
      split at h
      · next v hv =>
        injection h with h; subst h
        simp only [evalContWith, evalArg_again a s v hd hdone hv]
      · cases h
  | .list xs, s, cv, hd, hdone, h => by
      simp only [denCont] at h
      split at h
      · next vs hv =>
        injection h with h; subst h
        simp only [evalContWith, evalConts_again xs s vs hd hdone hv]
      · cases h
  | .tuple xs, s, cv, hd, hdone, h => by
      simp only [denCont] at h
      split at h
      · next vs hv =>
        injection h with h; subst h
        simp only [evalContWith, evalConts_again xs s vs hd hdone hv]
      · cases h
  | .dict kvs, s, cv, hd, hdone, h => by
      simp only [denCont] at h
      split at h
      · next vs hv =>
        injection h with h; subst h
        simp only [evalContWith, evalKVs_again kvs s vs hd hdone hv]
      · cases h
  | .set xs, s, cv, hd, hdone, h => by
      simp only [denCont] at h
      split at h
      · next vs hv =>
        injection h with h; subst h
        simp only [evalContWith, evalConts_again xs s vs hd hdone hv]
      · cases h
  | .other t xs, s, cv, hd, hdone, h => by
      simp only [denCont] at h
      injection h with h; subst h
      simp only [evalContWith]
theorem evalConts_again {nodes : List Lazy.Node} {n : Nat} : ∀ (xs : List Cont) (s : ESt) (vs : List CVal), DoneSound nodes s →
    (∀ j ∈ refsOf (leavesL xs), (dlookup s.done j).isSome) → denConts nodes xs = some vs →
    evalContsWith (eval nodes (n+1)) xs s = .ok (vs, s)
  | [], s, vs, hd, hdone, h => by
      simp only [denConts] at h; injection h with h; subst h; simp only [evalContsWith]
  | c :: rest, s, vs, hd, hdone, h => by
      simp only [denConts] at h
      split at h
      · next v vs' h1 h2 =>
        injection h with h; subst h
        simp only [leavesL, refsOf_append, List.mem_append] at hdone
        simp only [evalContsWith, evalCont_again c s v hd (fun j hj => hdone j (Or.inl hj)) h1,
          evalConts_again rest s vs' hd (fun j hj => hdone j (Or.inr hj)) h2]
      · cases h
theorem evalKVs_again {nodes : List Lazy.Node} {n : Nat} : ∀ (kvs : List (String × Cont)) (s : ESt) (vs : List (String × CVal)),
    DoneSound nodes s → (∀ j ∈ refsOf (leavesKV kvs), (dlookup s.done j).isSome) → denKVs nodes kvs = some vs →
    evalKVsWith (eval nodes (n+1)) kvs s = .ok (vs, s)
  | [], s, vs, hd, hdone, h => by
      simp only [denKVs] at h; injection h with h; subst h; simp only [evalKVsWith]
  | (k, c) :: rest, s, vs, hd, hdone, h => by
      simp only [denKVs] at h
      split at h
      · next v vs' h1 h2 =>
        injection h with h; subst h
        simp only [leavesKV, refsOf_append, List.mem_append] at hdone
        simp only [evalKVsWith, evalCont_again c s v hd (fun j hj => hdone j (Or.inl hj)) h1,
          evalKVs_again rest s vs' hd (fun j hj => hdone j (Or.inr hj)) h2]
      · cases h
end

/-- the session-level summary: everything `Props/C18Cont.lean` states follows from this -/
theorem evaluateCont_post {fs : List Func} {s : LSt} (hs : Sess fs s) {c : Cont} {cv : CVal} {s' : LSt}
    (h : evaluateCont c s = .ok (cv, s')) :
    ∃ e, s' = { s with ev := e } ∧ denCont s.nodes c = some cv ∧ CPost s.nodes c.leafRefs s.ev e := by
  simp only [evaluateCont, evalCont] at h
  split at h
  · cases h
  · next v e hev =>
    injection h with h; injection h with e1 e2; subst e1; subst e2
    obtain ⟨hden, hp⟩ := evalCont_post (eval_recOK hs.closed _) c s.ev v e hs.xinv hs.done hev
    exact ⟨e, rfl, hden, hp⟩

end PF.Lazy
