#!/bin/sh
# tools/try_seed.sh CXX path/to/patch.diff [tier] : run the check of CXX against a scratch worktree of /repo with the patch applied.
# The worktree lives under /tmp and is removed afterwards. Exit status: that of the check (1 = detected).
pid=$1; patch=$2; tier=${3:-quick}
wt=/tmp/tryseed-$pid-$$
git -C /repo worktree add -q --detach "$wt" HEAD || exit 2
git -C "$wt" apply "$patch" || { git -C /repo worktree remove --force "$wt"; echo "patch does not apply"; exit 2; }
cd "$(dirname "$0")/.." || exit 2
st=0
for seed in ${SEEDS:-0 1}; do
  VERIF_REPO="$wt" VERIF_SEED=$seed ./check "$pid" --tier "$tier" > /tmp/tryseed-$pid-$$.log 2>&1; s=$?
  grep -E "^VIOLATION|^KNOWN-FINDING|^\[$pid\]|INFRA" /tmp/tryseed-$pid-$$.log | cut -c1-260 | head -6
  [ $s -ne 0 ] && st=$s
done
git checkout -q lean/PfModel/Generated 2>/dev/null
git -C /repo worktree remove --force "$wt"
rm -f /tmp/tryseed-$pid-$$.log
echo "try_seed $pid $(basename "$patch"): exit=$st"
exit $st
