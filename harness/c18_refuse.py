"""C18, stream "refused": the state a REFUSED lazy call leaves behind.

A lazy request that `Pipeline.run` rejects half-way (missing keyword - also for a LATER parameter, when nodes for the earlier ones
exist already; surplus keyword / surplus intermediate: `UnusedParametersError` at the END of `run`; unknown output; output among the
keywords) leaves `_LazyFunction._counter` advanced, nodes registered in the task graph and entries in the block's / the pipeline's own
cache.  Sessions in which such calls are FOLLOWED by valid calls and `evaluate()`s are run on the real pipefunc and on the model
(`PF.Lazy.lrunTopR`, driver entry "rsession": a refused call continues the session in the state it left).

Property clauses checked on the implementation alone: a refused call invokes no user function and flips no `_evaluated` flag (of ANY
`_LazyFunction` created so far - every construction is observed through an instrumented `__init__`), and the clauses of
`props.c18.judge` for everything that follows.  Correspondence: ids of the objects returned later (the counter the refused call
advanced), the whole node table (orphans of refused calls included), graph nodes/edges/cache entries at the raise and at the block's
exit, the own cache's size, values and call logs.
"""
from __future__ import annotations

import copy

import pfimport  # noqa: F401
from pfimport import exc_enum

import networkx as nx
from pipefunc.lazy import _LazyFunction, construct_dag
import pipefunc.lazy as pflazy

import pipegen
import terms


def _base():
    import props.c18 as base      # lazily: props.c18 imports this module
    return base


KINDS = ["missing", "missing-later", "surplus", "surplus-intermediate", "unknown-output", "output-in-kwargs"]


def kwval(k):
    return {"s": f"kw:{k}"}


# ------------------------------------------------------------------------------------------------ implementation side
def run_rsession(desc, ops, cache=None):
    """`props.c18.run_session`, observing in addition: every `_LazyFunction` constructed (instrumented `__init__`), the counter
    after every call, and what a refused call left in the graph / the current cache.  Never raises because pipefunc misbehaves."""
    base_mod = _base()
    ldesc = desc
    pipeline_kwargs = {}
    if cache:
        ldesc = {"funcs": [dict(f, cache=(f["name"] in cache["cached"])) for f in desc["funcs"]]}
        pipeline_kwargs = {"cache_type": cache["cache_type"]}
        if cache["cache_type"] == "disk":
            pipeline_kwargs["cache_kwargs"] = {"cache_dir": base_mod._fresh_dir()}
    import warnings
    with warnings.catch_warnings():
        warnings.simplefilter("ignore")
        p, log = pipegen.build(ldesc, lazy=True, **pipeline_kwargs)
    pe, elog = pipegen.build(desc)
    eagers = {}
    for i, op in enumerate(ops):
        if op["op"] == "call":
            out = op["out"] if isinstance(op["out"], str) else tuple(op["out"])
            elog.clear()
            try:
                ev = pipegen.quiet(pe, out, **{k: terms.dec(v) for k, v in op["kw"]})
                eagers[i] = {"value": terms.enc(ev), "calls": elog.names()}
            except Exception as e:  # noqa: BLE001
                eagers[i] = {"err": exc_enum(e)}
    base = _LazyFunction._counter
    created = []                   # every `_LazyFunction` constructed during the session, in order
    orig_init = _LazyFunction.__init__

    def init(self, *a, **k):
        orig_init(self, *a, **k)
        created.append(self)

    def cache_len():
        try:
            t = pflazy.task_graph()
            if t is not None:
                return len(t.cache.cache)
            return len(p.cache) if p.cache is not None else 0
        except Exception as e:  # noqa: BLE001
            return exc_enum(e)

    obs, handles = [], []
    cm = None
    tg = None
    block_objs = []
    _LazyFunction.__init__ = init
    try:
        for opi, op in enumerate(ops):
            kind = op["op"]
            if kind == "enter":
                cm = construct_dag()
                tg = cm.__enter__()
                block_objs = []
                obs.append({"ok": True})
            elif kind == "exit":
                cm.__exit__(None, None, None)
                cm = None
                g = tg.graph
                o = {"nodes": sorted(n - base for n in g.nodes), "edges": sorted([a - base, b - base] for a, b in g.edges),
                     "acyclic": nx.is_directed_acyclic_graph(g), "cache": len(tg.cache.cache),
                     "mapping_ok": sorted(tg.mapping) == sorted(g.nodes) and
                                   all(g.nodes[n].get("lazy_func") is tg.mapping[n] and tg.mapping[n]._id == n for n in tg.mapping),
                     "global_cleared": pflazy.task_graph() is None}
                want = set()
                for n, lf in tg.mapping.items():
                    for c in base_mod.lazy_children(lf):
                        want.add((c._id - base, n - base))
                o["arg_edges"] = sorted(list(e) for e in want)
                o["closure"] = sorted(i - base for i in base_mod.closure(block_objs))
                obs.append(o)
                tg = None
            elif kind == "call":
                out = op["out"] if isinstance(op["out"], str) else tuple(op["out"])
                pykw = {k: terms.dec(v) for k, v in op["kw"]}
                before = len(log.names())
                n0 = len(created)
                c0 = cache_len()
                flags0 = [lf._evaluated for lf in created]
                err = None
                r = None
                try:
                    r = pipegen.quiet(p, out, **pykw)
                except Exception as e:  # noqa: BLE001
                    err = exc_enum(e)
                flipped = sorted(lf._id - base for i, lf in enumerate(created) if lf._evaluated and not (i < len(flags0) and flags0[i]))
                c1 = cache_len()
                o = {"eager": eagers[opi], "invoked": log.names()[before:], "counter": _LazyFunction._counter - base,
                     "left": len(created) - n0, "evaluated_by_request": flipped, "entries": c1,
                     "new_entries": (c1 - c0) if isinstance(c0, int) and isinstance(c1, int) else None}
                if tg is not None:
                    o["gnodes"] = sorted(n - base for n in tg.graph.nodes)
                    o["gedges"] = sorted([a - base, b - base] for a, b in tg.graph.edges)
                if err is not None:
                    handles.append(None)
                    o["err"] = err
                else:
                    handles.append(r)
                    o["type"] = type(r).__name__
                    if isinstance(r, _LazyFunction):
                        o["ret"] = {"ref": r._id - base}
                        block_objs.append(r)
                    else:
                        o["ret"] = {"val": terms.enc(r)}
                obs.append(o)
            elif kind == "eval":
                r = handles[op["h"]]
                if r is None:
                    obs.append({"skipped": True})
                    continue
                before = len(log.names())
                flags = {lf._id: lf._evaluated for lf in created}
                known = {lf._id: lf for lf in created}
                need = base_mod.closure([r]) if isinstance(r, _LazyFunction) else {}
                try:
                    v = pipegen.quiet(r.evaluate)
                    flipped = [i for i, lf in known.items() if lf._evaluated and not flags[i]]
                    from pipefunc import PipeFunc
                    obs.append({"value": terms.enc(v), "log": log.names(), "new": log.names()[before:],
                                "flipped": sorted(known[i].func.__name__ for i in flipped if isinstance(known[i].func, PipeFunc)),
                                "left": sorted(i - base for i, lf in need.items() if not lf._evaluated),
                                "needless": sorted(i - base for i in flipped if i not in need),
                                "was_needed": sorted(lf.func.__name__ for i, lf in need.items()
                                                     if isinstance(lf.func, PipeFunc) and not flags.get(i, False))})
                except Exception as e:  # noqa: BLE001
                    obs.append({"err": exc_enum(e), "log": log.names()})
            else:
                raise AssertionError(kind)
    finally:
        _LazyFunction.__init__ = orig_init
        if cm is not None:
            cm.__exit__(None, None, None)
    own = None
    if p.cache is not None:
        try:
            own = len(p.cache)
        except Exception as e:  # noqa: BLE001
            own = exc_enum(e)
    table = []
    ids_ok = True
    for i, lf in enumerate(created):
        ids_ok = ids_ok and lf._id - base == i
        try:
            table.append([lf._id - base, base_mod.node_desc(lf, base)])
        except Exception as e:  # noqa: BLE001
            table.append([lf._id - base, {"kind": "?", "f": exc_enum(e), "args": []}])
    return {"ops": obs, "table": table, "own": own, "counter": _LazyFunction._counter - base, "ids_ok": ids_ok}


# ------------------------------------------------------------------------------------------------ generation
def gen_refused(rng, desc, p, kind, roots_only):
    """(out, kw, kind) of a call that must be refused; `kind` may be downgraded when the pipeline has no room for it"""
    outs = pipegen.all_outputs(desc)
    cands = [o for o in outs if p.root_args(o)]
    if kind in ("missing", "missing-later") and not cands:
        kind = "unknown-output"
    if kind == "surplus-intermediate" and roots_only:
        kind = "surplus"
    if kind in ("missing", "missing-later"):
        # `missing-later` prefers outputs with several functions upstream (so that nodes exist before the raise)
        if kind == "missing-later":
            # a function with an upstream parameter BEFORE a root parameter that has no default and is not bound: dropping the latter
            # makes `_get_func_args` raise after the nodes for the former exist
            outset = set(outs)
            later = []
            for f in desc["funcs"]:
                names = [q for q, _ in f["params"]]
                bound = {k for k, _ in f.get("bound", [])}
                for j, q in enumerate(names):
                    if q not in outset and q not in bound and q not in p.defaults and any(x in outset and x not in bound for x in names[:j]):
                        later.append((f["outputs"][0], q))
            if later:
                o, q = rng.choice(later)
                if rng.random() < 0.3:
                    down = [x for x in outs if o in {n for d in p.func_dependencies(x) for n in (d if isinstance(d, tuple) else (d,))}]
                    o = rng.choice(down or [o])
                kw = [[k, kwval(k)] for k in p.root_args(o)]
                return o, [x for x in kw if x[0] != q], kind
            o = rng.choice(cands)
        else:
            o = rng.choice(cands)
        kw = [[k, kwval(k)] for k in p.root_args(o)]
        drop = kw[-1][0] if kind == "missing-later" and rng.random() < 0.5 else rng.choice(kw)[0]
        # a parameter with a default is not missing when dropped: then the call is accepted (the model says so too)
        return o, [x for x in kw if x[0] != drop], kind
    o = rng.choice(outs)
    kw = [[k, kwval(k)] for k in p.root_args(o)]
    if kind == "surplus":
        return o, kw + [["zz", kwval("zz")]], kind
    if kind == "surplus-intermediate":
        other = [x for x in outs if x != o and x not in [k for k, _ in kw]]
        if not other:
            return o, kw + [["zz", kwval("zz")]], "surplus"
        x = rng.choice(other)
        return o, kw + [[x, kwval(x)]], kind
    if kind == "unknown-output":
        return "nope", kw, kind
    return o, kw + [[o, kwval(o)]], "output-in-kwargs"


def gen_case(ctx, rng):
    base = _base()
    desc = pipegen.gen_dag(rng, max_funcs=rng.choice([2, 3, 4, 5, 6]))
    if rng.random() < 0.3:
        # a consumer whose FIRST parameter is an upstream output and whose LAST one is a root argument of its own, without a default:
        # a request that omits it is refused after the nodes of the first argument exist
        up = rng.choice(pipegen.all_outputs(desc))
        params = [[up, rng.choice([up, "u"])]]
        if rng.random() < 0.4:
            up2 = rng.choice(pipegen.all_outputs(desc))
            if up2 != up:
                params.append([up2, up2])
        desc["funcs"].append({"name": "fz", "params": params + [["rz", "rz"]], "outputs": ["oz"], "defaults": [], "bound": []})
    p, _ = pipegen.build(desc)
    outs = pipegen.all_outputs(desc)
    tuples = [f["outputs"] for f in desc["funcs"] if len(f["outputs"]) > 1]
    case = {"stream": "refused", "funcs": desc["funcs"]}
    own_cache = rng.random() < 0.35
    if own_cache:
        names = [f["name"] for f in desc["funcs"]]
        ct = rng.choice(base.CACHE_TYPES)
        how = rng.choice(["all", "all", "some"]) if ct is not None else rng.choice(["all", "some"])
        cached = names if how == "all" else ([n for n in names if rng.random() < 0.6] or [rng.choice(names)])
        case["cache"] = {"cache_type": ct, "cached": cached}

    def roots_kw(o):
        return [[k, kwval(k)] for k in p.root_args(o if isinstance(o, str) else tuple(o))]

    ops, hs, ncalls = [], [], 0

    def call(o, kw, fault=None):
        nonlocal ncalls
        op = {"op": "call", "out": o, "kw": kw}
        if fault:
            op["fault"] = fault
        else:
            hs.append(ncalls)
        ops.append(op)
        ncalls += 1

    def valid(prefer=None):
        o = prefer if prefer is not None and rng.random() < 0.6 else (list(rng.choice(tuples)) if tuples and rng.random() < 0.15 else rng.choice(outs))
        kw = roots_kw(o)
        if kw and rng.random() < 0.15:
            kw = [list(x) for x in kw]
            i = rng.randrange(len(kw))
            kw[i][1] = {"s": f"kw2:{kw[i][0]}"}
        call(o, kw)

    def refused():
        kind = rng.choice(KINDS + ["missing-later", "surplus"])
        if tuples and rng.random() < 0.12:
            # a whole-tuple request, refused: surplus keyword, or a missing one
            t = list(rng.choice(tuples))
            kw = roots_kw(t)
            if kw and rng.random() < 0.5:
                d = rng.choice(kw)[0]
                call(t, [x for x in kw if x[0] != d], "whole:missing")
            else:
                call(t, kw + [["zz", kwval("zz")]], "whole:surplus")
            return t
        o, kw, kind = gen_refused(rng, desc, p, kind, roots_only=own_cache)
        call(o, kw, kind)
        return o if o in outs else None

    def evals(k):
        for _ in range(k):
            if hs:
                ops.append({"op": "eval", "h": rng.choice(hs)})

    shape = rng.choice(["out", "out", "in", "in", "in", "mixed", "mixed"])
    if rng.random() < 0.5:                 # a history before the refused call: nodes, evaluated ones among them
        valid(); evals(rng.choice([0, 1, 2]))
    if shape == "out":
        o = refused(); valid(o); evals(rng.choice([0, 1, 2]))
        if rng.random() < 0.5:
            o = refused(); valid(o)
    elif shape == "in":
        ops.append({"op": "enter"})
        if rng.random() < 0.5:
            valid(); evals(rng.choice([0, 1]))
        o = refused(); valid(o); evals(rng.choice([0, 1, 2]))
        if rng.random() < 0.5:
            o = refused()
            if rng.random() < 0.7:
                valid(o)
        ops.append({"op": "exit"})
        if rng.random() < 0.5:
            valid(o)
    else:
        o = refused()
        ops.append({"op": "enter"}); valid(o); o2 = refused(); valid(o2); ops.append({"op": "exit"})
        o3 = refused(); valid(o3)
    tail = []
    for h in hs:
        tail += [h] * rng.choice([1, 1, 3])
    rng.shuffle(tail)
    ops += [{"op": "eval", "h": h} for h in tail]
    case["ops"] = ops
    return case


# ------------------------------------------------------------------------------------------------ comparison
def model_request(c):
    base = _base()
    a = {"funcs": c["funcs"], "ops": base.close_blocks(c["ops"])}
    if c.get("cache"):
        cached = [f["outputs"] for f in c["funcs"] if f["name"] in c["cache"]["cached"]]
        a["own"] = c["cache"]["cache_type"] is not None or bool(cached)
        a["cached"] = cached
    return {"m": "rsession", "a": a}


def refused_clauses(case, impl):
    """the property's clauses about refused calls, on the implementation's own observation"""
    out = []
    for i, (op, ob) in enumerate(zip(case["ops"], impl["ops"])):
        if op["op"] == "call" and "err" in ob:
            if ob["invoked"]:
                out.append(f"op {i}: the refused call ({ob['err']}) invoked the user functions {ob['invoked']}")
            elif ob["evaluated_by_request"]:
                out.append(f"op {i}: the refused call ({ob['err']}) evaluated the nodes {ob['evaluated_by_request']}")
    if not impl["ids_ok"]:
        out.append("the ids of the constructed _LazyFunction objects are not consecutive in construction order")
    return out


def compare_refused(case, impl, model):
    """what the stream adds to `props.c18.compare`: counters, the state left at a raise, the whole node table, the own cache"""
    diffs = []
    for i, (op, a, b) in enumerate(zip(case["ops"], impl["ops"], model["ops"])):
        if op["op"] != "call":
            continue
        if a["counter"] != b.get("nodes"):
            diffs.append(f"op {i}: _LazyFunction._counter advanced to {a['counter']}, model {b.get('nodes')}")
        if not b.get("agree", True):
            raise AssertionError("lrunTopR and lrunTop disagree (extraction bug?)")
        if not b.get("evsame", True):
            raise AssertionError("the model's request changed the evaluation state (extraction bug?)")
        if "err" in a and "err" in b:
            if a["left"] != b["left"]:
                diffs.append(f"op {i}: the refused call left {a['left']} nodes, model {b['left']}")
            if a["new_entries"] != b["new_entries"]:
                diffs.append(f"op {i}: the refused call left {a['new_entries']} cache entries, model {b['new_entries']}")
            if "gnodes" in a and (a["gnodes"] != sorted(b.get("gnodes", [])) or
                                  a["gedges"] != sorted([list(e) for e in set(map(tuple, b.get("gedges", [])))])):
                diffs.append(f"op {i}: graph after the refused call {a['gnodes']} / {a['gedges']}, model {b.get('gnodes')} / {b.get('gedges')}")
    if impl["counter"] != model["counter"]:
        diffs.append(f"the session created {impl['counter']} nodes, model {model['counter']}")
    if impl.get("own") != model.get("own"):
        diffs.append(f"the pipeline's own cache holds {impl.get('own')} entries, model {model.get('own')}")
    if len(impl["table"]) != len(model["table"]):
        diffs.append(f"{len(impl['table'])} nodes constructed, model {len(model['table'])}")
    return diffs


def judge_one(ctx, case, impl, resp, counting=True):
    base = _base()
    viol = refused_clauses(case, impl)
    # (`props.c18.judge` words the same two clauses for any call; the refused-call wording wins)
    viol += [w for w in base.judge(ctx, case, impl, None)
             if not (viol and (w.startswith("functions [") or w.startswith("nodes [")) and "by the lazy call itself" in w)]
    if counting:
        in_block = False
        for op, ob in zip(case["ops"], impl["ops"]):
            if op["op"] == "enter":
                in_block = True
            elif op["op"] == "exit":
                in_block = False
            elif op["op"] == "call" and op.get("fault"):
                if "err" in ob:
                    ctx.count(f"refused:{op['fault']}:{ob['err']}:{'in' if in_block else 'out'}:{'left>0' if ob['left'] else 'left=0'}"
                              f"{':cache' if case.get('cache') else ''}")
                    ctx.count("refused-calls"); ctx.count("refused-orphan-nodes", ob["left"])
                    if ob.get("new_entries"):
                        ctx.count("refused-calls-leaving-cache-entries")
                else:
                    ctx.count(f"refused:{op['fault']}:accepted")
            elif op["op"] == "call" and "err" not in ob:
                ctx.count("refused-stream:accepted-calls")
            elif op["op"] == "eval" and "value" in ob:
                ctx.count("refused-stream:evaluations")
    return viol


def check_cases(ctx, cases):
    base = _base()
    impls = []
    for c in cases:
        try:
            impls.append(run_rsession({"funcs": c["funcs"]}, c["ops"], c.get("cache")))
        except Exception as e:  # noqa: BLE001
            impls.append({"crash": exc_enum(e), "msg": str(e)[:200]})
    todo = []
    for c, impl in zip(cases, impls):
        if "crash" in impl:
            ctx.violation(c, f"valid lazy pipeline refused at construction: {impl['crash']}: {impl['msg']}")
        elif any("skipped" in o for o in impl["ops"]):
            # a call meant to be valid was refused: the eager pipeline's verdict decides (judge), there is no handle to evaluate
            ctx.count("refused-stream:valid-call-refused")
            viol = judge_one(ctx, c, {**impl, "ops": [o if "skipped" not in o else {"err": "no-object", "log": []} for o in impl["ops"]]}, None, False)
            for w in viol[:2]:
                ctx.violation(c, w, impl=impl)
        else:
            todo.append((c, impl))
    outs = ctx.lean([model_request(c) for c, _ in todo]) if todo else []
    for (c, impl), resp in zip(todo, outs):
        model = base.model_session(resp["r"])
        model["counter"] = resp["r"]["counter"]
        for o in model["ops"]:
            if "spec" in o and o["spec"] is not None and o.get("den") != o["spec"]:
                raise AssertionError("model denotation and specification disagree (extraction bug?)")
        if not c.get("cache"):
            base.mark_fresh(c["ops"], impl)
        left = any("err" in o and o.get("left") for o in impl["ops"])
        ctx.record(c, left)
        viol = judge_one(ctx, c, impl, resp)
        for w in viol[:2]:
            ctx.violation(c, w, impl=impl, model=model)
        if not resp["r"].get("wf", True) or not resp["r"].get("roots_ok", True):
            raise AssertionError("a generated pipeline does not satisfy the theorems' well-formedness hypothesis (generator bug?)")
        if not viol:
            # `props.c18.compare` skips the own cache after a refused call; here it is compared (below)
            diffs = [d for d in base.compare(c, impl, model) if not d.startswith("the pipeline's own cache")] + compare_refused(c, impl, model)
            if diffs:
                ctx.violation(c, "lazy session with refused calls differs from the model: " + diffs[0], found_input=False,
                              item="correspondence:lazy-refused-state", impl=impl, model=model)


FA = {"name": "fa", "params": [["x", "x"]], "outputs": ["a"], "defaults": [], "bound": []}
FB = {"name": "fb", "params": [["a", "a"], ["y", "y"]], "outputs": ["b", "c"], "defaults": [["y", {"s": "dy"}]], "bound": []}
FD = {"name": "fd", "params": [["a", "p"], ["b", "q"], ["c", "r"]], "outputs": ["d"], "defaults": [], "bound": []}
FE = {"name": "fe", "params": [["a", "a"], ["z", "z"]], "outputs": ["e"], "defaults": [], "bound": []}
KX = [["x", kwval("x")]]
KXZ = KX + [["zz", kwval("zz")]]
KXE = KX + [["z", kwval("z")]]


def _c(funcs, ops, cache=None):
    c = {"stream": "refused", "funcs": funcs, "ops": ops}
    if cache:
        c["cache"] = cache
    return c


CORPUS: list = [
    # surplus keyword inside a block: five orphans in the graph, three cache entries; the valid request shares what the key allows
    _c([FA, FB, FD], [{"op": "enter"}, {"op": "call", "out": "d", "kw": KXZ, "fault": "surplus"}, {"op": "call", "out": "d", "kw": KX},
                      {"op": "exit"}, {"op": "eval", "h": 1}, {"op": "eval", "h": 1}]),
    # ... outside a block: only the counter moves
    _c([FA, FB, FD], [{"op": "call", "out": "d", "kw": KXZ, "fault": "surplus"}, {"op": "call", "out": "d", "kw": KX}, {"op": "eval", "h": 1}]),
    # ... with the pipeline's own cache: the refused call's entries serve the next call
    _c([FA, FB, FD], [{"op": "call", "out": "d", "kw": KXZ, "fault": "surplus"}, {"op": "call", "out": "d", "kw": KX}, {"op": "eval", "h": 1}],
       {"cache_type": "simple", "cached": ["fa", "fb", "fd"]}),
    # missing value for the SECOND parameter: `fa`'s node exists (graph, cache), `fe`'s does not
    _c([FA, FE], [{"op": "enter"}, {"op": "call", "out": "e", "kw": KX, "fault": "missing-later"}, {"op": "call", "out": "a", "kw": KX},
                  {"op": "call", "out": "e", "kw": KXE}, {"op": "exit"}, {"op": "eval", "h": 2}, {"op": "eval", "h": 1}]),
    _c([FA, FE], [{"op": "call", "out": "e", "kw": KX, "fault": "missing-later"}, {"op": "call", "out": "e", "kw": KXE}, {"op": "eval", "h": 1}]),
    _c([FA, FE], [{"op": "call", "out": "e", "kw": KX, "fault": "missing-later"}, {"op": "call", "out": "e", "kw": KXE}, {"op": "eval", "h": 1}],
       {"cache_type": "lru", "cached": ["fa"]}),
    # refused at the door: nothing is left
    _c([FA, FE], [{"op": "enter"}, {"op": "call", "out": "e", "kw": [["z", kwval("z")]], "fault": "missing"},
                  {"op": "call", "out": "nope", "kw": KX, "fault": "unknown-output"},
                  {"op": "call", "out": "a", "kw": KX + [["a", kwval("a")]], "fault": "output-in-kwargs"},
                  {"op": "call", "out": "a", "kw": KX}, {"op": "exit"}, {"op": "eval", "h": 3}]),
    # a refused whole-tuple request, then one of its names; a refused call after an evaluation
    _c([FA, FB, FD], [{"op": "enter"}, {"op": "call", "out": ["b", "c"], "kw": KXZ, "fault": "whole:surplus"}, {"op": "call", "out": "c", "kw": KX},
                      {"op": "eval", "h": 1}, {"op": "call", "out": "d", "kw": KXZ, "fault": "surplus"}, {"op": "call", "out": "d", "kw": KX},
                      {"op": "exit"}, {"op": "eval", "h": 3}, {"op": "eval", "h": 1}]),
]


def check(ctx, rng, n):
    base = _base()
    cases = [copy.deepcopy(c) for c in CORPUS]
    for _ in range(n):
        try:
            cases.append(gen_case(ctx, rng))
        except Exception as e:  # noqa: BLE001   the eager pipeline refused a generated description (C02's business)
            ctx.count(f"generator-skip:{exc_enum(e)}")
            ctx.skip(f"eager construction: {exc_enum(e)}")
    try:
        check_cases(ctx, cases)
    finally:
        base._cleanup_tmp()


def replay_one(ctx, case):
    base = _base()
    try:
        impl = run_rsession({"funcs": case["funcs"]}, case["ops"], case.get("cache"))
    finally:
        base._cleanup_tmp()
    print("implementation:", impl)
    for w in refused_clauses(case, impl):
        print("violation:", w)
    if any("skipped" in o for o in impl["ops"]):
        print("(a call meant to be valid was refused: no model run)")
        return
    r = ctx.lean([model_request(case)])[0]["r"]
    model = base.model_session(r)
    model["counter"] = r["counter"]
    print("model:", model)
    for d in base.compare(case, impl, model) + compare_refused(case, impl, model):
        print("difference:", d)
