import PfModel.Props.C14
import PfModel.Lemmas.CachePolicyClear
/-!
C14 — clauses that `Props/C14.lean` leaves to the correspondence:

* `clear()` resets EVERY piece of state: after `clear()` a container cannot be told from a newly constructed one by any
  continuation (`C14_clear_resets_*`; for DiskCache the directory's logical clock keeps running, which no operation observes);
* (b) for DiskCache along histories: `len ≤ max_size` after every operation once a `put` has happened under the `max_size` in
  force (`C14_disk_len_le_history`, `C14_disk_len_le_after_put`);
* DiskCache with an in-memory LRU in front: the keys reported present are the files PLUS what the LRU still holds — their number
  can exceed `len` and `max_size` (`C14_disk_present_bound`, witness `C14_disk_present_exceeds_len`);
* the hypothesis `0 < max_size` of the (a)-theorems is exact (`C14_hybrid_never_raises_iff`, `C14_lru_never_raises_iff`), and
  for DiskCache `max_size = 0` raises nothing but stores nothing (`C14_disk_max0`).
-/
namespace PF.C14
open PF.Cache

/-! ### `clear()` -/

/-- LRUCache: `clear()` leaves exactly the state of `LRUCache(max_size)` — dict and queue empty — so every continuation runs as
    on a new cache (`cache.py:339-345`) -/
theorem C14_clear_resets_lru (s : LRU) :
    s.step .clear = .ok (s.clear, .unit) ∧ s.clear = LRU.empty s.max ∧
    ∀ h, lruSem.run s.clear h = lruSem.run (LRU.empty s.max) h := by
  refine ⟨rfl, rfl, fun _ => rfl⟩

/-- HybridCache: `clear()` leaves exactly the state of a new `HybridCache(max_size, access_weight, duration_weight)`: no
    value, no access count, no duration survives, so the scores of every later eviction are those of a new cache -/
theorem C14_clear_resets_hybrid (s : Hyb) :
    s.step .clear = .ok (s.clear, .unit) ∧ s.clear = Hyb.empty s.max s.wa s.wd ∧
    ∀ h, hybSem.run s.clear h = hybSem.run (Hyb.empty s.max s.wa s.wd) h := by
  refine ⟨rfl, rfl, fun _ => rfl⟩

/-- SimpleCache -/
theorem C14_clear_resets_simple (s : Simple) : s.step .clear = .ok (⟨[]⟩, .unit) := rfl

/-- DiskCache: after `clear()` no file is left, the in-memory LRU (when there is one) is a new `LRUCache` of the same size,
    no key is present — and for EVERY continuation `h` (puts, gets, reopens, …) the answers, or the exception, are those a
    newly constructed DiskCache on an empty directory gives. Only the directory's clock is not reset: the new files are
    stamped later, which changes no comparison (`disk_run_shift`). No hypothesis on `s`. -/
theorem C14_clear_resets_disk (s : Disk) (h : List Op) :
    s.step .clear = .ok (s.clear, .unit) ∧ s.clear.files = [] ∧ s.clear.lru = (s.lru.map (·.max)).map LRU.empty ∧
    (∀ k, s.clear.view k = none) ∧
    obsOf (diskSem.run s.clear h) = obsOf (diskSem.run (Disk.empty s.max (s.lru.map (·.max))) h) := by
  refine ⟨rfl, rfl, ?_, Disk.clear_view s, ?_⟩
  · cases hl : s.lru <;> simp [Disk.clear, hl, LRU.clear, LRU.empty]
  · rw [disk_clear_eq_shift, disk_run_shift, obsOf_shiftRun]

/-! ### (b) for DiskCache along histories -/

/-- (b) every history without a reopen on a new `DiskCache(dir, max_size=m)` ends with `len ≤ m` (every prefix is such a
    history, so this is `len ≤ max_size` after every operation) -/
theorem C14_disk_len_le_history (m l : Option Nat) (hm : m ≠ some 0) (hl : l ≠ some 0) (h : List Op)
    (hno : ∀ op ∈ h, op.isReopen = false) :
    ∃ s os, diskSem.run (Disk.empty m l) h = .ok (s, os) ∧ s.max = m ∧ ∀ n, m = some n → s.files.length ≤ n := by
  have hwf : ∀ op ∈ h, op.WF := by
    intro op hop; have := hno op hop; cases op <;> simp [Op.WF, Op.isReopen] at this ⊢
  have hi := Disk.inv_empty m l hm hl
  obtain ⟨s, os, hr, _, _⟩ := disk_lawful.run_ok h _ hi hwf
  have hb0 : (Disk.empty m l).Bounded := by intro n _; simp [Disk.empty]
  obtain ⟨hb, _⟩ := disk_run_bounded h _ s os hi hb0 hno hr
  have hmax : ∀ (h : List Op) (s s' : Disk) os, s.Inv → (∀ op ∈ h, op.isReopen = false) → diskSem.run s h = .ok (s', os) → s'.max = s.max := by
    intro h
    induction h with
    | nil => intro s s' os _ _ hr; simp only [Sem.run] at hr; cases hr; rfl
    | cons op h ih =>
      intro s s' os hi hno hr
      have hop := hno op (by simp)
      have hwf : op.WF := by cases op <;> simp [Op.WF, Op.isReopen] at hop ⊢
      obtain ⟨s1, o, h1, hi1⟩ := disk_lawful.total s op hi hwf
      simp only [Sem.run, h1] at hr
      cases h2 : diskSem.run s1 h with
      | error e => simp [h2] at hr
      | ok p =>
        obtain ⟨s2, os2⟩ := p
        simp only [h2] at hr
        cases hr
        rw [ih s1 _ os2 hi1 (fun op' hm' => hno op' (List.mem_cons_of_mem _ hm')) h2]
        have h1' : s.step op = .ok (s1, o) := h1
        cases op with
        | put k v d =>
          obtain ⟨s3, hp, _, hm3, _⟩ := Disk.put_spec s k v hi
          simp only [Disk.step, hp] at h1'; cases h1'; exact hm3
        | get k =>
          obtain ⟨s3, hg, _, hm3, _⟩ := Disk.get_spec s k hi
          simp only [Disk.step, hg] at h1'; cases h1'; exact hm3
        | has k => simp only [Disk.step] at h1'; cases h1'; rfl
        | len => simp only [Disk.step] at h1'; cases h1'; rfl
        | clear => simp only [Disk.step] at h1'; cases h1'; rfl
        | reopen _ _ => simp [Op.isReopen] at hop
  have hsm : s.max = m := hmax h _ s os hi hno hr
  exact ⟨s, os, hr, hsm, fun n hn => hb n (hsm ▸ hn)⟩

/-- (b) with reopens: whatever happened before (any history `h1`, reopened any number of times with other `max_size`s, so
    that the directory may hold MORE files than the `max_size` now in force), after the next `put` and any reopen-free
    continuation `h2` the directory holds at most `max_size` files -/
theorem C14_disk_len_le_after_put (m l : Option Nat) (hm : m ≠ some 0) (hl : l ≠ some 0) (h1 : List Op) (hwf : ∀ op ∈ h1, op.WF)
    (k : Key) (v : Val) (d : Nat) (h2 : List Op) (hno : ∀ op ∈ h2, op.isReopen = false) :
    ∃ s os, diskSem.run (Disk.empty m l) (h1 ++ .put k v d :: h2) = .ok (s, os) ∧ ∀ n, s.max = some n → s.files.length ≤ n := by
  obtain ⟨s1, os1, hr1, hi1, _⟩ := disk_lawful.run_ok h1 _ (Disk.inv_empty m l hm hl) hwf
  obtain ⟨s2, o, hp, hi2⟩ := disk_lawful.total s1 (.put k v d) hi1 trivial
  have hb2 : s2.Bounded := disk_put_bounded s1 s2 k v d o hi1 hp
  have hwf2 : ∀ op ∈ h2, op.WF := by
    intro op hop; have := hno op hop; cases op <;> simp [Op.WF, Op.isReopen] at this ⊢
  obtain ⟨s3, os3, hr3, _, _⟩ := disk_lawful.run_ok h2 s2 hi2 hwf2
  obtain ⟨hb3, _⟩ := disk_run_bounded h2 s2 s3 os3 hi2 hb2 hno hr3
  refine ⟨s3, os1 ++ o :: os3, ?_, hb3⟩
  rw [run_append, hr1]
  simp only [Sem.run, hp, hr3]

/-! ### DiskCache behind its in-memory LRU: what is present -/

/-- The keys a DiskCache reports present are the keys with a file plus the keys its in-memory LRU holds: any duplicate-free
    list of present keys is at most `len(cache) + len(lru_cache)` long, and `len(lru_cache) ≤ lru_cache_size`.  So with an LRU in
    front, up to `max_size + lru_cache_size` keys can be present although `len(cache) ≤ max_size`
    (see `C14_disk_present_exceeds_len`); every one of them answers `get` with its most recent put
    (`C14_present_iff_get_disk`). -/
theorem C14_disk_present_bound (s : Disk) (hi : s.Inv) (ks : List Key) (hnd : ks.Nodup) (hp : ∀ k ∈ ks, s.contains k = true) :
    ks.length ≤ s.files.length + (match s.lru with | none => 0 | some l => l.dict.length) ∧
    (∀ l, s.lru = some l → l.dict.length ≤ l.max) ∧
    (s.lru = none → ks.length ≤ s.files.length) := by
  have key : ks.length ≤ s.files.length + (match s.lru with | none => 0 | some l => l.dict.length) := by
    cases hl : s.lru with
    | none =>
      have := present_count ks hnd (keys s.files) [] (by
        intro k hk
        have := hp k hk
        simp only [Disk.contains, hl, Bool.false_or] at this
        exact Or.inl ((has_iff_mem_keys _ _).mp this))
      simpa [length_keys] using this
    | some l =>
      have := present_count ks hnd (keys s.files) (keys l.dict) (by
        intro k hk
        have := hp k hk
        simp only [Disk.contains, hl, Bool.or_eq_true] at this
        rcases this with h | h
        · exact Or.inr ((has_iff_mem_keys _ _).mp h)
        · exact Or.inl ((has_iff_mem_keys _ _).mp h))
      simpa [length_keys] using this
  refine ⟨key, ?_, ?_⟩
  · intro l hl
    exact (C14_lru_len_le l (hi.lruInv l hl)).2.2.2
  · intro hl
    simpa [hl] using key

/-- witness (replayed on the real code, corpus of `harness/props/c14.py`): `DiskCache(dir, max_size=1, lru_cache_size=2)`,
    `put a; put b` — the file of `a` is unlinked (oldest), `len` is 1, yet `a in cache` is `True` and `get(a)` returns its value,
    because the in-memory LRU still holds it; a DiskCache reopened on the directory does not know `a` any more -/
theorem C14_disk_present_exceeds_len :
    ((diskSem.run (Disk.empty (some 1) (some 2))
        [.put 0 1 0, .put 1 2 0, .has 0, .has 1, .get 0, .len, .reopen (some 1) (some 2), .has 0, .get 0, .has 1]).toOption.map (·.2)) =
      some [.unit, .unit, .bool true, .bool true, .val (some 1), .nat 1, .unit, .bool false, .val none, .bool true] := by decide

/-! ### the hypothesis `0 < max_size` is exact -/

/-- HybridCache: every history runs without raising exactly when `max_size > 0`.  `HybridCache(max_size=0)` is accepted by the
    constructor (unlike `LRUCache(max_size=0)`), and its first `put` raises `ValueError` (`min` of no scores). -/
theorem C14_hybrid_never_raises_iff (max wa wd : Nat) :
    (∀ h : List Op, (∀ op ∈ h, op.WF) → ∃ s os, hybSem.run (Hyb.empty max wa wd) h = .ok (s, os)) ↔ 0 < max := by
  constructor
  · intro hall
    cases max with
    | succ n => omega
    | zero =>
      obtain ⟨s, os, hr⟩ := hall [.put 0 0 0] (by intro op hop; simp at hop; subst hop; trivial)
      simp [Sem.run, hybSem, Hyb.step, Hyb.put, Hyb.expire, Hyb.empty, Hyb.scores, argmin] at hr
  · intro hpos h hwf
    obtain ⟨s, os, hr, _⟩ := (C14_histories_never_raise h hwf).2.1 max wa wd hpos
    exact ⟨s, os, hr⟩

/-- the exception of `HybridCache(max_size=0).put`, for every key, value, duration and weights -/
theorem C14_hybrid_max0_put_raises (wa wd : Nat) (k : Key) (v : Val) (d : Nat) :
    errOf ((Hyb.empty 0 wa wd).put k v d) = some .valueError := by
  simp [errOf, Hyb.put, Hyb.expire, Hyb.empty, Hyb.scores, argmin]

/-- LRUCache: the same equivalence; the constructor enforces the right-hand side (`ValueError` for `max_size=0`,
    `cache.py:279-281`), which is why no history on a constructed LRUCache raises -/
theorem C14_lru_never_raises_iff (max : Nat) :
    (∀ h : List Op, (∀ op ∈ h, op.WF) → ∃ s os, lruSem.run (LRU.empty max) h = .ok (s, os)) ↔ 0 < max := by
  constructor
  · intro hall
    cases max with
    | succ n => omega
    | zero =>
      obtain ⟨s, os, hr⟩ := hall [.put 0 0 0] (by intro op hop; simp at hop; subst hop; trivial)
      simp [Sem.run, lruSem, LRU.step, LRU.put, LRU.putPinned, LRU.empty, has, lookup] at hr
  · intro hpos h hwf
    obtain ⟨s, os, hr, _⟩ := (C14_histories_never_raise h hwf).1 max hpos
    exact ⟨s, os, hr⟩

/-- DiskCache without an LRU and `max_size=0` (accepted by the constructor): no operation raises, and every file is unlinked
    by the `put` that wrote it — after any reopen-free history the directory is empty and no key is present (so clause (c)
    holds trivially; what fails is only "a key is present right after its put", which the property does not demand) -/
theorem C14_disk_max0 (h : List Op) (hno : ∀ op ∈ h, op.isReopen = false) :
    ∃ s os, diskSem.run (Disk.empty (some 0) none) h = .ok (s, os) ∧ s.files = [] ∧ ∀ k, s.contains k = false := by
  obtain ⟨s, os, hr, _, hl, hf⟩ := disk_max0_run h (Disk.empty (some 0) none) rfl rfl rfl hno
  refine ⟨s, os, hr, hf, ?_⟩
  intro k
  simp [Disk.contains, hl, hf, has, lookup]

/-- (a) for SimpleCache (missing from `C14_histories_never_raise`): every history runs to the end; there is no bound to keep -/
theorem C14_simple_never_raises (h : List Op) : ∃ s os, simpleSem.run ⟨[]⟩ h = .ok (s, os) ∧ os.length = h.length := by
  have hwf : ∀ (h : List Op) (s : Simple), ∃ s' os, simpleSem.run s h = .ok (s', os) ∧ os.length = h.length := by
    intro h
    induction h with
    | nil => intro s; exact ⟨s, [], rfl, rfl⟩
    | cons op h ih =>
      intro s
      have hstep : ∃ s1 o, simpleSem.step s op = .ok (s1, o) := by
        cases op <;> exact ⟨_, _, rfl⟩
      obtain ⟨s1, o, h1⟩ := hstep
      obtain ⟨s2, os, h2, hl⟩ := ih s1
      exact ⟨s2, o :: os, by simp only [Sem.run, h1, h2], by simp [hl]⟩
  exact hwf h ⟨[]⟩

/-! ### non-vacuity -/

/-- clear on a populated hybrid cache, then the continuation that would evict differently if counts survived -/
example : ((hybSem.run (Hyb.empty 2 1 1) [.put 0 1 5, .get 0, .get 0, .clear, .put 1 2 1, .put 0 3 1, .put 2 4 1, .has 0, .has 1]).toOption.map (·.2)) =
    some [.unit, .val (some 1), .val (some 1), .unit, .unit, .unit, .unit, .bool true, .bool false] := by decide
/-- a populated DiskCache with an LRU: cleared, then the same continuation as on a new one -/
example : (obsOf (diskSem.run ((Disk.empty (some 2) (some 1)).writeFile 0 1).clear [.put 1 2 0, .put 2 3 0, .put 3 4 0, .has 1, .len])).toOption =
    some [.unit, .unit, .unit, .bool false, .nat 2] := by decide
example : ∀ op ∈ [Op.put 0 1 0, .get 0, .clear], op.isReopen = false := by
  intro op h; simp at h; rcases h with rfl | rfl | rfl <;> rfl
example : ((diskSem.run (Disk.empty (some 2) none) ([.put 0 1 0, .put 1 2 0, .put 2 3 0, .reopen (some 1) none] ++ .put 3 4 0 :: [.len])).toOption.map (·.2)) =
    some [.unit, .unit, .unit, .unit, .unit, .nat 1] := by decide
/-- two keys present, one file: a reachable state satisfying the hypotheses of `C14_disk_present_bound` -/
example : ∃ s : Disk, s.Inv ∧ s.files.length = 1 ∧ [0, 1].Nodup ∧ ∀ k ∈ [0, 1], s.contains k = true := by
  obtain ⟨s, os, hr, hi, _⟩ := disk_lawful.run_ok [.put 0 1 0, .put 1 2 0] (Disk.empty (some 1) (some 2))
    (Disk.inv_empty _ _ (by decide) (by decide)) (by intro op h; simp at h; rcases h with rfl | rfl <;> trivial)
  have h2 : diskSem.run (Disk.empty (some 1) (some 2)) [.put 0 1 0, .put 1 2 0] =
      .ok (⟨some 1, [(1, (2, 1))], 2, some ⟨2, [(0, 1), (1, 2)], [0, 1]⟩⟩, [.unit, .unit]) := by rfl
  rw [h2] at hr
  cases hr
  refine ⟨_, hi, rfl, by decide, by decide⟩

end PF.C14
