import PfModel.Lemmas.SchedCount
import PfModel.Props.C03
/-!
C03 (round 9) — call COUNTS, for every schedule.

"In every such run each function is invoked exactly once per output index (once in total if it has no MapSpec)."
`C03_once` / `C03_calls_perm` (round 1) say that the bodies that ran are a duplicate-free permutation of the submitted futures
and that the executed calls are a permutation of the sequential runner's call list.  Here the clause is stated as what it
literally is — numbers: how often the function named `n` occurs in the execution-order call log (`callCount`, the quantity
the harness reads off the cross-process append-only log), how often the body of one future occurs in the execution log
(`taskCount`, the quantity the controllable executor sees), for every family of schedules (a schedule of a generation = a
permutation of its submitted futures, `ValidScheds`) and every `dump_in_subprocess` assignment.
-/
namespace PF.C03
open PF PF.Map PF.Sched PF.SchedC

/-- **What is demanded.** One invocation for a function without a MapSpec or with an input-free MapSpec; for a mapped
    function the number of external indices: the product of the external (`mask = True`) axes of its first output. -/
theorem C03_count_demanded (shapes : List (String × List Nat)) (masks : List (String × List Bool)) (f : MFunc) :
    (f.mapspec = none → demanded shapes masks f = 1) ∧
    (∀ ms, f.mapspec = some ms → ms.inputs.isEmpty = true → demanded shapes masks f = 1) ∧
    (∀ ms o sh mk, f.mapspec = some ms → ms.inputs.isEmpty = false → f.outputs.head? = some o →
      alookup shapes o = some sh → alookup masks o = some mk → sh.length = mk.length →
      demanded shapes masks f = prod (extOf mk sh)) := by
  refine ⟨?_, ?_, ?_⟩
  · intro h; simp [demanded, planOf, h, nFut]
  · intro ms h he; simp [demanded, planOf, h, he, nFut]
  · intro ms o sh mk h he ho hs hm hl
    simp [demanded, planOf, h, he, ho, hs, hm, hl, nFut]

/-- **Once per index, as a count (one generation, every schedule).** For every order in which the submitted bodies run, the
    body of future `k` of the function at position `j` ran exactly once when `k` is below the number of external indices of
    that function (below 1 for an un-mapped one), and never otherwise: no body runs twice, none is skipped, nothing that was
    not submitted runs. -/
theorem C03_count_tasks_gen (fs : List MFunc) (shapes : List (String × List Nat)) (masks : List (String × List Bool))
    (dumpSub : String → Bool) (env : Env) (gen : List MFunc) (order : List TaskId)
    (hperm : order.Perm (idsFrom 0 (planned shapes masks gen))) (hind : GenIndep gen)
    (rs : List FuncResult) (tr : GenTrace) (h : runGenSched fs shapes masks dumpSub env gen order = .ok (rs, tr)) (j k : Nat) :
    ((∃ f, gen[j]? = some f ∧ k < demanded shapes masks f) → tr.ran.count (j, k) = 1) ∧
    ((¬ ∃ f, gen[j]? = some f ∧ k < demanded shapes masks f) → tr.ran.count (j, k) = 0) := by
  obtain ⟨_, _, hnd, hiff⟩ := C03_once fs shapes masks dumpSub env gen order hperm hind rs tr h
  rw [hnd.count]
  constructor
  · intro hx; rw [if_pos ((hiff j k).mpr hx)]
  · intro hx; rw [if_neg (fun hm => hx ((hiff j k).mp hm))]

/-- **Once per future over the whole run, every family of schedules.** In the execution log of every successful run the
    entry (generation `g`, future `id`) occurs exactly once when `id` is a submitted future of generation `g`, and does not
    occur otherwise. -/
theorem C03_count_tasks (fs : List MFunc) (inputs : List (String × Val)) (ui : List (String × List Nat))
    (dumpSub : String → Bool) (sched : Scheds) (hs : ValidScheds sched) (huo : UniqueOutputs fs)
    (res : MapResult) (trs : List GenTrace) (h : runMapSched fs inputs ui dumpSub sched = .ok (res, trs)) (g : Nat) (id : TaskId) :
    ((∃ tr, trs[g]? = some tr ∧ id ∈ tr.ids) → taskCount g id trs = 1) ∧
    ((¬ ∃ tr, trs[g]? = some tr ∧ id ∈ tr.ids) → taskCount g id trs = 0) := by
  have honce := C03_once_map fs inputs ui dumpSub sched hs huo res trs h
  have hc := runLog_count g id trs 0 (Nat.zero_le _)
  simp only [Nat.sub_zero] at hc
  unfold taskCount
  rw [hc]
  constructor
  · rintro ⟨tr, htr, hid⟩
    obtain ⟨hp, _, hnd⟩ := honce tr (List.mem_of_getElem? htr)
    rw [htr]; simp only
    rw [hnd.count, if_pos (hp.mem_iff.mpr hid)]
  · intro hx
    cases htr : trs[g]? with
    | none => rfl
    | some tr =>
      obtain ⟨hp, _, hnd⟩ := honce tr (List.mem_of_getElem? htr)
      simp only
      rw [hnd.count, if_neg (fun hm => hx ⟨tr, htr, hp.mem_iff.mp hm⟩)]

/-- **Call counts, every family of schedules.** In every successful run of a pipeline with unique output names and pairwise
    different function names, under every family of schedules and every `dump_in_subprocess` assignment, every function of
    the pipeline occurs in the execution-order call log exactly as often as demanded (`C03_count_demanded`): once per
    external index of its output, once in total if it has no MapSpec. -/
theorem C03_count_calls (fs : List MFunc) (inputs : List (String × Val)) (ui : List (String × List Nat))
    (dumpSub : String → Bool) (sched : Scheds) (hs : ValidScheds sched) (huo : UniqueOutputs fs)
    (hnames : (fs.map (·.name)).Nodup)
    (res : MapResult) (trs : List GenTrace) (h : runMapSched fs inputs ui dumpSub sched = .ok (res, trs)) :
    ∀ f ∈ fs, callCount f.name trs = demanded res.shapes res.masks f := by
  intro f hf
  obtain ⟨hlen, rs, env, hg⟩ := runMapSched_ok' fs inputs ui dumpSub sched res trs h
  have hc := runGensSched_count fs res.shapes res.masks dumpSub sched hs f.name (generations fs) 0 _ _
    (fun gen hgen => (C03_layer_independent fs huo gen hgen).1) hg
  unfold callCount demanded
  rw [hc]
  exact sum_select (·.name) (fun f => nFut (planOf res.shapes res.masks f)) _ (generations_names_nodup fs hnames) f
    (PF.Sub.generations_complete fs hlen f hf)

/-- … and a name that no function carries is never invoked. -/
theorem C03_count_calls_foreign (fs : List MFunc) (inputs : List (String × Val)) (ui : List (String × List Nat))
    (dumpSub : String → Bool) (sched : Scheds) (hs : ValidScheds sched) (huo : UniqueOutputs fs)
    (res : MapResult) (trs : List GenTrace) (h : runMapSched fs inputs ui dumpSub sched = .ok (res, trs))
    (n : String) (hn : ∀ f ∈ fs, f.name ≠ n) : callCount n trs = 0 := by
  obtain ⟨hlen, rs, env, hg⟩ := runMapSched_ok' fs inputs ui dumpSub sched res trs h
  have hc := runGensSched_count fs res.shapes res.masks dumpSub sched hs n (generations fs) 0 _ _
    (fun gen hgen => (C03_layer_independent fs huo gen hgen).1) hg
  unfold callCount
  rw [hc]
  apply sum_none
  intro f hfl
  obtain ⟨gen, hgen, hfg⟩ := List.mem_flatten.mp hfl
  exact hn f (layers_mem fs _ _ _ f hfl)

/-- **The counts do not depend on the schedule, the executor or the storage.** Any two successful runs of the same pipeline
    on the same inputs — whatever their families of schedules and `dump_in_subprocess` assignments — invoke every name
    equally often (no hypothesis on function names). -/
theorem C03_count_schedule_independent (fs : List MFunc) (inputs : List (String × Val)) (ui : List (String × List Nat))
    (dumpSub dumpSub' : String → Bool) (sched sched' : Scheds) (hs : ValidScheds sched) (hs' : ValidScheds sched')
    (huo : UniqueOutputs fs) (res res' : MapResult) (trs trs' : List GenTrace)
    (h : runMapSched fs inputs ui dumpSub sched = .ok (res, trs)) (h' : runMapSched fs inputs ui dumpSub' sched' = .ok (res', trs'))
    (n : String) : callCount n trs = callCount n trs' := by
  have e := C03_map_schedule_independent fs inputs ui dumpSub dumpSub' sched sched' hs hs' huo
  rw [h, h'] at e
  simp only [Except.map, Except.ok.injEq] at e
  subst e
  obtain ⟨_, rs, env, hg⟩ := runMapSched_ok' fs inputs ui dumpSub sched res trs h
  obtain ⟨_, rs', env', hg'⟩ := runMapSched_ok' fs inputs ui dumpSub' sched' res trs' h'
  unfold callCount
  rw [runGensSched_count fs res.shapes res.masks dumpSub sched hs n (generations fs) 0 _ _
        (fun gen hgen => (C03_layer_independent fs huo gen hgen).1) hg,
      runGensSched_count fs res.shapes res.masks dumpSub' sched' hs' n (generations fs) 0 _ _
        (fun gen hgen => (C03_layer_independent fs huo gen hgen).1) hg']

/-! ### non-vacuity -/

private def el (n : String) (ins : List String) (out : String) : MFunc :=
  { name := n, params := ins.map fun p => (p, p), outputs := [out],
    mapspec := some { inputs := ins.map fun p => ⟨p, [some "i"]⟩, outputs := [⟨out, [some "i"]⟩] },
    ret := none, internal := none, defaults := [], bound := [] }
/-- a function without MapSpec that takes the whole of `z` -/
private def tot : MFunc :=
  { name := "t", params := [("z", "z")], outputs := ["s"], mapspec := none, ret := none, internal := none, defaults := [], bound := [] }

private def exFs : List MFunc := [tot, el "g" ["y", "w"] "z", el "f" ["x"] "y", el "h" ["x"] "w"]
private def exIn : List (String × Val) := [("x", .arr [3] [.int 1, .int 2, .int 3])]
private def revSched : Scheds := fun _ ids => ids.reverse
/-- a "schedule" that runs the first submitted body twice -/
private def dupSched : Scheds := fun _ ids => ids.take 1 ++ ids

example : UniqueOutputs exFs := by simp [UniqueOutputs, exFs, el, tot]
example : (exFs.map (·.name)).Nodup := by decide
example : ValidScheds revSched := fun _ ids => List.reverse_perm ids
/-- under the reversed schedule: `f`, `h`, `g` three invocations each, `t` one -/
example : ((runMapSched exFs exIn [] (fun o => o == "y") revSched).toOption.map fun r =>
      callTable exFs r.1.shapes r.1.masks r.2) = some [("f", 3, 3), ("h", 3, 3), ("g", 3, 3), ("t", 1, 1)] := by decide
example : ((runMapSched exFs exIn [] (fun o => o == "y") revSched).toOption.map fun r => taskTable r.2) =
    some [(0, 0, 0, 1), (0, 0, 1, 1), (0, 0, 2, 1), (0, 1, 0, 1), (0, 1, 1, 1), (0, 1, 2, 1),
          (1, 0, 0, 1), (1, 0, 1, 1), (1, 0, 2, 1), (2, 0, 0, 1)] := by decide
/-- `ValidScheds` is needed: an executor that runs a body twice makes the counts 4 and 2 -/
example : ((runMapSched exFs exIn [] (fun _ => false) dupSched).toOption.map fun r => (callCount "f" r.2, taskCount 0 (0, 0) r.2)) =
    some (4, 2) := by decide
example : ¬ ValidScheds dupSched := by
  intro h
  have := (h 0 [(0, 0)]).length_eq
  simp [dupSched] at this
/-- the hypothesis on names in `C03_count_calls` is needed: two functions that share a name are counted together -/
example : ((runMapSched [el "f" ["x"] "y", el "f" ["x"] "w"] exIn [] (fun _ => false) revSched).toOption.map fun r => callCount "f" r.2) =
    some 6 := by decide
/-- `demanded` of a mapped function is the number of external indices, not the size of the array: internal axes do not count -/
example : demanded [("y", [3, 2])] [("y", [true, false])]
    { name := "f", params := [("x", "x")], outputs := ["y"],
      mapspec := some { inputs := [⟨"x", [some "i"]⟩], outputs := [⟨"y", [some "i", some "k"]⟩] },
      ret := some [2], internal := some [2], defaults := [], bound := [] } = 3 := by decide

end PF.C03
