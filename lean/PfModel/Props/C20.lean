import PfModel.Lemmas.Resources
/-!
C20 — Resource specifications combine monotonically and without side effects.
Property theorems only; helper lemmas are in `Lemmas/Resources.lean`, the model in `Model/Resources.lean`.
-/
namespace PF.C20
open PF.Res

/-- `combine_max` of valid operands: every operand's cpus, gpus, memory (by size) and time (by duration) is at most the
    result's, and every quantity of the result is one of the operands'. -/
theorem C20_combine_ge (l : List R) (hv : ∀ r ∈ l, Valid r = true) :
    (∀ r ∈ l, ∀ c, r.cpus = some c → ∃ c', (combineMax l).cpus = some c' ∧ c ≤ c') ∧
    (∀ r ∈ l, ∀ g, r.gpus = some g → ∃ g', (combineMax l).gpus = some g' ∧ g ≤ g') ∧
    (∀ r ∈ l, ∀ m, r.memory = some m → ∃ m', (combineMax l).memory = some m' ∧ MemLe m m') ∧
    (∀ r ∈ l, ∀ t, r.time = some t → ∃ t', (combineMax l).time = some t' ∧ TimeLe t t') := by
  refine ⟨?_, ?_, ?_, ?_⟩
  · have h := fold_pick_ge (α := Int) (ρ := R) (· ≤ ·) (fun _ => True) maxOpt (·.cpus) (fun _ _ => Int.le_refl _)
      (fun _ _ _ => Int.le_trans) maxOpt_facts.1 maxOpt_facts.2.1 (fun a n _ _ => maxOpt_facts.2.2 a n) l
      (fun _ _ _ _ => trivial) none (by simp)
    unfold combineMax; rw [fold_cpus]; exact h.2.2.1
  · have h := fold_pick_ge (α := Int) (ρ := R) (· ≤ ·) (fun _ => True) maxOpt (·.gpus) (fun _ _ => Int.le_refl _)
      (fun _ _ _ => Int.le_trans) maxOpt_facts.1 maxOpt_facts.2.1 (fun a n _ _ => maxOpt_facts.2.2 a n) l
      (fun _ _ _ _ => trivial) none (by simp)
    unfold combineMax; rw [fold_gpus]; exact h.2.2.1
  · have h := fold_pick_ge (α := String) (ρ := R) MemLe (fun s => (memSize? s).isSome) memPick (·.memory)
      (fun x hx => by obtain ⟨v, hv⟩ := Option.isSome_iff_exists.mp hx; exact ⟨v, v, hv, hv, Rat.le_refl⟩)
      (fun x y z ⟨a, b, ha, hb, hab⟩ ⟨b', c, hb', hc, hbc⟩ => by
        rw [hb] at hb'; cases hb'; exact ⟨a, c, ha, hc, Rat.le_trans hab hbc⟩)
      memPick_facts.1 memPick_facts.2.1 memPick_facts.2.2 l
      (fun r hr x hx => valid_memory (hv r hr) x hx) none (by simp)
    unfold combineMax; rw [fold_memory]; exact h.2.2.1
  · have h := fold_pick_ge (α := String) (ρ := R) TimeLe (fun s => (timeSecs? s).isSome) timePick (·.time)
      (fun x hx => by obtain ⟨v, hv⟩ := Option.isSome_iff_exists.mp hx; exact ⟨v, v, hv, hv, Nat.le_refl _⟩)
      (fun x y z ⟨a, b, ha, hb, hab⟩ ⟨b', c, hb', hc, hbc⟩ => by
        rw [hb] at hb'; cases hb'; exact ⟨a, c, ha, hc, Nat.le_trans hab hbc⟩)
      timePick_facts.1 timePick_facts.2.1 timePick_facts.2.2 l
      (fun r hr x hx => valid_time (hv r hr) x hx) none (by simp)
    unfold combineMax; rw [fold_time]; exact h.2.2.1

/-- every quantity of the result is taken from an operand (nothing is invented) -/
theorem C20_combine_from_operand (l : List R) (hv : ∀ r ∈ l, Valid r = true) :
    (∀ c, (combineMax l).cpus = some c → ∃ r ∈ l, r.cpus = some c) ∧
    (∀ g, (combineMax l).gpus = some g → ∃ r ∈ l, r.gpus = some g) ∧
    (∀ m, (combineMax l).memory = some m → ∃ r ∈ l, r.memory = some m) ∧
    (∀ t, (combineMax l).time = some t → ∃ r ∈ l, r.time = some t) := by
  refine ⟨?_, ?_, ?_, ?_⟩
  · have h := fold_pick_ge (α := Int) (ρ := R) (· ≤ ·) (fun _ => True) maxOpt (·.cpus) (fun _ _ => Int.le_refl _)
      (fun _ _ _ => Int.le_trans) maxOpt_facts.1 maxOpt_facts.2.1 (fun a n _ _ => maxOpt_facts.2.2 a n) l
      (fun _ _ _ _ => trivial) none (by simp)
    unfold combineMax; rw [fold_cpus]; intro c hc; simpa using h.2.2.2 c hc
  · have h := fold_pick_ge (α := Int) (ρ := R) (· ≤ ·) (fun _ => True) maxOpt (·.gpus) (fun _ _ => Int.le_refl _)
      (fun _ _ _ => Int.le_trans) maxOpt_facts.1 maxOpt_facts.2.1 (fun a n _ _ => maxOpt_facts.2.2 a n) l
      (fun _ _ _ _ => trivial) none (by simp)
    unfold combineMax; rw [fold_gpus]; intro c hc; simpa using h.2.2.2 c hc
  · have h := fold_pick_ge (α := String) (ρ := R) MemLe (fun s => (memSize? s).isSome) memPick (·.memory)
      (fun x hx => by obtain ⟨v, hv⟩ := Option.isSome_iff_exists.mp hx; exact ⟨v, v, hv, hv, Rat.le_refl⟩)
      (fun x y z ⟨a, b, ha, hb, hab⟩ ⟨b', c, hb', hc, hbc⟩ => by
        rw [hb] at hb'; cases hb'; exact ⟨a, c, ha, hc, Rat.le_trans hab hbc⟩)
      memPick_facts.1 memPick_facts.2.1 memPick_facts.2.2 l
      (fun r hr x hx => valid_memory (hv r hr) x hx) none (by simp)
    unfold combineMax; rw [fold_memory]; intro c hc; simpa using h.2.2.2 c hc
  · have h := fold_pick_ge (α := String) (ρ := R) TimeLe (fun s => (timeSecs? s).isSome) timePick (·.time)
      (fun x hx => by obtain ⟨v, hv⟩ := Option.isSome_iff_exists.mp hx; exact ⟨v, v, hv, hv, Nat.le_refl _⟩)
      (fun x y z ⟨a, b, ha, hb, hab⟩ ⟨b', c, hb', hc, hbc⟩ => by
        rw [hb] at hb'; cases hb'; exact ⟨a, c, ha, hc, Nat.le_trans hab hbc⟩)
      timePick_facts.1 timePick_facts.2.1 timePick_facts.2.2 l
      (fun r hr x hx => valid_time (hv r hr) x hx) none (by simp)
    unfold combineMax; rw [fold_time]; intro c hc; simpa using h.2.2.2 c hc

/-- `combine_max` of valid operands never raises: its result passes the constructor's validation. -/
theorem C20_combine_valid (l : List R) (hv : ∀ r ∈ l, Valid r = true) : Valid (combineMax l) = true := by
  obtain ⟨hc, hg, hm, ht⟩ := C20_combine_from_operand l hv
  have hn : (combineMax l).nodes = none ∧ (combineMax l).cpusPerNode = none := by
    rcases fold_nodes l {} with h | h
    · exact h
    · subst h; exact ⟨rfl, rfl⟩
  have vc : posOpt (combineMax l).cpus = true := by
    cases h : (combineMax l).cpus with
    | none => rfl
    | some c =>
      obtain ⟨r, hr, e⟩ := hc c h
      have := hv r hr
      simp only [Valid, Bool.and_eq_true, e] at this
      exact this.1.1.1.1.1.1.1
  have vg : (match (combineMax l).gpus with | none => true | some g => decide (g ≥ 0)) = true := by
    cases h : (combineMax l).gpus with
    | none => rfl
    | some g =>
      obtain ⟨r, hr, e⟩ := hg g h
      have := hv r hr
      simp only [Valid, Bool.and_eq_true, e] at this
      exact this.1.1.1.1.1.1.2
  have vm : (match (combineMax l).memory with | none => true | some m => (memSize? m).isSome) = true := by
    cases h : (combineMax l).memory with
    | none => rfl
    | some m =>
      obtain ⟨r, hr, e⟩ := hm m h
      exact valid_memory (hv r hr) m e
  have vt : (match (combineMax l).time with | none => true | some t => (timeSecs? t).isSome) = true := by
    cases h : (combineMax l).time with
    | none => rfl
    | some t =>
      obtain ⟨r, hr, e⟩ := ht t h
      exact valid_time (hv r hr) t e
  simp only [Valid, Bool.and_eq_true, hn.1, hn.2]
  simp only [posOpt] at vc ⊢
  refine ⟨⟨⟨⟨⟨⟨⟨vc, vg⟩, ?_⟩, ?_⟩, vm⟩, vt⟩, ?_⟩, ?_⟩ <;> simp

/-- `with_defaults`: whenever it returns, every quantity set on the receiver is kept and every unset one is taken from
    the defaults (`extra_args` and `parallelization_mode` are always "set": the receiver's win). -/
theorem C20_with_defaults (a d w : R) (h : withDefaults? a (some d) = some w) :
    w.cpus = (a.cpus <|> d.cpus) ∧ w.cpusPerNode = (a.cpusPerNode <|> d.cpusPerNode) ∧ w.nodes = (a.nodes <|> d.nodes) ∧
    w.memory = (a.memory <|> d.memory) ∧ w.gpus = (a.gpus <|> d.gpus) ∧ w.time = (a.time <|> d.time) ∧
    w.partition = (a.partition <|> d.partition) ∧ w.extra = a.extra ∧ w.mode = a.mode := by
  simp only [withDefaults?, fromDict?, mk?, List.foldl_append, foldl_toDict] at h
  split at h
  · cases h
    rcases a with ⟨ac, acn, an, am, ag, at', ap, ae, amo⟩
    cases ac <;> cases acn <;> cases an <;> cases am <;> cases ag <;> cases at' <;> cases ap <;> simp [overlay]
  · cases h

/-- `with_defaults(None)` is the receiver itself. -/
theorem C20_with_defaults_none (a : R) : withDefaults? a none = some a := rfl

/-- `with_defaults` is refused exactly when the merged record is rejected by the constructor (e.g. `cpus` on the
    receiver and `nodes` in the defaults). -/
theorem C20_with_defaults_reject (a d : R) :
    withDefaults? a (some d) = none ↔ Valid ((toDict d ++ toDict a).foldl setField {}) = false := by
  simp only [withDefaults?, fromDict?, mk?]
  split <;> simp_all

/-- `update` and the other combinators leave the receiver unchanged (in the model every combinator is a function; for
    `update` the receiver's state after the call is part of the result and is compared with the implementation). -/
theorem C20_pure (a : R) (kw : List Upd) : (update a kw).2 = a := rfl

/-- `Resources.from_dict(r.dict()) == r` for every valid `r`. -/
theorem C20_dict_roundtrip (r : R) (h : Valid r = true) : fromDict? (toDict r) = some r := by
  have e : (toDict r).foldl setField {} = r := foldl_toDict_init r
  simp [fromDict?, mk?, e, h]

/-- `to_slurm_options` mentions every quantity that is set (a number counts as set when it is non-zero, a string when it
    is non-empty: `gpus=0` requests nothing and prints nothing). -/
theorem C20_slurm_mentions (r : R) :
    (∀ v, truthyI r.cpus = some v → ("--cpus-per-task=" ++ toString v) ∈ slurmOptions r) ∧
    (∀ v, truthyI r.gpus = some v → ("--gres=gpu:" ++ toString v) ∈ slurmOptions r) ∧
    (∀ v, truthyI r.nodes = some v → ("--nodes=" ++ toString v) ∈ slurmOptions r) ∧
    (∀ v, truthyI r.cpusPerNode = some v → ("--cpus-per-node=" ++ toString v) ∈ slurmOptions r) ∧
    (∀ s, truthyS r.memory = some s → ("--mem=" ++ s) ∈ slurmOptions r) ∧
    (∀ s, truthyS r.time = some s → ("--time=" ++ s) ∈ slurmOptions r) ∧
    (∀ s, truthyS r.partition = some s → ("--partition=" ++ s) ∈ slurmOptions r) ∧
    (∀ kv ∈ r.extra, ("--" ++ kv.1 ++ "=" ++ toString kv.2) ∈ slurmOptions r) := by
  refine ⟨?_, ?_, ?_, ?_, ?_, ?_, ?_, ?_⟩ <;> intro v hv <;> simp [slurmOptions, optI, optS, hv]
  exact Or.inr (Or.inr (Or.inr (Or.inr (Or.inr (Or.inr (Or.inr ⟨v.1, v.2, hv, rfl⟩))))))

/-- The constructor accepts exactly: positive cpus / nodes / cpus_per_node, non-negative gpus, memory and time strings
    in the two grammars, not both `nodes` and `cpus`, and `cpus_per_node` only together with `nodes`. -/
theorem C20_validate (r : R) :
    (mk? r).isSome ↔
      (∀ c, r.cpus = some c → c > 0) ∧ (∀ g, r.gpus = some g → g ≥ 0) ∧ (∀ n, r.nodes = some n → n > 0) ∧
      (∀ c, r.cpusPerNode = some c → c > 0) ∧ (∀ m, r.memory = some m → (memSize? m).isSome) ∧
      (∀ t, r.time = some t → (timeSecs? t).isSome) ∧ ¬ (r.nodes.isSome ∧ r.cpus.isSome) ∧
      ¬ (r.cpusPerNode.isSome ∧ r.nodes.isNone) := by
  rcases r with ⟨c, cn, n, m, g, t, p, e, mo⟩
  cases c <;> cases cn <;> cases n <;> cases m <;> cases g <;> cases t <;> simp [mk?, Valid, posOpt, and_assoc]

/-- the grammar of wall times, stated outright: 2–4 colon-separated digit fields, the last two of exactly two digits,
    and in the 4-field form the second of exactly two digits; the duration weights are 1, 60, 3600, 86400. -/
theorem C20_time_examples :
    timeSecs? "59:59" = some 3599 ∧ timeSecs? "2:00:00" = some 7200 ∧ timeSecs? "10:00:00" = some 36000 ∧
    timeSecs? "1:00:00:00" = some 86400 ∧ timeSecs? "1:0:00" = none ∧ timeSecs? "5" = none ∧
    timeSecs? "1:2:00:00" = none := by decide

/-- non-vacuity: valid operands exist, and on them durations (not strings) decide: `'10:00:00'` beats `'2:00:00'`. -/
example :
    let l : List R := [{ time := some "2:00:00", cpus := some 1 }, { time := some "10:00:00", gpus := some 0 }]
    (∀ r ∈ l, Valid r = true) ∧ (combineMax l).time = some "10:00:00" ∧ (combineMax l).cpus = some 1 := by
  decide

end PF.C20
