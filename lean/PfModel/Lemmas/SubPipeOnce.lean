import PfModel.Lemmas.SubPipe
import PfModel.Lemmas.MapOrder
import PfModel.Props.C01
/-! Every function of the pipeline that `runMapWith` runs is run exactly once: the Kahn layering is complete when it has the
length of the pipeline, and the generation loop produces one `FuncResult` per function of every generation. -/
namespace PF.Sub
open PF PF.Map

theorem filter_disjoint_length {α} (P Q : α → Bool) : ∀ l : List α, (∀ x ∈ l, P x = true → Q x = false) →
    (l.filter P).length + (l.filter Q).length ≤ l.length ∧
    (∀ x ∈ l, P x = false → Q x = false → (l.filter P).length + (l.filter Q).length < l.length) := by
  intro l
  induction l with
  | nil => intro _; exact ⟨Nat.le_refl _, by intro x hx; cases hx⟩
  | cons a l ih =>
    intro h
    obtain ⟨h1, h2⟩ := ih (fun x hx => h x (List.mem_cons_of_mem _ hx))
    have ha := h a (List.mem_cons_self ..)
    cases hP : P a <;> cases hQ : Q a
    · refine ⟨by simp [List.filter_cons, hP, hQ]; omega, ?_⟩
      intro x _ _ _
      simp [List.filter_cons, hP, hQ]; omega
    · refine ⟨by simp [List.filter_cons, hP, hQ]; omega, ?_⟩
      intro x hx hpx hqx
      rcases List.mem_cons.mp hx with hxa | hxl
      · subst hxa; rw [hQ] at hqx; cases hqx
      · have := h2 x hxl hpx hqx
        simp [List.filter_cons, hP, hQ]; omega
    · refine ⟨by simp [List.filter_cons, hP, hQ]; omega, ?_⟩
      intro x hx hpx hqx
      rcases List.mem_cons.mp hx with hxa | hxl
      · subst hxa; rw [hP] at hpx; cases hpx
      · have := h2 x hxl hpx hqx
        simp [List.filter_cons, hP, hQ]; omega
    · rw [ha hP] at hQ; cases hQ

/-- the Kahn layers never hold more functions than were left, and strictly fewer when one of them is not reached -/
theorem layers_length (fs : List MFunc) : ∀ (fuel : Nat) (done : List String) (rest : List MFunc),
    (layers fs fuel done rest).flatten.length ≤ rest.length ∧
    (∀ f ∈ rest, f ∉ (layers fs fuel done rest).flatten → (layers fs fuel done rest).flatten.length < rest.length) := by
  intro fuel
  induction fuel with
  | zero =>
    intro done rest
    simp only [layers, List.flatten_nil, List.length_nil, Nat.zero_le, true_and]
    intro f hf _
    exact List.length_pos_of_mem hf
  | succ n ih =>
    intro done rest
    unfold layers
    split
    · simp only [List.flatten_nil, List.length_nil, Nat.zero_le, true_and]
      intro f hf _; exact List.length_pos_of_mem hf
    · simp only []
      split
      · simp only [List.flatten_nil, List.length_nil, Nat.zero_le, true_and]
        intro f hf _; exact List.length_pos_of_mem hf
      · generalize hready : (rest.filter fun f => (upstream fs f).all fun g => done.contains g) = ready
        have hdis := filter_disjoint_length (fun f => (upstream fs f).all fun g => done.contains g)
          (fun f => !(ready.any (·.name = f.name))) rest (by
            intro x hx hp
            have : x ∈ ready := by rw [← hready]; exact List.mem_filter.mpr ⟨hx, hp⟩
            simp only [Bool.not_eq_eq_eq_not, Bool.not_false, List.any_eq_true, decide_eq_true_eq]
            exact ⟨x, this, rfl⟩)
        rw [hready] at hdis
        obtain ⟨i1, i2⟩ := ih (done ++ ready.map (·.name)) (rest.filter fun f => !(ready.any (·.name = f.name)))
        simp only [List.flatten_cons, List.length_append, List.mem_append, not_or]
        refine ⟨by have := hdis.1; omega, ?_⟩
        intro f hf ⟨hnr, hnl⟩
        by_cases hq : (!(ready.any (·.name = f.name))) = true
        · have := i2 f (List.mem_filter.mpr ⟨hf, hq⟩) hnl
          have := hdis.1
          omega
        · have hp : ((upstream fs f).all fun g => done.contains g) = false := by
            cases hp : ((upstream fs f).all fun g => done.contains g) with
            | false => rfl
            | true => exact absurd (by rw [← hready]; exact List.mem_filter.mpr ⟨hf, hp⟩) hnr
          have := hdis.2 f hf hp (by simpa using hq)
          omega

/-- **an acyclic pipeline's generations contain every function** -/
theorem generations_complete (fs : List MFunc) (h : (generations fs).flatten.length = fs.length) :
    ∀ f ∈ fs, f ∈ (generations fs).flatten := by
  intro f hf
  apply Classical.byContradiction
  intro hn
  have := (layers_length fs (fs.length + 1) [] fs).2 f hf hn
  unfold generations at h
  omega

theorem runGenWith_each (R : Env → MFunc → M FuncResult) (env : Env) : ∀ (gen : List MFunc) (rs : List FuncResult),
    runGenWith R env gen = .ok rs → rs.length = gen.length ∧ ∀ f ∈ gen, ∃ r ∈ rs, R env f = .ok r := by
  intro gen
  induction gen with
  | nil => intro rs h; simp [runGenWith, pure, Except.pure] at h; subst h; exact ⟨rfl, by intro f hf; cases hf⟩
  | cons a rest ih =>
    intro rs h
    simp only [runGenWith, bind, Except.bind] at h
    split at h
    · cases h
    · next r0 hr0 =>
      split at h
      · cases h
      · next rs0 hrs0 =>
        simp only [pure, Except.pure] at h
        cases h
        obtain ⟨h1, h2⟩ := ih rs0 hrs0
        refine ⟨by simp [h1], ?_⟩
        intro f hf
        rcases List.mem_cons.mp hf with hfa | hfr
        · subst hfa; exact ⟨r0, List.mem_cons_self .., hr0⟩
        · obtain ⟨r, hr, hR⟩ := h2 f hfr; exact ⟨r, List.mem_cons_of_mem _ hr, hR⟩

/-- the generation loop yields one result per function of every generation, each computed by `R` on an environment
    with the run's inputs -/
theorem runGensWith_each (R : Env → MFunc → M FuncResult) : ∀ (gens : List (List MFunc)) (env : Env) (rs : List FuncResult)
    (envF : Env), runGensWith R gens env = .ok (rs, envF) →
      rs.length = gens.flatten.length ∧
      ∀ g ∈ gens, ∀ f ∈ g, ∃ e r, r ∈ rs ∧ e.inputs = env.inputs ∧ R e f = .ok r := by
  intro gens
  induction gens with
  | nil =>
    intro env rs envF h
    simp [runGensWith, pure, Except.pure] at h
    obtain ⟨rfl, _⟩ := h
    exact ⟨rfl, by intro g hg; cases hg⟩
  | cons gen rest ih =>
    intro env rs envF h
    simp only [runGensWith, bind, Except.bind] at h
    split at h
    · cases h
    · next rs0 hrs0 =>
      split at h
      · cases h
      · next _ x hx =>
        obtain ⟨more, envF'⟩ := x
        simp only [pure, Except.pure] at h
        cases h
        obtain ⟨g1, g2⟩ := runGenWith_each R env gen rs0 hrs0
        obtain ⟨i1, i2⟩ := ih _ more _ hx
        refine ⟨by simp [g1, i1], ?_⟩
        intro g hg f hf
        rcases List.mem_cons.mp hg with hgg | hgr
        · subst hgg
          obtain ⟨r, hr, hR⟩ := g2 f hf
          exact ⟨env, r, List.mem_append_left _ hr, rfl, hR⟩
        · obtain ⟨e, r, hr, he, hR⟩ := i2 g hgr f hf
          exact ⟨e, r, List.mem_append_right _ hr, he, hR⟩

/-- **every function of the pipeline is run, once**: a successful `runMapWith` has one `FuncResult` per function, the call
    list is their concatenation, and the result of each function was computed by `runFuncWith` on the run's inputs -/
theorem runMapWith_each (arr : MFunc → List Nat → List Bool → (Nat → List (String × Val)) → String → Val)
    (fs : List MFunc) (inputs : List (String × Val)) (ui : List (String × List Nat)) (r : MapResult)
    (h : runMapWith arr fs inputs ui = .ok r) :
    ∃ rs : List FuncResult, r.calls = rs.flatMap (·.calls) ∧ r.outputs = rs.flatMap (·.outputs) ∧ rs.length = fs.length ∧
      ∀ f ∈ fs, ∃ e fr, fr ∈ rs ∧ e.inputs = inputs ∧ runFuncWith arr fs r.shapes r.masks e f = .ok fr := by
  unfold runMapWith at h
  simp only [bind, Except.bind] at h
  split at h
  · cases h
  · split at h
    · simp only [throw, throwThe, MonadExceptOf.throw] at h
      cases h
    · next hac =>
      split at h
      · cases h
      · next sm hsm =>
        split at h
        · cases h
        · next x hx =>
          obtain ⟨rs, env⟩ := x
          simp only [pure, Except.pure] at h
          cases h
          have hlen : (generations fs).flatten.length = fs.length := by
            simpa using hac
          obtain ⟨h1, h2⟩ := runGensWith_each _ _ _ rs env hx
          refine ⟨rs, rfl, rfl, by rw [h1, hlen], ?_⟩
          intro f hf
          obtain ⟨g, hg, hfg⟩ := List.mem_flatten.mp (generations_complete fs hlen f hf)
          exact h2 g hg f hfg

/-- how many calls one function's run makes: one when it runs on whole values, one per external index when it is mapped -/
theorem runFuncWith_count (arr : MFunc → List Nat → List Bool → (Nat → List (String × Val)) → String → Val)
    (fs : List MFunc) (shapes : List (String × List Nat)) (masks : List (String × List Bool)) (env : Env) (f : MFunc)
    (fr : FuncResult) (h : runFuncWith arr fs shapes masks env f = .ok fr) :
    (∀ c ∈ fr.calls, c.name = f.name) ∧
    ((f.mapspec = none ∨ ∃ ms, f.mapspec = some ms ∧ ms.inputs.isEmpty = true) → fr.calls.length = 1) ∧
    (∀ ms o sh mk, f.mapspec = some ms → ms.inputs.isEmpty = false → f.outputs.head? = some o →
      alookup shapes o = some sh → alookup masks o = some mk → fr.calls.length = prod (extOf mk sh)) := by
  refine ⟨C01.runFunc_calls arr fs shapes masks env f fr h, ?_, ?_⟩
  · intro hs
    have hsingle : ∀ r, runSingle fs env f = .ok r → r.calls.length = 1 := by
      intro r hr
      unfold runSingle at hr
      simp only [bind, Except.bind] at hr
      split at hr
      · cases hr
      · simp only [pure, Except.pure] at hr; cases hr; rfl
    unfold runFuncWith at h
    rcases hs with hs | ⟨ms, hms, hem⟩
    · simp only [hs] at h; exact hsingle fr h
    · simp only [hms, hem, ↓reduceIte] at h; exact hsingle fr h
  · intro ms o sh mk hms hne ho hsh hmk
    unfold runFuncWith at h
    simp only [hms, hne, Bool.false_eq_true, ↓reduceIte, ho, hsh, hmk] at h
    split at h
    · cases h
    · exact (C01.C01_once_per_index arr fs env f ms sh mk fr h).1

end PF.Sub
