import PfModel.Lemmas.ResumeLoop
/-! The whole resumable run (`runOn`, repaired protocol, file arrays) against `PF.Map.runMap`. -/
namespace PF.ResumeFS
open PF PF.Map

/-! ### the right content of every file, read off the uninterrupted run -/

/-- the generation loop of `PF.Map.runMap` behind its preconditions -/
def pfLoop (fsd : List MFunc) (inputs : List (String × Val)) (ui : List (String × List Nat)) : M (List FuncResult × Env) :=
  match preRun fsd inputs ui with
  | .error e => .error e
  | .ok (shapes, masks) =>
    runGensWith (runFuncWith opArray fsd shapes masks) (generations fsd) { inputs := inputs, store := [] }

/-- what the store of the uninterrupted run holds for every output -/
def freshSlots (fsd : List MFunc) (inputs : List (String × Val)) (ui : List (String × List Nat)) : List (String × Slot) :=
  match pfLoop fsd inputs ui with
  | .ok (rs, _) => rs.flatMap (·.slots)
  | .error _ => []

/-- `v` is a right content of `p`: what the uninterrupted run stores there (anything decodable for the inputs, the defaults
    and `run_info.json`, which the resumed run only checks for loadability; nothing for a temporary name) -/
def rightW (slots : List (String × Slot)) : Right
  | .cell o li, v => ∃ s, (o, s) ∈ slots ∧ slotHas s (.cell o li) v
  | .single o, v => ∃ s, (o, s) ∈ slots ∧ slotHas s (.single o) v
  | .tmp _, _ => False
  | _, _ => True

theorem nodup_keys_functional {β} : ∀ (l : List (String × β)) (k : String) (a b : β),
    (l.map (·.1)).Nodup → (k, a) ∈ l → (k, b) ∈ l → a = b := by
  intro l
  induction l with
  | nil => intro k a b _ h; cases h
  | cons e es ih =>
    intro k a b hn ha hb
    simp only [List.map_cons, List.nodup_cons] at hn
    rcases List.mem_cons.mp ha with ha | ha <;> rcases List.mem_cons.mp hb with hb | hb
    · rw [← ha] at hb; cases hb; rfl
    · exact absurd (List.mem_map.mpr ⟨(k, b), hb, by rw [← ha]⟩) hn.1
    · exact absurd (List.mem_map.mpr ⟨(k, a), ha, by rw [← hb]⟩) hn.1
    · exact ih k a b hn.2 ha hb

theorem slotsRight_of_nodup (slots sub : List (String × Slot)) (hn : (slots.map (·.1)).Nodup) (hsub : ∀ e ∈ sub, e ∈ slots) :
    SlotsRight (rightW slots) sub := by
  intro o s hs
  have hm := hsub _ hs
  refine ⟨fun li v => ⟨?_, fun h => ⟨s, hm, h⟩⟩, fun v => ⟨?_, fun h => ⟨s, hm, h⟩⟩⟩
  · rintro ⟨s', hs', h⟩; rw [nodup_keys_functional slots o s s' hn hm hs']; exact h
  · rintro ⟨s', hs', h⟩; rw [nodup_keys_functional slots o s s' hn hm hs']; exact h

/-! ### the prelude of a run -/

def Comp (fs : FS) (p : Path) : Prop := ∃ v, fs.files p = some (.complete v)

theorem comp_after_write (fs : FS) (p : Path) (v : Val) (q : Path) (hq : q.isTmp = false) (h : q = p ∨ Comp fs q) :
    Comp (applyAll fs (writeEvs false p v)) q := by
  have ht : q ≠ .tmp p := tmp_ne hq
  by_cases e : q = p
  · subst e; exact ⟨v, by simp [applyAll, writeEvs, apply, FS.set, ht]⟩
  · rcases h with h | ⟨w, hw⟩
    · exact absurd h e
    · exact ⟨w, by simp [applyAll, writeEvs, apply, FS.set, ht, e, hw]⟩

theorem comp_after_inputs : ∀ (l : List (String × Val)) (fs : FS) (q : Path), q.isTmp = false →
    ((∃ kv ∈ l, q = .input kv.1) ∨ Comp fs q) →
    Comp (applyAll fs (l.flatMap fun (kv : String × Val) => writeEvs false (.input kv.1) kv.2)) q := by
  intro l
  induction l with
  | nil => intro fs q _ h; rcases h with ⟨kv, hkv, _⟩ | h; cases hkv; simpa [applyAll] using h
  | cons a as ih =>
    intro fs q hq h
    rw [List.flatMap_cons, applyAll_append]
    apply ih _ q hq
    rcases h with ⟨kv, hkv, e⟩ | h
    · rcases List.mem_cons.mp hkv with hk | hk
      · exact Or.inr (comp_after_write fs _ _ q hq (Or.inl (by rw [e, hk])))
      · exact Or.inl ⟨kv, hk, e⟩
    · exact Or.inr (comp_after_write fs _ _ q hq (Or.inr h))

theorem prefix_then_safe {J : FS → Prop} {fs : FS} {a b : List Ev} (ha : ∀ k, J (crashAt fs a k)) (hb : Safe J b) :
    ∀ k, J (crashAt fs (a ++ b) k) := by
  intro k
  rw [crashAt_append]
  split
  · exact ha k
  · apply hb
    have := ha a.length
    rwa [crashAt_all fs a _ (Nat.le_refl _)] at this

/-- `RunInfo._dump_all` of the repaired tree keeps the invariant at every prefix -/
theorem dumpAll_safe (W : Right) (fs0 : FS) (inputs : List (String × Val)) (hW : ∀ p v, (∀ o li, p ≠ .cell o li) → (∀ o, p ≠ .single o) →
    p.isTmp = false → W p v) (fs : FS) (hI : I W (akeys inputs) fs0 fs) : ∀ k, I W (akeys inputs) fs0 (crashAt fs (dumpAllEvs false inputs) k) := by
  have hins : Safe (I W (akeys inputs) fs0) (inputs.flatMap fun (kv : String × Val) => writeEvs false (.input kv.1) kv.2) :=
    Safe.flatMap _ _ fun kv _ => safe_write W _ fs0 _ _ rfl (hW _ _ (by intro o li e; cases e) (by intro o e; cases e) rfl) (by intro e; cases e)
  have hdfl : Safe (I W (akeys inputs) fs0) (writeEvs false .defaults (metaVal "defaults")) :=
    safe_write W _ fs0 _ _ rfl (hW _ _ (by intro o li e; cases e) (by intro o e; cases e) rfl) (by intro e; cases e)
  have h1 : Safe (I W (akeys inputs) fs0) ((inputs.flatMap fun (kv : String × Val) => writeEvs false (.input kv.1) kv.2) ++
      writeEvs false .defaults (metaVal "defaults")) := Safe.append hins hdfl
  have hpost : AllMeta (akeys inputs) (applyAll fs ((inputs.flatMap fun (kv : String × Val) => writeEvs false (.input kv.1) kv.2) ++
      writeEvs false .defaults (metaVal "defaults"))) := by
    rw [applyAll_append]
    refine ⟨fun n hn => ?_, ?_⟩
    · apply comp_after_write _ _ _ _ rfl
      refine Or.inr (comp_after_inputs inputs fs _ rfl (Or.inl ?_))
      obtain ⟨kv, hkv, e⟩ := List.mem_map.mp hn
      exact ⟨kv, hkv, by rw [e]⟩
    · exact comp_after_write _ _ _ _ rfl (Or.inl rfl)
  have h2 := trip_runInfo W (akeys inputs) fs0 (metaVal "run_info") (hW _ _ (by intro o li e; cases e) (by intro o e; cases e) rfl)
    _ (h1.final fs hI) hpost
  intro k
  have : dumpAllEvs false inputs = ((inputs.flatMap fun (kv : String × Val) => writeEvs false (.input kv.1) kv.2) ++
      writeEvs false .defaults (metaVal "defaults")) ++ writeEvs false .runInfo (metaVal "run_info") := by
    simp [dumpAllEvs]
  rw [this, crashAt_append]
  split
  · exact h1 fs hI k
  · exact h2.1 _

theorem compare_ok (W : Right) (fs0 fs : FS) (inputs : List (String × Val)) (hI : I W (akeys inputs) fs0 fs) :
    compare false fs inputs = ⟨[], .ok ()⟩ := by
  unfold compare
  rcases hI.inv .runInfo rfl with hn | ⟨v, hv, _⟩
  · rw [hn]
  · rw [hv]
    obtain ⟨h1, ⟨d, hd⟩⟩ := hI.metaOk (by rw [hv]; simp)
    have hm : inputs.mapM (fun (kv : String × Val) => readFile fs (.input kv.1)) =
        .ok (inputs.map fun kv => match fs.files (.input kv.1) with | some (.complete v) => v | _ => .none) := by
      apply mapM_ok_of_forall
      intro kv hkv
      obtain ⟨w, hw⟩ := h1 kv.1 (List.mem_map.mpr ⟨kv, hkv, rfl⟩)
      simp [readFile, hw]
    have hdd : readFile fs .defaults = .ok d := by simp [readFile, hd]
    simp [hm, hdd]

theorem initStore_file (J : FS → Prop) (hJ : ∀ d, Safe J [.mkdirp d]) (cfg : Cfg) (hd : cfg.dict = false) (fs : FS) :
    ∀ outs : List String, (initStore cfg fs outs).res = .ok [] ∧ Safe J (initStore cfg fs outs).evs := by
  intro outs
  induction outs with
  | nil => exact ⟨rfl, Safe.nil _⟩
  | cons o rest ih =>
    simp only [initStore, hd, Bool.not_false, ↓reduceIte]
    exact ⟨ih.1, Safe.append (a := [.mkdirp (.arr o)]) (hJ _) ih.2⟩

end PF.ResumeFS

namespace PF.ResumeFS
open PF PF.Map

theorem runMap_unfold (fsd : List MFunc) (inputs : List (String × Val)) (ui : List (String × List Nat)) (r0 : MapResult)
    (h : runMap fsd inputs ui = .ok r0) :
    ∃ shapes masks rs envF, preRun fsd inputs ui = .ok (shapes, masks) ∧
      runGensWith (runFuncWith opArray fsd shapes masks) (generations fsd) { inputs := inputs, store := [] } = .ok (rs, envF) ∧
      r0.outputs = rs.flatMap (·.outputs) := by
  unfold runMap runMapWith at h
  unfold preRun
  simp only [bind, Except.bind] at h ⊢
  split at h
  · cases h
  · next u hu =>
    by_cases hc : (generations fsd).flatten.length ≠ fsd.length
    · rw [if_pos hc] at h; simp only [throw, throwThe, MonadExceptOf.throw] at h; cases h
    · rw [if_neg hc] at h ⊢
      split at h
      · cases h
      · next sm hsm =>
        split at h
        · cases h
        · next p hp =>
          simp only [pure, Except.pure, Except.ok.injEq] at h
          exact ⟨sm.1, sm.2, p.1, p.2, hsm, hp, by rw [← h]⟩

end PF.ResumeFS
