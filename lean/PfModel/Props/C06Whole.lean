import PfModel.Lemmas.MapPiecesWhole
import PfModel.Props.C06Flow
/-!
C06, round 9 — "pieces = whole" at PIPELINE level, for any family of parts that covers the index space and any order of them.

Until this round the clause was carried (a) for ONE function by `C06_pieces` / `C06_pieces_cover` (under the hypothesis that every
part reads the full run's arguments) and (b) at pipeline level only as an inclusion (`C06_pieces_flow_seq`: every call of a part is
a call of the full run, the folder never holds anything the full run does not store).  That the folder ends up holding EVERYTHING the
full run stores, and that the final full run computes nothing, was checked by the correspondence alone.  Here:

* `C06_part_pipeline` — each partial run of a whole pipeline stores precisely the selected missing elements of every mapped function
  and leaves all others as they were (no data-flow hypothesis; any folder, any request);
* `C06_final_run_nothing` — a full run on a folder that misses nothing calls nothing and changes no stored element;
* `C06_pieces_complete` — after any sequence of parts whose masks (`_mask_fixed_axes`) cover the index space of every mapped function,
  the folder misses nothing — whatever the order of the parts, overlapping or not, whatever the folder held before;
* `C06_final_recomputes_uncovered` — in general (covering or not) a final full run on the folder a sequence of parts leaves, started
  on an empty folder, finds missing exactly the elements NO part selected;
* `C06_pieces_whole` — with the data-flow theorem: the folder after a covering sequence holds, element by element, what one full run
  stores, and the final full run computes nothing.
The cover hypothesis `coverB` is executable; the driver evaluates it (`pieces.whole`) on every generated sequence and the harness
compares `uncovered` with the elements the real final run finds missing.  `C06_partition` (Props/C06.lean) is the bridge from
"the selections partition an axis" to a cover of the index space of a function carrying that axis.
-/
namespace PF.C06
open PF PF.Map PF.Pieces

/-- **Each partial run computes precisely the selected elements and leaves all others as they were — for a whole pipeline.**
    For every pipeline with distinct output names, every request `fixed` (also `none`), every folder `old`: if the run succeeds then
    for every function that is run element-wise (`mappedInfo`) the mask `_mask_fixed_axes` builds exists and there are arguments `A`
    such that every output's storage holds afterwards `f(A li)` at the indices `li < n` that are selected and were missing in some
    output (`mem_todoOf`), and what it held before everywhere else; every output of a function run once holds a whole value. -/
theorem C06_part_pipeline (fs : List MFunc) (inputs : List (String × Val)) (ui : List (String × List Nat))
    (fixed : Option (List (String × Sel))) (old : List (String × Slot)) (r : PartResult) (h : runPart fs inputs ui fixed old = .ok r)
    (hnd : ((generations fs).flatten.flatMap (·.outputs)).Nodup) :
    ∀ f ∈ (generations fs).flatten,
      (∀ ms sh mk, mappedInfo r.res.shapes r.res.masks f = some (ms, sh, mk) →
        ∃ (fm : Option (List Bool)) (A : Nat → List (String × Val)), fixedMask fixed ms sh mk = .ok fm ∧ ∀ o ∈ f.outputs, ∀ li,
          cellLookup (oldCells r.store o) li =
            if li < prod (extOf mk sh) ∧ selOf fm li = true ∧ missingIn f.outputs (oldCells old) li = true
            then some (outVal f (A li) o) else cellLookup (oldCells old o) li) ∧
      (mappedInfo r.res.shapes r.res.masks f = none → ∀ o ∈ f.outputs, ∃ v, alookup r.store o = some (.single v)) := by
  intro f hf
  obtain ⟨h1, h2⟩ := part_cells fs inputs ui fixed old r h hnd f hf
  refine ⟨?_, h2⟩
  intro ms sh mk hi
  obtain ⟨fm, A, hfm, hc⟩ := h1 ms sh mk hi
  refine ⟨fm, A, hfm, ?_⟩
  intro o ho li
  rw [hc o ho li]
  by_cases hm : li ∈ todoOf f.outputs (prod (extOf mk sh)) (selOf fm) (oldCells old)
  · rw [if_pos hm, if_pos ((mem_todoOf _ _ _ _ li).mp hm)]
  · rw [if_neg hm, if_neg (fun hh => hm ((mem_todoOf _ _ _ _ li).mpr hh))]

/-- **A full run on a folder that misses nothing recomputes nothing.**  `Complete` (decided by `completeB`): every element of every
    output of every mapped function is present, every output of a function run once is dumped.  Then `map(cleanup=False)` with
    nothing fixed calls no function, leaves every stored element as it was, and the folder is complete again. -/
theorem C06_final_run_nothing (fs : List MFunc) (inputs : List (String × Val)) (ui : List (String × List Nat)) (S : List (String × Slot))
    (r : PartResult) (h : runPart fs inputs ui none S = .ok r) (hne : ∀ f ∈ (generations fs).flatten, f.outputs ≠ [])
    (hnd : ((generations fs).flatten.flatMap (·.outputs)).Nodup) (hc : completeB fs r.res.shapes r.res.masks S = true) :
    r.res.calls = [] ∧
    (∀ f ∈ (generations fs).flatten, ∀ ms sh mk, mappedInfo r.res.shapes r.res.masks f = some (ms, sh, mk) →
      ∀ o ∈ f.outputs, ∀ li, cellLookup (oldCells r.store o) li = cellLookup (oldCells S o) li) ∧
    completeB fs r.res.shapes r.res.masks r.store = true := by
  obtain ⟨a, b, c⟩ := final_run fs inputs ui S r h hne hnd ((completeB_iff _ _ _ _).mp hc)
  exact ⟨a, b, (completeB_iff _ _ _ _).mpr c⟩

/-- **After parts that cover the index space the folder misses nothing** — any number of parts (at least one), any order,
    overlapping or not, any folder to start with.  `coverB`: every external index of every mapped function lies in the mask
    `_mask_fixed_axes` builds for at least one part. -/
theorem C06_pieces_complete (fs : List MFunc) (inputs : List (String × Val)) (ui : List (String × List Nat))
    (shapes : List (String × List Nat)) (masks : List (String × List Bool))
    (hsm : mapShapes fs inputs (constructInternal fs ui) = .ok (shapes, masks))
    (hnd : ((generations fs).flatten.flatMap (·.outputs)).Nodup)
    (parts : List (List (String × Sel))) (hpne : parts ≠ []) (old : List (String × Slot)) (rs : List PartResult)
    (h : runPieces fs inputs ui (parts.map some) old = .ok rs) (hcov : coverB fs shapes masks parts = true) :
    completeB fs shapes masks (finalStore rs old) = true :=
  (completeB_iff _ _ _ _).mpr (pieces_complete fs inputs ui shapes masks hsm hnd parts hpne old rs h hcov)

/-- order of the parts: `coverB` does not depend on it, so every permutation of a covering family leaves a complete folder -/
theorem C06_cover_order (fs : List MFunc) (shapes : List (String × List Nat)) (masks : List (String × List Bool))
    (parts parts' : List (List (String × Sel))) (hp : parts.Perm parts') :
    coverB fs shapes masks parts = coverB fs shapes masks parts' := by
  unfold coverB
  have hany : ∀ (q : List (String × Sel) → Bool), parts.any q = parts'.any q := by
    intro q
    rw [Bool.eq_iff_iff, List.any_eq_true, List.any_eq_true]
    constructor
    · rintro ⟨fx, h1, h2⟩; exact ⟨fx, hp.mem_iff.mp h1, h2⟩
    · rintro ⟨fx, h1, h2⟩; exact ⟨fx, hp.mem_iff.mpr h1, h2⟩
  simp only [hany]

/-- **What a final full run recomputes.**  After any sequence of parts started on an EMPTY folder — covering or not — the indices
    a full run finds missing (`missingOf`: per mapped function `todoOf … (fun _ => true)`, the elements it will compute) are exactly
    the indices no part selected (`uncovered`, computed from the masks alone). -/
theorem C06_final_recomputes_uncovered (fs : List MFunc) (inputs : List (String × Val)) (ui : List (String × List Nat))
    (shapes : List (String × List Nat)) (masks : List (String × List Bool))
    (hsm : mapShapes fs inputs (constructInternal fs ui) = .ok (shapes, masks))
    (hnd : ((generations fs).flatten.flatMap (·.outputs)).Nodup) (hne : ∀ f ∈ (generations fs).flatten, f.outputs ≠ [])
    (parts : List (List (String × Sel))) (rs : List PartResult)
    (h : runPieces fs inputs ui (parts.map some) [] = .ok rs) :
    missingOf fs shapes masks (finalStore rs []) = uncovered fs shapes masks parts :=
  missingOf_eq_uncovered fs inputs ui shapes masks hsm hnd hne parts rs h

/-- **Pieces = whole.**  `rF`: one full run on an empty folder.  `parts`: any non-empty family of `fixed_indices` dictionaries, in any
    order, each well-formed (`flowWF`: a theorem for every accepted request on a conforming pipeline, `C06_flowWF_of_conforms`),
    whose masks cover the index space of every mapped function (`coverB`), run one after the other with `cleanup=False` on a folder
    `old` that holds only elements of the full run (e.g. the empty one).  If all runs succeed then the folder `S` they leave
    (1) holds, for every output of every mapped function and every external index, exactly the element the full run stores;
    (2) holds nothing the full run does not store (`OldLe`, incl. the whole values of functions run once);
    (3) misses nothing; and a final full run on it calls no function and leaves every element as it is. -/
theorem C06_pieces_whole (fs : List MFunc) (inputs : List (String × Val)) (ui : List (String × List Nat)) (rF : PartResult)
    (hF : runPart fs inputs ui none [] = .ok rF) (hnd : ((generations fs).flatten.flatMap (·.outputs)).Nodup)
    (hne : ∀ f ∈ (generations fs).flatten, f.outputs ≠ [])
    (parts : List (List (String × Sel))) (hpne : parts ≠ []) (old : List (String × Slot)) (rs : List PartResult)
    (hold : OldLe old rF.store) (hwf : ∀ fx ∈ parts, flowWF fs rF.res.shapes rF.res.masks inputs fx = true)
    (hcov : coverB fs rF.res.shapes rF.res.masks parts = true)
    (h : runPieces fs inputs ui (parts.map some) old = .ok rs) :
    let S := finalStore rs old
    (∀ f ∈ (generations fs).flatten, ∀ ms sh mk, mappedInfo rF.res.shapes rF.res.masks f = some (ms, sh, mk) →
      ∀ o ∈ f.outputs, ∀ li, li < prod (extOf mk sh) →
        (cellLookup (oldCells S o) li).isSome = true ∧ cellLookup (oldCells S o) li = cellLookup (oldCells rF.store o) li) ∧
    OldLe S rF.store ∧
    completeB fs rF.res.shapes rF.res.masks S = true ∧
    ∀ rL, runPart fs inputs ui none S = .ok rL → rL.res.calls = [] ∧
      (∀ f ∈ (generations fs).flatten, ∀ ms sh mk, mappedInfo rF.res.shapes rF.res.masks f = some (ms, sh, mk) →
        ∀ o ∈ f.outputs, ∀ li, cellLookup (oldCells rL.store o) li = cellLookup (oldCells S o) li) := by
  intro S
  obtain ⟨_, _, _, _, _, hkeys⟩ := runPart_inv fs inputs ui none [] rF hF
  have hndF : (akeys rF.store).Nodup := by rw [hkeys]; exact hnd
  obtain ⟨_, hle⟩ := C06_pieces_flow_seq fs inputs ui rF hF hndF parts old rs hold hwf h
  exact pieces_whole_core fs inputs ui rF hF hnd hne parts hpne old rs hle hcov h

/-- **The selection of one request is the PRODUCT of its per-axis selections (a block, never a diagonal).**  `_mask_fixed_axes` sets
    `select[external_key] = True` with one `int | slice` per external axis (NumPy basic indexing): an external key `E` is selected
    exactly when EVERY component lies in the positions its axis' entry selects, independently of the other axes.  With two
    multi-element slices of `a` and `b` positions the request selects all `a * b` combinations. -/
theorem C06_mask_is_product : ∀ (ls : List (List Nat)) (E : List Nat),
    selected ls E = true ↔ ∀ k, k < ls.length → k < E.length → E.getD k 0 ∈ ls.getD k [] := by
  intro ls
  induction ls with
  | nil => intro E; simp [selected]
  | cons l ls ih =>
    intro E
    cases E with
    | nil => simp [selected]
    | cons e es =>
      simp only [selected, Bool.and_eq_true, List.contains_iff_mem, ih es, List.length_cons]
      constructor
      · rintro ⟨h0, hr⟩ k hk1 hk2
        cases k with
        | zero => simpa using h0
        | succ k => simpa using hr k (by omega) (by omega)
      · intro h
        refine ⟨by simpa using h 0 (by omega) (by omega), fun k hk1 hk2 => ?_⟩
        simpa using h (k + 1) (by omega) (by omega)

/-- two slices of two positions each on a 3 × 3 index space select the 2 × 2 block (4 elements, not the 2 of the diagonal) -/
example : (List.range 9).filter (fun li => selected [[0, 1], [1, 2]] (shapeToKey [3, 3] li)) = [1, 2, 4, 5] := by decide

/-! ### non-vacuity -/

private def wY : MFunc := { name := "f", params := [("x", "x")], outputs := ["y"], mapspec := some { inputs := [⟨"x", [some "i"]⟩], outputs := [⟨"y", [some "i"]⟩] }, ret := none, internal := none, defaults := [], bound := [] }
private def wZ : MFunc := { name := "g", params := [("y", "y"), ("w", "w")], outputs := ["z"], mapspec := some { inputs := [⟨"y", [some "i"]⟩, ⟨"w", [some "j"]⟩], outputs := [⟨"z", [some "i", some "j"]⟩] }, ret := none, internal := none, defaults := [], bound := [] }
private def wIn : List (String × Val) := [("x", .arr [3] [.int 0, .int 1, .int 2]), ("w", .arr [2] [.int 7, .int 8])]
/-- a BLOCK partition of `z[i, j]` (3 × 2) with two multi-element slices in one request (the selection is the block, not the
    diagonal), given in an order that is not the index order -/
private def wParts : List (List (String × Sel)) :=
  [[("i", .slice (some 1) none none), ("j", .slice none none (some (-1)))], [("i", .idx 0), ("j", .idx 1)], [("j", .idx 0), ("i", .idx (-3))]]

/-- everything the theorems assume, on `x[i] -> y[i]`, `y[i], w[j] -> z[i, j]`: the full run and the three parts run, output names
    are distinct and non-empty, every part is well-formed, the parts cover; the conclusions, evaluated: the folder is complete, a
    final run calls nothing, and dropping the first part leaves exactly its block `z[1:, :]` (and `y[1:]`) uncovered -/
private def wholeDemo : Bool :=
  match runPart [wY, wZ] wIn [] none [], runPieces [wY, wZ] wIn [] (wParts.map some) [] with
  | .ok rF, .ok rs =>
    decide (((generations [wY, wZ]).flatten.flatMap (·.outputs)).Nodup) && (generations [wY, wZ]).flatten.all (fun f => !f.outputs.isEmpty) &&
    wParts.all (fun fx => flowWF [wY, wZ] rF.res.shapes rF.res.masks wIn fx) && coverB [wY, wZ] rF.res.shapes rF.res.masks wParts &&
    completeB [wY, wZ] rF.res.shapes rF.res.masks (finalStore rs []) &&
    (match runPart [wY, wZ] wIn [] none (finalStore rs []) with | .ok rL => rL.res.calls.isEmpty | .error _ => false) &&
    (uncovered [wY, wZ] rF.res.shapes rF.res.masks (wParts.drop 1) == [("f", [1, 2]), ("g", [2, 3, 4, 5])]) &&
    !coverB [wY, wZ] rF.res.shapes rF.res.masks (wParts.drop 1)
  | _, _ => false

example : wholeDemo = true := by decide

/-- the hypotheses of `C06_pieces_whole` (and with them those of the other theorems of this file) are satisfiable -/
example : ∃ rF rs, runPart [wY, wZ] wIn [] none [] = .ok rF ∧ runPieces [wY, wZ] wIn [] (wParts.map some) [] = .ok rs ∧
    ((generations [wY, wZ]).flatten.flatMap (·.outputs)).Nodup ∧ wParts ≠ [] ∧ OldLe [] rF.store ∧
    (∀ fx ∈ wParts, flowWF [wY, wZ] rF.res.shapes rF.res.masks wIn fx = true) ∧
    coverB [wY, wZ] rF.res.shapes rF.res.masks wParts = true := by
  have h : wholeDemo = true := by decide
  unfold wholeDemo at h
  split at h
  · next rF rs hF hP =>
    simp only [Bool.and_eq_true, decide_eq_true_eq, List.all_eq_true] at h
    refine ⟨rF, rs, hF, hP, h.1.1.1.1.1.1.1, by decide, by constructor <;> simp [oldCells, alookup, cellLookup], h.1.1.1.1.1.2, h.1.1.1.1.2⟩
  · cases h

/-- `C06_cover_order`: a permutation exists and is not the identity -/
example : wParts.Perm wParts.reverse ∧ wParts ≠ wParts.reverse := ⟨List.reverse_perm _ |>.symm, by decide⟩

end PF.C06
