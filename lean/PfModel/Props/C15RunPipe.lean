import PfModel.Lemmas.HashableRunPipe
import PfModel.Props.C15Keys
/-!
C15, last sentence, for the pipeline cache at the level of a whole history of calls (`PCache.run {} as`: one cached
function of a pipeline called again and again, starting with an empty cache).  `C15_pipeline_cache` speaks about one call
against a cache `c` under the hypothesis `c.Inv`; here the hypothesis is discharged and the stored result is tied to the
earlier real call that computed it.
-/
namespace PF.C15
open PF.Hashable

/-- the invariant assumed by `C15_pipeline_cache` / `C15_pipeline_cache_inv` holds of the empty cache -/
theorem C15_pipeline_inv_empty : PCache.Inv {} := PCache.inv_empty

/-- **The pipeline cache returns a stored result only for a call whose arguments equal those of the call that produced
    it**, for every history of calls from an empty cache: if the `j`-th call is a hit returning `r`, then an earlier call
    `i < j` was a real call that returned `r`, it asked for the same output of a function with the same root arguments,
    and it supplied the same value for every root argument. -/
theorem C15_pipeline_run (as : List (PV × List Name × List (Name × PV))) (j r : Nat)
    (h : (PCache.run {} as)[j]? = some (some (r, true))) :
    ∃ i out roots kw kw0, i < j ∧ as[j]? = some (out, roots, kw) ∧ as[i]? = some (out, roots, kw0) ∧
      (PCache.run {} as)[i]? = some (some (r, false)) ∧
      ∀ x ∈ roots, ∃ v v0, lookupKw x kw = some v ∧ lookupKw x kw0 = some v0 ∧ Equiv v v0 := by
  obtain ⟨q, k, hq, hk, hh⟩ := PCache.run_sound as {} PCache.inv_empty j r h
  rcases hh with ⟨q0, hm⟩ | ⟨i, q0, hij, hi, hk0, hr⟩
  · cases hm
  · obtain ⟨out, roots, kw⟩ := q
    obtain ⟨out0, roots0, kw0⟩ := q0
    obtain ⟨e1, e2, hv⟩ := C15_pipeline_key_sound out out0 roots roots0 kw kw0 k hk hk0
    subst e1; subst e2
    exact ⟨i, out, roots, kw, kw0, hij, hq, hi, hr, hv⟩

/-- non-vacuity: the third call (another keyword order, an extra non-root keyword) hits the first; the look-alike tuple
    in between is computed -/
example : PCache.run {} [(strAtom nmY, [nmX], [(nmX, lst [vOne])]), (strAtom nmY, [nmX], [(nmX, tup [vOne])]),
      (strAtom nmY, [nmX], [(nmY, vTwo), (nmX, lst [vOne])])] =
    [some (0, false), some (1, false), some (0, true)] := by decide

/-- Real calls of a cached pipeline function return fresh results (so "the call that produced it" is unique). -/
theorem C15_pipeline_run_fresh (as : List (PV × List Name × List (Name × PV))) (i i' r r' : Nat) (hlt : i < i')
    (h : (PCache.run {} as)[i]? = some (some (r, false))) (h' : (PCache.run {} as)[i']? = some (some (r', false))) :
    r < r' :=
  PCache.run_miss_lt as {} i i' r r' hlt h h'

example : (PCache.run {} [(strAtom nmY, [nmX], [(nmX, vOne)]), (strAtom nmY, [nmX], [])])[0]? = some (some (0, false)) ∧
    (PCache.run {} [(strAtom nmY, [nmX], [(nmX, vOne)]), (strAtom nmY, [nmX], [])])[1]? = some (some (1, false)) := by decide

theorem C15_pipeline_run_producer_unique (as : List (PV × List Name × List (Name × PV))) (i i' r : Nat)
    (h : (PCache.run {} as)[i]? = some (some (r, false))) (h' : (PCache.run {} as)[i']? = some (some (r, false))) :
    i = i' := by
  rcases Nat.lt_trichotomy i i' with hlt | he | hgt
  · have := PCache.run_miss_lt as {} i i' r r hlt h h'; omega
  · exact he
  · have := PCache.run_miss_lt as {} i' i r r hgt h' h; omega

end PF.C15
